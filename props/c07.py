"""C07 -- the VFS routes every request to the one mount owning the inode, and only to it."""
import os, sys, json, re, random
from vlib import *
from vfs_common import *
import vfs_src

PROP = 'C07'
ENOENT, EINVAL, ENOSYS = 2, 22, 38

# ------------------------------------------------------------------ the property predicate on observations
def target_of(ref, nodeid):
    """who must serve a request naming nodeid, from the caller's point of view"""
    idx, ino = decode(nodeid)
    if idx == 0:
        if nodeid == ROOT_INO and ROOT_INO in ref['mounts']:
            m = ref['mounts'][ROOT_INO]
            if ref['owner'].get(m['idx']) is None: return ('vacant',)
            return ('backend', ref['owner'][m['idx']], m['root'], m['idx'])
        return ('pseudo',)
    if ref['owner'].get(idx) is None: return ('vacant',)
    return ('backend', ref['owner'][idx], ino, idx)

def reply_inodes(st, o):
    """(inode number handed to the client, the backend inode it must stand for or None, what) for an ok reply"""
    out = []
    op = st['op']
    if o['status'] != 'ok': return out
    if op in ('readdir', 'readdirplus'):
        for d, (dino, k, de) in zip(o['dir'], st['ans']['dir']):
            out.append((d['ino'], de['ino'] if op == 'readdirplus' else dino, 'dirent'))
            if op == 'readdirplus':
                out.append((d['entry']['ino'], de['ino'], 'entry.inode')); out.append((d['entry']['stino'], de['ino'], 'entry.attr.st_ino'))
    elif len(o['vals']) == 5:
        out.append((o['vals'][0], st['ans']['ent']['ino'], 'entry.inode')); out.append((o['vals'][1], st['ans']['ent']['ino'], 'entry.attr.st_ino'))
    return out

def predicate(case, i, tb):
    """-> list of (what, sig) violations of C07 at step i (a request)"""
    st, o, ref = case.steps[i], case.obs[i], case.ref_hist[i]
    if st['k'] == 'M' and o['status'] in ('ok', 'err'):
        # index allocation: non-zero, not the index of an attached mount; refused exactly when all 255 are taken
        bad = []
        if o['status'] == 'ok':
            idx = o['vals'][0]
            if idx == 0 or idx > 255: bad.append(('mount returned index %d' % idx, dict(kind='alloc-bad-index')))
            elif idx in ref['owner']: bad.append(('mount returned index %d, which belongs to the attached backend %d' % (idx, ref['owner'][idx]), dict(kind='alloc-in-use')))
            if len(ref['owner']) >= 255: bad.append(('mount succeeded with 255 attached mounts', dict(kind='alloc-overfull')))
        elif o.get('variant') == 5 and len(ref['owner']) < 255:
            bad.append(('mount refused for lack of an index with only %d attached mounts' % len(ref['owner']), dict(kind='alloc-refused')))
        return bad
    if st['k'] != 'R' or o['status'] in ('panic', 'skipped'): return []
    op = st['op']; bad = []
    def v(what, **sig):
        sig.update(op=op); bad.append((what, sig))
    evs = o['events']
    if op in tb.unfwd:
        if evs: v('unforwarded method %s reached a backend' % op, kind='unforwarded-reached')
        return bad
    t1 = target_of(ref, st['ino'])
    two = op in ('rename', 'link')
    t2 = target_of(ref, st['ino2']) if two else None
    if op == 'batch_forget':
        allowed = []
        for x in (st['ino'], st['ino2']):
            t = target_of(ref, x)
            if t[0] == 'backend': allowed.append((t[1], 'forget', t[2], 0))
        for e in evs:
            if (e['bid'], e['m'], e['ino'], e['ino2']) not in allowed: v('batch_forget event %s not owned' % (e,), kind='misrouted')
        return bad
    # 1. routing: events only to the owner, with the backend's own inode numbers
    if t1[0] != 'backend' or (two and t2[0] != 'backend'):
        if evs: v('request on %s/%s inode reached backend(s) %s' % (t1[0], t2[0] if t2 else '-', [e['bid'] for e in evs]), kind='reached-without-owner', t1=t1[0])
    else:
        if two and t1[3] != t2[3]:
            if evs: v('cross-mount %s reached a backend' % op, kind='cross-mount-forwarded')
        for e in evs:
            want_m = ('a:' + op) if st.get('mode') in ('a', 'y') else op      # the trait method of the entry point used
            if e['bid'] != t1[1] or e['ino'] != t1[2] or e['m'] != want_m or (two and e['ino2'] != t2[2]):
                v('event %s, expected backend %d inode %d' % (e, t1[1], t1[2]), kind='misrouted')
        if len(evs) > 1: v('more than one backend call for one request', kind='duplicated')
    # 2. vacant slot: error, nothing reached (forget has no reply)
    if (t1[0] == 'vacant' or (two and t2[0] == 'vacant')) and op != 'forget':
        if o['status'] == 'ok': v('request on a vacant mount slot succeeded', kind='vacant-ok')
    # 3. cross-mount operations are refused
    if two and o['status'] == 'ok':
        k1 = t1[3] if t1[0] == 'backend' else 0
        k2 = t2[3] if t2[0] == 'backend' else 0
        if t1[0] != 'vacant' and t2[0] != 'vacant' and k1 != k2: v('%s across two mounts succeeded' % op, kind='cross-mount-ok')
    # 4. every inode number in the reply identifies the serving backend and that backend's inode
    for x, want, what in reply_inodes(st, o):
        if x == 0: continue
        idx, ino = decode(x)
        if t1[0] == 'backend':
            tidx = t2[3] if op == 'link' else t1[3]
            if want == 0:
                v('%s: backend answered inode 0 but the client got %d' % (what, x), kind='bad-issued', field=what)
            elif idx != tidx or ino != want or x >> 64:
                v('%s = %#x does not decode to (mount index %d, backend inode %d)' % (what, x, tidx, want), kind='bad-issued', field=what)
        elif t1[0] == 'pseudo':
            if idx != 0:
                # crossing: must be the root of a mount that is currently attached
                ok = any(m['idx'] == idx and m['root'] == ino and ref['owner'].get(idx) == m['bid'] for m in ref['mounts'].values())
                if not ok: v('%s = %#x handed out by a pseudo directory is not the root of an attached mount' % (what, x), kind='bad-crossing', field=what)
    # 6. codec: a backend inode number is refused exactly when it is above VFS_MAX_INO
    if t1[0] == 'backend' and (not two or (t2[0] == 'backend' and t1[3] == t2[3])) and evs and st['ans']['err'] == 0:
        nums = None
        if op in ('lookup', 'link') or op in tb.entry_ops: nums = [st['ans']['ent']['ino']]
        elif op == 'readdir': nums = [d[0] for d in st['ans']['dir'][:st['limit'] + 1]]
        elif op == 'readdirplus': nums = [d[2]['ino'] for d in st['ans']['dir'][:st['limit'] + 1]]
        if nums is not None:
            toobig = any(n > MAX_INO for n in nums)
            if o['status'] == 'err' and not toobig:
                v('%s failed (%s) although every inode number the backend answered (%s) is within VFS_MAX_INO' % (op, o['raw'][:40], nums[:4]), kind='refused-valid-ino')
            if o['status'] == 'ok' and toobig and op not in ('readdir', 'readdirplus'):
                v('%s succeeded although the backend answered inode %s > VFS_MAX_INO' % (op, nums[:4]), kind='accepted-big-ino')
    # 5. getattr: st_ino names the inode that was asked for
    if op in ('getattr', 'setattr') and o['status'] == 'ok' and t1[0] == 'backend':
        want = (t1[3] << 56) | t1[2]
        if o['vals'][0] != want: v('%s st_ino %#x, expected %#x' % (op, o['vals'][0], want), kind='bad-st_ino')
    return bad

# ------------------------------------------------------------------ probes: crossing and inode-number consistency
def probe_mount_paths(g, case, findings):
    """walk to every attached mount with lookups from the root; compare the number a name gets in lookup, readdir,
    readdirplus and getattr"""
    live = sorted(case.mounts.values(), key=lambda m: m['idx'])
    cps = dict((m['cpath'], m) for m in live)
    for m in live:
        if case.dead: return
        cp = m['cpath']
        if cp == () or m.get('nested'): continue      # see notes/C07.md: mounts below a mount point are unsupported by the Vfs
        cur = ROOT_INO; ok = True
        for k, comp in enumerate(cp):
            st, o = g.request('lookup', cur, name=name_of_key(comp))
            last = k == len(cp) - 1
            if o['status'] != 'ok':
                findings.append(mkf(case, 'walking to mount path %s: lookup of component %d failed: %s' % (m['path']['s'], k, o['raw']), kind='crossing-walk-failed')); ok = False; break
            x = o['vals'][0]
            if not last:
                if decode(x)[0] != 0:
                    findings.append(mkf(case, 'walking to %s: proper prefix resolved into mount index %d' % (m['path']['s'], decode(x)[0]), kind='crossing-early')); ok = False; break
                cur = x
            else:
                want = (m['idx'] << 56) | m['root']
                if m['root'] != 0 and x != want:
                    findings.append(mkf(case, 'lookup at mount path %s returned %#x, expected the mounted root %#x' % (m['path']['s'], x, want), kind='crossing-wrong'))
                    ok = False
        if not ok or m['root'] == 0: continue
        want = (m['idx'] << 56) | m['root']
        for op in ('readdir', 'readdirplus'):
            st, o = g.request(op, cur, size=4096, offset=0, limit=100)
            if o['status'] != 'ok':
                findings.append(mkf(case, '%s of the pseudo parent of %s failed' % (op, m['path']['s']), kind='consistency')); continue
            hit = [d for d in o['dir'] if d['name'] == cp[-1]]
            if len(hit) != 1 or hit[0]['ino'] != want:
                findings.append(mkf(case, '%s lists %s with inode %s, lookup says %#x' % (op, m['path']['s'], [hex(d['ino']) for d in hit], want), kind='consistency', op=op))
            elif op == 'readdirplus' and (hit[0]['entry']['ino'] != want or hit[0]['entry']['stino'] != want):
                findings.append(mkf(case, 'readdirplus entry of %s has inode %#x / st_ino %#x, lookup says %#x' % (m['path']['s'], hit[0]['entry']['ino'], hit[0]['entry']['stino'], want), kind='consistency', op=op))
        st, o = g.request('getattr', want, ans=mk_ans(attr={'ino': m['root'], 'uid': 0, 'gid': 0, 'tag': 5}))
        if o['status'] != 'ok' or o['vals'][0] != want:
            findings.append(mkf(case, 'getattr of mount root %s: %s, expected st_ino %#x' % (m['path']['s'], o['raw'], want), kind='consistency', op='getattr'))

def probe_backend_names(g, case, findings, n=2):
    """a backend that numbers its entries consistently: the same name gets the same number in lookup, readdir,
    readdirplus and getattr"""
    live = sorted(case.mounts.values(), key=lambda m: m['idx'])
    for m in live[:n]:
        if case.dead or m['root'] == 0: return
        d = (m['idx'] << 56) | m['root']
        y = g.rng.randrange(2, 5000); k = g.rng.randrange(1, 40)
        e = {'ino': y, 'stino': y, 'uid': 0, 'gid': 0, 'tag': 3}
        st, o = g.request('lookup', d, name=('norm', k), ans=mk_ans(ent=e))
        if o['status'] != 'ok': continue
        x = o['vals'][0]
        for op in ('readdir', 'readdirplus'):
            st, o2 = g.request(op, d, size=4096, offset=0, limit=10, ans=mk_ans(dir=[(y, k, e)]))
            if o2['status'] == 'ok' and (len(o2['dir']) != 1 or o2['dir'][0]['ino'] != x):
                findings.append(mkf(case, '%s gives name n%d inode %s, lookup gave %#x' % (op, k, [hex(q['ino']) for q in o2['dir']], x), kind='consistency', op=op))
        # a backend whose dirent.ino differs from entry.inode: readdir follows the dirent, readdirplus the entry
        e2 = {'ino': y + 1, 'stino': y + 1, 'uid': 0, 'gid': 0, 'tag': 4}
        for op in ('readdir', 'readdirplus'):
            g.request(op, d, size=4096, offset=0, limit=10, ans=mk_ans(dir=[(y + 7, k, e2), (y + 9, k + 1, e)]))
        st, o3 = g.request('getattr', x, ans=mk_ans(attr={'ino': y, 'uid': 0, 'gid': 0, 'tag': 1}))
        if o3['status'] == 'ok' and o3['vals'][0] != x:
            findings.append(mkf(case, 'getattr st_ino %#x, lookup gave %#x' % (o3['vals'][0], x), kind='consistency', op='getattr'))

def mkf(case, what, **sig):
    return {'what': what, 'sig': sig, 'input': case.replay_obj()}

# ------------------------------------------------------------------ scenarios
def new_case(sess, rng, tb, **over):
    cfg = {'gmap': None, 'rm': int(rng.random() < 0.5), 'no_open': int(rng.random() < 0.5), 'no_opendir': int(rng.random() < 0.5),
           'no_writeback': int(rng.random() < 0.3), 'killpriv_v2': int(rng.random() < 0.3), 'no_readdir': int(rng.random() < 0.2), 'seal_size': int(rng.random() < 0.2)}
    cfg.update(over)
    return Case(sess, cfg, tb)

def sc_random(sess, rng, tb, findings, nsteps):
    c = new_case(sess, rng, tb); g = HistoryGen(c, rng)
    for _ in range(nsteps):
        if c.dead: break
        g.random_step()
    if not c.dead: probe_mount_paths(g, c, findings)
    if not c.dead: probe_backend_names(g, c, findings)
    return c

def sc_wrap(sess, rng, tb, findings, cycles):
    """more than 255 mounts: the index counter wraps, indices of attached mounts are skipped"""
    c = new_case(sess, rng, tb); g = HistoryGen(c, rng)
    keep = rng.randrange(0, 4)
    for j in range(keep): g.mount(path=mk_path(rng, [('N', 100 + j)]), ans=okmount(rng))
    stale = []
    for j in range(cycles):
        if c.dead: break
        p = mk_path(rng, [('N', rng.randrange(1, 4))], noise=False)
        st, o = g.mount(path=p, ans=okmount(rng))
        if o['status'] == 'ok':
            x = (o['vals'][0] << 56) | 1
            if rng.random() < 0.15: g.request(rng.choice(['lookup', 'getattr', 'open', 'readdir']), x)
            if rng.random() < 0.85: g.umount(p)
            if rng.random() < 0.10:
                stale.append(x)
        if stale and rng.random() < 0.1: g.request(rng.choice(['lookup', 'getattr', 'forget', 'unlink']), rng.choice(stale))
    if not c.dead: probe_mount_paths(g, c, findings)
    return c

def okmount(rng, ino=1):
    return {'err': 0, 'ino': ino, 'uid': 0, 'gid': 0, 'tag': rng.randrange(1, 1000), 'max': 1000, 'init_err': 0}

def sc_exhaust(sess, rng, tb, findings):
    """255 attached mounts: the next mount is refused; after one umount exactly that index is reused"""
    c = new_case(sess, rng, tb, rm=0); g = HistoryGen(c, rng)
    pre = rng.randrange(0, 300)
    for j in range(pre):                                   # move the counter to an arbitrary position first
        if j % 2 == 0: g.mount(path=mk_path(rng, [('N', 1)], noise=False), ans=okmount(rng))
    if c.mounts: g.umount(mk_path(rng, [('N', 1)], noise=False))
    for j in range(255): g.mount(path=mk_path(rng, [('N', 1000 + j)], noise=False), ans=okmount(rng))
    g.mount(path=mk_path(rng, [('N', 5000)], noise=False), ans=okmount(rng))
    g.mount(path=mk_path(rng, [('N', 5001)], noise=False), ans=okmount(rng))
    victim = rng.randrange(0, 255)
    g.umount(mk_path(rng, [('N', 1000 + victim)], noise=False))
    g.mount(path=mk_path(rng, [('N', 5002)], noise=False), ans=okmount(rng))
    g.mount(path=mk_path(rng, [('N', 5003)], noise=False), ans=okmount(rng))
    for _ in range(10): g.request()
    return c

def sc_rootmount(sess, rng, tb, findings, nsteps):
    c = new_case(sess, rng, tb); g = HistoryGen(c, rng)
    if rng.random() < 0.5: g.mount(path=mk_path(rng, [('N', 1)]), ans=okmount(rng))
    st, o = g.mount(path=mk_path(rng, [], noise=False), ans=okmount(rng, rng.choice([1, 7])))
    if o['status'] == 'ok' and not os.environ.get('VFS_NO_DET'):
        # deterministic block: two-inode operations between nodeid 1 (which stands for the root mount, raw index 0), an
        # inode of the same backend named by its full number, and a pseudo directory
        sub = (o['vals'][0] << 56) | 5
        for op in ('rename', 'link'):
            for a_, b_ in ((ROOT_INO, sub), (sub, ROOT_INO), (ROOT_INO, 2), (2, ROOT_INO), (ROOT_INO, ROOT_INO), (sub, 2)):
                g.request(op, a_, ino2=b_, name=('norm', 1), name2=('norm', 2), ans=mk_ans(ent={'ino': 9, 'stino': 9, 'uid': 0, 'gid': 0, 'tag': 1}))
    for _ in range(nsteps):
        if c.dead: break
        if rng.random() < 0.5: g.request(nodeid=ROOT_INO)
        else: g.random_step()
    if not c.dead: probe_mount_paths(g, c, findings)
    return c

def sc_overmount(sess, rng, tb, findings, nsteps):
    c = new_case(sess, rng, tb); g = HistoryGen(c, rng)
    paths = [mk_path(rng, [('N', 1)]), mk_path(rng, [('N', 1), ('N', 2)]), mk_path(rng, [('N', 3)])]
    for _ in range(nsteps):
        if c.dead: break
        r = rng.random()
        if r < 0.35: g.mount(path=rng.choice(paths), ans=okmount(rng, rng.choice([1, 1, 5])))
        elif r < 0.45: g.umount(rng.choice(paths))
        else: g.request()
    if not c.dead: probe_mount_paths(g, c, findings)
    if not c.dead: probe_backend_names(g, c, findings)
    if not c.dead and rng.random() < 0.3:
        # `offset + 1` in PseudoFs::do_readdir overflows (debug build: panic); ends the history, model and code must agree
        g.request('readdir', rng.choice([ROOT_INO, 2]), size=4096, offset=TWO64 - 1, limit=10, ans=mk_ans())
    return c

def sc_refused_umount(sess, rng, tb, findings, rm):
    """umount of paths that are not mount points (an ancestor of a mount, a sibling, a missing path) is refused and must
    leave the namespace alone -- with and without remove_pseudo_root; every mount is still reached by walking"""
    c = new_case(sess, rng, tb, rm=rm); g = HistoryGen(c, rng)
    g.mount(path=mk_path(rng, [('N', 1), ('N', 2), ('N', 3)], noise=False), ans=okmount(rng))
    g.mount(path=mk_path(rng, [('N', 1), ('N', 4)], noise=False), ans=okmount(rng))
    g.mount(path=mk_path(rng, [('N', 5)], noise=False), ans=okmount(rng))
    for comps in ([('N', 1)], [('N', 1), ('N', 2)], [('N', 6)], [('N', 1), ('N', 2), ('N', 7)], []):
        g.umount(mk_path(rng, comps, noise=False))
        if not c.dead: probe_mount_paths(g, c, findings)
    g.umount(mk_path(rng, [('N', 1), ('N', 4)], noise=False))          # a real umount, then the refused ones again
    for comps in ([('N', 1)], [('N', 1), ('N', 4)], [('N', 1), ('N', 2)]):
        g.umount(mk_path(rng, comps, noise=False))
        if not c.dead: probe_mount_paths(g, c, findings)
    st, o = g.mount(path=mk_path(rng, [('N', 1), ('N', 2), ('N', 8)], noise=False), ans=okmount(rng))   # reuses the kept directories
    if not c.dead: probe_mount_paths(g, c, findings)
    return c

ODD_VARIANTS = [(k, i) for i in (1, 10, 100, 1000) for k in ('norm', 'up', 'hid', 'hid2')] + [('dots',), ('empty',), ('norm', 0), ('norm', 2), ('up', 2)]
def sc_names(sess, rng, tb, findings):
    """names that differ from a mount path component, from "." and from ".." only by case, by a prefix or by a suffix (n1 / n10 /
    n100 / N1 / .n1 / ..n1 / ... / the empty name): mount paths made of them are distinct directories; a lookup crosses into a
    mount exactly under the mount's own name; every other variant is ENOENT; such names are forwarded to backends like any other"""
    c = new_case(sess, rng, tb, rm=0, no_open=0, no_opendir=0); g = HistoryGen(c, rng)
    paths = [[('N', 1)], [('N', 10)], [('N', 100), ('N', 1)], [('U', 1)], [('H', 1)], [('H2', 1), ('N', 2)], [('D3',), ('N', 1)], [('N', 100), ('U', 10)]]
    seen = {}
    for j, comps in enumerate(paths):
        if c.dead: return c
        st, o = g.mount(path=mk_path(rng, comps, noise=False), map=None, ans=okmount(rng, 3 + 2 * j))
        if o['status'] != 'ok': continue
        cp = canon(comps)
        for cp2, pino2 in seen.items():
            if cp2 != cp and pino2 == o['pino']:
                findings.append(mkf(c, 'mount path %s got the pseudo directory %d of the different path %s' % (st['path']['s'], o['pino'], '/'.join(name_tok(name_of_key(k)) for k in cp2)), kind='mount-path-confused'))
        seen[cp] = o['pino']
    if not c.dead: probe_mount_paths(g, c, findings)
    # the namespace the caller created: every prefix of a mount path is a directory
    dirs = {(): ROOT_INO}; children = {}
    for cp in sorted(seen, key=len):
        for n in range(1, len(cp) + 1): children.setdefault(cp[:n - 1], set()).add(cp[n - 1])
    for d in sorted(children, key=len):
        if c.dead: return c
        if d not in dirs: continue
        for k in sorted(children[d]):
            st, o = g.request('lookup', dirs[d], name=name_of_key(k))
            if o['status'] == 'ok' and decode(o['vals'][0])[0] == 0: dirs[d + (k,)] = o['vals'][0]
    for d in sorted(dirs, key=len):
        for nm in ODD_VARIANTS + [('dot',), ('dotdot',)]:
            if c.dead: return c
            key = odd_key(nm) if nm[0] in ODD_NAMES else (nm[1] if nm[0] == 'norm' else None)
            st, o = g.request('lookup', dirs[d], name=nm)
            if key is not None and key not in children.get(d, ()) and o['status'] == 'ok':
                findings.append(mkf(c, 'lookup of "%s" in pseudo directory /%s succeeded (inode %#x) although no directory or mount of that name exists there' % (
                    '' if nm[0] == 'empty' else name_tok(nm), '/'.join(name_tok(name_of_key(k)) for k in d), o['vals'][0]), kind='name-confused'))
    # the same names as arguments of every forwarded method on a backend inode: delivered, not refused by the Vfs
    m0 = [m for m in c.mounts.values()][:1]
    for m in m0:
        x = (m['idx'] << 56) | m['root']
        for nm in [('up', 1), ('hid', 1), ('hid2', 1), ('dots',), ('empty',), ('norm', 10)]:
            for op in ['lookup'] + [o_ for o_ in tb.fwd if o_ in tb.validating] + ['rename', 'link']:
                if c.dead: return c
                e = {'ino': 21, 'stino': 21, 'uid': 0, 'gid': 0, 'tag': 4}
                st, o = g.request(op, x, ino2=x, name=nm, name2=nm, mode='s', ans=mk_ans(ent=e, tag=3))
                if not o['events']:
                    findings.append(mkf(c, '%s with the ordinary name "%s" on an inode of backend %d was not delivered: %s' % (op, '' if nm[0] == 'empty' else name_tok(nm), m['bid'], o['raw'][:60]), kind='name-refused', op=op))
        # the link target of SYMLINK is data, not a path component: "..", "." and targets with slashes are delivered
        for nm2 in [('dotdot',), ('dot',), ('slash', 1), ('hid2', 1), ('empty',)]:
            if c.dead: return c
            st, o = g.request('symlink', x, name=('norm', 3), name2=nm2, mode='s', ans=mk_ans(ent={'ino': 22, 'stino': 22, 'uid': 0, 'gid': 0, 'tag': 4}))
            if not o['events']:
                findings.append(mkf(c, 'symlink n3 -> "%s" on an inode of backend %d was not delivered: %s' % ('' if nm2[0] == 'empty' else name_tok(nm2), m['bid'], o['raw'][:60]), kind='name-refused', op='symlink-target'))
    return c

def async_block(g, tb, targets, ids=(0, 0)):
    """each of the ten async operations (ready and pending-once futures) on each target inode"""
    for x in targets:
        for op in tb.async_ops:
            for mode in ('a', 'y'):
                if g.c.dead: return
                e = {'ino': 21, 'stino': 21, 'uid': ids[0], 'gid': ids[1], 'tag': 4}
                g.request(op, x, mode=mode, name=('norm', 3), uid=ids[0], gid=ids[1], auid=ids[1], agid=ids[0], size=FATTR_UID | FATTR_GID if op == 'setattr' else 4096,
                          offset=0, ans=mk_ans(ent=e, attr={'ino': 9, 'uid': ids[0], 'gid': ids[1], 'tag': 2}, tag=7))

def sc_async(sess, rng, tb, findings):
    """async entry points on: a pseudo inode, the root, a mount root, another backend inode, a vacant slot, an inode of an
    unmounted file system, nodeid 1 of a root mount"""
    c = new_case(sess, rng, tb, no_open=int(rng.random() < 0.5)); g = HistoryGen(c, rng)
    st1, o1 = g.mount(path=mk_path(rng, [('N', 1), ('N', 2)], noise=False), ans=okmount(rng))
    st2, o2 = g.mount(path=mk_path(rng, [('N', 3)], noise=False), ans=okmount(rng))
    g.umount(mk_path(rng, [('N', 3)], noise=False))
    targets = [ROOT_INO, 2, 9, (1 << 56) | 1, (1 << 56) | 77, (2 << 56) | 1, (40 << 56) | 5]
    async_block(g, tb, targets)
    if not c.dead:
        g.mount(path=mk_path(rng, [], noise=False), ans=okmount(rng, 7))
        async_block(g, tb, [ROOT_INO, 2])
    return c

def gen_cases(sess, rng, tb, tier, findings):
    cases = []
    if not os.environ.get('VFS_NO_ASYNC'): cases.append(sc_async(sess, rng, tb, findings))
    if not os.environ.get('VFS_NO_DET'):
        cases.append(sc_refused_umount(sess, rng, tb, findings, 1)); cases.append(sc_refused_umount(sess, rng, tb, findings, 0))
        if not os.environ.get('VFS_AUDIT6_OFF'): cases.append(sc_names(sess, rng, tb, findings))
    q = tier == 'quick'
    for _ in range(40 if q else 300): cases.append(sc_random(sess, rng, tb, findings, rng.randrange(10, 60)))
    for _ in range(2 if q else 12): cases.append(sc_wrap(sess, rng, tb, findings, rng.choice([270, 300, 520])))
    for _ in range(1 if q else 6): cases.append(sc_exhaust(sess, rng, tb, findings))
    for _ in range(10 if q else 60): cases.append(sc_rootmount(sess, rng, tb, findings, rng.randrange(10, 40)))
    for _ in range(10 if q else 60): cases.append(sc_overmount(sess, rng, tb, findings, rng.randrange(15, 60)))
    for c in cases: c.finish()
    return cases

# ------------------------------------------------------------------ the check
def shape_of(st, o, ref):
    if st['k'] != 'R': return (st['k'], o['status'], o.get('variant'))
    return ('R', st['op'], target_of(ref, st['ino'])[0], o['status'], o.get('errno'))

def run_check(tier, seed):
    ev = Evidence(PROP, tier, seed)
    ev.cov['checker_cmd'] = 'make -C coq Props/C07.vo (coqc 8.16.1, full .vo) + Print Assumptions audit; coqc Cases/c07_*.v (vm_compute of run_hist on recorded histories)'
    ev.cov['trusted_base'] = TRUSTED_COMMON + [
        'hand model coq/Model/{Pseudo,Vfs,VfsRun}.v of src/api/pseudo_fs.rs, src/api/vfs/{mod,sync_io}.rs: tied to the code on every run by replaying every recorded history (mount/umount/init/requests, observations = results + per-request backend call logs) in Coq and comparing',
        'props/vfs_src.py (which FileSystem methods Vfs forwards and how, which names they validate, trait defaults) -> coq/Gen/VfsTable.v; every table row is exercised by the harness on every run',
        'harness/src/bin/vfs.rs scripted backends (log every call; readdir offers its scripted entries one by one and propagates the callback error); std::path::Path::components normalisation of mount paths ("." and "//" dropped) as mirrored in props/vfs_common.py mk_path',
        'the caller-side reference state (which backend was mounted with which returned index at which mount point) in props/vfs_common.py Case.track',
    ]
    ev.assumptions = ['fewer than 2^56 pseudo directories are ever created (inode counter of the pseudo fs does not reach VFS_MAX_INO)',
                      'single-threaded histories: mount/umount/requests are not concurrent (all VFS bookkeeping is swapped atomically; concurrency is out of scope of C07)',
                      'debug build arithmetic (overflow panics)']
    findings, broken = [], []
    tb = None
    try:
        t = vfs_src.generate(REPO, COQ, write_if_changed); tb = Tables(t)
        for e_ in t.get('errors', []): broken.append({'kind': 'translator', 'item': 'props/vfs_src.py', 'error': e_})
        ev.cov['translator_assumed_shapes'] = [m['name'] + ': ' + m['vfs']['shape'] for m in t['methods'] if m['vfs'] and str(m['vfs'].get('shape', '')).startswith('assumed')]
    except vfs_src.TranslateError as ex:
        broken.append({'kind': 'translator', 'item': 'props/vfs_src.py', 'error': str(ex)})
    import pure_tie; pure_tie.prepare(PROP, ev, broken)      # Gen/RustPure.v from the function bodies in REPO (PROP_src_* theorems)
    audit = std_audit(ev, PROP, broken)
    pure_tie.after_audit(PROP, broken)                         # a source tie broke: look for a concrete differing input
    okm, outm = coq_make(['Model/VfsRun.vo'])          # the executable history runner used by the tie
    if not okm:
        es = coq_error_site(outm)
        broken.append({'kind': 'proof', 'theorem_or_lemma': es[2] if es else None, 'site': list(es[:2]) if es else None, 'message': es[3] if es else outm[-1500:]})
    ok, out, bindir = cargo_build(['vfs'], features=['persist', 'async-io'])     # same feature set as C19: the three checks share the binary
    if not ok:
        broken.append({'kind': 'harness-build', 'log': out[-3000:]})
        return finish(ev, PROP, findings, broken)
    if tb is None:
        return finish(ev, PROP, findings, broken)
    rng = random.Random(seed)
    sess = Session(bindir)
    rounds = 1
    cases = gen_cases(sess, rng, tb, tier, findings)
    def evaluate(cases):
        n = 0
        for c in cases:
            for i in range(len(c.steps)):
                for what, sig in predicate(c, i, tb):
                    findings.append({'what': what, 'sig': sig, 'step': step_tok(c.steps[i]), 'observed': c.obs[i]['raw'], 'input': c.replay_obj(i)})
                n += 1
        return n
    evals = evaluate(cases)
    dis = []
    if audit['ok'] and okm:
        dis = check_model('c07', cases, ev, broken, shard=6)
    if (dis or broken) and not findings:
        # a proof or the tie broke: search harder for a concrete failing input before giving up
        more = gen_cases(sess, random.Random(seed + 1), tb, 'thorough', findings)
        evals += evaluate(more); cases += more; rounds = 2
    sess.close()
    for c, si in dis[:3]:
        broken.append(describe_disagreement('Model/VfsRun.v run_hist vs harness vfs', c, si))
    shapes = set()
    for c in cases:
        for st, o, ref in zip(c.steps, c.obs, c.ref_hist): shapes.add(shape_of(st, o, ref))
    ev.cov['evaluations'] = evals
    ev.cov['histories'] = len(cases)
    ev.cov['distinct_nontrivial'] = len([s for s in shapes if s[-2] == 'ok' or s[1] == 'ok'])
    ev.cov['rule'] = ('evaluations = steps of recorded histories on which the routing predicate was evaluated; distinct_nontrivial = distinct '
                      '(step kind | method, kind of inode named: pseudo/backend/vacant, outcome) shapes that ended in success; '
                      'histories include %d-mount wrap-around cycles, index exhaustion (255 attached mounts), root mounts, over-mounts, nested mounts; search rounds %d' % (520, rounds))
    ev.cov['samples'] = [{'step': step_tok(c.steps[i]), 'observed': c.obs[i]['raw']} for c in cases[:3] for i in range(min(2, len(c.steps)))]
    ev.cov['max_history_len'] = max(len(c.steps) for c in cases)
    # dedupe findings by signature for the report
    seen = {}; uniq = []
    for f in findings:
        k = json.dumps(f.get('sig'), sort_keys=True)
        if k in seen: seen[k] += 1; continue
        seen[k] = 1; uniq.append(f)
    for f in uniq: f['count'] = seen[json.dumps(f.get('sig'), sort_keys=True)]
    return finish(ev, PROP, uniq, broken)


def replay(path):
    return replay_generic(PROP, path)
