"""Translator for the VFS checks (C07/C14/C19): reads
  src/api/filesystem/sync_io.rs  (trait FileSystem: method list + default results),
  src/api/vfs/sync_io.rs         (impl FileSystem for Vfs: which methods are forwarded and how),
  src/api/pseudo_fs.rs           (impl FileSystem for PseudoFs: which methods the pseudo fs overrides),
  src/api/server/{mod,sync_io}.rs (the request context is remapped by header nodeid before dispatch)
and generates coq/Gen/VfsTable.v.  Line/brace level parsing; a body it cannot classify is an error
(TranslateError), never ignored."""
import os, re

class TranslateError(Exception):
    pass

# methods whose Vfs implementation is modelled by hand in Model/Vfs.v (body shape not table driven)
HAND = ['init', 'destroy', 'lookup', 'forget', 'getattr', 'setattr', 'rename', 'link', 'readdir', 'readdirplus',
        'id_remap', 'id_remap_with_nodeid']
# trait methods without an inode argument / not requests
NOT_REQUESTS = ['init', 'destroy', 'id_remap', 'id_remap_with_nodeid']

def strip_comments(s):
    s = re.sub(r'//[^\n]*', '', s)
    s = re.sub(r'/\*.*?\*/', '', s, flags=re.S)
    return s

def block_at(s, i):
    """s[i] == '{' -> index just after the matching '}'"""
    d = 0
    for j in range(i, len(s)):
        if s[j] == '{': d += 1
        elif s[j] == '}':
            d -= 1
            if d == 0: return j + 1
    raise TranslateError('unbalanced braces')

def find_block(s, header_re):
    m = re.search(header_re, s)
    if not m: raise TranslateError('cannot find %s' % header_re)
    i = s.index('{', m.end() - 1)
    return s[i:block_at(s, i)]

def methods_of(block):
    """top-level fn items of an impl/trait block -> [(name, params, body, cfg)]"""
    out = []; inner = block[1:-1]; d = 0; i = 0
    while i < len(inner):
        c = inner[i]
        if c == '{': d += 1
        elif c == '}': d -= 1
        elif d == 0 and inner.startswith('fn ', i) and (i == 0 or not (inner[i - 1].isalnum() or inner[i - 1] == '_')):
            m = re.match(r'fn\s+(\w+)\s*(<[^>]*>)?\s*\(', inner[i:])
            if m:
                j = i + m.end(); pd = 1
                while pd:
                    if inner[j] == '(': pd += 1
                    elif inner[j] == ')': pd -= 1
                    j += 1
                params = inner[i + m.end():j - 1]
                k = j
                while inner[k] not in '{;': k += 1
                if inner[k] == ';':
                    body = None; e = k + 1
                else:
                    e = block_at(inner, k); body = inner[k:e]
                pre = inner[max(0, i - 200):i]
                cfgs = re.findall(r'#\[cfg\(([^\]]*)\)\]\s*(?:#\[[^\]]*\]\s*)*$', pre)
                ret = ''.join(inner[j:k].split())
                out.append((m.group(1), ' '.join(params.split()), body, cfgs[0] if cfgs else None, ret))
                i = e; continue
        i += 1
    return out

def norm(s):
    return re.sub(r'\s+', '', s)

def default_result(name, body):
    """trait default body -> 'ok' | errno name"""
    b = norm(body)
    m = re.fullmatch(r'\{Err\(io::Error::from_raw_os_error\(libc::(\w+)\)\)\}', b)
    if m: return m.group(1)
    if b.startswith('{Ok(') or re.search(r'Ok\(\w+\)\}$', b) or b == '{}': return 'ok'
    if name in ('batch_forget', 'id_remap_with_nodeid'): return 'ok'
    raise TranslateError('trait default of %s not understood: %s' % (name, b[:120]))

ERRNO = {'ENOSYS': 38, 'ENOTTY': 25, 'EINVAL': 22, 'ENOENT': 2}

# ---- structural reading of a method body (names of locals / closure parameters, formatting, early-return vs if/else,
# hoisted `let x = idata.ino();`, `?` vs and_then spellings do not matter; what is read is: which names are validated, which
# option gates the method, which parameter is routed on, which backend method both arms call with which arguments, and whether
# the backend arm converts a returned entry)
def split_top(s, sep=','):
    """split at top-level separators (outside (), [], {}, <> is not tracked: closures |a, b| are protected)"""
    out = []; d = 0; cur = ''; bar = False; i = 0
    while i < len(s):
        c = s[i]
        if c in '([{': d += 1
        elif c in ')]}': d -= 1
        elif c == '|' and not s.startswith('||', i) and (i == 0 or s[i - 1] != '|'):
            bar = not bar if (bar or re.match(r'\|[\w\s,()&_:]*\|', s[i:])) else bar
        if c == sep and d == 0 and not bar:
            out.append(cur); cur = ''
        else: cur += c
        i += 1
    if cur: out.append(cur)
    return out

def match_arms(b, start):
    """b[start] == '{' of a match: -> ([(pattern, body)], index after the closing brace); text is whitespace-free"""
    end = block_at(b, start); inner = b[start + 1:end - 1]; arms = []; i = 0
    while i < len(inner):
        j = inner.find('=>', i)
        if j < 0: break
        pat = inner[i:j]; k = j + 2
        if k < len(inner) and inner[k] == '{':
            e = block_at(inner, k); body = inner[k:e]; k = e
            if k < len(inner) and inner[k] == ',': k += 1
        else:
            d = 0; e = k; bar = False
            while e < len(inner):
                c = inner[e]
                if c in '([{': d += 1
                elif c in ')]}': d -= 1
                elif c == ',' and d == 0:
                    # a comma inside a closure parameter list |a, b| is at depth 0 only between two bars
                    seg = inner[k:e]
                    if seg.count('|') % 2 == 0: break
                e += 1
            body = inner[k:e]; k = e + 1
        arms.append((pat, body)); i = k
    return arms, end

def unbrace(x):
    return x[1:-1] if x.startswith('{') and x.endswith('}') and block_at(x, 0) == len(x) else x

def inline_lets(body):
    """`let [mut] v = <expr without side effects on routing>;` hoisted before the final expression: substitute"""
    while True:
        m = re.match(r'let(?:mut)?(\w+)=((?:\w+\.)*\w+\(\)|\w+);', body)
        if not m: return body
        v, e = m.group(1), m.group(2)
        body = re.sub(r'(?<![\w.])%s(?![\w(])' % re.escape(v), e, body[m.end():])

def read_call(expr, fsvar):
    """expr starts with <fsvar>.<method>(args)... -> (method, [args], rest-of-chain) or None"""
    m = re.match(r'%s\.(\w+)\(' % re.escape(fsvar), expr)
    if not m: return None
    i = m.end() - 1; d = 0
    for j in range(i, len(expr)):
        if expr[j] == '(': d += 1
        elif expr[j] == ')':
            d -= 1
            if d == 0: return m.group(1), [a for a in split_top(expr[i + 1:j]) if a != ''], expr[j + 1:]
    return None

def returns_entry(ret):
    return bool(re.match(r'->(?:io::)?Result<\(?Entry\b', ret or ''))

def classify_vfs_method(name, params, body, ret=''):
    """-> dict(cls=plain|entry|hand, validate=[names validated], gate=None|no_open|no_opendir, names=[CStr params], shape=read|assumed:<why>)"""
    b = norm(body)[1:-1]
    # what is validated / gated: by presence, wherever and however it is spelled
    validate = re.findall(r'validate_path_component\((\w+)\)', b)
    gates = set(re.findall(r'if[\w.()]*\.(no_open|no_opendir)\{', b))
    gate = sorted(gates)[0] if gates else None
    if name in HAND:
        return {'cls': 'hand', 'validate': validate, 'gate': gate}
    if len(gates) > 1: raise TranslateError('Vfs::%s consults more than one option gate: %s' % (name, sorted(gates)))
    names = re.findall(r'(\w+):\s*&CStr', params)
    pm = re.findall(r'(\w+):\s*(?:Self::Inode|VfsInode)', params)
    if len(pm) != 1: raise TranslateError('Vfs::%s: a table-driven method must have exactly one inode parameter, has %s' % (name, pm))
    assumed = {'cls': 'entry' if returns_entry(ret) else 'plain', 'validate': validate, 'gate': gate, 'names': names}
    def fallback(why):
        # the shape cannot be read: keep what the signature implies (a method returning an Entry converts it, any other is
        # forwarded unchanged) and let the replay of histories, which runs every method on every kind of inode, decide
        d = dict(assumed); d['shape'] = 'assumed: ' + why; return d
    m = re.search(r'matchself\.get_real_rootfs\((\w+)\)\?\{', b)
    if not m: return fallback('no `match self.get_real_rootfs(..)?`')
    if m.group(1) != pm[0]: raise TranslateError('Vfs::%s routes on `%s`, its inode parameter is `%s`' % (name, m.group(1), pm[0]))
    arms, _ = match_arms(b, m.end() - 1)
    sides = {}
    for pat, ab in arms:
        pmn = re.fullmatch(r'\((Left|Right)\((\w+)\),(\w+)\)', pat)
        if not pmn: return fallback('arm pattern %s' % pat)
        side, fsv, idv = pmn.groups()
        ab = inline_lets(unbrace(ab))
        # alpha-rename the binders of the arm
        ab = re.sub(r'(?<![\w.])%s(?=\.)' % re.escape(fsv), 'fs', ab)
        ab = re.sub(r'(?<![\w.])%s(?![\w(])' % re.escape(idv), 'idata', ab)
        sides[side] = ab
    if set(sides) != {'Left', 'Right'}: return fallback('arms %s' % sorted(sides))
    cl, cr = read_call(sides['Left'], 'fs'), read_call(sides['Right'], 'fs')
    if not cl or not cr: return fallback('an arm does not start with a call on the file system')
    if cl[0] != name or cr[0] != name:
        raise TranslateError('Vfs::%s forwards to fs.%s / fs.%s' % (name, cl[0], cr[0]))
    if cl[1] != cr[1]: raise TranslateError('Vfs::%s: the two arms pass different arguments: %s vs %s' % (name, cl[1], cr[1]))
    if cl[1][:1] != ['ctx'] or 'idata.ino()' not in cl[1]:
        raise TranslateError('Vfs::%s does not pass (ctx, .., idata.ino(), ..) to the backend: %s' % (name, cl[1]))
    chain_l, chain_r = cl[2], cr[2]
    if 'self.' in chain_l: return fallback('the pseudo arm post-processes with %s' % chain_l[:80])
    if 'self.convert_backend_entry(idata,' in chain_r and chain_r.count('self.') == 1: cls = 'entry'
    elif 'self.' not in chain_r: cls = 'plain'
    else: return fallback('the backend arm post-processes with %s' % chain_r[:120])
    return {'cls': cls, 'validate': validate, 'gate': gate, 'names': names, 'shape': 'read'}

def translate(repo):
    rd = lambda p: strip_comments(open(os.path.join(repo, p)).read())
    trait = methods_of(find_block(rd('src/api/filesystem/sync_io.rs'), r'pub\s+trait\s+FileSystem\s*\{'))
    vfs = methods_of(find_block(rd('src/api/vfs/sync_io.rs'), r'impl\s+FileSystem\s+for\s+Vfs\s*\{'))
    pseudo = methods_of(find_block(rd('src/api/pseudo_fs.rs'), r'impl\s+FileSystem\s+for\s+PseudoFs\s*\{'))
    t = {'methods': [], 'errors': []}
    vfs_by = dict((m[0], m) for m in vfs)
    pseudo_names = [m[0] for m in pseudo]
    for extra in [m[0] for m in vfs if m[0] not in [x[0] for x in trait]]:
        raise TranslateError('Vfs implements %s which is not a FileSystem method' % extra)
    for code, (name, params, body, cfg, ret) in enumerate(trait):
        if body is None: raise TranslateError('trait method %s has no default body' % name)
        ent = {'name': name, 'code': code, 'default': default_result(name, body), 'cfg': cfg,
               'pseudo_overrides': name in pseudo_names, 'vfs': None, 'unit': ret in ('->io::Result<()>', '')}
        if name in vfs_by:
            try:
                ent['vfs'] = classify_vfs_method(name, vfs_by[name][1], vfs_by[name][2], vfs_by[name][4])
            except TranslateError as ex:
                # the method is there but its routing cannot be read as a plain forward: report it (broken tie) and keep what
                # the signature implies, so that the histories still run and can exhibit a concrete failing input
                if name in HAND: raise
                t['errors'].append(str(ex))
                ent['vfs'] = {'cls': 'entry' if returns_entry(vfs_by[name][4]) else 'plain',
                              'validate': re.findall(r'validate_path_component\((\w+)\)', norm(vfs_by[name][2])),
                              'gate': (re.findall(r'if[\w.()]*\.(no_open|no_opendir)\{', norm(vfs_by[name][2])) or [None])[0],
                              'names': re.findall(r'(\w+):\s*&CStr', vfs_by[name][1]), 'shape': 'assumed: ' + str(ex)}
        t['methods'].append(ent)
    # which name a validating table-driven method validates: must be its only CStr parameter, or all of them
    for e in t['methods']:
        v = e['vfs']
        if v and v['cls'] in ('plain', 'entry'):
            if v['validate'] and v['validate'] != [n for n in v['names'] if n in v['validate']]:
                raise TranslateError('Vfs::%s validates %s' % (e['name'], v['validate']))
    # the pseudo fs methods that are modelled by hand
    for n in pseudo_names:
        if n not in ('lookup', 'getattr', 'readdir', 'readdirplus', 'access'):
            raise TranslateError('PseudoFs overrides %s, which the model does not know' % n)
    for n in ('lookup', 'getattr', 'readdir', 'readdirplus', 'access'):
        if n not in pseudo_names: raise TranslateError('PseudoFs no longer overrides %s' % n)
    pa = norm(dict((m[0], m) for m in pseudo)['access'][2])
    if pa != '{Ok(())}': raise TranslateError('PseudoFs::access is not Ok(()): %s' % pa)
    # the wrapper every Server holds the Vfs in: impl<FS: FileSystem> FileSystem for Arc<FS> must forward every trait method
    # (a missing forwarder silently falls back to the trait default, e.g. id_remap_with_nodeid -> global mapping only)
    fsrc = rd('src/api/filesystem/sync_io.rs')
    arc = dict((m[0], m) for m in methods_of(find_block(fsrc, r'impl<FS:\s*FileSystem>\s*FileSystem\s+for\s+Arc<FS>\s*\{')))
    t['arc_forwards'] = []
    for (mname, _p, _b, _c, _r) in trait:
        if mname not in arc or not re.search(r'\.%s\(' % mname, norm(arc[mname][2] or '')):
            t['errors'].append('impl FileSystem for Arc<FS> does not forward %s: a Vfs held in an Arc answers it with the trait default' % mname)
        else: t['arc_forwards'].append(mname)
    # the async twin: impl AsyncFileSystem for Vfs (feature async-io) re-implements some of the methods
    asrc = rd('src/api/vfs/async_io.rs')
    amethods = methods_of(find_block(asrc, r'impl\s+AsyncFileSystem\s+for\s+Vfs\s*\{'))
    names = [e['name'] for e in t['methods']]
    t['async_twins'] = []
    for m in amethods:
        if not m[0].startswith('async_') or m[0][6:] not in names:
            raise TranslateError('Vfs implements AsyncFileSystem::%s, which has no FileSystem twin the model knows' % m[0])
        b = norm(m[2])
        if 'self.get_real_rootfs(' not in b or ('fs.%s(' % m[0]) not in b:
            raise TranslateError('Vfs::%s does not route with get_real_rootfs to fs.%s' % (m[0], m[0]))
        t['async_twins'].append(m[0][6:])
    # server: ctx remap by header nodeid before dispatch
    srv_mod = norm(rd('src/api/server/mod.rs')); srv_sync = norm(rd('src/api/server/sync_io.rs'))
    t['server_remaps_by_nodeid'] = bool(
        (re.search(r'let(\w+)=(\w+)\.nodeid\(\);self\.fs\.id_remap_with_nodeid\(&mut\2\.context,\1\)', srv_mod)
         or re.search(r'self\.fs\.id_remap_with_nodeid\(&mut(\w+)\.context,\1\.nodeid\(\)\)', srv_mod))
        and re.search(r'letmut(\w+)=SrvContext::<F,S>::new\(\w+,\w+,\w+\);self\.remap_ctx_ids\(&mut\1\)\?;', srv_sync))
    if not t['server_remaps_by_nodeid']:
        raise TranslateError('Server::handle_message no longer remaps the context by header nodeid right after building it')
    # the async twin of the dispatcher (feature async-io) builds its own context and must remap it the same way; the harness
    # calls the Vfs directly, so this is read from the source (audit6: reported as a broken tie, the histories still run)
    srv_async = norm(rd('src/api/server/async_io.rs'))
    t['async_server_remaps_by_nodeid'] = bool(re.search(r'letmut(\w+)=SrvContext::<F,S>::new\(\w+,\w+,\w+\);self\.remap_ctx_ids\(&mut\1\)\?;', srv_async))
    if not t['async_server_remaps_by_nodeid']:
        t['errors'].append('Server::async_handle_message does not remap the context by header nodeid right after building it: requests served through the async dispatcher reach the backends with untranslated caller ids')
    return t

def emit_coq(t):
    o = ['(* GENERATED by props/vfs_src.py from src/api/filesystem/sync_io.rs, src/api/vfs/sync_io.rs,',
         '   src/api/pseudo_fs.rs -- do not edit *)',
         'From Coq Require Import List NArith Bool String.', 'Import ListNotations.', 'Local Open Scope N_scope.', '']
    for e in t['methods']:
        o.append('Definition m_%s : N := %d.' % (e['name'], e['code']))
    o.append('')
    o.append('(* method, validates its name argument, gate (0 none, 1 no_open, 2 no_opendir), converts a returned entry, returns () *)')
    rows = []
    for e in t['methods']:
        v = e['vfs']
        if v and v['cls'] in ('plain', 'entry'):
            g = {None: 0, 'no_open': 1, 'no_opendir': 2}[v['gate']]
            rows.append('(m_%s, (%s, %d, %s, %s))' % (e['name'], 'true' if v['validate'] else 'false', g, 'true' if v['cls'] == 'entry' else 'false', 'true' if e['unit'] else 'false'))
    o.append('Definition forward_table : list (N * (bool * N * bool * bool)) :=\n  [' + ';\n   '.join(rows) + '].')
    o.append('')
    o.append('(* what the pseudo fs (FileSystem defaults unless overridden) answers: 0 = Ok, else errno *)')
    rows = []
    for e in t['methods']:
        if e['name'] in NOT_REQUESTS: continue
        if e['pseudo_overrides']:
            if e['name'] == 'access': rows.append('(m_access, 0)')
            continue
        rows.append('(m_%s, %d)' % (e['name'], 0 if e['default'] == 'ok' else ERRNO[e['default']]))
    o.append('Definition default_table : list (N * N) :=\n  [' + ';\n   '.join(rows) + '].')
    o.append('')
    o.append('(* trait methods the Vfs does not implement: answered by the trait default, no backend is reached *)')
    rows = ['m_%s' % e['name'] for e in t['methods'] if e['vfs'] is None and e['name'] not in NOT_REQUESTS and e['name'] != 'batch_forget']
    o.append('Definition unforwarded : list N := [' + '; '.join(rows) + '].')
    o.append('Definition hand_modelled : list N := [' + '; '.join('m_%s' % e['name'] for e in t['methods'] if e['vfs'] and e['vfs']['cls'] == 'hand') + '].')
    o.append('(* methods that impl AsyncFileSystem for Vfs re-implements (src/api/vfs/async_io.rs) *)')
    o.append('Definition async_twins : list N := [' + '; '.join('m_%s' % n for n in t['async_twins']) + '].')
    o.append('Definition n_methods : N := %d.' % len(t['methods']))
    return '\n'.join(o) + '\n'

def generate(repo, coqdir, write_if_changed):
    t = translate(repo)
    write_if_changed(os.path.join(coqdir, 'Gen/VfsTable.v'), emit_coq(t))
    return t

if __name__ == '__main__':
    import sys, json
    t = translate(sys.argv[1] if len(sys.argv) > 1 else '/repo')
    for e in t['methods']: print(e['code'], e['name'], e['default'], e['pseudo_overrides'], e['vfs'])
    print(emit_coq(t))
