"""Translator for the VFS checks (C07/C14/C19): reads
  src/api/filesystem/sync_io.rs  (trait FileSystem: method list + default results),
  src/api/vfs/sync_io.rs         (impl FileSystem for Vfs: which methods are forwarded and how),
  src/api/pseudo_fs.rs           (impl FileSystem for PseudoFs: which methods the pseudo fs overrides),
  src/api/server/{mod,sync_io}.rs (the request context is remapped by header nodeid before dispatch)
and generates coq/Gen/VfsTable.v.  Line/brace level parsing; a body it cannot classify is an error
(TranslateError), never ignored."""
import os, re

class TranslateError(Exception):
    pass

# methods whose Vfs implementation is modelled by hand in Model/Vfs.v (body shape not table driven)
HAND = ['init', 'destroy', 'lookup', 'forget', 'getattr', 'setattr', 'rename', 'link', 'readdir', 'readdirplus',
        'id_remap', 'id_remap_with_nodeid']
# trait methods without an inode argument / not requests
NOT_REQUESTS = ['init', 'destroy', 'id_remap', 'id_remap_with_nodeid']

def strip_comments(s):
    s = re.sub(r'//[^\n]*', '', s)
    s = re.sub(r'/\*.*?\*/', '', s, flags=re.S)
    return s

def block_at(s, i):
    """s[i] == '{' -> index just after the matching '}'"""
    d = 0
    for j in range(i, len(s)):
        if s[j] == '{': d += 1
        elif s[j] == '}':
            d -= 1
            if d == 0: return j + 1
    raise TranslateError('unbalanced braces')

def find_block(s, header_re):
    m = re.search(header_re, s)
    if not m: raise TranslateError('cannot find %s' % header_re)
    i = s.index('{', m.end() - 1)
    return s[i:block_at(s, i)]

def methods_of(block):
    """top-level fn items of an impl/trait block -> [(name, params, body, cfg)]"""
    out = []; inner = block[1:-1]; d = 0; i = 0
    while i < len(inner):
        c = inner[i]
        if c == '{': d += 1
        elif c == '}': d -= 1
        elif d == 0 and inner.startswith('fn ', i) and (i == 0 or not (inner[i - 1].isalnum() or inner[i - 1] == '_')):
            m = re.match(r'fn\s+(\w+)\s*(<[^>]*>)?\s*\(', inner[i:])
            if m:
                j = i + m.end(); pd = 1
                while pd:
                    if inner[j] == '(': pd += 1
                    elif inner[j] == ')': pd -= 1
                    j += 1
                params = inner[i + m.end():j - 1]
                k = j
                while inner[k] not in '{;': k += 1
                if inner[k] == ';':
                    body = None; e = k + 1
                else:
                    e = block_at(inner, k); body = inner[k:e]
                pre = inner[max(0, i - 200):i]
                cfgs = re.findall(r'#\[cfg\(([^\]]*)\)\]\s*(?:#\[[^\]]*\]\s*)*$', pre)
                ret = ''.join(inner[j:k].split())
                out.append((m.group(1), ' '.join(params.split()), body, cfgs[0] if cfgs else None, ret))
                i = e; continue
        i += 1
    return out

def norm(s):
    return re.sub(r'\s+', '', s)

def default_result(name, body):
    """trait default body -> 'ok' | errno name"""
    b = norm(body)
    m = re.fullmatch(r'\{Err\(io::Error::from_raw_os_error\(libc::(\w+)\)\)\}', b)
    if m: return m.group(1)
    if b.startswith('{Ok(') or re.search(r'Ok\(\w+\)\}$', b) or b == '{}': return 'ok'
    if name in ('batch_forget', 'id_remap_with_nodeid'): return 'ok'
    raise TranslateError('trait default of %s not understood: %s' % (name, b[:120]))

ERRNO = {'ENOSYS': 38, 'ENOTTY': 25, 'EINVAL': 22, 'ENOENT': 2}

def classify_vfs_method(name, params, body):
    """-> dict(cls=plain|entry|hand, validate=[names validated], gate=None|no_open|no_opendir, inode=<param>)"""
    b = norm(body)[1:-1]
    validate = []
    gate = None
    while True:
        m = re.match(r'validate_path_component\((\w+)\)\?;', b)
        if m: validate.append(m.group(1)); b = b[m.end():]; continue
        m = re.match(r'(?:#\[cfg\(target_os="linux"\)\])?ifself\.opts\.load\(\)\.(no_open|no_opendir)\{returnErr\(Error::from_raw_os_error\(libc::ENOSYS\)\);\}', b)
        if m: gate = m.group(1); b = b[m.end():]; continue
        break
    if name in HAND:
        return {'cls': 'hand', 'validate': validate, 'gate': gate}
    m = re.fullmatch(r'matchself\.get_real_rootfs\((\w+)\)\?\{\(Left\(fs\),idata\)=>(.*?),?\(Right\(fs\),idata\)=>(.*?),?\}', b)
    if not m: raise TranslateError('Vfs::%s: body is not a get_real_rootfs match: %s' % (name, b[:160]))
    ino, left, right = m.group(1), m.group(2), m.group(3)
    def unbrace(x):
        return x[1:-1] if x.startswith('{') and x.endswith('}') else x
    left, right = unbrace(left), unbrace(right)
    call = re.match(r'fs\.(\w+)\(ctx,((?:\w+,)*?)idata\.ino\(\),?(.*)\)$', left)
    if not call or call.group(1) != name:
        raise TranslateError('Vfs::%s: Left arm does not forward to fs.%s(ctx, .., idata.ino(), ..): %s' % (name, name, left[:160]))
    if right == left:
        cls = 'plain'
    else:
        r1 = left + '.and_then(|e|self.convert_backend_entry(idata,e))'
        r2 = left + '.and_then(|(a,b,c,d)|{self.convert_backend_entry(idata,a).map(|a|(a,b,c,d))})'
        if right in (r1, r2): cls = 'entry'
        else: raise TranslateError('Vfs::%s: Right arm is neither the Left arm nor Left + convert_backend_entry: %s' % (name, right[:200]))
    # the inode parameter must be the first VfsInode parameter
    pm = re.findall(r'(\w+):\s*(?:Self::Inode|VfsInode)', params)
    if not pm or pm[0] != ino: raise TranslateError('Vfs::%s: routes on %s, first inode parameter is %s' % (name, ino, pm[:1]))
    if len(pm) != 1: raise TranslateError('Vfs::%s: more than one inode parameter in a table-driven method' % name)
    names = re.findall(r'(\w+):\s*&CStr', params)
    return {'cls': cls, 'validate': validate, 'gate': gate, 'names': names}

def translate(repo):
    rd = lambda p: strip_comments(open(os.path.join(repo, p)).read())
    trait = methods_of(find_block(rd('src/api/filesystem/sync_io.rs'), r'pub\s+trait\s+FileSystem\s*\{'))
    vfs = methods_of(find_block(rd('src/api/vfs/sync_io.rs'), r'impl\s+FileSystem\s+for\s+Vfs\s*\{'))
    pseudo = methods_of(find_block(rd('src/api/pseudo_fs.rs'), r'impl\s+FileSystem\s+for\s+PseudoFs\s*\{'))
    t = {'methods': [], 'errors': []}
    vfs_by = dict((m[0], m) for m in vfs)
    pseudo_names = [m[0] for m in pseudo]
    for extra in [m[0] for m in vfs if m[0] not in [x[0] for x in trait]]:
        raise TranslateError('Vfs implements %s which is not a FileSystem method' % extra)
    for code, (name, params, body, cfg, ret) in enumerate(trait):
        if body is None: raise TranslateError('trait method %s has no default body' % name)
        ent = {'name': name, 'code': code, 'default': default_result(name, body), 'cfg': cfg,
               'pseudo_overrides': name in pseudo_names, 'vfs': None, 'unit': ret in ('->io::Result<()>', '')}
        if name in vfs_by:
            ent['vfs'] = classify_vfs_method(name, vfs_by[name][1], vfs_by[name][2])
        t['methods'].append(ent)
    # which name a validating table-driven method validates: must be its only CStr parameter, or all of them
    for e in t['methods']:
        v = e['vfs']
        if v and v['cls'] in ('plain', 'entry'):
            if v['validate'] and v['validate'] != [n for n in v['names'] if n in v['validate']]:
                raise TranslateError('Vfs::%s validates %s' % (e['name'], v['validate']))
    # the pseudo fs methods that are modelled by hand
    for n in pseudo_names:
        if n not in ('lookup', 'getattr', 'readdir', 'readdirplus', 'access'):
            raise TranslateError('PseudoFs overrides %s, which the model does not know' % n)
    for n in ('lookup', 'getattr', 'readdir', 'readdirplus', 'access'):
        if n not in pseudo_names: raise TranslateError('PseudoFs no longer overrides %s' % n)
    pa = norm(dict((m[0], m) for m in pseudo)['access'][2])
    if pa != '{Ok(())}': raise TranslateError('PseudoFs::access is not Ok(()): %s' % pa)
    # the async twin: impl AsyncFileSystem for Vfs (feature async-io) re-implements some of the methods
    asrc = rd('src/api/vfs/async_io.rs')
    amethods = methods_of(find_block(asrc, r'impl\s+AsyncFileSystem\s+for\s+Vfs\s*\{'))
    names = [e['name'] for e in t['methods']]
    t['async_twins'] = []
    for m in amethods:
        if not m[0].startswith('async_') or m[0][6:] not in names:
            raise TranslateError('Vfs implements AsyncFileSystem::%s, which has no FileSystem twin the model knows' % m[0])
        b = norm(m[2])
        if 'self.get_real_rootfs(' not in b or ('fs.%s(' % m[0]) not in b:
            raise TranslateError('Vfs::%s does not route with get_real_rootfs to fs.%s' % (m[0], m[0]))
        t['async_twins'].append(m[0][6:])
    # server: ctx remap by header nodeid before dispatch
    srv_mod = norm(rd('src/api/server/mod.rs')); srv_sync = norm(rd('src/api/server/sync_io.rs'))
    t['server_remaps_by_nodeid'] = ('letnodeid=ctx.nodeid();self.fs.id_remap_with_nodeid(&mutctx.context,nodeid)' in srv_mod
        and 'letmutctx=SrvContext::<F,S>::new(in_header,r,w);self.remap_ctx_ids(&mutctx)?;' in srv_sync)
    if not t['server_remaps_by_nodeid']:
        raise TranslateError('Server::handle_message no longer remaps the context by header nodeid right after building it')
    return t

def emit_coq(t):
    o = ['(* GENERATED by props/vfs_src.py from src/api/filesystem/sync_io.rs, src/api/vfs/sync_io.rs,',
         '   src/api/pseudo_fs.rs -- do not edit *)',
         'From Coq Require Import List NArith Bool String.', 'Import ListNotations.', 'Local Open Scope N_scope.', '']
    for e in t['methods']:
        o.append('Definition m_%s : N := %d.' % (e['name'], e['code']))
    o.append('')
    o.append('(* method, validates its name argument, gate (0 none, 1 no_open, 2 no_opendir), converts a returned entry, returns () *)')
    rows = []
    for e in t['methods']:
        v = e['vfs']
        if v and v['cls'] in ('plain', 'entry'):
            g = {None: 0, 'no_open': 1, 'no_opendir': 2}[v['gate']]
            rows.append('(m_%s, (%s, %d, %s, %s))' % (e['name'], 'true' if v['validate'] else 'false', g, 'true' if v['cls'] == 'entry' else 'false', 'true' if e['unit'] else 'false'))
    o.append('Definition forward_table : list (N * (bool * N * bool * bool)) :=\n  [' + ';\n   '.join(rows) + '].')
    o.append('')
    o.append('(* what the pseudo fs (FileSystem defaults unless overridden) answers: 0 = Ok, else errno *)')
    rows = []
    for e in t['methods']:
        if e['name'] in NOT_REQUESTS: continue
        if e['pseudo_overrides']:
            if e['name'] == 'access': rows.append('(m_access, 0)')
            continue
        rows.append('(m_%s, %d)' % (e['name'], 0 if e['default'] == 'ok' else ERRNO[e['default']]))
    o.append('Definition default_table : list (N * N) :=\n  [' + ';\n   '.join(rows) + '].')
    o.append('')
    o.append('(* trait methods the Vfs does not implement: answered by the trait default, no backend is reached *)')
    rows = ['m_%s' % e['name'] for e in t['methods'] if e['vfs'] is None and e['name'] not in NOT_REQUESTS and e['name'] != 'batch_forget']
    o.append('Definition unforwarded : list N := [' + '; '.join(rows) + '].')
    o.append('Definition hand_modelled : list N := [' + '; '.join('m_%s' % e['name'] for e in t['methods'] if e['vfs'] and e['vfs']['cls'] == 'hand') + '].')
    o.append('(* methods that impl AsyncFileSystem for Vfs re-implements (src/api/vfs/async_io.rs) *)')
    o.append('Definition async_twins : list N := [' + '; '.join('m_%s' % n for n in t['async_twins']) + '].')
    o.append('Definition n_methods : N := %d.' % len(t['methods']))
    return '\n'.join(o) + '\n'

def generate(repo, coqdir, write_if_changed):
    t = translate(repo)
    write_if_changed(os.path.join(coqdir, 'Gen/VfsTable.v'), emit_coq(t))
    return t

if __name__ == '__main__':
    import sys, json
    t = translate(sys.argv[1] if len(sys.argv) > 1 else '/repo')
    for e in t['methods']: print(e['code'], e['name'], e['default'], e['pseudo_overrides'], e['vfs'])
    print(emit_coq(t))
