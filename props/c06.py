"""C06 -- nothing outside the exported directory is reachable; names are single components."""
import os, sys, json, re, random, shutil, stat
from vlib import *
sys.path.insert(0, os.path.join(ROOT, 'translator'))
import validators
from pt_common import *

PROP = 'C06'
SECRET = b'SENTINEL-SECRET'
EINVAL = 22
MUTATORS = ['mkdir', 'mknod', 'create', 'symlink', 'link', 'unlink', 'rmdir', 'rename_old', 'rename_new']

def adversarial_names(rng, n_random):
    pool = [b'.', b'..', b'..data', b'.. ', b'..a', b'a/b', b'../x', b'/', b'', b'x' * 255, b'y' * 256, b'...', b'.a', b'a.', b'..a', b'a..', b'. ', b' .',
            b'./', b'/.', b'../', b'/..', b'a/', b'/a', b'//', b'a//b', b'.\\', b'..\\', b'\\', b'a\\b', b'\xff', b'\xc0\xaf', b'.\xc0\xaf',
            b'%2e%2e', b'%2f', b'..%2f', b'\x2e\x2e', b'a\x00/b', b'..\x00x', b'.\x00', b'/\x00', b'ok', b'ok2', b'user.x', b'\x01', b'a b',
            b'\xe2\x88\x95', b'\xef\xbc\x8f', b'..;', b'. .', b'.' * 3 + b'/', b'x' * 254 + b'/', b'x' * 253 + b'/.',
            # (audit 6) the position of the '/' is part of the class: at and beyond NAME_MAX, beyond PATH_MAX, behind an existing long prefix
            b'x' * 255 + b'/', b'x' * 255 + b'/y', b'x' * 256 + b'/', b'x' * 255 + b'/../../a', b'x' * 300 + b'/..', b'x' * 511 + b'/' + b'y' * 8,
            b'x' * 4094 + b'/', b'x' * 4096 + b'/z', b'/' + b'x' * 255, b'x' * 255 + b'/.', b'x' * 255 + b'/..']
    alpha = [b'.', b'/', b'a', b'\\', b'\xff', b' ']
    for _ in range(n_random):
        pool.append(b''.join(rng.choice(alpha) for _ in range(rng.randint(1, 5))))
    return pool

def spec_unsafe(n):     # the property's own definition of an unsafe component
    return b'/' in n or n == b'.' or n == b'..'

def name_ops(names, with_creation):
    """one request per (name, method); parents/inodes are the root (slot 0)"""
    ops = []
    for n in names:
        ops.append(('lookup', n, {'op': 'lookup', 'p': 0, 'name': n}))
        ops.append(('unlink', n, {'op': 'unlink', 'p': 0, 'name': n}))
        ops.append(('rmdir', n, {'op': 'rmdir', 'p': 0, 'name': n}))
        ops.append(('rename_old', n, {'op': 'rename', 'p': 0, 'name': n, 'p2': 0, 'name2': b'zz-target', 'flags': 0}))
        ops.append(('rename_new', n, {'op': 'rename', 'p': 0, 'name': b'zz-missing-source', 'p2': 0, 'name2': n, 'flags': 0}))
        if with_creation:
            ops.append(('mkdir', n, {'op': 'mkdir', 'p': 0, 'name': n, 'mode': 0o755, 'umask': 0, 'uid': 0, 'gid': 0}))
            ops.append(('mknod', n, {'op': 'mknod', 'p': 0, 'name': n, 'mode': 0o100644, 'rdev': 0, 'umask': 0, 'uid': 0, 'gid': 0}))
            ops.append(('create', n, {'op': 'create', 'p': 0, 'name': n, 'mode': 0o644, 'umask': 0, 'flags': 2, 'fuse_flags': 0, 'uid': 0, 'gid': 0}))
            ops.append(('symlink', n, {'op': 'symlink', 'p': 0, 'name': n, 'target': b'../a', 'uid': 0, 'gid': 0}))
            ops.append(('link', n, {'op': 'link', 'i': 0, 'p': 0, 'name': n}))
    return ops

# ------------------------------------------------------------------ sentinel trees and histories
def gen_sentinel(rng, abs_sentinel):
    t = Tree()
    S = t.add('dir', 0o755)
    a = t.add('reg', 0o644, data=SECRET + b'-a'); t.link(S, b'a', a)
    b = t.add('dir', 0o755); t.link(S, b'b', b)
    inner = t.add('reg', 0o600, data=SECRET + b'-inner'); t.link(b, b'inner', inner)
    sl = t.add('lnk', 0o777, target=b'a'); t.link(S, b'lnk', sl)
    R = t.add('dir', 0o755); t.link(S, b'export', R)
    f = t.add('reg', 0o644, data=b'inside-f'); t.link(R, b'f', f)
    d = t.add('dir', 0o755); t.link(R, b'd', d)
    g = t.add('reg', 0o644, data=b'inside-g'); t.link(d, b'g', g)
    dd = t.add('dir', 0o755); t.link(d, b'dd', dd)
    A = abs_sentinel.encode()
    planted = [(b'rel', b'../a'), (b'abs', A + b'/a'), (b'reldir', b'../b'), (b'absdir', A + b'/b'), (b'up', b'..'),
               (b'upup', b'../..'), (b'chain', b'rel'), (b'self', b'self'), (b'deep', b'../b/inner')]
    # always present in the export root: links to an outside file, an outside directory, a dangling outside path
    for nm, tg in [(b'rel', b'../a'), (b'abs', A + b'/a'), (b'reldir', b'../b'), (b'dang', b'../dangling-outside'), (b'absdang', A + b'/dangling-abs')]:
        l = t.add('lnk', 0o777, target=tg); t.link(R, nm, l)
    planted = planted[4:]
    rng.shuffle(planted)
    for nm, tg in planted[:rng.randint(2, len(planted))]:
        l = t.add('lnk', 0o777, target=tg); t.link(rng.choice([R, d]), nm, l)
    if rng.random() < 0.7: t.link(R, b'hl', g)           # a hard link inside the export
    if rng.random() < 0.5:
        ff = t.add('fifo', 0o644); t.link(R, b'fifo', ff)
    return t, S, R

OUTSIDE_TARGETS = [b'../a', b'../b', b'..', b'../..', b'../b/inner', b'/', b'../lnk']
def gen_history(rng, tree, R, abs_sentinel, n_ops, k=0):
    A = abs_sentinel.encode()
    inside_names = [b'f', b'd', b'g', b'dd', b'hl', b'rel', b'abs', b'reldir', b'absdir', b'up', b'upup', b'chain', b'self', b'deep', b'fifo',
                    b'n1', b'n2', b'n3', b'ls1', b'ls2', b'dev']
    adv = [b'.', b'..', b'..a', b'...', b'..data', b'.. ', b'a/b', b'../x', b'/', b'', b'x' * 255, b'y' * 256, b'../a', b'd/g', b'd/..', b'rel/', b'./f', b'../export/f',
           b'..\x00', b'reldir/inner', A + b'/a']
    ops = []; ni = 1; nh = 0
    def nm(): return rng.choice(inside_names) if rng.random() < 0.7 else rng.choice(adv)
    def islot(): return rng.randrange(ni) if rng.random() < 0.9 else ('raw', rng.choice([0, 1, 999, 2 ** 55 + 1]))
    def hslot(): return rng.randrange(nh) if nh and rng.random() < 0.95 else ('raw', rng.choice([0, 1, 7]))
    # a warm-up that makes the interesting inodes known
    for n in [b'd', b'f', b'rel', b'abs', b'reldir', b'up']:
        ops.append({'op': 'lookup', 'p': 0, 'name': n}); ni += 1
    # FORGET / BATCH_FORGET of the export root (any count) must leave it registered as nodeid 1: afterwards ".." walks from a
    # subdirectory and from whatever they return must still end at the root (both inode-numbering modes)
    def root_forget_walk():
        nonlocal ni
        ops.append({'op': 'forget', 'i': 0, 'count': 1})
        ops.append({'op': 'batch_forget', 'l': [(0, 1), (0, 1000)]})
        ops.append({'op': 'forget', 'i': ('raw', 1), 'count': 2 ** 40})
        ops.append({'op': 'getattr', 'i': 0, 'h': None})
        ops.append({'op': 'lookup', 'p': 0, 'name': b'.'}); ni += 1
        ops.append({'op': 'lookup', 'p': 1, 'name': b'..'}); ni += 1
        ops.append({'op': 'lookup', 'p': ni - 1, 'name': b'..'}); ni += 1
        ops.append({'op': 'lookup', 'p': ni - 1, 'name': b'..'}); ni += 1
        ops.append({'op': 'lookup', 'p': ni - 1, 'name': b'a'}); ni += 1
        ops.append({'op': 'lookup', 'p': 0, 'name': b'..'}); ni += 1
        # ordinary names that merely start with "..": only the exact ".." is rewritten at the root
        for nm_ in (b'..a', b'..data'):
            ops.append({'op': 'lookup', 'p': 0, 'name': nm_}); ni += 1
            ops.append({'op': 'mkdir', 'p': 0, 'name': nm_, 'mode': 0o755, 'umask': 0, 'uid': 0, 'gid': 0}); ni += 1
            ops.append({'op': 'lookup', 'p': 0, 'name': nm_}); ni += 1
            ops.append({'op': 'lookup', 'p': ni - 1, 'name': b'..'}); ni += 1
            ops.append({'op': 'rmdir', 'p': 0, 'name': nm_})
    root_forget_walk()
    # every name-taking operation applied to a name that IS a symlink to an outside object (existing file, directory,
    # dangling path; pre-existing or made through SYMLINK), with the open flags rotated over the histories
    cflags = [0x2, 0x201, 0x242, 0xc2, 0x401, 0x20002, 0x42, 0x10002]
    made = [(b'mk_out', b'../a'), (b'mk_dang', b'../made-outside'), (b'mk_dir', b'../b'), (b'mk_abs', A + b'/made-abs')]
    for nm_, tg in made:
        ops.append({'op': 'symlink', 'p': 0, 'name': nm_, 'target': tg, 'uid': 0, 'gid': 0}); ni += 1
    for j, nm_ in enumerate([b'rel', b'abs', b'reldir', b'dang', b'absdang'] + [m[0] for m in made]):
        fl = cflags[(k + j) % len(cflags)]
        ops.append({'op': 'create', 'p': 0, 'name': nm_, 'mode': 0o666, 'umask': 0, 'flags': fl, 'fuse_flags': 0, 'uid': 0, 'gid': 0}); ni += 1; nh += 1
        ops.append({'op': 'write', 'i': ni - 1, 'h': nh - 1, 'off': 0, 'data': b'PWNED', 'flags': fl, 'fuse_flags': 0})
        ops.append({'op': 'mknod', 'p': 0, 'name': nm_, 'mode': 0o100644, 'rdev': 0, 'umask': 0, 'uid': 0, 'gid': 0}); ni += 1
        ops.append({'op': 'mkdir', 'p': 0, 'name': nm_, 'mode': 0o755, 'umask': 0, 'uid': 0, 'gid': 0}); ni += 1
        ops.append({'op': 'link', 'i': 2, 'p': 0, 'name': nm_}); ni += 1
        ops.append({'op': 'lookup', 'p': 0, 'name': nm_}); ni += 1
        ls = ni - 1
        ops.append({'op': 'open', 'i': ls, 'flags': 0x801 | 0x200, 'fuse_flags': 0}); nh += 1
        ops.append({'op': 'setattr', 'i': ls, 'h': None, 'valid': 8, 'mode': 0, 'uid': 0, 'gid': 0, 'size': 0})
        ops.append({'op': 'setattr', 'i': ls, 'h': None, 'valid': 1 | 2 | 4, 'mode': 0o777, 'uid': 7, 'gid': 7, 'size': 0})
        ops.append({'op': 'setxattr', 'i': ls, 'name': b'user.k', 'value': b'v', 'flags': 0})
        ops.append({'op': 'getxattr', 'i': ls, 'name': b'user.k', 'size': 16})
    # (audit 6) a '/' beyond NAME_MAX bytes behind an EXISTING NAME_MAX-long directory: "<255 x>/../../a" names the sentinel file
    LONG = b'x' * 255
    ops.append({'op': 'mkdir', 'p': 0, 'name': LONG, 'mode': 0o755, 'umask': 0, 'uid': 0, 'gid': 0}); ni += 1
    for tail in (b'/../../a', b'/../../made-long', b'/y'):
        nm_ = LONG + tail
        ops.append({'op': 'lookup', 'p': 0, 'name': nm_}); ni += 1
        ops.append({'op': 'create', 'p': 0, 'name': nm_, 'mode': 0o666, 'umask': 0, 'flags': 0x242, 'fuse_flags': 0, 'uid': 0, 'gid': 0}); ni += 1; nh += 1
        ops.append({'op': 'mkdir', 'p': 0, 'name': nm_, 'mode': 0o755, 'umask': 0, 'uid': 0, 'gid': 0}); ni += 1
        ops.append({'op': 'mknod', 'p': 0, 'name': nm_, 'mode': 0o100644, 'rdev': 0, 'umask': 0, 'uid': 0, 'gid': 0}); ni += 1
        ops.append({'op': 'symlink', 'p': 0, 'name': nm_, 'target': b'f', 'uid': 0, 'gid': 0}); ni += 1
        ops.append({'op': 'link', 'i': 2, 'p': 0, 'name': nm_}); ni += 1
        ops.append({'op': 'rename', 'p': 0, 'name': b'f', 'p2': 0, 'name2': nm_, 'flags': 0})
        ops.append({'op': 'rename', 'p': 0, 'name': nm_, 'p2': 0, 'name2': b'long-moved', 'flags': 0})
        ops.append({'op': 'unlink', 'p': 0, 'name': nm_})
        ops.append({'op': 'rmdir', 'p': 0, 'name': nm_})
    ops.append({'op': 'create', 'p': 0, 'name': b'tmpf', 'mode': 0o644, 'umask': 0, 'flags': 0x42, 'fuse_flags': 0, 'uid': 0, 'gid': 0}); ni += 1; nh += 1
    ops.append({'op': 'rename', 'p': 0, 'name': b'tmpf', 'p2': 0, 'name2': [b'rel', b'dang', b'reldir'][k % 3], 'flags': 0})
    n_ops += len(ops) - 6
    while len(ops) < n_ops:
        r = rng.random()
        if r < 0.28:
            ops.append({'op': 'lookup', 'p': islot(), 'name': nm()}); ni += 1
        elif r < 0.36:
            ops.append({'op': 'open', 'i': islot(), 'flags': 0x800 | rng.choice([0, 1, 2, 0x201, 0x401, 0x20000, 0x10000]), 'fuse_flags': 0}); nh += 1
            if rng.random() < 0.8:
                i = ops[-1]['i']; h = nh - 1
                if rng.random() < 0.5: ops.append({'op': 'read', 'i': i, 'h': h, 'size': 64, 'off': 0, 'flags': ops[-1]['flags']})
                else: ops.append({'op': 'write', 'i': i, 'h': h, 'off': rng.randint(0, 4), 'data': b'W' * rng.randint(1, 4), 'flags': ops[-1]['flags'], 'fuse_flags': 0})
        elif r < 0.40:
            ops.append({'op': 'opendir', 'i': islot(), 'flags': 0}); nh += 1
            ops.append({'op': 'readdir', 'i': ops[-1]['i'], 'h': nh - 1, 'size': 4096, 'off': 0})
            ops.append({'op': 'readdirplus', 'i': ops[-2]['i'], 'h': nh - 1, 'size': 8192, 'off': 0})
            if rng.random() < 0.5: ops.append({'op': 'fsyncdir', 'i': ops[-3]['i'], 'h': nh - 1})
            if rng.random() < 0.3: ops.append({'op': 'releasedir', 'i': ops[-1]['i'], 'h': nh - 1})
        elif r < 0.46: ops.append({'op': 'getattr', 'i': islot(), 'h': None})
        elif r < 0.50: ops.append({'op': 'readlink', 'i': islot()})
        elif r < 0.57:
            v = rng.choice([1, 8, 2 | 4, 1 | 8, 0x10 | 0x20])
            ops.append({'op': 'setattr', 'i': islot(), 'h': None, 'valid': v, 'mode': rng.choice([0o600, 0o777, 0o4755]), 'uid': rng.choice([0, 7]), 'gid': rng.choice([0, 7]), 'size': rng.choice([0, 3, 20])})
        elif r < 0.64:
            ops.append({'op': 'symlink', 'p': islot(), 'name': nm(), 'target': rng.choice(OUTSIDE_TARGETS + [A + b'/a', A + b'/b', A]), 'uid': 0, 'gid': 0}); ni += 1
        elif r < 0.69:
            ops.append({'op': 'mkdir', 'p': islot(), 'name': nm(), 'mode': 0o755, 'umask': 0o022, 'uid': 0, 'gid': 0}); ni += 1
        elif r < 0.74:
            ops.append({'op': 'create', 'p': islot(), 'name': nm(), 'mode': 0o644, 'umask': 0, 'flags': rng.choice([2, 0x42, 0x242, 0xc2, 0x20002]), 'fuse_flags': 0, 'uid': 0, 'gid': 0}); ni += 1; nh += 1
        elif r < 0.77:
            ops.append({'op': 'mknod', 'p': islot(), 'name': nm(), 'mode': rng.choice([0o020666, 0o010644, 0o100644]), 'rdev': rng.choice([0x103, 0x105]), 'umask': 0, 'uid': 0, 'gid': 0}); ni += 1
        elif r < 0.85:
            ops.append({'op': 'rename', 'p': islot(), 'name': nm(), 'p2': islot(), 'name2': nm(), 'flags': rng.choice([0, 0, 0, 1, 2])})
        elif r < 0.89:
            ops.append({'op': 'link', 'i': islot(), 'p': islot(), 'name': nm()}); ni += 1
        elif r < 0.93: ops.append({'op': 'unlink', 'p': islot(), 'name': nm()})
        elif r < 0.96: ops.append({'op': 'rmdir', 'p': islot(), 'name': nm()})
        elif r < 0.98: ops.append({'op': 'setxattr', 'i': islot(), 'name': b'user.k', 'value': b'v', 'flags': 0})
        elif r < 0.985: ops.append({'op': 'getxattr', 'i': islot(), 'name': b'user.k', 'size': 16})
        else:
            # the remaining inode/handle-taking methods, a few per history
            c = rng.randrange(9)
            if c == 0: ops.append({'op': 'statfs', 'i': islot()})
            elif c == 1: ops.append({'op': 'access', 'i': islot(), 'mask': rng.randrange(8), 'uid': rng.choice([0, 7]), 'gid': 0})
            elif c == 2: ops.append({'op': 'listxattr', 'i': islot(), 'size': rng.choice([0, 64])})
            elif c == 3: ops.append({'op': 'removexattr', 'i': islot(), 'name': b'user.k'})
            elif c == 4: ops.append({'op': 'fallocate', 'i': islot(), 'h': hslot(), 'mode': rng.choice([0, 3]), 'off': 0, 'len': 8})
            elif c == 5: ops.append({'op': 'lseek', 'i': islot(), 'h': hslot(), 'off': 2, 'whence': rng.choice([0, 1, 2])})
            elif c == 6: ops.append({'op': 'fsync', 'i': islot(), 'h': hslot()})
            elif c == 7: ops.append({'op': 'flush', 'i': islot(), 'h': hslot()})
            else: ops.append({'op': 'release', 'i': islot(), 'h': hslot()})
    # targeted tail: a device node and the FIFO are looked up and opened (must be refused: EBADF), the planted links are
    # opened/truncated/chmod-ed through their inodes (must not reach their targets)
    ops.append({'op': 'mknod', 'p': 0, 'name': b'devnode', 'mode': 0o020666, 'rdev': 0x103, 'umask': 0, 'uid': 0, 'gid': 0}); ni += 1
    ops.append({'op': 'open', 'i': ni - 1, 'flags': 0x800, 'fuse_flags': 0}); nh += 1
    ops.append({'op': 'lookup', 'p': 0, 'name': b'fifo'}); ni += 1
    ops.append({'op': 'open', 'i': ni - 1, 'flags': 0x802, 'fuse_flags': 0}); nh += 1
    ops.append({'op': 'mknod', 'p': 0, 'name': b'socknode', 'mode': 0o140666, 'rdev': 0, 'umask': 0, 'uid': 0, 'gid': 0}); ni += 1
    for sp in (ni - 1, ni - 2, ni - 3):
        # socket, FIFO (if present), device: through open, the per-request descriptors of read/write (no_open), setattr(size)
        ops.append({'op': 'open', 'i': sp, 'flags': 0x802, 'fuse_flags': 0}); nh += 1
        ops.append({'op': 'read', 'i': sp, 'h': nh - 1, 'size': 4, 'off': 0, 'flags': 0x802})
        ops.append({'op': 'write', 'i': sp, 'h': nh - 1, 'off': 0, 'data': b'x', 'flags': 0x802, 'fuse_flags': 0})
        ops.append({'op': 'setattr', 'i': sp, 'h': None, 'valid': 8, 'mode': 0, 'uid': 0, 'gid': 0, 'size': 0})
    for slot in (3, 4, 5):
        ops.append({'op': 'open', 'i': slot, 'flags': 0x801 | 0x200, 'fuse_flags': 0}); nh += 1
        ops.append({'op': 'setattr', 'i': slot, 'h': None, 'valid': 8, 'mode': 0, 'uid': 0, 'gid': 0, 'size': 0})
        ops.append({'op': 'setattr', 'i': slot, 'h': None, 'valid': 1, 'mode': 0o777, 'uid': 0, 'gid': 0, 'size': 0})
    root_forget_walk()
    ops.append({'op': 'lookup', 'p': 0, 'name': b'..'}); ni += 1
    ops.append({'op': 'lookup', 'p': 1, 'name': b'..'}); ni += 1
    ops.append({'op': 'lookup', 'p': ni - 1, 'name': b'..'}); ni += 1
    return ops

def replay(path):
    log('replay: re-run ./check C06 with the seed recorded in %s' % path); return run_check('quick', json.load(open(path)).get('seed', 1))

def run_check(tier, seed):
    ev = Evidence(PROP, tier, seed)
    ev.cov['checker_cmd'] = 'make -C coq Props/C06.vo (coqc 8.16.1, full .vo) + Print Assumptions audit'
    ev.cov['trusted_base'] = TRUSTED_COMMON + [
        'translator/validators.py (methods of the two FileSystem impls, their &CStr parameters, position of validate_path_component / the slash check among the top-level statements, normalised bodies of the name helpers, do_lookup rewrite, open flags, is_safe_inode gate)',
        'coq/Model/HostFs.v: the kernel behaviours assumed -- a single component under O_PATH|O_NOFOLLOW resolves to the directory, its parent or a child and never follows a link; *at() creating/removing calls never follow the last component; reopening through /proc/self/fd lands on the same inode; ".." of a removed directory is its old parent. Validated differentially on this kernel/ext4, not verified',
        'harness bin ptfs (drives PassthroughFs / Vfs through the FileSystem trait), the logging backend, the python sentinel snapshot (lstat + content hash + xattrs)',
    ]
    ev.assumptions = ['no actor other than the server modifies the host tree (no host-side renames out of the export)',
                      'a PassthroughFs configured with do_import=false is only used behind a Vfs (its own name checks are then off by design)',
                      'Linux x86_64, ext4 with user xattrs, process runs as root']
    findings = []; broken = []; samples = []; evals = 0; nontriv = set()
    rng = random.Random(seed)
    quick = tier == 'quick'

    # 1. translate
    t = None
    try:
        t = validators.translate(REPO)
        write_if_changed(os.path.join(COQ, 'Gen/Validators.v'), validators.emit_coq(t))
    except validators.TranslateError as ex:
        broken.append({'kind': 'translator', 'item': 'translator/validators.py', 'error': str(ex)})
    # 2. Coq
    audit = std_audit(ev, PROP, broken) if t is not None else {'ok': False}
    coq_ok = bool(audit.get('ok'))
    # 3. harness
    ok, out, bindir = cargo_build(['ptfs'])
    if not ok:
        broken.append({'kind': 'harness-build', 'log': out[-3000:]})
        ev.cov['rule'] = 'harness did not build'; ev.cov['samples'] = [{'note': 'no run'}]
        return finish(ev, PROP, findings, broken)

    base = os.path.join(SCRATCH, 'c06-%d' % os.getpid())
    shutil.rmtree(base, ignore_errors=True); os.makedirs(base)
    try:
        # ---------------- (A) the name predicates at every call site
        names = adversarial_names(rng, 40 if quick else 400)
        # through a Vfs with a logging backend
        vops = name_ops(names, True)
        lines = ['H names vfslog /nonexistent -'] + [op_line(o) for _, _, o in vops] + ['E']
        rc, out = run_ptfs(bindir, lines, 'c06names-vfs')
        hs = parse_output(out)
        if rc != 0 or len(hs) != 1 or len(hs[0]['ops']) != len(vops):
            broken.append({'kind': 'harness-run', 'what': 'vfslog name run', 'log': out[-1500:]})
        else:
            exprs = []
            for (meth, n, o), res in zip(vops, hs[0]['ops']):
                cn = cname(n); e = errno_of(res['r']); evals += 1
                rejected = (e == EINVAL and res['calls'] == '-')
                reached = res['calls'] != '-'
                must_reject = (b'/' in cn) if meth == 'lookup' else spec_unsafe(cn)
                if must_reject: nontriv.add(('vfs', meth, 'reject', cn[:8]))
                if must_reject and not rejected:
                    findings.append({'what': 'Vfs::%s lets the unsafe name %r through (errno %d, backend calls %s)' % (meth.split('_')[0], cn, e, res['calls']),
                                     'input': {'method': meth, 'name_hex': n.hex()}, 'sig': {'layer': 'vfs', 'method': meth}})
                if not must_reject and not reached:
                    findings.append({'what': 'Vfs::%s rejects the safe name %r (errno %d) without calling the backend' % (meth.split('_')[0], cn, e),
                                     'input': {'method': meth, 'name_hex': n.hex()}, 'sig': {'layer': 'vfs', 'method': meth, 'dir': 'overreject'}})
                model = ('lookup_check %s' if meth == 'lookup' else 'validate_path_component %s') % hexN(cn)
                exprs.append('(Bool.eqb (match %s with Some _ => true | None => false end) %s)' % (model, 'true' if (e == EINVAL and not reached) else 'false'))
            if coq_ok:
                bad, errs = coq_check_cases('c06_names_vfs', 'From Coq Require Import String.\n' + COQ_HEADER + 'From FB Require Import Lib.Hex.\nLocal Open Scope string_scope.\nLocal Open Scope N_scope.\n', exprs)
                for e_ in errs: broken.append({'kind': 'correspondence', 'name': 'coq evaluation of name cases failed', 'log': e_['log']})
                for i in bad[:10]:
                    broken.append({'kind': 'correspondence', 'name': 'Model/Names.v vs Vfs name check', 'case': {'method': vops[i][0], 'name_hex': vops[i][1].hex(), 'observed': hs[0]['ops'][i]['raw']}})
            samples.append({'vfs_name_case': [vops[1][0], vops[1][1].hex(), hs[0]['ops'][1]['raw'], hs[0]['ops'][1]['calls']]})
        # at a standalone PassthroughFs (fresh scratch export; creations included for a few names only)
        exp = os.path.join(base, 'names-export'); os.makedirs(exp)
        pops = name_ops(names, False) + name_ops([b'.', b'..', b'a/b', b'/', b'ok', b'x' * 255, b'', b'..\x00x', b'x' * 255 + b'/', b'x' * 255 + b'/y', b'x' * 255 + b'/../../a', b'x' * 300 + b'/..'], True)
        lines = ['H names pt %s xattr=1,digest=1' % exp] + [op_line(o) for _, _, o in pops] + ['E']
        before = sorted(os.listdir(exp))
        rc, out = run_ptfs(bindir, lines, 'c06names-pt')
        hs = parse_output(out)
        if rc != 0 or len(hs) != 1 or not hs[0]['ok'] or len(hs[0]['ops']) != len(pops):
            broken.append({'kind': 'harness-run', 'what': 'pt name run', 'log': out[-1500:]})
        else:
            exprs = []
            for (meth, n, o), res in zip(pops, hs[0]['ops']):
                cn = cname(n); e = errno_of(res['r']); evals += 1
                must_reject = (b'/' in cn) if meth == 'lookup' else spec_unsafe(cn)
                if must_reject: nontriv.add(('pt', meth, 'reject', cn[:8]))
                if must_reject and e != EINVAL:
                    findings.append({'what': 'PassthroughFs::%s does not reject the unsafe name %r (errno %d)' % (meth.split('_')[0], cn, e),
                                     'input': {'method': meth, 'name_hex': n.hex()}, 'sig': {'layer': 'pt', 'method': meth}})
                if not must_reject and e == EINVAL and meth not in ('rename_old', 'rename_new'):
                    findings.append({'what': 'PassthroughFs::%s rejects the safe name %r with EINVAL' % (meth, cn),
                                     'input': {'method': meth, 'name_hex': n.hex()}, 'sig': {'layer': 'pt', 'method': meth, 'dir': 'overreject'}})
                prev_tree = hs[0]['ops'][len(exprs) - 1]['tree'] if exprs else None
                if must_reject and prev_tree is not None and res['tree'] != prev_tree:
                    findings.append({'what': 'PassthroughFs::%s changed the export although the name %r must be rejected' % (meth.split('_')[0], cn),
                                     'input': {'method': meth, 'name_hex': n.hex()}, 'sig': {'layer': 'pt', 'method': meth, 'kind': 'effect-before-check'}})
                model = ('lookup_check %s' if meth == 'lookup' else 'pt_validate true %s') % hexN(cn)
                exprs.append('(Bool.eqb (match %s with Some _ => true | None => false end) %s)' % (model, 'true' if e == EINVAL else 'false'))
            if coq_ok:
                bad, errs = coq_check_cases('c06_names_pt', 'From Coq Require Import String.\n' + COQ_HEADER + 'From FB Require Import Lib.Hex.\nLocal Open Scope string_scope.\nLocal Open Scope N_scope.\n', exprs)
                for e_ in errs: broken.append({'kind': 'correspondence', 'name': 'coq evaluation of name cases failed', 'log': e_['log']})
                for i in bad[:10]:
                    broken.append({'kind': 'correspondence', 'name': 'Model/Names.v vs PassthroughFs name check', 'case': {'method': pops[i][0], 'name_hex': pops[i][1].hex(), 'observed': hs[0]['ops'][i]['raw']}})
            after = sorted(os.listdir(exp))
            for nme in after:
                if spec_unsafe(nme.encode('utf-8', 'surrogateescape')): findings.append({'what': 'an entry with an unsafe name was created: %r' % nme, 'sig': {'layer': 'pt', 'method': 'create'}})

        # ---------------- (B) sentinel histories, standalone and behind a Vfs
        n_hist = 16 if quick else 400
        hist = []
        for k in range(n_hist):
            top = os.path.join(base, 'h%d' % k); os.makedirs(top)
            sent = os.path.join(top, 'sentinel')
            hrng = random.Random(rng.getrandbits(64))
            tree, S, R = gen_sentinel(hrng, sent)
            ops = gen_history(hrng, tree, R, sent, 25 if quick else 80, k)
            hist.append({'k': k, 'top': top, 'sent': sent, 'tree': tree, 'S': S, 'R': R, 'ops': ops})
        cfgs = [{'xattr': True}, {'xattr': True, 'cache': 'always', 'no_open': True, 'use_host_ino': True}, {'xattr': True, 'inode_file_handles': True}, {'xattr': True, 'use_host_ino': True}]
        for mode in ('pt', 'vfs'):
            lines = []
            for hh in hist:
                shutil.rmtree(hh['sent'], ignore_errors=True)
                build_real(hh['tree'], hh['S'], hh['sent'])
                hh['export'] = os.path.join(hh['sent'], 'export')
                hh['snap_before'] = snapshot(hh['sent'], skip=hh['export'])
                inside0 = set()
                for dp, dn, fn in os.walk(hh['export']):
                    for x in [dp] + [os.path.join(dp, f) for f in fn + dn]:
                        st = os.lstat(x); inside0.add((st.st_dev, st.st_ino))
                hh['outside_inos'] = set((int(v[6]), int(v[5])) for p, v in hh['snap_before'].items() if not p.endswith('#entry')) - inside0
                hh['cfg'] = cfgs[hh['k'] % len(cfgs)] if mode == 'pt' else {'xattr': True}
                lines.append('H %d %s %s %s' % (hh['k'], mode, hh['export'], cfg_line(dict(hh['cfg'], digest=1))))
                lines += [op_line(o) for o in hh['ops']] + ['E']
            rc, out = run_ptfs(bindir, lines, 'c06hist-' + mode, timeout=600)
            hs = parse_output(out)
            if rc != 0 or len(hs) != len(hist):
                broken.append({'kind': 'harness-run', 'what': mode + ' history run', 'rc': rc, 'log': out[-1500:]}); continue
            exprs = []; exmap = []
            for hh, res in zip(hist, hs):
                if not res['ok'] or len(res['ops']) != len(hh['ops']):
                    broken.append({'kind': 'harness-run', 'what': '%s history %d' % (mode, hh['k']), 'log': res['msg']}); continue
                hh[mode] = res
                replay_in = {'seed': seed, 'mode': mode, 'history': hh['k'], 'cfg': hh['cfg'], 'ops': [op_line(o) for o in hh['ops']]}
                # (1) the sentinel is untouched
                after = snapshot(hh['sent'], skip=hh['export'])
                if after != hh['snap_before']:
                    diff = sorted(p for p in set(after) | set(hh['snap_before']) if after.get(p) != hh['snap_before'].get(p))
                    findings.append({'what': 'objects outside the export changed (%s): %s' % (mode, ', '.join(os.path.relpath(p, hh['sent']) for p in diff[:5])),
                                     'input': replay_in, 'sig': {'kind': 'sentinel-modified', 'mode': mode}})
                slot_mode = [0o040000]; prev_tree = None
                for j, (o, r) in enumerate(zip(hh['ops'], res['ops'])):
                    evals += 1
                    kv = r['r']
                    # a request whose name must be rejected has no effect on the export
                    unsafe_req = any(spec_unsafe(cname(o[k])) for k in ('name', 'name2') if k in o) and o['op'] not in ('lookup', 'setxattr', 'getxattr', 'removexattr')
                    if o['op'] == 'lookup' and b'/' in cname(o['name']): unsafe_req = True
                    if unsafe_req and (errno_of(kv) != EINVAL or (prev_tree not in (None, '-') and r['tree'] != prev_tree)):
                        findings.append({'what': 'request %d (%s) carries a name that must be rejected: errno %d, export %s' % (j, op_line(o), errno_of(kv), 'changed' if r['tree'] != prev_tree else 'unchanged'),
                                         'input': replay_in, 'sig': {'kind': 'unsafe-name-accepted', 'op': o['op'], 'mode': mode}})
                    prev_tree = r['tree']
                    # special files and links are never opened for I/O
                    if o['op'] in ('open', 'opendir') and errno_of(kv) == 0 and not isinstance(o['i'], tuple) and o['i'] < len(slot_mode):
                        if slot_mode[o['i']] != 0 and stat.S_IFMT(slot_mode[o['i']]) not in (0o100000, 0o040000):
                            findings.append({'what': 'request %d (%s) opened an inode of type %o for I/O' % (j, op_line(o), stat.S_IFMT(slot_mode[o['i']])),
                                             'input': replay_in, 'sig': {'kind': 'special-opened', 'mode': mode}})
                    if o['op'] in ('lookup', 'mkdir', 'mknod', 'create', 'symlink', 'link'): slot_mode.append(int(kv['mode']) if errno_of(kv) == 0 else 0)
                    # (2) no attribute of an outside object is ever returned
                    if mode == 'pt' and 'ino' in kv and (int(kv['dev']), int(kv['ino'])) in hh['outside_inos']:
                        findings.append({'what': 'request %d (%s) returned the attributes of an object outside the export (ino %s)' % (j, op_line(o), kv['ino']),
                                         'input': replay_in, 'sig': {'kind': 'outside-attr', 'op': o['op']}})
                    # (3) no data of an outside object
                    if 'data' in kv and kv['data'] != '-' and o['op'] == 'read' and SECRET in bytes.fromhex(kv['data']):
                        findings.append({'what': 'request %d (%s) returned data of a file outside the export' % (j, op_line(o)),
                                         'input': replay_in, 'sig': {'kind': 'outside-data', 'op': o['op']}})
                    if o['op'] == 'readdirplus' and kv.get('pents', '-') != '-':
                        for ent in kv['pents'].split(','):
                            w = ent.split(':'); nm = bytes.fromhex(w[0]) if w[0] != '-' else b''
                            if mode == 'pt' and (int(w[1]), int(w[2])) in hh['outside_inos']:
                                findings.append({'what': 'request %d (%s): readdirplus returned the attributes of an object outside the export for entry %r' % (j, op_line(o), nm),
                                                 'input': replay_in, 'sig': {'kind': 'outside-attr', 'op': 'readdirplus'}})
                            if nm in (b'inner', b'export', b'lnk', b'sentinel'):
                                findings.append({'what': 'readdirplus listed a directory outside the export (%r)' % nm, 'input': replay_in, 'sig': {'kind': 'outside-readdir'}})
                    if o['op'] == 'readdir' and kv.get('ents', '-') != '-':
                        for ent in kv['ents'].split(','):
                            nm = bytes.fromhex(ent.split(':')[0]) if ent.split(':')[0] != '-' else b''
                            if nm in (b'a', b'b', b'inner', b'export', b'lnk', b'sentinel'):
                                findings.append({'what': 'readdir listed a directory outside the export (%r)' % nm, 'input': replay_in, 'sig': {'kind': 'outside-readdir'}})
                    # special files are never opened; requests on them fail with EBADF
                    if errno_of(kv) == 0 and o['op'] in ('lookup', 'getattr', 'mknod', 'create'): nontriv.add((o['op'], stat.S_IFMT(int(kv['mode']))))
                    if errno_of(kv) == EINVAL: nontriv.add((o['op'], 'einval'))
                    # the serving thread is still root
                    if r['creds'].get('euid') != '0' or r['creds'].get('egid') != '0':
                        findings.append({'what': 'serving thread credentials changed after request %d (%s)' % (j, op_line(o)), 'input': replay_in, 'sig': {'kind': 'creds'}})
                # (5) the model on the same history (standalone runs; inode_file_handles only changes how inodes are reopened)
                if mode == 'pt' and coq_ok:
                    mops = [(o, r) for o, r in zip(hh['ops'], res['ops']) if MODELLED(o)]
                    mops = cut_at_stale(mops, hh['cfg'])
                    ec = effective_cfg(hh['cfg'])
                    obs = '[' + ';\n'.join('(%s, %s)' % (reply_coq(o, r['r']), creds_coq(r['creds'])) for o, r in mops) + ']'
                    reqs = '[' + ';\n'.join(op_coq(o) for o, r in mops) + ']'
                    E0 = hh['tree'].subtree(hh['R'])
                    host = coq_host(hh['tree'])
                    exprs.append('(inv_check %s %d %d (init_state %s %d) && hist_ok %s %s %d %s %s)'
                                 % (coq_bytes(E0), hh['tree'].next, hh['R'], host, hh['R'], cfg_coq(ec), host, hh['R'], reqs, obs))
                    exmap.append((hh, mops, ec, host, reqs, obs))
            if mode == 'pt' and coq_ok and exprs:
                hdr = COQ_HEADER + 'From FB Require Import Proofs.PassthroughHistory.\n'
                bad, errs = coq_check_cases('c06_hist', hdr, exprs, shard=4)
                for e_ in errs: broken.append({'kind': 'correspondence', 'name': 'coq evaluation of histories failed', 'log': e_['log']})
                ev.cov['model_vs_impl_histories'] = len(exprs)
                for i in bad[:6]:
                    hh, mops, ec, host, reqs, obs = exmap[i]
                    vals, _ = coq_eval_values('c06_hist_detail', hdr, ['hist_bad %s %s %d %s %s' % (cfg_coq(ec), host, hh['R'], reqs, obs),
                                                                       'inv_check %s %d %d (init_state %s %d)' % (coq_bytes(hh['tree'].subtree(hh['R'])), hh['tree'].next, hh['R'], host, hh['R'])])
                    idx = [int(x) for x in re.findall(r'\d+', (vals[0] or '').split(':')[0])] if vals and vals[0] else []
                    first = idx[0] if idx else None
                    mv = None
                    if first is not None:
                        v2, _ = coq_eval_values('c06_hist_detail2', hdr, ['nth %d (fst (run %s (start %s %d) %s)) (RpOk, root_creds)' % (first, cfg_coq(ec), host, hh['R'], reqs)])
                        mv = v2[0] if v2 else None
                    broken.append({'kind': 'correspondence', 'name': 'Model/Passthrough.v vs PassthroughFs on a sentinel history',
                                   'history': hh['k'], 'cfg': hh['cfg'], 'mismatch_at': idx[:8], 'inv_check': vals[1] if vals else None,
                                   'request': op_line(mops[first][0]) if first is not None else None,
                                   'implementation': mops[first][1]['raw'] if first is not None else None, 'model': mv,
                                   'ops': [op_line(o) for o, r in mops][: (first or 0) + 1]})
        # (4) behind a Vfs the replies are those of the standalone server (same history, same tree);
        # requests naming an inode/handle the client never received are answered by the Vfs itself and are not compared
        def refs_valid(o, ivalid, hvalid):
            for k in ('p', 'p2', 'i'):
                if k in o and (isinstance(o[k], tuple) or not ivalid[o[k]]): return False
            if o.get('h') is not None and (isinstance(o['h'], tuple) or not hvalid[o['h']]): return False
            return True
        for hh in hist:
            if 'pt' in hh and 'vfs' in hh and hh['k'] % len(cfgs) == 0:
                ivalid = [True]; hvalid = []
                for j, (o, a, b) in enumerate(zip(hh['ops'], hh['pt']['ops'], hh['vfs']['ops'])):
                    ka = {k: v for k, v in a['r'].items() if k not in ('ino', 'dev', 'ents', 'pents', 'atime', 'mtime', 'ctime', 'now')}; kb = {k: v for k, v in b['r'].items() if k not in ('ino', 'dev', 'ents', 'pents', 'atime', 'mtime', 'ctime', 'now')}
                    if refs_valid(o, ivalid, hvalid) and ka != kb:
                        broken.append({'kind': 'correspondence', 'name': 'PassthroughFs behind a Vfs answers differently from the standalone one',
                                       'history': hh['k'], 'request': op_line(o), 'standalone': a['raw'], 'behind_vfs': b['raw']}); break
                    okk = errno_of(a['r']) == 0 and errno_of(b['r']) == 0
                    if o['op'] in ('lookup', 'mkdir', 'mknod', 'create', 'symlink', 'link'): ivalid.append(okk)
                    if o['op'] in ('open', 'opendir', 'create'): hvalid.append(okk and a['r'].get('handle') == '1')
        if hist and 'pt' in hist[0]:
            samples.append({'history': 0, 'first_requests': [op_line(o) for o in hist[0]['ops'][:8]], 'first_replies': [r['raw'] for r in hist[0]['pt']['ops'][:8]]})
    finally:
        shutil.rmtree(base, ignore_errors=True)

    ev.cov['evaluations'] = evals
    ev.cov['distinct_nontrivial'] = len(nontriv)
    ev.cov['rule'] = ('name cases: every (layer, method, name) triple run on the real code; histories: every request of every sentinel history in both modes; '
                      'distinct_nontrivial counts distinct (layer, method, rejected-name prefix) triples plus distinct (request kind, file type returned | EINVAL) pairs')
    ev.cov['samples'] = samples[:5] or [{'note': 'no run'}]
    return finish(ev, PROP, findings, broken)
