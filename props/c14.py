"""C14 -- UID/GID mapping translates every id crossing the VFS, per mount, both ways."""
import os, sys, json, re, random
from vlib import *
from vfs_common import *
import vfs_src, c07
from c07 import target_of, okmount, mkf

PROP = 'C14'

def gmap_of(cfg):
    g = cfg['gmap']
    return None if (g is None or g[2] == 0) else tuple(g)

def mapping_of(case, ref, idx):
    """the mapping that belongs to the mount in slot idx: its own if it was given one, else the global one"""
    own = ref['mapping_of'].get(idx)
    return tuple(own) if own is not None else gmap_of(case.cfg)

def ids_fit(m, *vals):
    """no u32 overflow can occur translating vals with m (the property's well-formedness side condition)"""
    return map_wf(m) and all(v < U32 for v in vals)

# ------------------------------------------------------------------ the property predicate on observations
def predicate(case, i, tb, stale_candidates):
    st, o, ref = case.steps[i], case.obs[i], case.ref_hist[i]
    if st['k'] == 'R' and o['status'] == 'panic' and not os.environ.get('VFS_AUDIT6_OFF') and st['ino'] != ROOT_INO and st['op'] not in ('rename', 'link', 'batch_forget'):
        # translation must not fail on a well-formed mapping: every id is u32 and internal+range, external+range <= 2^32, so
        # there-and-back stays within u32 (C14_remap_algebra); a panic here is an arithmetic overflow of the translation
        t1 = target_of(ref, st['ino'])
        if t1[0] == 'backend' and st['hdr'] == st['ino']:
            M = mapping_of(case, ref, t1[3])
            if M is not None and map_wf(M) and M[2] > 0:
                return [('request panicked on backend %d (slot %d) although its mapping %s is well-formed; caller ids %s, ids to set %s, ids answered %s' % (
                    t1[1], t1[3], M, [st['uid'], st['gid']], [st['auid'], st['agid']], [st['ans']['ent']['uid'], st['ans']['ent']['gid'], st['ans']['attr']['uid'], st['ans']['attr']['gid']]),
                    dict(kind='panic-wf-mapping', op=st['op']))]
    if st['k'] != 'R' or o['status'] in ('panic', 'skipped'): return []
    op = st['op']; bad = []
    G = gmap_of(case.cfg)
    t1 = target_of(ref, st['ino'])
    def classify(M, pairs, base):
        """pairs: (observed, function of a mapping giving the expected value). If the mount has no mapping of its own and
        every pair is explained by a mapping that an earlier mount call left behind, it is the stale-slot defect"""
        own = ref['mapping_of'].get(t1[3]) if t1[0] == 'backend' else None
        if t1[0] == 'backend' and own is None:
            for X in stale_candidates:
                # the whole request (context ids included) behaves as under X, and not as under M
                if X != M and all(obs == f(X) for obs, f in pairs) and any(obs != f(M) for obs, f in pairs[:2]) and any(f(X) != f(None) for obs, f in pairs): return dict(kind='stale-slot-mapping')
        return base
    if t1[0] == 'backend':
        idx = t1[3]; M = mapping_of(case, ref, idx)
        if op in ('rename', 'link'):
            t2 = target_of(ref, st['ino2'])
            if t2[0] != 'backend' or t2[3] != idx: return bad
        # ---- in: what the backend sees
        for e in o['events']:
            if op == 'batch_forget': continue
            if not ids_fit(M, st['uid'], st['gid'], st['auid'], st['agid']): continue
            pairs = [(e['cuid'], lambda X: to_int(X, st['uid'])), (e['cgid'], lambda X: to_int(X, st['gid']))]
            if op == 'setattr':
                # an owner id is "to be set" when its FATTR bit is in the request (st['size'] carries the valid bits)
                if st['size'] & FATTR_UID: pairs.append((e['suid'], lambda X: to_int(X, st['auid'])))
                if st['size'] & FATTR_GID: pairs.append((e['sgid'], lambda X: to_int(X, st['agid'])))
            if any(obs != f(M) for obs, f in pairs):
                base = dict(kind='in', op=op)
                if st['ino'] == ROOT_INO and all(obs == f(G) for obs, f in pairs[:2]) and (op != 'setattr' or all(obs == f(M) for obs, f in pairs[2:])):
                    base = dict(kind='root-mount-ctx')       # nodeid 1 of a root mount: context translated with the global mapping
                sig = classify(M, pairs, base)
                bad.append(('backend %d (slot %d, mapping %s) saw ids %s for external %s' % (e['bid'], idx, M, [p[0] for p in pairs],
                            [st['uid'], st['gid']] + ([st['auid'], st['agid'], 'valid=%d' % st['size']] if op == 'setattr' else [])), sig))
        # ---- out: what the client sees
        if o['status'] == 'ok' and o['events']:
            outs = []
            a = st['ans']
            if (op in ('lookup', 'link') or op in tb.entry_ops) and len(o['vals']) == 5:
                outs.append((o['vals'][2], o['vals'][3], a['ent']['uid'], a['ent']['gid'], 'entry'))
            elif op in ('getattr', 'setattr'):
                outs.append((o['vals'][1], o['vals'][2], a['attr']['uid'], a['attr']['gid'], 'attr'))
            elif op == 'readdirplus':
                for d, (dino, k, de) in zip(o['dir'], a['dir']):
                    outs.append((d['entry']['uid'], d['entry']['gid'], de['uid'], de['gid'], 'readdirplus entry'))
            for ou, og, bu, bg, what in outs:
                if not ids_fit(M, bu, bg): continue
                pairs = [(ou, lambda X, bu=bu: to_ext(X, bu)), (og, lambda X, bg=bg: to_ext(X, bg))]
                if any(obs != f(M) for obs, f in pairs):
                    sig = classify(M, pairs, dict(kind='out', op=op))
                    bad.append(('%s of %s: client got uid/gid %d/%d for backend %d/%d under mapping %s (slot %d)' % (what, op, ou, og, bu, bg, M, idx), sig))
    elif t1[0] == 'pseudo' and o['status'] == 'ok':
        # owner ids of pseudo directories (internal 0:0) and of mount roots reached by crossing
        def mount_root_of(x):
            ix, ino = decode(x)
            for m in ref['mounts'].values():
                if m['idx'] == ix and m['root'] == ino and ix != 0: return m
            return None
        outs = []
        if op == 'lookup' and len(o['vals']) == 5: outs.append((o['vals'][0], o['vals'][2], o['vals'][3], 'lookup'))
        elif op == 'getattr' and len(o['vals']) == 4: outs.append((o['vals'][0], o['vals'][1], o['vals'][2], 'getattr'))
        elif op == 'readdirplus':
            for d in o['dir']: outs.append((d['entry']['ino'], d['entry']['uid'], d['entry']['gid'], 'readdirplus'))
        for x, ou, og, what in outs:
            m = mount_root_of(x)
            if m is not None:
                M = mapping_of(case, ref, m['idx'])
                if not ids_fit(M, m['root_uid'], m['root_gid']): continue
                pairs = [(ou, lambda X, m=m: to_ext(X, m['root_uid'])), (og, lambda X, m=m: to_ext(X, m['root_gid']))]
                if any(obs != f(M) for obs, f in pairs):
                    base = dict(kind='mount-root', op=what)
                    if what == 'lookup' and M is not None and all(obs == to_ext(M, f(M)) for obs, f in pairs if ids_fit(M, f(M))):
                        base = dict(kind='mount-root-translated-twice', op='lookup')
                    own = ref['mapping_of'].get(m['idx'])
                    if own is None:
                        for X in stale_candidates:
                            if X != M and (all(obs == f(X) for obs, f in pairs) or (what == 'lookup' and ids_fit(X, *[f(X) for _, f in pairs]) and all(obs == to_ext(X, f(X)) for obs, f in pairs))):
                                base = dict(kind='stale-slot-mapping')
                    bad.append(('%s of mount root %s: client got %d/%d for backend owner %d/%d under mapping %s' % (what, m['path']['s'], ou, og, m['root_uid'], m['root_gid'], M), base))
            elif decode(x)[0] == 0 and x != 0:
                if not ids_fit(G, 0): continue
                if (ou, og) != (to_ext(G, 0), to_ext(G, 0)):
                    sig = dict(kind='pseudo-untranslated', op=what)
                    if st.get('mode') in ('a', 'y'): sig['entry'] = 'async'
                    bad.append(('%s%s of pseudo directory %d: client got %d/%d, internal owner 0/0 under the global mapping %s is %d' % ('async ' if 'entry' in sig else '', what, x, ou, og, G, to_ext(G, 0)), sig))
    return bad

# ------------------------------------------------------------------ scenarios
def new_case(sess, rng, tb, **over):
    g = None
    if rng.random() < 0.7: g = gen_mapping(rng)
    cfg = {'gmap': g, 'rm': int(rng.random() < 0.5), 'no_open': int(rng.random() < 0.3), 'no_opendir': int(rng.random() < 0.3),
           'no_writeback': int(rng.random() < 0.2), 'killpriv_v2': int(rng.random() < 0.2), 'no_readdir': int(rng.random() < 0.2), 'seal_size': int(rng.random() < 0.2)}
    cfg.update(over)
    return Case(sess, cfg, tb)

def sweep_ops(g, nodeid, tb, maps):
    """every operation once on nodeid, ids at the edges of the mappings in play"""
    ops = ['lookup', 'getattr', 'setattr', 'link', 'rename', 'readdir', 'readdirplus', 'forget'] + tb.fwd
    for op in ops:
        if g.c.dead: return
        kw = {}
        if op in ('link', 'rename'): kw['ino2'] = (nodeid & ~MAX_INO) | 2 if nodeid != ROOT_INO else ROOT_INO
        a = mk_ans(ent=g.ent(0), attr={'ino': 3, 'uid': pick_id(g.rng, maps), 'gid': pick_id(g.rng, maps), 'tag': 1}, tag=1)
        if op == 'readdirplus': a['dir'] = [(5, 7, g.ent(0)), (6, 8, g.ent(0))]
        a['ent']['ino'] = a['ent']['stino'] = 9
        g.request(op, nodeid, name=('norm', 3), name2=('norm', 4), ans=a, uid=pick_id(g.rng, maps), gid=pick_id(g.rng, maps),
                  auid=pick_id(g.rng, maps), agid=pick_id(g.rng, maps), size=4096, offset=0, limit=10, **kw)

def setattr_block(g, nodeid, M):
    """SETATTR x valid bits {UID only, GID only, both, neither, each with MODE/SIZE} x ids {both edges of the external range,
    just outside, 0, u32::MAX}, uid and gid always different, on a backend inode whose mount has mapping M (None: ids
    around 1000)"""
    i, e, r = M if M is not None else (0, 1000, 1000)
    ids = [e, min(e + r - 1, U32 - 1), max(e - 1, 0), min(e + r, U32 - 1), 0, U32 - 1]
    for valid in SETATTR_VALID:
        for k in range(len(ids)):
            if g.c.dead: return
            a = mk_ans(attr={'ino': 3, 'uid': i, 'gid': min(i + max(r, 1) - 1, U32 - 1), 'tag': 1})
            g.request('setattr', nodeid, auid=ids[k], agid=ids[(k + 1) % len(ids)], size=valid, uid=ids[(k + 2) % len(ids)], gid=ids[(k + 3) % len(ids)], ans=a)

def async_ids_block(g, tb, targets, M):
    """each async operation on each target with caller ids / owner ids at the edges of mapping M (both directions)"""
    i, e, r = M if M is not None else (0, 1000, 1000)
    ext = [e, min(e + r - 1, U32 - 1), max(e - 1, 0), min(e + r, U32 - 1)]
    inn = [i, min(i + r - 1, U32 - 1), max(i - 1, 0), min(i + r, U32 - 1)]
    k = 0
    for x in targets:
        for op in tb.async_ops:
            if g.c.dead: return
            k += 1
            ent = {'ino': 21, 'stino': 21, 'uid': inn[k % 4], 'gid': inn[(k + 1) % 4], 'tag': 4}
            g.request(op, x, mode='ay'[k % 2], name=('norm', 3), uid=ext[k % 4], gid=ext[(k + 2) % 4], auid=ext[(k + 1) % 4], agid=ext[(k + 3) % 4],
                      size=[FATTR_UID, FATTR_GID, FATTR_UID | FATTR_GID][k % 3] if op == 'setattr' else 4096, offset=0,
                      ans=mk_ans(ent=ent, attr={'ino': 9, 'uid': inn[(k + 2) % 4], 'gid': inn[(k + 3) % 4], 'tag': 2}, tag=7))

def sc_sweep(sess, rng, tb, **over):
    """global / per-mount / no mapping, overlapping and disjoint ranges; every operation on a mount with its own mapping,
    on one without, on the pseudo fs and across mount points"""
    m1 = over.pop('m1', None) or gen_mapping(rng)
    c = new_case(sess, rng, tb, **over); g = HistoryGen(c, rng, use_maps=True)
    g.maps_in_play.append(m1)
    st1, o1 = g.mount(path=mk_path(rng, [('N', 1)]), map=m1, ans=dict(okmount(rng), **({'uid': pick_id(rng, [m1, c.cfg['gmap']]), 'gid': pick_id(rng, [m1, c.cfg['gmap']])} if os.environ.get('VFS_NO_DET') else {'uid': m1[0], 'gid': m1[0] + m1[2] - 1})))   # root owner at both ends of the mount's internal range
    gm = gmap_of(c.cfg)
    u2 = {'uid': pick_id(rng, [c.cfg['gmap']]), 'gid': pick_id(rng, [c.cfg['gmap']])} if (gm is None or os.environ.get('VFS_NO_DET')) else {'uid': gm[0], 'gid': gm[0] + gm[2] - 1}
    st2, o2 = g.mount(path=mk_path(rng, [('N', 2), ('N', 3)]), map=None, ans=dict(okmount(rng), **u2))    # owner inside the global mapping's internal range
    for o_, M_ in ((o1, m1), (o2, gmap_of(c.cfg))):
        if o_['status'] == 'ok':
            sweep_ops(g, (o_['vals'][0] << 56) | 1, tb, g.maps_in_play)
            if not os.environ.get('VFS_NO_DET'): setattr_block(g, (o_['vals'][0] << 56) | 1, M_)
            if not os.environ.get('VFS_NO_ASYNC'): async_ids_block(g, tb, [(o_['vals'][0] << 56) | 1, (o_['vals'][0] << 56) | 33], M_)
    sweep_ops(g, ROOT_INO, tb, g.maps_in_play)
    sweep_ops(g, 3, tb, g.maps_in_play)
    if not os.environ.get('VFS_NO_ASYNC'):
        # async entry points on pseudo inodes, a vacant slot and an inode of an unmounted file system
        st3, o3 = g.mount(path=mk_path(rng, [('N', 9)], noise=False), map=m1, ans=okmount(rng))
        g.umount(mk_path(rng, [('N', 9)], noise=False))
        stale = [(o3['vals'][0] << 56) | 1] if o3['status'] == 'ok' else []
        async_ids_block(g, tb, [ROOT_INO, 2, 3, (77 << 56) | 1] + stale, gmap_of(c.cfg))
    if not c.dead: c07.probe_mount_paths(g, c, [])       # lookups / readdirplus / getattr across the mount points
    return c

def sc_degenerate(sess, rng, tb, maps, G=(0, 1000, 65536)):
    """a non-empty global mapping G and mounts whose own mapping is degenerate (empty range, identity, range 1, huge range,
    overflowing): the mount's own mapping wins even when it translates nothing, so ids inside the GLOBAL range pass
    untranslated on those mounts"""
    c = new_case(sess, rng, tb, gmap=G, rm=0); g = HistoryGen(c, rng, use_maps=True)
    g.maps_in_play += list(maps)
    for k, D in enumerate(maps):
        if c.dead: break
        st, o = g.mount(path=mk_path(rng, [('N', 60 + k)], noise=False), map=D, ans=dict(okmount(rng), uid=G[0] + 5, gid=G[0] + G[2] - 1))
        if o['status'] != 'ok': continue
        x = (o['vals'][0] << 56) | 1
        async_ids_block(g, tb, [x], G)                  # caller / owner ids at the edges of the GLOBAL mapping, sync twin below
        for op in ('lookup', 'getattr', 'mkdir', 'readdirplus'):
            if c.dead: break
            e = {'ino': 31, 'stino': 31, 'uid': G[0] + 7, 'gid': G[0] + G[2] - 1, 'tag': 2}
            g.request(op, x, mode='s', name=('norm', 3), uid=G[1] + 7, gid=G[1] + G[2] - 1, size=4096, offset=0, limit=10,
                      ans=mk_ans(ent=e, attr={'ino': 9, 'uid': G[0], 'gid': G[0] + 9, 'tag': 2}, dir=[(31, 7, e)]))
        setattr_block(g, x, G)
        if D[2] > 1000 and map_wf(D): setattr_block(g, x, D)      # ids at both ends of the mount's OWN (large) range, both directions
    if not c.dead: c07.probe_mount_paths(g, c, [])      # mount roots through lookup / readdirplus / getattr
    return c

def sc_rootmount(sess, rng, tb):
    c = new_case(sess, rng, tb); g = HistoryGen(c, rng, use_maps=True)
    m1 = gen_mapping(rng) if rng.random() < 0.7 else None
    if m1: g.maps_in_play.append(m1)
    g.mount(path=mk_path(rng, [], noise=False), map=m1, ans=dict(okmount(rng, 1), uid=pick_id(rng, g.maps_in_play), gid=pick_id(rng, g.maps_in_play)))
    sweep_ops(g, ROOT_INO, tb, g.maps_in_play)
    if not c.dead and not os.environ.get('VFS_NO_DET'): setattr_block(g, ROOT_INO, m1 if m1 else gmap_of(c.cfg))
    if not c.dead and not os.environ.get('VFS_NO_ASYNC'): async_ids_block(g, tb, [ROOT_INO], m1 if m1 else gmap_of(c.cfg))
    for _ in range(10):
        if c.dead: break
        g.random_step()
    return c

def sc_overmount_reuse(sess, rng, tb):
    """a mount with its own mapping is over-mounted; 255 mounts later its slot is handed to a mount without a mapping"""
    c = new_case(sess, rng, tb, rm=0); g = HistoryGen(c, rng, use_maps=True)
    m1 = gen_mapping(rng); g.maps_in_play.append(m1)
    p = mk_path(rng, [('N', 1)], noise=False)
    g.mount(path=p, map=m1, ans=okmount(rng))
    g.mount(path=p, map=None, ans=okmount(rng))                     # over-mount: slot 1 vacated
    q = mk_path(rng, [('N', 2)], noise=False)
    for j in range(253):
        g.mount(path=q, map=None, ans=okmount(rng)); g.umount(q)
    st, o = g.mount(path=mk_path(rng, [('N', 3)], noise=False), map=None, ans=dict(okmount(rng), uid=pick_id(rng, g.maps_in_play), gid=pick_id(rng, g.maps_in_play)))
    if o['status'] == 'ok':
        sweep_ops(g, (o['vals'][0] << 56) | 1, tb, g.maps_in_play)
        sweep_ops(g, ROOT_INO, tb, g.maps_in_play)
        if not c.dead: c07.probe_mount_paths(g, c, [])
    return c

def sc_failed_mount_reuse(sess, rng, tb):
    """a mount with a mapping fails after its index was allocated; the slot is reused after wrap-around"""
    c = new_case(sess, rng, tb, rm=0); g = HistoryGen(c, rng, use_maps=True)
    m1 = gen_mapping(rng); g.maps_in_play.append(m1)
    g.mount(path=mk_path(rng, [('N', 1)], rooted=False, noise=False), map=m1, ans=okmount(rng))      # EINVAL from the pseudo fs
    q = mk_path(rng, [('N', 2)], noise=False)
    for j in range(255):
        g.mount(path=q, map=None, ans=okmount(rng)); g.umount(q)
    st, o = g.mount(path=mk_path(rng, [('N', 3)], noise=False), map=None, ans=okmount(rng))
    if o['status'] == 'ok': sweep_ops(g, (o['vals'][0] << 56) | 1, tb, g.maps_in_play)
    return c

def sc_random(sess, rng, tb, nsteps, wf=True):
    c = new_case(sess, rng, tb); g = HistoryGen(c, rng, use_maps=True, wf_maps=wf)
    for _ in range(nsteps):
        if c.dead: break
        g.random_step()
    if not c.dead: c07.probe_mount_paths(g, c, [])
    return c

def sc_slot_reuse(sess, rng, tb):
    """umount then mount: the slot index comes back only after wrap-around; per-mount mappings come and go"""
    c = new_case(sess, rng, tb); g = HistoryGen(c, rng, use_maps=True)
    paths = [mk_path(rng, [('N', k)], noise=False) for k in (1, 2, 3)]
    for j in range(280):
        if c.dead: break
        p = rng.choice(paths)
        st, o = g.mount(path=p, ans=dict(okmount(rng), uid=pick_id(rng, g.maps_in_play), gid=pick_id(rng, g.maps_in_play)))
        if o['status'] == 'ok' and rng.random() < 0.25:
            x = (o['vals'][0] << 56) | 1
            g.request(rng.choice(['lookup', 'getattr', 'setattr', 'mkdir', 'readdirplus']), x)
        if rng.random() < 0.8: g.umount(p)
        if len(g.maps_in_play) > 6: g.maps_in_play = g.maps_in_play[:1] + g.maps_in_play[-4:]
    return c

def gen_cases(sess, rng, tb, tier):
    q = tier == 'quick'; cases = []
    # deterministic: the documented example mapping (covers internal id 0) as global mapping, and a per-mount mapping
    # whose external range overlaps its internal range (translating twice differs from translating once)
    cases.append(sc_sweep(sess, rng, tb, gmap=(0, 1000, 65536), m1=(1000, 2000, 65536)))
    for _ in range(9 if q else 100): cases.append(sc_sweep(sess, rng, tb))
    if not os.environ.get('VFS_NO_DET'):
        cases.append(sc_degenerate(sess, rng, tb, DEGENERATE_MAPS))
        for D in OVERFLOW_MAPS: cases.append(sc_degenerate(sess, rng, tb, [D]))
    for _ in range(8 if q else 50): cases.append(sc_rootmount(sess, rng, tb))
    for _ in range(1 if q else 6): cases.append(sc_overmount_reuse(sess, rng, tb))
    for _ in range(1 if q else 4): cases.append(sc_failed_mount_reuse(sess, rng, tb))
    for _ in range(1 if q else 8): cases.append(sc_slot_reuse(sess, rng, tb))
    for _ in range(20 if q else 250): cases.append(sc_random(sess, rng, tb, rng.randrange(10, 50)))
    for _ in range(5 if q else 40): cases.append(sc_random(sess, rng, tb, rng.randrange(10, 40), wf=False))
    for c in cases: c.finish()
    return cases

def stale_candidates_of(case, upto):
    """mappings handed to earlier mount calls that are not the mapping of a currently attached mount: over-mounted or failed"""
    out = []
    for st, o in zip(case.steps[:upto], case.obs[:upto]):
        if st['k'] == 'M' and st['map'] is not None: out.append(tuple(st['map']))
    return out

def run_check(tier, seed):
    ev = Evidence(PROP, tier, seed)
    ev.cov['checker_cmd'] = 'make -C coq Props/C14.vo (coqc 8.16.1, full .vo) + Print Assumptions audit; coqc Cases/c14_*.v (vm_compute of run_hist on recorded histories)'
    ev.cov['trusted_base'] = TRUSTED_COMMON + [
        'hand model coq/Model/{Pseudo,Vfs,VfsRun}.v (remap_id in u32 debug arithmetic, effective mapping per slot, id handling of every Vfs method, mount roots remapped at insertion, context remap by header nodeid): replayed in Coq on every recorded history and compared with the implementation (results, owner ids, Context and setattr ids logged by the backends)',
        'props/vfs_src.py -> coq/Gen/VfsTable.v (forwarded methods; Server::handle_message remaps the context by header nodeid right after building it: checked textually in src/api/server/{mod,sync_io}.rs)',
        'harness/src/bin/vfs.rs calls Vfs::id_remap_with_nodeid(ctx, header nodeid) before each method exactly as Server::remap_ctx_ids does; header nodeid per FUSE protocol (the inode argument; new parent for LINK; 0 for BATCH_FORGET)',
        'the caller-side reference state in props/vfs_common.py Case.track (which mapping was given to the mount now in each slot)',
    ]
    ev.assumptions = ['debug build: u32 overflow in remap_id panics (release builds wrap); the property is evaluated only for mappings with internal+range <= 2^32 and external+range <= 2^32',
                      'single-threaded histories']
    findings, broken = [], []
    tb = None
    try:
        t = vfs_src.generate(REPO, COQ, write_if_changed); tb = Tables(t)
        for e_ in t.get('errors', []): broken.append({'kind': 'translator', 'item': 'props/vfs_src.py', 'error': e_})
        ev.cov['translator_assumed_shapes'] = [m['name'] + ': ' + m['vfs']['shape'] for m in t['methods'] if m['vfs'] and str(m['vfs'].get('shape', '')).startswith('assumed')]
    except vfs_src.TranslateError as ex:
        broken.append({'kind': 'translator', 'item': 'props/vfs_src.py', 'error': str(ex)})
    import pure_tie; pure_tie.prepare(PROP, ev, broken)      # Gen/RustPure.v from the function bodies in REPO (PROP_src_* theorems)
    audit = std_audit(ev, PROP, broken)
    pure_tie.after_audit(PROP, broken)                         # a source tie broke: look for a concrete differing input
    okm, outm = coq_make(['Model/VfsRun.vo'])
    if not okm:
        es = coq_error_site(outm)
        broken.append({'kind': 'proof', 'theorem_or_lemma': es[2] if es else None, 'site': list(es[:2]) if es else None, 'message': es[3] if es else outm[-1500:]})
    ok, out, bindir = cargo_build(['vfs'], features=['persist', 'async-io'])     # same feature set as C19: the three checks share the binary
    if not ok:
        broken.append({'kind': 'harness-build', 'log': out[-3000:]})
        return finish(ev, PROP, findings, broken)
    if tb is None: return finish(ev, PROP, findings, broken)
    rng = random.Random(seed)
    sess = Session(bindir)
    cases = gen_cases(sess, rng, tb, tier)
    def evaluate(cases):
        n = 0
        for c in cases:
            maps_seen = []
            for i in range(len(c.steps)):
                st = c.steps[i]
                if st['k'] == 'R':
                    for what, sig in predicate(c, i, tb, maps_seen):
                        findings.append({'what': what, 'sig': sig, 'step': step_tok(st), 'observed': c.obs[i]['raw'], 'input': c.replay_obj(i)})
                    n += 1
                elif st['k'] == 'M' and st['map'] is not None and tuple(st['map']) not in maps_seen:
                    maps_seen.append(tuple(st['map']))
        return n
    evals = evaluate(cases)
    dis = []
    if audit['ok'] and okm: dis = check_model('c14', cases, ev, broken, shard=6)
    new_findings = [f for f in findings if finding_known(f, known_findings(PROP)) is None]
    rounds = 1
    if (dis or broken) and not new_findings:
        more = gen_cases(sess, random.Random(seed + 1), tb, 'thorough')
        evals += evaluate(more); cases += more; rounds = 2
    sess.close()
    for c, si in dis[:3]: broken.append(describe_disagreement('Model/VfsRun.v run_hist vs harness vfs', c, si))
    shapes = set()
    for c in cases:
        for st, o, ref in zip(c.steps, c.obs, c.ref_hist):
            if st['k'] == 'R' and o['status'] == 'ok':
                t = target_of(ref, st['ino'])
                own = ref['mapping_of'].get(t[3]) if t[0] == 'backend' else None
                shapes.add((st['op'], t[0], own is not None, gmap_of(c.cfg) is not None))
    ev.cov['evaluations'] = evals; ev.cov['histories'] = len(cases)
    ev.cov['distinct_nontrivial'] = len(shapes)
    ev.cov['rule'] = ('evaluations = requests on which the in/out translation predicate was evaluated; distinct_nontrivial = distinct (method, served by pseudo/backend, '
                      'mount has own mapping, global mapping configured) combinations that ended in success; ids drawn at i-1, i, i+r-1, i+r of every mapping in play; '
                      'histories include over-mount + 255-mount wrap-around slot reuse, failed mounts, root mounts; search rounds %d' % rounds)
    ev.cov['samples'] = [{'step': step_tok(c.steps[i]), 'observed': c.obs[i]['raw']} for c in cases[:2] for i in range(2, min(5, len(c.steps)))]
    seen = {}; uniq = []
    for f in findings:
        k = json.dumps(f.get('sig'), sort_keys=True)
        if k in seen: seen[k] += 1; continue
        seen[k] = 1; uniq.append(f)
    for f in uniq: f['count'] = seen[json.dumps(f.get('sig'), sort_keys=True)]
    return finish(ev, PROP, uniq, broken)

def replay(path):
    return replay_generic(PROP, path)
