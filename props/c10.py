"""C10 -- the overlay shows the overlayfs union of its layers and never modifies lowers."""
import os, sys, json, random
from vlib import *
import overlay_common as oc
import overlay_audit as oa

PROP = 'C10'

def classify(c, ob, k, spec, spec_ret=None):
    """finding for the first step k whose observed view differs from the ordinary-file-system step"""
    o = c['ops'][k]; b = ob['ops'][k]
    d = oc.diff_trees(oc.parse_ser(b.get('view')), oc.parse_ser(spec))
    up0 = oc.parse_ser(ob['ops'][k - 1]['upper'] if k else ob['raw'][0]); up1 = oc.parse_ser(b.get('upper'))
    sig = {'class': 'other', 'op': o['k']}
    if d and b['ret'] != 'panic' and all(x[1] == 'xattr-missing' for x in d) and \
            all(oc.tree_at(up1, x[0]) is not None and (x[0] == '' or oc.tree_at(up0, x[0]) is None or
                # a hard link to the source copied up by this very request, created over an upper whiteout
                (o['k'] == 'link' and x[0] == o.get('q') and oc.tree_at(up0, x[0])[0] == 'w' and any(y[0] == o['p'] for y in d)))
                for x in d):
        sig = {'class': 'copy-up-drops-xattrs'}
    # copy-up of a directory by mkdir(2) keeps 01777 only: the set-uid / set-gid bits of the lower directory are lost
    if d and b['ret'] != 'panic' and all(x[1] == 'mode' for x in d):
        ok_all = True
        for x in d:
            got = oc.tree_at(oc.parse_ser(b.get('view')), x[0]); want = oc.tree_at(oc.parse_ser(spec), x[0]); u0 = oc.tree_at(up0, x[0]); u1 = oc.tree_at(up1, x[0])
            if not (got and want and got[0] == 'd' and want[0] == 'd' and (want[1] & 0o6000) and got[1] == (want[1] & 0o1777) and u0 is None and u1 is not None):
                ok_all = False
        if ok_all: sig = {'class': 'copy-up-dir-drops-setid-bits'}
    # same defect seen through the result code: the attribute to remove was lost by the copy-up done for this very request
    if not d and o['k'] == 'removexattr' and b['ret'] == '61' and spec_ret == '' and \
            oc.tree_at(up1, o['p']) is not None and oc.tree_at(up0, o['p']) is None:
        sig = {'class': 'copy-up-drops-xattrs'}
    what = ('after %s %s (errno %s) the view differs from an ordinary file system step: %s'
            % (o['k'], o['p'], b['ret'], ', '.join('%s:%s' % (p or '/', kd) for p, kd in d[:6]) or 'result code/payload differs'))
    return {'what': what, 'sig': sig, 'input': oc.replay_input(c, k), 'observed_view': b.get('view'), 'expected_view': spec,
            'observed_result': [b['ret'], b['payload']]}

def analyse(cases, obs, bindir, tag, findings, broken, stats, combine=0):
    # layer-kind pattern cases (no operations): one combined evaluation each; a failure is split afterwards
    pats = [c for c in cases if oc.is_pattern(c)]
    cases = [c for c in cases if not oc.is_pattern(c)]
    pat_res = None
    if pats and not combine:
        pat_res = oc.eval_bools('c10_pat_' + tag, [oc.expr_pattern(c, obs[c['id']]) for c in pats])
    def after_patterns(pf, pe):
        if pe: broken.append({'kind': 'correspondence', 'name': 'Coq evaluation of the pattern cases failed', 'log': pe[0]['log']})
        stats['evals'] += len(pats); stats['tie_cases'] += len(pats); stats['patterns'] = stats.get('patterns', 0) + len(pats)
        bad = [pats[i] for i in sorted(pf)]
        if bad:
            uf, _ = oc.eval_bools('c10_patu_' + tag, [oc.expr_union(c, obs[c['id']]) for c in bad])
            for i, c in enumerate(bad):
                if i in uf:
                    if len([f for f in findings if f['sig'].get('class') == 'union']) < 12:
                        findings.append({'what': 'the initial view is not the overlayfs union of the layers (layer kinds top to bottom for name f: %s)' % c['id'][2:],
                                         'sig': {'class': 'union'}, 'input': oc.replay_input(c, -1), 'observed_view': obs[c['id']]['view0']})
                elif len([b for b in broken if b.get('kind') == 'correspondence']) < 5:
                    broken.append({'kind': 'correspondence', 'name': 'Model/Overlay.v scan vs OverlayFs on a pattern case', 'case': oc.replay_input(c, -1),
                                   'implementation': obs[c['id']]['view0']})
    # tie: model = implementation; property predicate on the implementation's observations: union of the initial view
    # (the 96 enumerated open-flag cases share two layer sets: the union of the initial view is evaluated once for each),
    # every step an ordinary-file-system step (with an upper layer); no upper layer: modifying operations fail and change
    # nothing (python, below), the others answer as a read-only file system
    uni = [i for i, c in enumerate(cases) if not oc.is_flagcase(c) or c['id'] in ('o1r', 'o0r')]
    up = [i for i, c in enumerate(cases) if c['upper']]
    noup = [i for i, c in enumerate(cases) if not c['upper']]
    ro_exprs = []
    for i in noup:
        c = cases[i]; ob = obs[c['id']]
        keep = [j for j, o in enumerate(c['ops']) if not oc.modifying(o)]
        c2 = dict(c, ops=[c['ops'][j] for j in keep]); ob2 = dict(ob, ops=[ob['ops'][j] for j in keep])
        ro_exprs.append(oc.expr_ordinary(c2, ob2))
    specs = [('c10_tie_' + tag, [oc.expr_tie(c, obs[c['id']]) for c in cases]),
             ('c10_uni_' + tag, [oc.expr_union(cases[i], obs[cases[i]['id']]) for i in uni]),
             ('c10_ord_' + tag, [oc.expr_ordinary(cases[i], obs[cases[i]['id']]) for i in up]),
             ('c10_ro_' + tag, ro_exprs)]
    if combine:
        # all evaluations of a case (and the pattern cases, spread evenly) sit next to each other in one list, cut into at most
        # `combine` coqc runs: the start-up of coqc - loading the model - costs more than evaluating a case
        specs.append(('c10_pat_' + tag, [oc.expr_pattern(c, obs[c['id']]) for c in pats]))
        scale = (len(cases) / len(pats)) if pats else 1
        def pos(si, li): return li if si == 0 else (uni, up, noup)[si - 1][li] if si < 4 else li * scale
        flat = sorted(((si, li, e) for si, (_, ex) in enumerate(specs) for li, e in enumerate(ex)), key=lambda x: (pos(x[0], x[1]), x[0]))
        f, e = oc.eval_bools('c10_all_' + tag, [x[2] for x in flat], shard=max(1, -(-len(flat) // combine)))
        res = [(set(), e) for _ in specs]
        for i in f: res[flat[i][0]][0].add(flat[i][1])
        pat_res = res.pop()
    else:
        res = [oc.eval_bools(n, ex) for n, ex in specs]
    if pats: after_patterns(*pat_res)
    (tie_fail, errs), (uni_fail, e2), (ord_fail, e3), (ro_fail, e4) = res
    if errs: broken.append({'kind': 'correspondence', 'name': 'Coq evaluation of the cases failed', 'log': errs[0]['log']})
    uni_fail = set(uni[i] for i in uni_fail)
    ord_fail = set(up[i] for i in ord_fail)
    if (e2 or e3 or e4) and not (combine and errs): broken.append({'kind': 'correspondence', 'name': 'Coq evaluation of the predicate failed', 'log': (e2 or e3 or e4)[0]['log']})
    ro_fail = set(noup[i] for i in ro_fail)
    pred_fail = set()
    for i, c in enumerate(cases):
        ob = obs[c['id']]
        stats['evals'] += len(c['ops']) + 1
        stats['shapes'].add(oc.shape(c, ob))
        for o, b in zip(c['ops'], ob['ops']): stats['hist'][o['k'] + ':' + b['ret']] = stats['hist'].get(o['k'] + ':' + b['ret'], 0) + 1
        if ob['lowerchg']:
            j, layer, new = ob['lowerchg'][0]
            findings.append({'what': 'lower layer %d changed on disk during %s %s' % (layer, c['ops'][j]['k'], c['ops'][j]['p']),
                             'sig': {'class': 'lower-modified', 'op': c['ops'][j]['k']}, 'input': oc.replay_input(c, j),
                             'lower_before': ob['raw'][layer], 'lower_after': new})
            pred_fail.add(i)
        if not c['upper']:
            for j, (o, b) in enumerate(zip(c['ops'], ob['ops'])):
                if (oc.modifying(o) and b['ret'] == '0') or ('view' in b and b['view'] != ob['view0']):
                    findings.append({'what': 'without an upper layer %s %s returned %s / the view changed' % (o['k'], o['p'], b['ret']),
                                     'sig': {'class': 'no-upper-modified', 'op': o['k']}, 'input': oc.replay_input(c, j)})
                    pred_fail.add(i); break
            if i in ro_fail:
                findings.append({'what': 'without an upper layer a read-only operation answers differently from the union of the lowers',
                                 'sig': {'class': 'no-upper-read', 'op': '?'}, 'input': oc.replay_input(c)})
                pred_fail.add(i)
        if i in uni_fail:
            findings.append({'what': 'the initial view is not the overlayfs union of the layers', 'sig': {'class': 'union'},
                             'input': oc.replay_input(c, -1), 'observed_view': ob['view0']})
            pred_fail.add(i)
    # locate and classify the failing ordinary-file-system steps (re-run with a dump after every operation)
    todo = [cases[i] for i in sorted(ord_fail)]
    if todo:
        re_cases = [oc.with_all_dumps(c) for c in todo]
        obs2 = oc.run_harness(re_cases, bindir, tag + 'r')
        re_cases = [c for c in re_cases if obs2.get(c['id']) and len(obs2[c['id']]['ops']) == len(c['ops'])]
        for c, loc in zip(re_cases, oc.locate_ordinary('c10_loc_' + tag, re_cases, obs2)):
            if loc is None or loc == 'error':
                findings.append({'what': 'ordinary-file-system predicate fails but the failing step could not be located', 'sig': {'class': 'other', 'op': '?'},
                                 'input': oc.replay_input(c)})
                continue
            k, (spec, spec_ret) = loc
            f = classify(c, obs2[c['id']], k, spec, spec_ret); f['expected_result'] = spec_ret
            findings.append(f)
        pred_fail |= ord_fail
    tie_only = [cases[i] for i in sorted(tie_fail) if i not in pred_fail][:8]
    if tie_only:
        for c, loc in zip(tie_only, oc.locate_tie('c10_tieloc_' + tag, tie_only, obs)):
            ob = obs[c['id']]
            k = loc[0] if isinstance(loc, tuple) else None
            broken.append({'kind': 'correspondence', 'name': 'Model/Overlay.v step vs OverlayFs', 'case': oc.replay_input(c, k),
                           'first_differing_op': k, 'implementation': (ob['ops'][k] if k is not None and k < len(ob['ops']) else ob['view0']),
                           'model': loc[1] if isinstance(loc, tuple) else loc})
    stats['tie_cases'] += len(cases)

def audit_blocks(tier, bindir, findings, broken, stats):
    """deterministic blocks of the coverage audit (props/overlay_audit.py)"""
    # entry points / request fields / cells without a model operation: the property's own predicates
    free = oa.free_cases(PROP, False)
    fobs = oc.run_harness(free, bindir, 'c10f')
    f2, b2 = oa.analyse_free(PROP, free, fobs)
    findings.extend(f2); broken.extend(b2)
    stats['evals'] += sum(len(c['ops']) + 1 for c in free); stats['audit_free_ops'] = sum(len(c['ops']) for c in free)
    # configuration cells and the large directory through the model (every cell is the same state transformer)
    cells = oa.cell_cases(PROP, False, full=(tier == 'thorough')) + oa.bigdir_cases(PROP, False) + oa.root_cases(PROP, False)
    cobs = oc.run_harness(cells, bindir, 'c10g')
    good = []
    for c in cells:
        ob = cobs.get(c['id'])
        if (not ob or not ob.get('done') or ob['flags'] or len(ob['ops']) != len(c['ops']) or any(oc.ser(t) != ob['raw'].get(k) for k, t in c['layers'].items())):
            broken.append({'kind': 'harness', 'name': 'audit block: harness output incomplete or layers not materialised', 'case': c['id']})
        else: good.append(c)
    stats['audit_cells'] = len(good)
    # the root inode as target (seed C10f): {upper, no upper} x {1..3 lowers} x {root xattrs in no layer / the lowers / the upper};
    # all predicates (lower dumps unchanged, nothing succeeds or changes without upper, union, ordinary file system) and the model
    roots = [c for c in good if c['id'][0] == 'r']; good = [c for c in good if c['id'][0] != 'r']
    stats['audit_root_cases'] = len(roots)
    import time; t1 = time.time()
    analyse(roots, cobs, bindir, 'r', findings, broken, stats, combine=6)
    log('C10   root block (%d cases) evaluated in %.1f s' % (len(roots), time.time() - t1))
    if tier == 'thorough':
        analyse(good, cobs, bindir, 'g', findings, broken, stats)
        return
    for c in good:
        ob = cobs[c['id']]
        if ob['lowerchg']:
            j, layer, new = ob['lowerchg'][0]
            findings.append({'what': 'lower layer %d changed on disk during %s %s (cfg=%s)' % (layer, c['ops'][j]['k'], c['ops'][j]['p'], c.get('cfg')),
                             'sig': {'class': 'lower-modified', 'op': c['ops'][j]['k']}, 'input': oc.replay_input(c, j)})
    tie_fail, errs = oc.eval_bools('c10_cells', [oc.expr_tie(c, cobs[c['id']]) for c in good])
    if errs: broken.append({'kind': 'correspondence', 'name': 'Coq evaluation of the configuration-cell cases failed', 'log': errs[0]['log']})
    bad = [good[i] for i in sorted(tie_fail)][:6]
    if bad:
        for c, loc in zip(bad, oc.locate_tie('c10_cellloc', bad, cobs)):
            ob = cobs[c['id']]; k = loc[0] if isinstance(loc, tuple) else None
            broken.append({'kind': 'correspondence', 'name': 'configuration cell cfg=%s: Model/Overlay.v step vs OverlayFs' % c.get('cfg'), 'case': oc.replay_input(c, k),
                           'first_differing_op': k, 'implementation': (ob['ops'][k] if k is not None and k < len(ob['ops']) else ob['view0']),
                           'model': loc[1] if isinstance(loc, tuple) else loc})
    stats['tie_cases'] += len(good); stats['evals'] += sum(len(c['ops']) + 1 for c in good)

def run_check(tier, seed):
    ev = Evidence(PROP, tier, seed)
    ev.cov['checker_cmd'] = 'make -C coq Props/C10.vo (coqc 8.16.1, full .vo) + Print Assumptions audit; harness bin overlay; coq_check_cases'
    ev.cov['trusted_base'] = TRUSTED_COMMON + [
        'coq/Model/Overlay.v is a hand model of src/overlayfs/{mod,sync_io}.rs, api/filesystem/overlay.rs and of the host calls PassthroughFs issues; tied to the code by running both on the same generated layer contents and histories every run (return codes, payloads, whole client-visible tree and raw upper directory after each dumped step)',
        'harness/src/bin/overlay.rs (materialisation of layers, path-addressed operations by one LOOKUP per component, tree dump by readdir+lookup+getattr+read+readlink+listxattr, host-side dump of every layer directory) and props/overlay_common.py (generator, serialisation, 63-bit hash comparison of serialisations)',
        'host kernel + ext4 behave as modelled for mkdirat/open/mknod/symlink/link/unlink/rmdir/xattr calls made as root with umask 0',
    ]
    ev.assumptions = ['operations are addressed by a freshly looked-up path (no stale inode numbers or handles, no FORGET), one client at a time',
                      'requests are type-correct as the kernel FUSE client guarantees (no unlink of a directory, no write/open-for-write/truncate on directories or symlinks, no walk through a non-directory)',
                      'entries are directories, regular files, symlinks and 0:0 whiteout devices; no set-gid directories; the three opaque xattr names are not set or read by the client',
                      'layers are PassthroughFs instances that were import()ed but not init()ed, as the repository\'s overlay example creates them']
    findings = []; broken = []
    import time
    t0 = time.time()
    def lap(what): log('C10 %-28s %6.1f s' % (what, time.time() - t0))
    std_audit(ev, PROP, broken); lap('coq build + audit')
    ok_ev, out_ev = coq_make(['Model/OverlayEval.vo'])      # the case evaluators live outside the proofs' cone (Uint63 hashes)
    if not ok_ev: broken.append({'kind': 'correspondence', 'name': 'coq/Model/OverlayEval.v does not build', 'log': out_ev[-1500:]})
    ok, out, bindir = cargo_build(['overlay'])
    stats = {'evals': 0, 'shapes': set(), 'hist': {}, 'tie_cases': 0}
    if not ok:
        broken.append({'kind': 'harness-build', 'log': out[-3000:]})
    else:
        n = 20 if tier == "quick" else 1500      # (trimmed from 40 when the deterministic audit blocks were added)
        cases, obs, badh = oc.explore(PROP, seed, n, False, bindir, 'c10', patterns=('full' if tier == 'thorough' else True), open_flags_enum=('full' if tier == 'thorough' else True))
        if badh: broken.append({'kind': 'harness', 'name': 'harness output incomplete or layers not materialised as generated', 'cases': badh[:5]})
        lap('harness build + main run')
        analyse(cases, obs, bindir, 'a', findings, broken, stats, combine=(NPROC if tier == 'quick' else 0)); lap('main cases evaluated')
        audit_blocks(tier, bindir, findings, broken, stats); lap('audit blocks')
        if broken and not [f for f in findings if not finding_known(f, known_findings(PROP))]:
            # a proof or tie broke: search harder for a concrete failing input
            cases2, obs2, _ = oc.explore(PROP, seed + 7919, n * 4, False, bindir, 'c10x', with_corpus=False)
            b2 = []
            analyse(cases2, obs2, bindir, 'b', findings, b2, stats)
        ev.cov['samples'] = [{'layers': {str(k): oc.ser(t) for k, t in c['layers'].items()}, 'ops': [oc.op_line(o) for o in c['ops'][:6]],
                              'results': [b['ret'] for b in obs[c['id']]['ops'][:6]], 'initial_view': obs[c['id']]['view0']} for c in [c for c in cases if not oc.is_pattern(c)][7:10]]
    ev.cov['evaluations'] = stats['evals']
    ev.cov['distinct_nontrivial'] = len(stats['shapes'])
    ev.cov['rule'] = ('evaluations = operations + initial views compared (model vs implementation and ordinary-file-system predicate); '
                      'distinct_nontrivial = number of distinct sets of (modifying operation kind that succeeded) per history')
    ev.cov['op_result_histogram'] = dict(sorted(stats['hist'].items()))
    ev.cov['model_vs_impl_cases'] = stats['tie_cases']
    ev.cov['pattern_cases'] = stats.get('patterns', 0)
    ev.cov['audit_free_ops'] = stats.get('audit_free_ops', 0); ev.cov['audit_cell_cases'] = stats.get('audit_cells', 0)
    ev.cov['audit_root_cases'] = stats.get('audit_root_cases', 0)
    return finish(ev, PROP, findings, broken)
