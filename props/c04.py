"""C04 -- transport readers/writers move every byte exactly once, in order, within bounds."""
import os, sys, json, random, time
from vlib import *
sys.path.insert(0, os.path.join(ROOT, 'translator'))
import bytes_delegation, async_transport, dev_short, ft_loops
import transport_lib as T
import transport_env_lib as E

PROP = 'C04'
KNOWN_PAIR = ('read_slice', 'write_slice')

PENDING = []
def coq_compare(name, exprs, cases_txt, broken, corr_name, spec_bad):
    """queue the cases of one group; coq_flush evaluates all groups in one pool of coqc shards"""
    PENDING.append((exprs, cases_txt, corr_name, spec_bad))
    return len(exprs)

def coq_flush(broken):
    """Evaluate the Coq model on the queued cases; a disagreement on a case where the specification held on
    the implementation is a broken correspondence."""
    allx = [e for g in PENDING for e in g[0]]
    if not allx: return
    fails, errs = coq_check_cases('c04_all', E.COQ_HEADER, allx, shard=max(8, (len(allx) + 15) // 16))
    for e in errs:
        broken.append({'kind': 'correspondence', 'name': 'coq evaluation of cases failed', 'log': e['log'][-800:]})
    base = 0
    for exprs, cases_txt, corr_name, spec_bad in PENDING:
        n = 0
        for i in fails:
            j = i - base
            if not (0 <= j < len(exprs)) or j in spec_bad: continue      # spec_bad: already a finding
            broken.append({'kind': 'correspondence', 'name': corr_name, 'case': cases_txt[j][:1500]}); n += 1
            if n >= 5: break
        base += len(exprs)
    del PENDING[:]

def run_check(tier, seed):
    ev = Evidence(PROP, tier, seed)
    ev.cov['checker_cmd'] = 'make -C coq Props/C04.vo (coqc 8.16.1, full .vo) + Print Assumptions audit; coqc on generated coq/Cases/c04_*.v'
    ev.cov['trusted_base'] = TRUSTED_COMMON + [
        'coq/Model/Transport.v is a hand transcription of IoBuffers/Reader/VirtioFsWriter/FuseDevWriter; tied to the code by running the model (vm_compute) and the real types on the same random chains and op sequences every run (outputs, counters, packets, memory windows with 16-byte margins, dirty pages)',
        'translator/bytes_delegation.py (forwarding table of impl Bytes<usize> for FileVolatileSlice); every method is also run against vm-memory VolatileSlice and a byte-vector reference',
        'oracles: the file behind read_to/write_from transfers a prefix of what it is offered, in order, and reports its length (preadv/pwritev on memfd, and harness sinks/sources with a byte limit or an error); the fuse descriptor is a SOCK_SEQPACKET socket (write(2) = one packet, accepts everything; writev of 0 bytes sends nothing)',
        'vm-memory VolatileSlice::subslice/offset and raw pointer arithmetic (ptr.add, from_raw_parts, copy_nonoverlapping) are not modelled: the theorems are about the (address, length) pairs handed to them; the harness scans all of guest memory / 64-byte canaries around host buffers for stray writes',
        'harness/src/bin/transport.rs and props/transport_lib.py (generators, flat-stream specification mirror)',
    ]
    ev.assumptions = ['x86_64 linux, usize = 64 bit', 'guest memory regions are page aligned (dirty page = guest address / 4096)',
                      'one-shot protocol for unbuffered FuseDevWriter when comparing with the contract (the Coq model also covers the assert! on a second write)']
    findings = []; broken = []; del PENDING[:]
    rng = random.Random(seed)
    # 1. translator
    table = None
    try:
        table = bytes_delegation.generate(REPO)
    except bytes_delegation.TranslateError as ex:
        broken.append({'kind': 'translator', 'item': 'translator/bytes_delegation.py', 'error': str(ex)})
    try:
        async_transport.generate(REPO)
    except async_transport.TranslateError as ex:
        broken.append({'kind': 'translator', 'item': 'translator/async_transport.py', 'error': str(ex)})
    strict = False
    try:
        strict = dev_short.generate(REPO)['dev_strict']
    except dev_short.TranslateError as ex:
        broken.append({'kind': 'translator', 'item': 'translator/dev_short.py', 'error': str(ex)})
    try:
        ev.cov['file_traits_flags'] = ft_loops.generate(REPO)
    except ft_loops.TranslateError as ex:
        broken.append({'kind': 'translator', 'item': 'translator/ft_loops.py', 'error': str(ex)})
    ev.cov['dev_strict'] = strict
    # 2. Coq
    audit = std_audit(ev, PROP, broken)
    if tier == 'thorough' and audit['ok']: T.coqchk(PROP, ev, broken)
    # 3. harness
    ok, out, bindir = cargo_build(['transport', 'transport_env'], features=['async-io'])
    if not ok:
        broken.append({'kind': 'harness-build', 'log': out[-3000:]})
        ev.cov['rule'] = 'harness did not build'; ev.cov['samples'] = [{'note': 'no run'}]
        return finish(ev, PROP, findings, broken)
    scale = 1 if tier == 'quick' else 8
    if broken: scale *= 4                  # a proof / translator item broke: search harder for a failing input
    nv, nf, nfr, nb = 140 * scale, 70 * scale, 25 * scale, 15 * scale
    evals = 0; shapes = set(); samples = []
    coq_ok = audit['ok']

    # ---- virtio readers / writers
    vcases = T.gen_vcases(rng, nv) + T.gen_enum_vcases(rng)      # random chains/sequences + the deterministic enumeration block
    vtxt = [T.case_text_v(c) for c in vcases]
    outs, err = T.run_harness(bindir, 'virtio', vtxt, 'c04')
    if err: broken.append({'kind': 'harness-run', 'log': err})
    else:
        exprs = []; spec_bad = set()
        for i, (c, o) in enumerate(zip(vcases, outs)):
            p04, _, shape = T.eval_vcase(c, o)
            evals += 1 + len(c['ops'])
            if shape and not p04: shapes.add(('virtio',) + shape)
            for p in p04:
                p['input'] = vtxt[i]; findings.append(p); spec_bad.add(i)
                if p.get('step'): p['input_min'] = T.case_text_v(dict(c, ops=c['ops'][:p['step']]))     # the prefix up to the deviating op reproduces it
            if not o.get('harness_panic'): exprs.append(T.vcase_coq(c, o, with_dirty=False))     # the dirty log is C17's business
            else: exprs.append('false')
        samples.append({'virtio_case': vtxt[0][:300], 'observed': json.dumps(outs[0])[:300]})
        if coq_ok: ev.cov['model_vs_impl_virtio'] = coq_compare('c04_v', exprs, vtxt, broken, 'Model/Transport.v vrun vs Reader/VirtioFsWriter', spec_bad)

    # ---- fusedev writer + fuse-buffer reader
    fcases = [T.gen_fcase(rng, protocol_only=(i % 3 != 0)) for i in range(nf)] + [T.gen_fcase_over(rng) for _ in range(6)] + T.gen_enum_fcases(rng) + [T.gen_frcase(rng) for _ in range(nfr)]
    ftxt = [T.case_text_f(c) for c in fcases]
    outs, err = T.run_harness(bindir, 'fusedev', ftxt, 'c04')
    if err: broken.append({'kind': 'harness-run', 'log': err})
    else:
        exprs = []; spec_bad = set(); inproto = 0
        for i, (c, o) in enumerate(zip(fcases, outs)):
            probs, shape, ip = T.eval_fcase(c, o)
            evals += 1 + len(c['ops']); inproto += 1 if ip else 0
            if shape and not probs: shapes.add(('fusedev', c['mode']) + shape)
            for p in probs:
                p['input'] = ftxt[i]; findings.append(p); spec_bad.add(i)
                if p.get('step'): p['input_min'] = T.case_text_f(dict(c, ops=c['ops'][:p['step']]))
            exprs.append(T.fcase_coq(c, o) if not o.get('harness_panic') else 'false')
        samples.append({'fusedev_case': ftxt[1][:300], 'observed': json.dumps(outs[1])[:300]})
        ev.cov['fusedev_cases_within_one_shot_protocol'] = inproto
        if coq_ok: ev.cov['model_vs_impl_fusedev'] = coq_compare('c04_f', exprs, ftxt, broken, 'Model/Transport.v frun/vrun vs FuseDevWriter/fuse-buffer Reader', spec_bad)

    # ---- Bytes<usize> for FileVolatileSlice
    bcases = [T.gen_bcase(rng, m) for m in T.METHODS for _ in range(nb)] + [T.gen_bcase(rng, 'offset') for _ in range(nb)]
    btxt = [T.case_text_b(c) for c in bcases]
    outs, err = T.run_harness(bindir, 'bytes', btxt, 'c04')
    if err: broken.append({'kind': 'harness-run', 'log': err})
    else:
        exprs = []; spec_bad = set(); per_method = {}
        for i, (c, o) in enumerate(zip(bcases, outs)):
            probs, orc = T.eval_bcase(c, o)
            evals += 1
            for x in orc: broken.append({'kind': 'oracle', 'name': 'plain-view reference vs vm-memory', 'detail': x})
            if probs:
                spec_bad.add(i)
                per_method.setdefault(c['method'], []).append(probs[0])
            else: shapes.add(('bytes', c['method'], c['size'], o['res'][0]))
            if c['method'] != 'offset':     # offset() is not part of the Bytes trait / the Coq adapter model: specification check only
                exprs.append(T.bcase_coq(c, o) if not o.get('harness_panic') else 'false')
        for m, ps in per_method.items():
            f = ps[0]; f['n_failing_cases'] = len(ps); findings.append(f)
        samples.append({'bytes_case': btxt[3 * nb][:200], 'observed': json.dumps(outs[3 * nb])[:300]})
        if coq_ok and table is not None:
            # the model follows the translated table, so it must reproduce even the defective method
            ev.cov['model_vs_impl_bytes'] = coq_compare('c04_b', exprs, btxt, broken, 'Model/Transport.v fvs_call (through Gen/BytesDelegation.v) vs FileVolatileSlice', set())
        if table is not None:
            deviating = [(a, b) for a, b in table if a != b]
            for a, b in deviating:
                if a not in per_method:
                    broken.append({'kind': 'correspondence', 'name': 'translated table says %s forwards to %s but no run showed a difference' % (a, b)})
            ev.cov['adapter_table'] = table

    # ---- file-side adapters (no Coq model: these are the oracles of the transport model, checked against POSIX / bookkeeping references)
    ftc = T.gen_ftcases(rng)
    outs, err = T.run_harness(bindir, 'ft', [T.case_text_ft(c) for c in ftc], 'c04')
    if err: broken.append({'kind': 'harness-run', 'log': err})
    else:
        seen = set()
        for c, o in zip(ftc, outs):
            evals += 1
            for p in T.eval_ftcase(c, o):
                if p['sig']['method'] not in seen: seen.add(p['sig']['method']); findings.append(p)
            shapes.add(('ft', c['method'], c['wrap'], tuple(c['slices'])))
    fbc = T.gen_fvbufcases(rng)
    outs, err = T.run_harness(bindir, 'fvbuf', ['seed=%d size=%d addr=%d count=%d' % (c['seed'], c['size'], c['addr'], c['count']) for c in fbc], 'c04')
    if err: broken.append({'kind': 'harness-run', 'log': err})
    else:
        for c, o in zip(fbc, outs):
            evals += 1; ps = T.eval_fvbufcase(c, o)
            if ps and not any(f.get('sig') == ps[0]['sig'] for f in findings): findings.append(ps[0])
    outs, err = T.run_harness(bindir, 'misc', ['probe'], 'c04')
    if err: broken.append({'kind': 'harness-run', 'log': err})
    else:
        evals += len(T.MISC_EXPECTED)
        bad = {k: (outs[0].get(k), v) for k, v in T.MISC_EXPECTED.items() if outs[0].get(k) != v}
        if bad: findings.append({'what': 'Writer::Noop / Reader::default / Clone / flush probes differ (got, expected): %s' % bad, 'input': 'transport misc', 'sig': {'method': 'misc'}})
        ev.cov['misc_probes'] = len(T.MISC_EXPECTED)
    # ---- the environment made explicit (Model/TransportEnv.v): chains as the driver's tables describe them, the fuse descriptor
    #      as an oracle of per-call verdicts (real kernel objects), the retry loops / default vectored methods of file_traits.rs
    xrng = random.Random(seed * 7907 + 4)
    shc = E.gen_shape_vcases(xrng); shtxt = [E.case_text_vq(c) for c in shc]
    outs, err = T.run_harness(bindir, 'virtio', shtxt, 'c04x')
    if err: broken.append({'kind': 'harness-run', 'log': err})
    else:
        exprs = []; spec_bad = set()
        for i, (c, o) in enumerate(zip(shc, outs)):
            p04, _, shape = E.eval_vqcase(c, o)
            evals += 1 + len(c['ops'])
            if shape and not p04: shapes.add(('virtio',) + shape)
            for p in p04:
                p['input'] = shtxt[i][:8000]; spec_bad.add(i)
                if sum(1 for f in findings if f.get('shape')) < 3: findings.append(p)       # a few per block: the replay file lists the first ten
            exprs.append(E.vqcase_coq(c, o, with_dirty=False) if not o.get('harness_panic') else 'false')
        ev.cov['chain_shapes'] = sorted(set(c['note'] for c in shc))
        if coq_ok: ev.cov['model_vs_impl_chain_shapes'] = coq_compare('c04_vq', exprs, shtxt, broken, 'Model/TransportEnv.v from_vq (virtio-queue iteration + constructors) vs Reader::from_descriptor_chain / VirtioFsWriter::new', spec_bad)
    dcs = E.gen_dcases(xrng, 60 * scale); dtxt = [E.case_text_d(c) for c in dcs]
    outs, err = E.run_env(bindir, 'dev', dtxt, 'c04')
    if err: broken.append({'kind': 'harness-run', 'log': err})
    else:
        exprs = []; spec_bad = set(); seen = {}
        for i, (c, o) in enumerate(zip(dcs, outs)):
            probs, orc, shape = E.eval_dcase(c, o, strict)
            evals += 1 + len(c['ops'])
            for x in orc[:1]: broken.append({'kind': 'oracle', 'name': 'kernel object behind a device verdict', 'detail': x})
            if shape and not probs: shapes.add(('fusedev-dev',) + shape)
            for p in probs:
                spec_bad.add(i); key = json.dumps(p.get('sig'), sort_keys=True) + p['what'].split(' ')[1]
                if key in seen: seen[key]['n_failing_cases'] += 1; continue
                p['input'] = dtxt[i]; p['n_failing_cases'] = 1; seen[key] = p; findings.append(p)
            exprs.append(E.dcase_coq(c, o) if not o.get('harness_panic') else 'false')
        samples.append({'device_case': dtxt[3][:200], 'observed': json.dumps(outs[3])[:300]})
        if coq_ok: ev.cov['model_vs_impl_device_faults'] = coq_compare('c04_d', exprs, dtxt, broken, 'Model/TransportEnv.v drun (device oracle) vs FuseDevWriter on failing / short-writing descriptors', spec_bad)
    ftl = E.gen_ftlcases(xrng, 60 * scale); ftxt2 = [E.case_text_ftl(c) for c in ftl]
    outs, err = E.run_env(bindir, 'ftl', ftxt2, 'c04')
    if err: broken.append({'kind': 'harness-run', 'log': err})
    else:
        exprs = []; spec_bad = set(); seenm = set()
        for i, (c, o) in enumerate(zip(ftl, outs)):
            ps = E.eval_ftlcase(c, o); evals += 1
            if ps:
                spec_bad.add(i)
                if c['method'] not in seenm: seenm.add(c['method']); findings.append(ps[0])
            else: shapes.add(('ftl', c['method'], o['res'], len(o['log'])))
            exprs.append(E.ftlcase_coq(c, o) if not o.get('harness_panic') else 'false')
        if coq_ok: ev.cov['model_vs_impl_file_loops'] = coq_compare('c04_ftl', exprs, ftxt2, broken, 'Model/TransportEnv.v ft_loop vs the default loops of FileReadWriteVolatile', spec_bad)
    vcs = E.gen_veccases(); vtxt2 = [E.case_text_vec(c) for c in vcs]
    outs, err = E.run_env(bindir, 'vec', vtxt2, 'c04')
    if err: broken.append({'kind': 'harness-run', 'log': err})
    else:
        exprs = []; spec_bad = set(); seenm = set()
        for i, (c, o) in enumerate(zip(vcs, outs)):
            ps = E.eval_veccase(c, o); evals += 1
            if ps:
                spec_bad.add(i)
                if c['method'] not in seenm: seenm.add(c['method']); findings.append(ps[0])
            exprs.append(E.veccase_coq(c, o) if not o.get('harness_panic') else 'false')
        if coq_ok: coq_compare('c04_vec', exprs, vtxt2, broken, 'Model/TransportEnv.v dflt_vectored (flags of Gen/FtLoops.v) vs the default vectored methods', set())
    outs, err = E.run_env(bindir, 'e2e', ['first=0', 'first=4'], 'c04')
    if err: broken.append({'kind': 'harness-run', 'log': err})
    else:
        for f0, o in zip((0, 4), outs):
            evals += 1
            for p in E.eval_e2e(f0, o)[:1]: findings.append(p)
    coq_flush(broken)
    ev.cov['evaluations'] = evals
    ev.cov['distinct_nontrivial'] = len(shapes)
    ev.cov['rule'] = ('evaluations = operations executed on the real Reader/VirtioFsWriter/FuseDevWriter/FileVolatileSlice (plus one per chain construction), each compared with the '
                      'flat-stream specification and, through coq_check_cases, with the Coq model; distinct_nontrivial = distinct (transport, set of (segment length, r/w) pairs, set of op kinds) '
                      'shapes of cases that ran without any deviation, plus distinct (method, slice size, ok/err) for the Bytes adapter')
    ev.cov['samples'] = samples[:5]
    return finish(ev, PROP, findings, broken)

def replay(path):
    """re-run the failing inputs of a replay file on the current tree and print what the implementation does"""
    obj = json.load(open(path))
    ok, out, bindir = cargo_build(['transport', 'transport_env'], features=['async-io'])
    if not ok: print(out[-2000:]); return 2
    rc = 0
    for f in obj.get('failing', []) + [b for b in obj.get('broken', []) if b.get('case')]:
        txt = f.get('input') or f.get('case')
        if not txt: continue
        if ' script=' in txt or txt.startswith('transport_env e2e') or (' lens=' in txt):
            sub = 'dev' if ' cap=' in txt else ('ftl' if ' foff=' in txt else ('vec' if ' lens=' in txt else 'e2e'))
            outs, err = E.run_env(bindir, sub, [txt.replace('transport_env e2e ', '')], 'replay')
            print('transport_env', sub, txt[:400]); print('  ->', json.dumps(outs[0])[:1000] if outs else err)
            print('  reported:', f.get('what') or f.get('name')); rc = 1
            continue
        sub = 'bytes' if ' method=' in txt else ('fusedev' if ' cap=' in txt else 'virtio')
        outs, err = T.run_harness(bindir, sub, [txt], 'replay')
        print(sub, txt[:400]); print('  ->', json.dumps(outs[0])[:1000] if outs else err)
        print('  reported:', f.get('what') or f.get('name'))
        rc = 1
    return rc
