"""Shared machinery of the C04 / C17 checks: case generators, the flat-stream specification the
properties are stated against (python mirror of Proofs/TransportSpec), harness driver, Coq case terms."""
import os, json, random, struct
from vlib import *

PS = 4096
QREGION = (0, 0x4000)
LAYOUTS = [[(0x100000, 0x8000), (0x200000, 0x4000)],      # scattered regions
           [(0x100000, 0x8000), (0x108000, 0x4000)]]      # adjacent regions
FBASE = 0x10000; BBASE = 0x20000; MARGIN = 64
SMALL = [0, 1, 2, 3, 7, 8, 13, 64, 100, 255]
BIG = [4095, 4096, 4097]

def pat(seed, a): return (a * 37 + (a >> 8) * 11 + seed) & 0xff

ERRS = {'intr': 'EBadIndex', 'noflush': 'EBadIndex', 'nospace': 'ENoSpace', 'eof': 'EEof', 'split': 'ESplit', 'file': 'EFile', 'overflow': 'EOverflow',
        'findregion': 'EFindRegion', 'guestmem': 'EGuestMem', 'writezero': 'EEof',
        'oob': 'EGuestMem', 'partial': 'EEof', 'io': 'EEof', 'misaligned': 'EBadIndex'}

class GD(bytes):
    """bytes produced by the generator gd(s, n) of Model/Transport.v (so Coq case files can name them compactly)"""
    pass
def rdata(rng, n):
    s = rng.randrange(1 << 16)
    g = GD(bytes((i * 151 + (i >> 8) * 7 + s * 13 + 5) & 0xff for i in range(n))); g.s = s
    return g
HP = 2305843009213693951
def hashN(bs):
    h = 0
    for b in bs: h = (h * 257 + b + 1) & HP
    return h
def dcoq(d):
    return '(gd %d %d)' % (d.s, len(d)) if isinstance(d, GD) else hexN(d)
ERRCODE = {'ENoSpace': 1, 'EEof': 2, 'ESplit': 3, 'EFile': 4, 'EOverflow': 5, 'EFindRegion': 6, 'EGuestMem': 7, 'EBadIndex': 8}

# ------------------------------------------------------------------ virtio cases
def gen_chain(rng):
    regions = rng.choice(LAYOUTS)
    nd = rng.choice([1, 2, 2, 3, 3, 4, 5, 6, 8])
    nbig = 0; descs = []
    cursor = {b: b + rng.choice([0, 0, 1, 5, 4090, 4095]) for b, z in regions}
    kinds = []
    nr = rng.randrange(0, nd + 1)
    kinds = ['r'] * nr + ['w'] * (nd - nr)
    if rng.random() < 0.12: rng.shuffle(kinds)           # interleaved readable / writable descriptors
    for k in kinds:
        if rng.random() < 0.22 and nbig < 2: ln = rng.choice(BIG); nbig += 1
        else: ln = rng.choice(SMALL)
        order = list(regions); rng.shuffle(order)
        placed = False
        for b, z in order:
            a = cursor[b]
            if rng.random() < 0.25:                         # put the start (or the end) next to a page boundary
                want = rng.choice([0, 1, 4095, 4094, (-ln) % PS, (-ln + 1) % PS, (-ln - 1) % PS])
                a += (want - a) % PS
            if a + ln <= b + z and a < b + z:
                descs.append((a, ln, k)); placed = True
                cursor[b] = a + ln + rng.choice([0, 0, 1, 3, 17, 40])
                break
        if not placed:
            b, z = order[0]
            a = min(cursor[b], b + z - 1); ln = min(ln, 8, b + z - a)
            descs.append((a, ln, k)); cursor[b] = a + ln
    if len(descs) >= 2 and rng.random() < 0.05:             # a hostile chain: two descriptors over the same memory
        i, j = rng.sample(range(len(descs)), 2)
        descs[j] = (descs[i][0] + rng.choice([0, 1]), min(descs[j][1], 64), descs[j][2])
    bad = None
    if rng.random() < 0.05:                                  # invalid chains
        i = rng.randrange(len(descs)); b, z = regions[-1]
        if rng.random() < 0.5: descs[i] = (b + z + rng.choice([0, 5, 0x10000]), descs[i][1], descs[i][2]); bad = 'findregion'
        else: descs[i] = (b + z - 3, 4 + rng.choice([0, 10]), descs[i][2]); bad = 'guestmem'
    return regions, descs, bad

ASYNC = {'T': 't', 'a': 'w', 'e': 'w', 'b': 'v', 'd': 'v', 'g': 'f', 'h': 'c', 'O': 'w'}     # 'O' = write_obj: write_all(val.as_slice())
def sync_of(op):
    """async_read_to_at -> read_to_at, async_write / async_write_all -> write, async_write2/3 -> write_vectored,
    async_write_from_at -> write_from_at, async_commit -> commit"""
    return (ASYNC[op[0]],) + tuple(op[1:]) if op[0] in ASYNC else op

def script_steps(kind):
    """source kind "s4096.100.e.i" -> ['4096', '100', 'e', 'i']"""
    return [x for x in kind[1:].split('.') if x]

class Flat:
    """the flat view of a list of (address, length) segments without materialising it"""
    def __init__(self, segs): self.segs = [(a, l) for a, l in segs if l > 0]; self.n = sum(l for a, l in self.segs)
    def __len__(self): return self.n
    def __iter__(self):
        for a, l in self.segs:
            for i in range(l): yield a + i
    def __getitem__(self, k):
        if isinstance(k, slice):
            assert k.step is None
            lo = 0 if k.start is None else max(0, min(k.start, self.n)); hi = self.n if k.stop is None else max(0, min(k.stop, self.n))
            out = []; pos = 0
            for a, l in self.segs:
                s, e = max(lo, pos), min(hi, pos + l)
                if e > s: out.append((a + s - pos, e - s))
                pos += l
            return Flat(out)
        if k < 0: k += self.n
        for a, l in self.segs:
            if k < l: return a + k
            k -= l
        raise IndexError(k)

class VSpec:
    """The flat-stream specification: every reader / writer is a list of remaining addresses (the
    concatenation of its segments) plus a consumed counter; memory is a dict over the pattern."""
    def __init__(self, seed, descs, dirty0=(), lazy=False):
        self.seed = seed; self.mem = {}; self.dirty = set(dirty0); self.dirty0 = set(dirty0); self.wlog = []
        if lazy:        # chains of gigabytes: the flat view is kept as segments (same interface: len, slices, iteration)
            ra = Flat([(a, l) for a, l, k in descs if k == 'r']); wa = Flat([(a, l) for a, l, k in descs if k == 'w'])
        else:
            ra = [a + i for a, l, k in descs if k == 'r' for i in range(l)]
            wa = [a + i for a, l, k in descs if k == 'w' for i in range(l)]
        self.nseg = {'r': sum(1 for d in descs if d[2] == 'r'), 'w': sum(1 for d in descs if d[2] == 'w')}
        self.rd = [[ra, 0]]; self.wr = [[wa, 0]]
        self.written = set()
    def get(self, a): return self.mem.get(a, pat(self.seed, a))
    def put(self, addrs, data):
        n = min(len(addrs), len(data))
        if n: self.wlog.append(addrs[:n])
        for a, v in zip(addrs, data):
            self.mem[a] = v; self.dirty.add(a // PS); self.written.add(a)
    def apply(self, op):
        """-> expected observation dict {'res': tuple or list of alternatives, 'a','c','a2','c2'}"""
        op = sync_of(op)            # the async variants have the contract of their synchronous counterparts
        if op[0] in 'XA' and op[3] == 'i': op = op[:3] + ('l', 5000 if op[0] == 'X' else op[4]) + op[5:]   # one EINTR is retried by the loop: invisible
        k = op[0]; a2 = c2 = 0
        if k == 'F':                 # VirtioFsWriter::flush: nothing to flush
            h = self.wr[op[1]]
            return {'res': ('ok', 0, b''), 'a': len(h[0]), 'c': h[1], 'a2': 0, 'c2': 0}
        if k in 'rxotsX':
            h = self.rd[op[1]]; addrs = h[0]
            if k == 'r':
                n = min(op[2], len(addrs)); res = ('ok', n, bytes(self.get(a) for a in addrs[:n]))
                h[0] = addrs[n:]; h[1] += n
            elif k in 'xo':
                n = min(op[2], len(addrs)); data = bytes(self.get(a) for a in addrs[:n])
                h[0] = addrs[n:]; h[1] += n
                res = ('ok', n, data) if n == op[2] else ('err', 'eof')
            elif k == 't':
                count, kind, lim = op[2], op[3], op[4]
                n = min(count, len(addrs))
                if kind in 'eb':
                    res = ('err', 'file') if n > 0 else [('err', 'file'), ('ok', 0, b'')]
                else:
                    if kind == 'l': n = min(n, lim)
                    res = ('ok', n, bytes(self.get(a) for a in addrs[:n]))
                    h[0] = addrs[n:]; h[1] += n
            elif k == 'X':          # read_exact_to(count): sink kinds f (file), l (at most lim bytes per call), e/b (fails)
                count, kind, lim = op[2], op[3], op[4]
                n = min(count, len(addrs))
                if count == 0: res = ('ok', 0, b'')
                elif kind in 'eb': res = ('err', 'file') if n > 0 else [('err', 'file'), ('err', 'eof')]
                elif kind == 'l' and lim == 0: res = ('err', 'eof') if n > 0 else [('err', 'eof')]
                else:
                    data = bytes(self.get(a) for a in addrs[:n]); h[0] = addrs[n:]; h[1] += n
                    res = ('ok', n, data) if n == count else ('err', 'eof')
            elif k == 's':
                off = op[2]
                if off > len(addrs): res = ('err', 'split')
                else:
                    self.rd.append([addrs[off:], 0]); h[0] = addrs[:off]; res = ('ok', 0, b'')
                    a2 = len(addrs) - off
            return {'res': res, 'a': len(h[0]), 'c': h[1], 'a2': a2, 'c2': c2}
        h = self.wr[op[1]]; addrs = h[0]
        if k == 'w':
            data = op[2]
            if len(data) > len(addrs): res = ('err', 'nospace')
            else:
                self.put(addrs, data); h[0] = addrs[len(data):]; h[1] += len(data); res = ('ok', len(data), b'')
        elif k == 'v':
            data = b''.join(op[2])
            if len(data) > len(addrs): res = ('err', 'nospace')
            else:
                self.put(addrs, data); h[0] = addrs[len(data):]; h[1] += len(data); res = ('ok', len(data), b'')
        elif k == 'f' and op[3][0] in 'sS':      # write_from / write_from_at over a scripted source: one call, the first answer
            count, steps, data = op[2], script_steps(op[3]), op[4]
            st = steps[0] if steps else '0'
            if count > len(addrs): res = ('err', 'nospace')
            elif count == 0: res = ('ok', 0, b'')
            elif st == 'e': res = ('err', 'file')
            elif st == 'i': res = ('err', 'intr')
            else:
                n = min(count, int(st), len(data))
                self.put(addrs, data[:n]); h[0] = addrs[n:]; h[1] += n; res = ('ok', n, b'')
        elif k == 'A' and op[3][0] == 's':       # write_all_from over a scripted source: bytes placed by earlier rounds stay placed (and marked)
            count, steps, data = op[2], script_steps(op[3]), op[4]
            if count > len(addrs): res = ('err', 'nospace')
            else:
                rem = count; pos = 0; j = 0; res = None
                while rem > 0:
                    st = steps[j] if j < len(steps) else '0'; j += 1
                    if st == 'i': continue
                    if st == 'e': res = ('err', 'file'); break
                    n = min(rem, int(st), len(data) - pos)
                    if n == 0: res = ('err', 'writezero'); break
                    self.put(h[0], data[pos:pos + n]); h[0] = h[0][n:]; h[1] += n; pos += n; rem -= n
                if res is None: res = ('ok', 0, b'')
        elif k == 'f':
            count, kind, data = op[2], op[3], op[4]
            if count > len(addrs): res = ('err', 'nospace')
            elif kind in 'eb':
                res = ('err', 'file') if count > 0 else [('err', 'file'), ('ok', 0, b'')]
            else:
                n = min(count, len(data))
                self.put(addrs, data[:n]); h[0] = addrs[n:]; h[1] += n; res = ('ok', n, b'')
        elif k == 'A':              # write_all_from(count)
            count, kind, data = op[2], op[3], op[4]
            if count > len(addrs): res = ('err', 'nospace')
            elif count == 0: res = ('ok', 0, b'')
            elif kind in 'eb': res = ('err', 'file')
            else:
                n = min(count, len(data))
                self.put(addrs, data[:n]); h[0] = addrs[n:]; h[1] += n
                res = ('ok', 0, b'') if n == count else ('err', 'writezero')
        elif k == 'p':
            off = op[2]
            if off > len(addrs): res = ('err', 'split')
            else:
                self.wr.append([addrs[off:], 0]); h[0] = addrs[:off]; res = ('ok', 0, b''); a2 = len(addrs) - off
        elif k == 'c':
            res = ('ok', 0, b'')
        return {'res': res, 'a': len(h[0]), 'c': h[1], 'a2': a2, 'c2': c2}

def pick_n(rng, avail):
    return rng.choice([0, 1, 2, 3, 8, avail, max(avail - 1, 0), avail + 1, rng.randrange(avail + 1), rng.randrange(avail + 1),
                       rng.randrange(avail + 1), avail + rng.choice([2, 100, 5000])])

def gen_vops(rng, spec, nops, reader_only=False, writer_bias=False, use_async=True):
    """ops chosen against the evolving specification state so that they hit borders"""
    ops = []
    for _ in range(nops):
        side = 'r' if reader_only else ('w' if (writer_bias and rng.random() < 0.8) else rng.choice('rw'))
        if side == 'r':
            i = rng.randrange(len(spec.rd)); av = len(spec.rd[i][0])
            k = rng.choice('rrxxotttsXTT' if use_async else 'rrxxotttsX')
            if k == 'T':
                kind = rng.choice('ffllle')
                op = ('T', i, pick_n(rng, av), kind, rng.choice([0, 1, 2, 5, max(av - 1, 0), av, 5000]) if kind == 'l' else 0)
            elif k == 'r': op = ('r', i, pick_n(rng, av))
            elif k == 'x': op = ('x', i, pick_n(rng, av))
            elif k == 'o': op = ('o', i, rng.choice([1, 2, 4, 8, 16]))
            elif k == 't':
                kind = rng.choice('ffaalle' + ('b' if rng.random() < 0.3 else 'l'))
                op = ('t', i, pick_n(rng, av), kind, rng.choice([0, 1, 2, 5, max(av - 1, 0), av, 5000]) if kind == 'l' else 0)
            elif k == 'X':
                kind = rng.choice('ffllei' + ('b' if rng.random() < 0.3 else 'l'))
                cnt = pick_n(rng, av)
                lims = [0, 1, 1, 2, 5, 7, max(av - 1, 1), 5000] if min(cnt, av) <= 300 else [0, av // 3 + 1, av // 2 + 1, max(av - 1, 1), 5000]   # many tiny pieces of a big buffer only cost time
                op = ('X', i, cnt, kind, rng.choice(lims) if kind == 'l' else (5000 if kind == 'i' else 0))
            else: op = ('s', i, pick_n(rng, av))
        else:
            i = rng.randrange(len(spec.wr)); av = len(spec.wr[i][0])
            k = rng.choice(('wwwvvfffpcAOF' if not writer_bias else 'wwvfffppAO') + ('abdegggh' if use_async else ''))
            if k == 'O': op = ('O', i, rdata(rng, rng.choice([1, 2, 4, 8, 16])))
            elif k == 'F': op = ('F', i)
            elif k in 'ae': op = (k, i, rdata(rng, min(pick_n(rng, av), 6000)))
            elif k in 'bd':
                tot = min(pick_n(rng, av), 6000)
                op = (k, i, [rdata(rng, rng.choice([0, 0, 1, tot // 2, tot, rng.randrange(tot + 1)])) for _ in range(2 if k == 'b' else 3)])
            elif k == 'g':
                kind = rng.choice('fffllle')
                count = min(pick_n(rng, av), 9000)
                dl = rng.choice([count, count, count + 3, max(count - 1, 0), count // 2, 0, max(count - 4096, 0), max(count - 5000, 0)])
                op = ('g', i, count, kind, rdata(rng, dl) if kind != 'e' else b'')
            elif k == 'h': op = ('h', i)
            elif k == 'w': op = ('w', i, rdata(rng, min(pick_n(rng, av), 6000)))
            elif k == 'v':
                parts = []
                tot = min(pick_n(rng, av), 6000)
                for _ in range(rng.choice([0, 1, 2, 3, 4])):
                    parts.append(rdata(rng, rng.choice([0, 0, 1, tot // 2, tot, rng.randrange(tot + 1)])))
                op = ('v', i, parts)
            elif k == 'f':
                kind = rng.choice('ffaalle' + ('b' if rng.random() < 0.3 else 'l'))
                count = min(pick_n(rng, av), 6000)
                dl = rng.choice([count, count, count + 3, max(count - 1, 0), count // 2, 0])
                op = ('f', i, count, kind, rdata(rng, dl) if kind not in 'eb' else b'')
            elif k == 'A':
                kind = rng.choice('ffllei' + ('b' if rng.random() < 0.3 else 'l'))
                count = min(pick_n(rng, av), 6000)
                dl = rng.choice([count, count, count + 3, max(count - 1, 0), count // 2, 0])
                op = ('A', i, count, kind, rdata(rng, dl) if kind not in 'eb' else b'')
            elif k == 'p': op = ('p', i, pick_n(rng, av))
            else: op = ('c', i)
        ops.append(op); spec.apply(op)
    return ops

def op_text(op):
    k = op[0]
    if k in 'rxosp': return '%s,%d,%d' % (k, op[1], op[2])
    if k in 'tXT': return '%s,%d,%d,%s,%d' % (k, op[1], op[2], op[3], op[4])
    if k in 'waeO': return '%s,%d,%s' % (k, op[1], op[2].hex())
    if k == 'F': return 'F,%d' % op[1]
    if k in 'vbd': return '%s,%d,%s' % (k, op[1], '/'.join(d.hex() or '-' for d in op[2]))
    if k in 'fAg': return '%s,%d,%d,%s,%s' % (k, op[1], op[2], op[3], op[4].hex())
    if k in 'ch': return '%s,%d' % (k, op[1]) if len(op) == 2 else '%s,%d,%d' % (k, op[1], op[2])
    raise ValueError(op)

def op_json(op):
    return [x.hex() if isinstance(x, bytes) else ([y.hex() for y in x] if isinstance(x, list) else x) for x in op]

def aop_coq(op):
    """an operation as a Coq [avop]: async operations by their own constructors, the others wrapped in ASync"""
    k = op[0]; i = '%d%%nat' % op[1]
    if k == 'T':
        sink = 'None' if op[3] in 'eb' else ('(Some %d)' % (op[4] if op[3] == 'l' else op[2]))
        return '(ARReadToAt %s %d %s)' % (i, op[2], sink)
    if k == 'a': return '(AWrite %s %s)' % (i, dcoq(op[2]))
    if k == 'e': return '(AWriteAll %s %s)' % (i, dcoq(op[2]))
    if k == 'b': return '(AWrite2 %s %s %s)' % (i, dcoq(op[2][0]), dcoq(op[2][1]))
    if k == 'd': return '(AWrite3 %s %s %s %s)' % (i, dcoq(op[2][0]), dcoq(op[2][1]), dcoq(op[2][2]))
    if k == 'g': return '(AWriteFromAt %s %d %s)' % (i, op[2], 'None' if op[3] in 'eb' else '(Some %s)' % dcoq(op[4]))
    if k == 'h': return '(ACommit %s)' % i
    if k == 'O': return '(ASync (WWrite %s %s))' % (i, dcoq(op[2]))      # write_obj = write_all over an all-or-error write
    if k == 'F': return '(ASync (WCommit %s))' % i                        # flush: Ok(()), no effect (same as commit)
    return '(ASync %s)' % op_coq(op)

def afop_coq(op):
    k = op[0]; i = '%d%%nat' % op[1]
    if k == 'a': return '(FAWrite %s %s)' % (i, dcoq(op[2]))
    if k == 'e': return '(FAWriteAll %s %s)' % (i, dcoq(op[2]))
    if k == 'b': return '(FAWrite2 %s %s %s)' % (i, dcoq(op[2][0]), dcoq(op[2][1]))
    if k == 'd': return '(FAWrite3 %s %s %s %s)' % (i, dcoq(op[2][0]), dcoq(op[2][1]), dcoq(op[2][2]))
    if k == 'g': return '(FAWriteFromAt %s %d %s)' % (i, op[2], 'None' if op[3] in 'eb' else '(Some %s)' % dcoq(op[4]))
    if k == 'h': return '(FACommit %s %s)' % (i, 'None' if op[2] < 0 else '(Some %d%%nat)' % op[2])
    return '(FSync %s)' % fop_coq(op)

def xfop_coq(op):
    k = op[0]; i = '%d%%nat' % op[1]
    if k == 'A': return '(XWriteAllFrom %s %d %s)' % (i, op[2], 'None' if op[3] in 'eb' else '(Some %s)' % dcoq(op[4]))
    if k == 'F': return '(XFlush %s)' % i
    if k == 'O': return '(XA (FSync (FWrite %s %s)))' % (i, dcoq(op[2]))
    return '(XA %s)' % afop_coq(op)

def op_coq(op):
    k = op[0]; i = '%d%%nat' % op[1]
    if k == 'r': return '(RRead %s %d)' % (i, op[2])
    if k in 'xo': return '(RReadExact %s %d)' % (i, op[2])
    if k == 't':
        sink = 'None' if op[3] in 'eb' else ('(Some %d)' % (op[4] if op[3] == 'l' else op[2]))
        return '(RReadTo %s %d %s)' % (i, op[2], sink)
    if k == 'X':
        sink = 'None' if op[3] in 'eb' else ('(Some %d)' % (op[4] if op[3] == 'l' else max(op[2], 1)))
        return '(RReadExactTo %s %d %s)' % (i, op[2], sink)
    if k == 'A': return '(WWriteAllFrom %s %d %s)' % (i, op[2], 'None' if op[3] in 'eb' else '(Some %s)' % dcoq(op[4]))
    if k == 's': return '(RSplit %s %d)' % (i, op[2])
    if k == 'w': return '(WWrite %s %s)' % (i, dcoq(op[2]))
    if k == 'v': return '(WWriteV %s [%s])' % (i, '; '.join(dcoq(d) for d in op[2]))
    if k == 'f': return '(WWriteFrom %s %d %s)' % (i, op[2], 'None' if op[3] in 'eb' else '(Some %s)' % dcoq(op[4]))
    if k == 'p': return '(WSplit %s %d)' % (i, op[2])
    if k == 'c': return '(WCommit %s)' % i
    raise ValueError(op)

def fop_coq(op):
    k = op[0]; i = '%d%%nat' % op[1]
    if k == 'w': return '(FWrite %s %s)' % (i, dcoq(op[2]))
    if k == 'v': return '(FWriteV %s [%s])' % (i, '; '.join(dcoq(d) for d in op[2]))
    if k == 'f': return '(FWriteFrom %s %d %s)' % (i, op[2], 'None' if op[3] in 'eb' else '(Some %s)' % dcoq(op[4]))
    if k == 'p': return '(FSplit %s %d)' % (i, op[2])
    if k == 'c': return '(FCommit %s %s)' % (i, 'None' if op[2] < 0 else '(Some %d%%nat)' % op[2])
    raise ValueError(op)

def res_coq(r):
    if r[0] == 'ok':
        b = bytes.fromhex(r[2]); return '(HOk %d %d %d)' % (r[1], len(b), hashN(b))
    if r[0] == 'err': return '(HErr %d)' % ERRCODE[ERRS.get(r[1], 'EBadIndex')]
    return 'HPanic'

def obs_coq(o):
    return '(mkhobs %s %d %d %d %d)' % (res_coq(o[0]), o[1], o[2], o[3], o[4])

def win_coq(ws):
    return '; '.join('(%d, %d, %d)' % (a, len(b), hashN(b)) for a, b in ws)

def case_text_v(c):
    regs = [QREGION] + list(c['regions'])
    return 'seed=%d regions=%s queue=0 via=%s descs=%s dirty0=%s ops=%s' % (
        c['seed'], ','.join('%d:%d' % r for r in regs), c.get('via', 'direct'), ','.join('%d:%d:%s' % d for d in c['descs']),
        ','.join(str(p) for p in sorted(c.get('dirty0', ()))), ';'.join(op_text(o) for o in c['ops']))

def windows(seed, ranges, diffs, limit):
    """merge [a-16, a+l+16) windows (clipped by limit function) and fill with pattern patched by the observed diffs"""
    iv = sorted((max(lo, a - 16), min(hi, a + l + 16)) for (a, l, lo, hi) in ranges)
    merged = []
    for s, e in iv:
        if merged and s <= merged[-1][1]: merged[-1][1] = max(merged[-1][1], e)
        else: merged.append([s, e])
    d = {}
    for a, hx in diffs:
        for i, v in enumerate(bytes.fromhex(hx)): d[a + i] = v
    return [(s, bytes(d.get(a, pat(seed, a)) for a in range(s, e))) for s, e in merged if e > s], d

def region_of(regions, a):
    for b, z in regions:
        if b <= a < b + z: return (b, z)
    return None

def vcase_coq(c, out, with_dirty=True):
    regs = c['regions']
    ranges = []
    for a, l, k in c['descs']:
        r = region_of(regs, a)
        if r: ranges.append((a, l, r[0], r[0] + r[1]))
    ws, _ = windows(c['seed'], ranges, out['mem'], None)
    universe = [p for b, z in regs for p in range(b // PS, (b + z) // PS)]
    init = out['init']
    exp_init = '(HOk 0 0 0)' if init == 'ok' else '(HErr %d)' % ERRCODE[ERRS.get(init.split(':')[-1], 'EBadIndex')]
    return '(check_avd %d [%s] [%s] [%s] [%s] %s [%s] [%s] [%s] [%s])' % (
        c['seed'], '; '.join('(%d, %d)' % r for r in regs),
        '; '.join('(mkdesc %d %d %s)' % (a, l, 'true' if k == 'w' else 'false') for a, l, k in c['descs']),
        '; '.join(str(p) for p in sorted(c.get('dirty0', ()))),
        '; '.join(aop_coq(o) for o in c['ops']), exp_init,
        '; '.join(obs_coq(o) for o in out['obs']),
        win_coq(ws),
        '; '.join(str(p) for p in out['dirty']) if with_dirty else '', '; '.join(str(p) for p in universe) if with_dirty else '')

COQ_HEADER = ('From Coq Require Import List String NArith Bool.\n'
              'From FB Require Import Lib.Hex Gen.BytesDelegation Gen.AsyncTransport Model.Transport.\n'
              'Import ListNotations.\nLocal Open Scope N_scope.\n')

def gen_vcases(rng, n, writer_bias=False, maxops=25, dirty_init=False):
    cases = []
    for _ in range(n):
        regions, descs, bad = gen_chain(rng)
        seed = rng.randrange(256)
        allp = [p for b, z in regions for p in range(b // PS, (b + z) // PS)]
        mode = rng.choice(['none', 'none', 'none', 'random', 'all', 'alt']) if dirty_init else 'none'
        d0 = {'none': [], 'all': allp, 'alt': allp[rng.randrange(2)::2], 'random': [p for p in allp if rng.random() < 0.4]}[mode]
        c = {'seed': seed, 'regions': regions, 'descs': descs, 'bad': bad, 'ops': [], 'dirty0': d0, 'via': rng.choice(['direct', 'enum'])}
        if not bad:
            spec = VSpec(seed, descs, d0)
            c['ops'] = gen_vops(rng, spec, rng.randrange(0, maxops + 1), writer_bias=writer_bias)
        cases.append(c)
    return cases

def run_harness(bindir, sub, texts, tag):
    d = os.path.join(SCRATCH, 'cases'); os.makedirs(d, exist_ok=True)
    p = os.path.join(d, '%s-%s-%d.txt' % (tag, sub, os.getpid()))
    open(p, 'w').write('\n'.join(texts) + '\n')
    rc, out = run([os.path.join(bindir, 'transport'), sub, p], timeout=900)
    try: os.remove(p)
    except OSError: pass
    lines = [l for l in out.split('\n') if l.startswith('{')]
    if rc != 0 or len(lines) != len(texts):
        return None, 'harness transport %s: rc=%s, %d result lines for %d cases; tail: %s' % (sub, rc, len(lines), len(texts), out[-800:])
    try:
        return [json.loads(l) for l in lines], None
    except ValueError as ex:
        return None, 'harness output not JSON: %s' % ex

def res_matches(exp, got):
    """exp: ('ok', n, bytes) / ('err', kind) / 'panic' / list of alternatives; got: harness json"""
    if isinstance(exp, list): return any(res_matches(e, got) for e in exp)
    if exp[0] == 'ok': return got[0] == 'ok' and got[1] == exp[1] and bytes.fromhex(got[2]) == exp[2]
    if exp[0] == 'err': return got[0] == 'err' and got[1] == exp[1]
    return got[0] == 'panic'

def eval_vcase(c, out):
    """Evaluate the property (flat-stream specification) on what the implementation did.
    -> (c04_problems, c17_problems, nontrivial_shape)"""
    p04 = []; p17 = []
    if out.get('harness_panic'):
        return [{'what': 'the implementation panicked (virtio transport)', 'step': None}], [], None
    if c['bad']:
        if out['init'] == 'ok' or not out['init'].endswith(c['bad']):
            p04.append({'what': 'invalid descriptor chain not refused with %s: %s' % (c['bad'], out['init']), 'step': None})
        return p04, p17, None
    if out['init'] != 'ok':
        return [{'what': 'valid descriptor chain refused: %s' % out['init'], 'step': None}], [], None
    spec = VSpec(c['seed'], c['descs'], c.get('dirty0', ()), lazy=c.get('lazy', False))
    o0 = out['obs'][0]
    if (o0[1], o0[2], o0[3], o0[4]) != (len(spec.rd[0][0]), 0, len(spec.wr[0][0]), 0):
        p04.append({'what': 'initial available/consumed counters differ from the chain lengths', 'step': 0, 'got': o0[1:5]})
    for si, (op, got) in enumerate(zip(c['ops'], out['obs'][1:]), 1):
        e = spec.apply(op)
        if not res_matches(e['res'], got[0]):
            kind = {'r': 'read', 'x': 'read_exact', 'o': 'read_obj', 't': 'read_to', 'X': 'read_exact_to', 'A': 'write_all_from', 'T': 'async_read_to_at', 'a': 'async_write', 'b': 'async_write2', 'd': 'async_write3', 'e': 'async_write_all', 'g': 'async_write_from_at', 'h': 'async_commit', 'O': 'write_obj', 'F': 'flush', 's': 'reader split_at', 'w': 'write',
                    'v': 'write_vectored', 'f': 'write_from', 'p': 'writer split_at', 'c': 'commit'}[op[0]]
            p04.append({'what': 'virtio %s returned %s, the byte-stream specification gives %s' % (kind, got[0][:2], (e['res'] if isinstance(e['res'], list) else e['res'][:2])),
                        'step': si, 'op': op_json(op), 'got': got[0], 'sig': {'transport': 'virtio', 'op': kind}})
            break
        if (got[1], got[2], got[3], got[4]) != (e['a'], e['c'], e['a2'], e['c2']):
            p04.append({'what': 'virtio counters after %s: available/consumed %s, expected %s' % (op[0], got[1:5], [e['a'], e['c'], e['a2'], e['c2']]),
                        'step': si, 'op': op_json(op), 'sig': {'transport': 'virtio', 'op': 'counters'}})
            break
    if p04:
        # results / counters deviate from the specification (C04's finding).  What needs no specification is still checked:
        # every byte of guest memory that differs from the initial pattern lies in a page of the bitmap (round 6, seed C17f:
        # an operation that fails after it has placed bytes must have marked them)
        changed_pages = set((a + i) // PS for a, hx in out['mem'] for i in range(len(hx) // 2))
        got_d = set(out['dirty'])
        if not changed_pages <= got_d:
            p17.append({'what': 'modified guest pages not marked dirty: %s (the run also deviates from the byte-stream specification at step %s: %s)'
                                % (sorted(changed_pages - got_d)[:6], p04[0].get('step'), p04[0]['what'][:160]),
                        'sig': {'kind': 'unmarked'}, 'initial_dirty_pages': sorted(set(c.get('dirty0', ()))),
                        'first_modified_addresses': [a for a, hx in out['mem'] if a // PS in changed_pages - got_d][:4]})
    else:
        diff = {}
        for a, hx in out['mem']:
            for i, v in enumerate(bytes.fromhex(hx)): diff[a + i] = v
        want = {a: v for a, v in spec.mem.items() if v != pat(c['seed'], a)}
        if diff != want:
            bad = sorted(set(a for a in set(diff) | set(want) if diff.get(a) != want.get(a)))
            outside = [a for a in bad if a not in spec.written]
            p04.append({'what': 'guest memory after the run differs from the bytes written (%d addresses, %d of them outside every written range)' % (len(bad), len(outside)),
                        'first': bad[:5], 'sig': {'transport': 'virtio', 'op': 'memory'}})
        got_d = set(out['dirty'])
        changed_pages = set(a // PS for a in diff)
        if not changed_pages <= got_d:
            p17.append({'what': 'modified guest pages not marked dirty: %s' % sorted(changed_pages - got_d)[:6], 'sig': {'kind': 'unmarked'}})
        if not spec.dirty <= got_d:
            p17.append({'what': 'pages of consumed-for-write ranges not marked dirty: %s' % sorted(spec.dirty - got_d)[:6], 'sig': {'kind': 'unmarked'}})
        if not got_d <= spec.dirty:
            p17.append({'what': 'pages newly marked dirty although nothing was written to them: %s' % sorted(got_d - spec.dirty)[:6], 'sig': {'kind': 'overmarked'}})
        if p17: p17[0]['initial_dirty_pages'] = sorted(spec.dirty0)
    shape = (tuple(sorted(set((l, k) for a, l, k in c['descs']))), tuple(sorted(set(o[0] for o in c['ops']))))
    return p04, p17, shape

# ------------------------------------------------------------------ fusedev cases
class FSpec:
    """FuseDevWriter against its contract: a writer owns the window [lo, hi) of the reply buffer;
    'content' is what was written through it.  Unbuffered (never split): one write goes to the device
    as one packet.  Buffered (after split_at): bytes accumulate in the window, commit sends one packet
    self ++ other.  'off' is set when the caller leaves the one-shot protocol (second write on an
    unbuffered writer, or splitting an unbuffered writer that already wrote): from then on only the
    Coq model (which covers those paths, including the assert) is compared, not this contract."""
    def __init__(self, seed, cap):
        self.seed = seed; self.cap = cap
        self.ws = [{'buf': False, 'lo': 0, 'hi': cap, 'content': b''}]
        self.mem = {}; self.off = False
        self.async_over = False      # an async_write_from_at went to a buffered writer that already held bytes
        self.sync_over = False       # same for the synchronous write_from / write_from_at
    def place(self, w, data):
        base = FBASE + MARGIN + w['lo'] + len(w['content'])
        for i, v in enumerate(data): self.mem[base + i] = v
    def apply(self, op):
        w = self.ws[op[1]]; a2 = c2 = 0; pk = []
        room = w['hi'] - w['lo'] - len(w['content'])
        if op[0] == 'F':                         # FuseDevWriter::flush always refuses
            return {'res': ('err', 'noflush'), 'a': room, 'c': len(w['content']), 'a2': 0, 'c2': 0, 'pk': []}
        if op[0] == 'A':                         # write_all_from: all count bytes or an error; contract only for buffered writers / full sources
            count, kind, data = op[2], op[3], op[4]
            if not w['buf'] and w['content']:
                self.off = True
                return {'res': 'panic', 'a': room, 'c': len(w['content']), 'a2': 0, 'c2': 0, 'pk': []}
            if count > room: res = ('err', 'nospace'); n = 0
            elif count == 0: res = ('ok', 0, b''); n = 0
            elif kind in 'eb': res = ('err', 'file'); n = 0
            else:
                n = min(count, len(data)); d = data[:n]
                self.place(w, d)
                pk = [d] if (not w['buf']) else []
                w['content'] += d
                if n == count: res = ('ok', 0, b'')
                elif w['buf']: res = ('err', 'writezero')
                else:
                    res = 'panic' if n > 0 else ('err', 'writezero')       # unbuffered + short source: the 2nd iteration hits the assert!
                    self.off = True
            return {'res': res, 'a': w['hi'] - w['lo'] - len(w['content']), 'c': len(w['content']), 'a2': 0, 'c2': 0, 'pk': pk}
        if op[0] == 'e' and not op[2]:           # async_write_all(&[]): the loop body never runs
            return {'res': ('ok', 0, b''), 'a': room, 'c': len(w['content']), 'a2': 0, 'c2': 0, 'pk': []}
        if op[0] in 'gf' and w['buf'] and w['content'] and op[3] not in 'eb' and min(op[2], len(op[4])) > 0 and op[2] <= room:
            if op[0] == 'g': self.async_over = True
            else: self.sync_over = True
        if op[0] in 'bd': op = ('v', op[1], [x for x in op[2]] or [b''])
        op = sync_of(op); k = op[0]
        if k in 'wvf' and not w['buf'] and w['content']:
            self.off = True
            return {'res': 'panic', 'a': room, 'c': len(w['content']), 'a2': 0, 'c2': 0, 'pk': []}
        if k in 'wv':
            data = op[2] if k == 'w' else b''.join(op[2])
            if len(data) > room: res = ('err', 'nospace')
            else:
                res = ('ok', len(data), b'')
                if w['buf']: self.place(w, data)
                elif k == 'w' or (op[2] and data): pk = [data]          # write(2) sends even an empty packet, writev of nothing does not
                w['content'] += data
        elif k == 'f':
            count, kind, data = op[2], op[3], op[4]
            if count > room: res = ('err', 'nospace')
            elif kind in 'eb': res = ('err', 'file')
            else:
                d = data[:count]; res = ('ok', len(d), b'')
                self.place(w, d)
                if not w['buf']: pk = [d]
                w['content'] += d
        elif k == 'p':
            off = op[2]
            if off > w['hi'] - w['lo']: res = ('err', 'split')
            else:
                if not w['buf'] and w['content']: self.off = True
                o = {'buf': True, 'lo': w['lo'] + off, 'hi': w['hi'], 'content': w['content'][off:]}
                w['hi'] = w['lo'] + off; w['content'] = w['content'][:off]; w['buf'] = True
                self.ws.append(o); res = ('ok', 0, b'')
                a2 = o['hi'] - o['lo'] - len(o['content']); c2 = len(o['content'])
        elif k == 'c':
            if not w['buf']: res = ('ok', 0, b'')
            else:
                o = self.ws[op[2]]['content'] if op[2] >= 0 else b''
                p = w['content'] + o
                res = ('ok', len(p), b'')
                if p: pk = [p]
        return {'res': res, 'a': w['hi'] - w['lo'] - len(w['content']), 'c': len(w['content']), 'a2': a2, 'c2': c2, 'pk': pk}

def gen_fcase(rng, protocol_only=False):
    seed = rng.randrange(256); cap = rng.choice([0, 1, 8, 16, 33, 100, 256, 4096, 4097])
    spec = FSpec(seed, cap); ops = []
    for _ in range(rng.randrange(0, 14)):
        i = rng.randrange(len(spec.ws)); w = spec.ws[i]
        room = w['hi'] - w['lo'] - len(w['content'])
        k = rng.choice('wwvffppcc' + 'abdegggghh' + 'AAOF')
        if protocol_only and not w['buf'] and w['content'] and k not in 'ch': k = rng.choice('ch')
        if k == 'O': op = ('O', i, rdata(rng, rng.choice([1, 2, 4, 8, 16])))
        elif k == 'F': op = ('F', i)
        elif k == 'A':
            kind = rng.choice('fflliie'); count = min(pick_n(rng, room), 5000)
            op = ('A', i, count, kind, rdata(rng, rng.choice([count, count, count + 3, max(count - 1, 0), count // 2, 0])) if kind != 'e' else b'')
        elif k in 'wae': op = (k, i, rdata(rng, min(pick_n(rng, room), 5000)))
        elif k in 'bd':
            tot = min(pick_n(rng, room), 5000)
            op = (k, i, [rdata(rng, rng.choice([0, 0, 1, tot // 2, tot])) for _ in range(2 if k == 'b' else 3)])
        elif k == 'g':
            kind = rng.choice('fffllle')
            count = min(pick_n(rng, room), 5000)
            op = ('g', i, count, kind, rdata(rng, rng.choice([count, count + 3, max(count - 1, 0), count // 2, 0])) if kind != 'e' else b'')
        elif k == 'v':
            tot = min(pick_n(rng, room), 5000)
            op = ('v', i, [rdata(rng, rng.choice([0, 0, 1, tot // 2, tot])) for _ in range(rng.choice([0, 1, 2, 3]))])
        elif k == 'f':
            kind = rng.choice('ffaalle' + ('b' if rng.random() < 0.3 else 'l'))
            count = min(pick_n(rng, room), 5000)
            op = ('f', i, count, kind, rdata(rng, rng.choice([count, count + 3, max(count - 1, 0), count // 2, 0])) if kind not in 'eb' else b'')
        elif k == 'p': op = ('p', i, pick_n(rng, w['hi'] - w['lo']))
        else:
            others = [j for j in range(len(spec.ws)) if j != i]
            op = (k if k in 'ch' else 'c', i, rng.choice(others + [-1]) if others else -1)
        ops.append(op); spec.apply(op)
    return {'seed': seed, 'cap': cap, 'mode': 'writer', 'ops': ops}

def gen_frcase(rng):
    seed = rng.randrange(256); cap = rng.choice([0, 1, 8, 40, 106, 4096, 4097])
    descs = [(FBASE + MARGIN, cap, 'r')]
    spec = VSpec(seed, descs)
    ops = gen_vops(rng, spec, rng.randrange(0, 16), reader_only=True)
    return {'seed': seed, 'cap': cap, 'mode': 'reader', 'ops': ops, 'descs': descs}

def case_text_f(c):
    return 'seed=%d cap=%d mode=%s ops=%s' % (c['seed'], c['cap'], c['mode'], ';'.join(op_text(o) for o in c['ops']))

def fcase_coq(c, out):
    base = FBASE + MARGIN
    ws, _ = windows(c['seed'], [(base, c['cap'], FBASE, FBASE + c['cap'] + 2 * MARGIN)], out['mem'], None)
    wtxt = win_coq(ws)
    if c['mode'] == 'reader':
        return '(check_afr %d %d %d [%s] [%s] [%s])' % (c['seed'], base, c['cap'], '; '.join(aop_coq(o) for o in c['ops']),
                                                       '; '.join(obs_coq(o) for o in out['obs']), wtxt)
    pk = [p for o in out['obs'] for p in o[5]]
    return '(check_af async_wfrom_at_len %d %d %d [%s] [%s] [%s] [%s])' % (c['seed'], base, c['cap'], '; '.join(xfop_coq(o) for o in c['ops']),
                                                        '; '.join(obs_coq(o) for o in out['obs']),
                                                        '; '.join('(%d, %d)' % (len(bytes.fromhex(p)), hashN(bytes.fromhex(p))) for p in pk), wtxt)

def eval_fcase(c, out):
    """-> (problems, shape, in_protocol)"""
    if out.get('harness_panic'):
        return [{'what': 'the harness run of a fusedev case panicked outside an operation', 'step': None}], None, False
    if c['mode'] == 'reader':
        cc = dict(c); cc['bad'] = None; cc['regions'] = []
        oo = dict(out); oo['dirty'] = []
        # reader over one contiguous fuse buffer: same specification, one segment
        spec_obs = out['obs']
        o0 = spec_obs[0]
        oo['obs'] = [[o0[0], o0[1], o0[2], 0, 0, []]] + spec_obs[1:]
        cc['descs'] = c['descs'] + []
        p04, _, shape = eval_vcase_reader_only(cc, oo)
        return p04, shape, True
    spec = FSpec(c['seed'], c['cap']); probs = []
    for si, (op, got) in enumerate(zip(c['ops'], out['obs'][1:]), 1):
        e = spec.apply(op)
        if spec.off: break
        kind = {'w': 'write', 'v': 'write_vectored', 'f': 'write_from', 'p': 'split_at', 'c': 'commit', 'a': 'async_write', 'b': 'async_write2', 'd': 'async_write3',
                'e': 'async_write_all', 'g': 'async_write_from_at', 'h': 'async_commit', 'O': 'write_obj', 'F': 'flush', 'A': 'write_all_from'}[op[0]]
        if not res_matches(e['res'], got[0]):
            probs.append({'what': 'fusedev %s returned %s, contract gives %s' % (kind, got[0][:2], e['res'] if isinstance(e['res'], str) else e['res'][:2]),
                          'step': si, 'op': op_json(op), 'sig': {'transport': 'fusedev', 'op': kind}}); break
        if (got[1], got[2], got[3], got[4]) != (e['a'], e['c'], e['a2'], e['c2']):
            probs.append({'what': 'fusedev counters after %s: %s, expected %s' % (kind, got[1:5], [e['a'], e['c'], e['a2'], e['c2']]),
                          'step': si, 'op': op_json(op), 'sig': {'transport': 'fusedev', 'op': 'counters'}}); break
        if [bytes.fromhex(p) for p in got[5]] != e['pk']:
            probs.append({'what': 'fusedev %s sent packets %s, expected %s' % (kind, [p[:40] for p in got[5]], [p.hex()[:40] for p in e['pk']]),
                          'step': si, 'op': op_json(op), 'sig': {'transport': 'fusedev', 'op': 'packets'}}); break
    else:
        diff = {}
        for a, hx in out['mem']:
            for i, v in enumerate(bytes.fromhex(hx)): diff[a + i] = v
        want = {a: v for a, v in spec.mem.items() if v != pat(c['seed'], a)}
        if diff != want:
            bad = sorted(a for a in set(diff) | set(want) if diff.get(a) != want.get(a))
            lo, hi = FBASE + MARGIN, FBASE + MARGIN + c['cap']
            probs.append({'what': 'fusedev reply buffer differs from the bytes written (%d addresses, %d outside the buffer)' % (len(bad), sum(1 for a in bad if not lo <= a < hi)),
                          'first': bad[:5], 'sig': {'transport': 'fusedev', 'op': 'memory'}})
    if probs and spec.async_over and not spec.sync_over:
        # the deviation follows an async_write_from_at into a buffered writer that already held bytes: name it
        probs = [{'what': 'fusedev async_write_from_at on a buffered writer that already holds bytes puts the file data at the start of the buffer: '
                          'earlier bytes are overwritten and stale bytes are committed (%s)' % probs[0]['what'][:160],
                  'step': probs[0].get('step'), 'sig': {'transport': 'fusedev', 'op': 'async_write_from_at'}}]
    shape = (c['cap'], tuple(sorted(set(o[0] for o in c['ops']))))
    return probs, shape, not spec.off

def eval_vcase_reader_only(c, out):
    spec = VSpec(c['seed'], c['descs']); p04 = []
    for si, (op, got) in enumerate(zip(c['ops'], out['obs'][1:]), 1):
        e = spec.apply(op)
        if not res_matches(e['res'], got[0]) or (got[1], got[2], got[3], got[4]) != (e['a'], e['c'], e['a2'], e['c2']):
            p04.append({'what': 'fuse-buffer reader op %s gave %s / %s, specification %s / %s' % (op[0], got[0][:2], got[1:5], e['res'] if isinstance(e['res'], list) else e['res'][:2], [e['a'], e['c'], e['a2'], e['c2']]),
                        'step': si, 'op': op_json(op), 'sig': {'transport': 'fusedev', 'op': 'reader'}}); break
    if out['mem']: p04.append({'what': 'reader modified memory', 'sig': {'transport': 'fusedev', 'op': 'memory'}})
    return p04, [], (c['cap'] if 'cap' in c else 0, tuple(sorted(set(o[0] for o in c['ops']))))

# ------------------------------------------------------------------ Bytes<usize> for FileVolatileSlice
METHODS = ['write', 'read', 'write_slice', 'read_slice', 'read_volatile_from', 'read_exact_volatile_from',
           'write_volatile_to', 'write_all_volatile_to', 'store', 'load']

def gen_bcase(rng, method=None):
    m = method or rng.choice(METHODS)
    size = rng.choice([0, 1, 8, 16, 31, 64, 4096])
    seed = rng.randrange(256)
    if m in ('store', 'load'):
        w = rng.choice([1, 2, 4, 8])
        addr = rng.choice([0, w, 2 * w, max(size - w, 0), size - w + 1 if size >= w else 0, size, rng.randrange(size + 2), 3])
        return {'seed': seed, 'size': size, 'method': m, 'addr': max(addr, 0), 'count': 0, 'buf': rdata(rng, w)}
    if m == 'offset':
        return {'seed': seed, 'size': size, 'method': m, 'addr': 0, 'count': rng.choice([0, 1, size // 2, max(size - 1, 0), size, size + 1, size + 100]), 'buf': b''}
    addr = rng.choice([0, 0, 1, size // 2, max(size - 1, 0), size, size + 1, rng.randrange(size + 2)])
    room = max(size - addr, 0)
    bl = rng.choice([0, 1, room, room, max(room - 1, 0), room + 1, rng.randrange(room + 2), 5])
    count = rng.choice([0, 1, bl, bl, room, room + 1, max(bl - 1, 0), bl + 2])
    return {'seed': seed, 'size': size, 'method': m, 'addr': addr, 'count': count, 'buf': rdata(rng, min(bl, 5000))}

def case_text_b(c):
    return 'seed=%d size=%d method=%s addr=%d count=%d buf=%s' % (c['seed'], c['size'], c['method'], c['addr'], c['count'], c['buf'].hex() or '-')

def bspec(c):
    """plain-view semantics on a byte vector -> (res, memory dict of changes).  res: ('ok', n, buf_after) / ('err', kind)"""
    size, addr, count, buf, m = c['size'], c['addr'], c['count'], c['buf'], c['method']
    if m == 'offset':      # FileVolatileSlice::offset(count): the view [count, size): (new length, pointer advance as 8 LE bytes)
        return (('ok', size - count, struct.pack('<Q', count)) if count <= size else ('err', 'oob')), {}
    base = BBASE + MARGIN
    mem = lambda a: pat(c['seed'], base + a)
    ch = {}
    def put(a0, data):
        for i, v in enumerate(data): ch[base + a0 + i] = v
    if m in ('write', 'write_slice'):
        if not buf: return ('ok', 0, buf), ch
        if addr >= size: return ('err', 'oob'), ch
        n = min(size - addr, len(buf)); put(addr, buf[:n])
        if m == 'write': return ('ok', n, buf), ch
        return (('ok', 0, buf) if n == len(buf) else ('err', 'partial')), ch
    if m in ('read', 'read_slice'):
        if not buf: return ('ok', 0, buf), ch
        if addr >= size: return ('err', 'oob'), ch
        n = min(size - addr, len(buf)); got = bytes(mem(addr + i) for i in range(n)) + buf[n:]
        if m == 'read': return ('ok', n, got), ch
        return (('ok', 0, got) if n == len(buf) else ('err', 'partial')), ch
    if m == 'read_volatile_from':
        if addr > size: return ('err', 'oob'), ch
        n = min(size - addr, count, len(buf)); put(addr, buf[:n]); return ('ok', n, buf), ch
    if m == 'write_volatile_to':
        if addr > size: return ('err', 'oob'), ch
        n = min(size - addr, count, len(buf)); return ('ok', n, bytes(mem(addr + i) for i in range(n)) + buf[n:]), ch
    if m == 'read_exact_volatile_from':
        if addr + count > size: return ('err', 'oob'), ch
        if len(buf) < count: return ('err', 'io'), ch
        put(addr, buf[:count]); return ('ok', 0, buf), ch
    if m == 'write_all_volatile_to':
        if addr + count > size: return ('err', 'oob'), ch
        if len(buf) < count: return ('err', 'io'), ch
        return ('ok', 0, bytes(mem(addr + i) for i in range(count)) + buf[count:]), ch
    w = len(buf)
    if addr + w > size: return ('err', 'oob'), ch
    if (base + addr) % w: return ('err', 'misaligned'), ch
    if m == 'store': put(addr, buf); return ('ok', 0, buf), ch
    return ('ok', 0, bytes(mem(addr + i) for i in range(w))), ch

def bcase_coq(c, out):
    base = BBASE + MARGIN
    ws, _ = windows(c['seed'], [(base, c['size'], BBASE, BBASE + c['size'] + 2 * MARGIN)], out['mem'], None)
    return '(check_b bytes_delegation "%s"%%string %d %d %d %s %d %d %s [%s])' % (
        c['method'], c['seed'], base, c['size'], dcoq(c['buf']), c['addr'], c['count'], res_coq(out['res']), win_coq(ws))

def eval_bcase(c, out):
    """-> (problems, oracle_problems)"""
    if out.get('harness_panic'):
        return [{'what': 'Bytes::%s panicked' % c['method'], 'sig': {'method': c['method']}}], []
    exp, ch = bspec(c); probs = []; orc = []
    def same(res, memd):
        d = {}
        for a, hx in memd:
            for i, v in enumerate(bytes.fromhex(hx)): d[a + i] = v
        want = {a: v for a, v in ch.items() if v != pat(c['seed'], a)}
        if exp[0] == 'err': okres = res[0] == 'err' and res[1] == exp[1]
        else: okres = res[0] == 'ok' and res[1] == exp[1] and bytes.fromhex(res[2]) == exp[2]
        return okres, d == want
    r, m = same(out['res'], out['mem'])
    rr, rm = same(out['ref_res'], out['ref_mem'])
    if not (rr and rm):
        orc.append({'what': 'plain-view reference for %s disagrees with vm-memory VolatileSlice' % c['method'], 'case': case_text_b(c), 'ref': out['ref_res']})
    if not (r and m):
        probs.append({'what': 'FileVolatileSlice Bytes::%s is not a plain view: result %s%s, expected %s; slice bytes %s' % (
                          c['method'], out['res'][:2], '' if r else ' (differs)', exp[:2], 'as expected' if m else 'differ from expected'),
                      'input': case_text_b(c), 'sig': {'method': c['method']}})
    return probs, orc

# ------------------------------------------------------------------ whole requests through Server::handle_message (C17)
import struct
def _inhdr(length, opcode, unique, nodeid=1): return struct.pack('<IIQQIIII', length, opcode, unique, nodeid, 1000, 1000, 77, 0)
def _readin(size, offset): return struct.pack('<QQIIQII', 5, offset, size, 0, 0, 0, 0)

def gen_scase(rng):
    """a FUSE request with a payload-carrying reply, laid out over a random descriptor chain"""
    kind = rng.choice(['read', 'read', 'read', 'readdir', 'getxattr', 'listxattr', 'readlink', 'getattr', 'unknown'])
    plen = rng.choice([0, 1, 15, 16, 100, 4079, 4080, 4081, 4096, 5000, 9000])
    size = rng.choice([0, 1, 16, 100, 4080, 4096, 4097, 6000, 9000])
    off = rng.choice([0, 0, 1, 100, plen]) if kind == 'read' else 0
    if kind in ('read', 'readdir'): body = _readin(size, off); opc = 15 if kind == 'read' else 28
    elif kind == 'getxattr': body = struct.pack('<II', size, 0) + b'user.verif\0'; opc = 22
    elif kind == 'listxattr': body = struct.pack('<II', size, 0); opc = 23
    elif kind == 'readlink': body = b''; opc = 5; plen = min(plen, 4000)
    elif kind == 'getattr': body = struct.pack('<IIQ', 0, 0, 0); opc = 3
    else: body = b''; opc = 99
    req = _inhdr(40 + len(body), opc, rng.randrange(1, 1 << 40)) + body
    regions = rng.choice(LAYOUTS)
    # readable part: the request cut into 1..3 pieces; writable part: 1..5 segments as in gen_chain
    cuts = sorted(rng.sample(range(1, len(req)), rng.choice([0, 1, 2]))) if len(req) > 2 else []
    pieces = [b - a for a, b in zip([0] + cuts, cuts + [len(req)])]
    if rng.random() < 0.2: pieces.append(rng.choice([0, 7]))          # slack / empty readable descriptor
    descs = []; cursor = {b: b + rng.choice([0, 1, 5, 4090, 4095]) for b, z in regions}
    def place(ln, k):
        order = list(regions); rng.shuffle(order)
        for b, z in order:
            a = cursor[b]
            if rng.random() < 0.3:
                want = rng.choice([0, 1, 4095, 4094, (-ln) % PS, (-ln + 1) % PS, (-16) % PS, (-15) % PS])
                a += (want - a) % PS
            if a + ln <= b + z and a < b + z:
                descs.append((a, ln, k)); cursor[b] = a + ln + rng.choice([0, 0, 1, 3, 17, 40]); return True
        return False
    for ln in pieces: place(ln, 'r')
    nbig = 0
    for _ in range(rng.choice([1, 2, 2, 3, 4, 5])):
        if rng.random() < 0.35 and nbig < 2: ln = rng.choice(BIG + [8000]); nbig += 1
        else: ln = rng.choice([0, 1, 8, 15, 16, 17, 64, 100, 255, 1000])
        place(ln, 'w')
    return {'seed': rng.randrange(256), 'regions': regions, 'descs': descs, 'req': req, 'payload': rdata(rng, plen), 'kind': kind, 'size': size}

def case_text_s(c):
    regs = [QREGION] + list(c['regions'])
    return 'seed=%d regions=%s queue=0 descs=%s req=%s payload=%s' % (
        c['seed'], ','.join('%d:%d' % r for r in regs), ','.join('%d:%d:%s' % d for d in c['descs']),
        c['req'].hex(), bytes(c['payload']).hex() or '-')

def eval_scase(c, out):
    """-> (problems, shape).  W = writable addresses in order; a completed reply of L bytes occupies W[:L]"""
    probs = []
    if out.get('harness_panic') or out['res'][0] == 'panic':
        return [{'what': 'server panicked while handling a %s request' % c['kind'], 'sig': {'kind': 'panic'}}], None
    W = [a + i for a, l, k in c['descs'] if k == 'w' for i in range(l)]
    changed = set()
    for a, hx in out['mem']:
        changed.update(range(a, a + len(hx) // 2))
    dirty = set(out['dirty'])
    un = set(a // PS for a in changed) - dirty
    if un: probs.append({'what': 'whole request (%s): modified guest pages not marked dirty: %s' % (c['kind'], sorted(un)[:6]), 'sig': {'kind': 'unmarked'}})
    L = None
    if out['res'][0] == 'ok' and len(out['head']) >= 8:
        L = struct.unpack('<I', bytes.fromhex(out['head'])[:4])[0]
        if L > len(W): L = None
    if L is not None:
        want = set(a // PS for a in W[:L])
        if not want <= dirty: probs.append({'what': 'whole request (%s): pages of the %d-byte reply not marked: %s' % (c['kind'], L, sorted(want - dirty)[:6]), 'sig': {'kind': 'unmarked'}})
        if not dirty <= (want | set(a // PS for a in changed)): probs.append({'what': 'whole request (%s): pages marked although neither the %d-byte reply reaches them nor any byte in them changed: %s' % (c['kind'], L, sorted(dirty - want)[:6]), 'sig': {'kind': 'overmarked'}})
        if not changed <= set(W): probs.append({'what': 'whole request (%s): guest memory modified outside the writable descriptors' % c['kind'], 'sig': {'kind': 'stray-write'}})
    else:
        if not dirty <= set(a // PS for a in W): probs.append({'what': 'whole request (%s, no reply): pages outside the writable descriptors marked' % c['kind'], 'sig': {'kind': 'overmarked'}})
    return probs, (c['kind'], L is not None, len(dirty), len([d for d in c['descs'] if d[2] == 'w']))

# ------------------------------------------------------------------ thorough tier: independent re-check of the compiled proofs
def coqchk(prop, ev, broken):
    rc, out = run(['coqchk', '-silent', '-o', '-Q', '.', 'FB', 'FB.Props.%s' % prop], cwd=COQ, timeout=1800)
    ok = rc == 0 and 'Axioms: <none>' in ' '.join(out.split())
    ev.cov['coqchk'] = 'ok' if ok else 'failed'
    if not ok: broken.append({'kind': 'proof', 'name': 'coqchk Props/%s.vo' % prop, 'log': out[-1500:]})
    return ok

# ------------------------------------------------------------------ C17: long-lived dirty logs, multi-page writes inside one segment
def _big_src(rng, n):
    return rdata(rng, n)

def _wr_op(rng, i, n, short=False):
    """one operation that stores n bytes through writer i: write / write_vectored / write_from(_at) / write_all_from"""
    k = rng.choice('wvffflA')
    if k == 'w': return ('w', i, _big_src(rng, n))
    if k == 'v':
        a = rng.randrange(n + 1)
        return ('v', i, [rdata(rng, a), b'', rdata(rng, n - a)])
    if k == 'A': return ('A', i, n, rng.choice('fl'), _big_src(rng, n))
    kind = {'f': rng.choice('fa'), 'l': 'l'}[k]
    return ('f', i, n + (3 if short else 0), kind, _big_src(rng, n))

def GDslice(d, a, b):
    return bytes(d[a:b])          # a plain byte string (spelled out in the Coq case; only used for small pieces)

def gen_dirty_case(rng):
    """writable segment of 3-5 pages; sub-writers written out of order; initial dirty log non-empty / adversarial"""
    regions = rng.choice(LAYOUTS); (ab, az) = regions[0]
    npg = rng.choice([3, 3, 4, 5])
    start = ab + rng.choice([0, 1, 100, 2000, 4000, 4095])
    ln = rng.choice([npg * PS - (start % PS) - rng.choice([0, 1, 100, 4000]), (npg - 1) * PS + rng.choice([2, 100, 4000])])
    ln = max(2 * PS + 2, min(ln, ab + az - start - 64))
    descs = []
    bb, bz = regions[1]
    if rng.random() < 0.5: descs.append((bb + rng.choice([0, 5, 4090]), rng.choice([8, 40, 64]), 'r'))
    pattern = rng.choice(['split3', 'split3', 'single', 'neighbours', 'mixed'])
    seed = rng.randrange(256)
    if pattern == 'neighbours':
        # two small writable descriptors that share the end pages of the big one and come first
        pre = (start, 8, 'w'); big = (start + 8 + rng.choice([0, 30]), ln - 100, 'w'); post = (big[0] + big[1] + rng.choice([0, 10]), 8, 'w')
        descs += [pre, post, big]
        ops = [_wr_op(rng, 0, 8), _wr_op(rng, 0, 8), _wr_op(rng, 0, big[1] - rng.choice([0, 1, 50]), short=rng.random() < 0.3)]
    else:
        descs.append((start, ln, 'w'))
        if rng.random() < 0.3: descs.append((bb + 200, rng.choice([0, 16, 100]), 'w'))
        if pattern == 'split3':
            h = rng.choice([1, 16, 40, 200]); t = rng.choice([1, 8, 100, 300])
            body = ln - h - t
            ops = [('p', 0, h), ('p', 1, body)]                      # writer 0 = header, 1 = payload, 2 = trailer (+ any later descriptor)
            first = [_wr_op(rng, 2, t), _wr_op(rng, 0, h)]
            if rng.random() < 0.5: first.reverse()
            ops += first + [_wr_op(rng, 1, body - rng.choice([0, 0, 1, 500]), short=rng.random() < 0.3)]
        elif pattern == 'single':
            ops = [_wr_op(rng, 0, ln - rng.choice([0, 1, 200, 4096]))]
        else:
            a = rng.choice([1, 100, 4000]); ops = [_wr_op(rng, 0, a), _wr_op(rng, 0, ln - a - rng.choice([0, 5]))]
            if rng.random() < 0.5: ops.insert(0, ('r', 0, 3) if any(d[2] == 'r' for d in descs) else ('c', 0))
    # initial dirty log
    allp = [p for b, z in regions for p in range(b // PS, (b + z) // PS)]
    spec = VSpec(seed, descs)
    for op in ops: spec.apply(op)
    mode = rng.choice(['ends', 'ends', 'ends', 'none', 'all', 'alt', 'random'] if pattern != 'split3' else ['none', 'none', 'ends', 'random', 'alt'])
    if mode == 'ends':      # exactly the end pages of each multi-page store are already dirty, everything else clean
        d0 = sorted(set(p for w in spec.wlog if w[-1] // PS - w[0] // PS >= 2 for p in (w[0] // PS, w[-1] // PS)))
    else:
        d0 = {'none': [], 'all': allp, 'alt': allp[rng.randrange(2)::2], 'random': [p for p in allp if rng.random() < 0.4]}[mode]
    return {'seed': seed, 'regions': regions, 'descs': descs, 'bad': None, 'ops': ops, 'dirty0': d0, 'pattern': pattern, 'dirty_mode': mode}

def gen_short_case(rng):
    """file-to-guest transfers whose source ends early (by >= 1 page, by < 1 page, empty), through write_from,
    write_from_at, write_all_from and async_write_from_at, into page-aligned and unaligned segments, on initial
    dirty logs that are empty / alternating / random: the pages behind the bytes actually read must stay clean"""
    regions = rng.choice(LAYOUTS); (ab, az) = regions[0]; (bb, bz) = regions[1]
    aligned = rng.random() < 0.5
    start = ab + (rng.choice([0, PS]) if aligned else rng.choice([1, 100, 2000, 4000, 4095]))
    npg = rng.choice([2, 3, 4])
    ln = npg * PS if aligned else npg * PS - rng.choice([1, 100, 3000])
    descs = [(start, ln, 'w')]
    if rng.random() < 0.4: descs.append((bb + rng.choice([0, 4090]), rng.choice([16, 4097]), 'w'))
    if rng.random() < 0.3: descs.insert(0, (bb + 8192, 40, 'r'))
    seed = rng.randrange(256); ops = []
    pre = rng.choice([0, 0, 16, 100])
    if pre: ops.append((rng.choice('wa'), 0, rdata(rng, pre)))
    if rng.random() < 0.3: ops += [('p', 0, pre and 0 or 16)]
    tgt = len([o for o in ops if o[0] == 'p'])           # write into the newest writer
    room = sum(d[1] for d in descs if d[2] == 'w') - pre - (16 if tgt else 0)
    count = max(1, min(room, rng.choice([ln - pre, ln - pre - 1, 2 * PS + 5, room, PS + 1])))
    short = rng.choice(['page+', 'page+', 'sub', 'sub', 'empty', 'none'])
    dl = {'page+': max(count - rng.choice([PS, PS + 1, 2 * PS]), 0), 'sub': max(count - rng.choice([1, 100, PS - 1]), 0), 'empty': 0, 'none': count}[short]
    k = rng.choice('ggggffA')
    kind = rng.choice('fl') if k != 'f' else rng.choice('fal')
    ops.append((k, tgt, count, kind, rdata(rng, dl)))
    if rng.random() < 0.5 and k != 'A':                  # a second transfer right behind the first
        ops.append((rng.choice('gf'), tgt, min(100, max(room - count, 0)), 'l', rdata(rng, rng.choice([0, 50, 100]))))
    allp = [p for b, z in regions for p in range(b // PS, (b + z) // PS)]
    mode = rng.choice(['none', 'none', 'alt', 'random'])
    d0 = {'none': [], 'alt': allp[rng.randrange(2)::2], 'random': [p for p in allp if rng.random() < 0.3]}[mode]
    return {'seed': seed, 'regions': regions, 'descs': descs, 'bad': None, 'ops': ops, 'dirty0': d0, 'pattern': 'short-' + short, 'dirty_mode': mode}

def gen_fcase_over(rng):
    """async_write_from_at into a split-off (buffered) writer that already holds bytes, then commit"""
    seed = rng.randrange(256); cap = rng.choice([32, 100, 4097]); h = rng.choice([0, 8, 16])
    pre = rdata(rng, rng.choice([1, 3, 16])); n = rng.choice([1, 4, 10])
    k = rng.choice('ggf')        # the async method, or its synchronous twins write_from / write_from_at
    ops = [('p', 0, h), (rng.choice('wa'), 1, pre), (k, 1, n + rng.choice([0, 2]), rng.choice('fl') if k == 'g' else rng.choice('fal'), rdata(rng, n)),
           (rng.choice('wa'), 0, rdata(rng, h)), (rng.choice('ch'), 0, 1)]
    return {'seed': seed, 'cap': cap, 'mode': 'writer', 'ops': ops}

# ------------------------------------------------------------------ deterministic enumeration blocks (coverage audit)
def _mk_op(rng, k, sub, i, n):
    """operation of kind k (sub = file kind) on handle i with size parameter n"""
    if k in 'rx': return (k, i, n)
    if k == 'o': return ('o', i, n)
    if k == 't': return ('t', i, n, sub, 3 if sub == 'l' else 0)
    if k == 'X': return ('X', i, n, sub, {'l': 3, 'i': 5000}.get(sub, 0))
    if k == 'T': return ('T', i, n, sub, 3 if sub == 'l' else 0)
    if k in 'wae': return (k, i, rdata(rng, n))
    if k == 'O': return ('O', i, rdata(rng, n))
    if k == 'v': return ('v', i, [rdata(rng, n // 2), b'', rdata(rng, n - n // 2)])
    if k == 'b': return ('b', i, [rdata(rng, n // 2), rdata(rng, n - n // 2)])
    if k == 'd': return ('d', i, [rdata(rng, n // 3), rdata(rng, 0), rdata(rng, n - n // 3)])
    if k in 'fgA': return (k, i, n, sub, rdata(rng, n) if sub != 'e' else b'')
    if k in 'cFh': return (k, i)
    raise ValueError(k)

W_KINDS = [('w', ''), ('v', ''), ('f', 'f'), ('f', 'a'), ('f', 'l'), ('f', 'e'), ('A', 'f'), ('A', 'l'), ('A', 'i'), ('a', ''), ('b', ''), ('d', ''),
           ('e', ''), ('g', 'f'), ('g', 'l'), ('g', 'e'), ('O', ''), ('c', ''), ('h', ''), ('F', '')]
R_KINDS = [('r', ''), ('x', ''), ('o', ''), ('t', 'f'), ('t', 'a'), ('t', 'l'), ('t', 'e'), ('X', 'f'), ('X', 'l'), ('X', 'i'), ('X', 'e'),
           ('T', 'f'), ('T', 'l'), ('T', 'e'), ('s', '')]

def gen_enum_vcases(rng, writer_only=False):
    """every operation kind x {fresh handle, first half, second half of a split} x {0, 1, room-1, room, room+1} x
    {direct, through the Writer enum} x initial dirty log {none, all, alternating}, on a fixed chain whose readable and
    writable parts both cross a page border, contain an empty descriptor and lie in two regions"""
    regions = LAYOUTS[0]; (ab, az), (bb, bz) = regions
    descs = [(ab + 4090, 10, 'r'), (ab + 5000, 0, 'r'), (bb + 0, 6, 'r'), (ab + 8190, 4, 'w'), (bb + 100, 0, 'w'), (bb + 4090, 12, 'w')]
    allp = [p for b, z in regions for p in range(b // PS, (b + z) // PS)]
    cases = []; n = 0
    for side, kinds in (('w', W_KINDS), ('r', R_KINDS)):
        if writer_only and side == 'r': continue
        for k, sub in kinds:
            for pos in ('fresh', 'first', 'second'):
                room = {'fresh': 16, 'first': 6, 'second': 10}[pos]
                sizes = [0, 1, room - 1, room, room + 1]
                if k in 'Oo': sizes = [1, 2, 4, 8, 16]
                if k in 'cFh': sizes = [0]
                if k == 's': sizes = [0, 1, room, room + 1]
                for sz in sizes:
                    pre = [] if pos == 'fresh' else [('p' if side == 'w' else 's', 0, 6)]
                    i = 1 if pos == 'second' else 0
                    op = ('s', i, sz) if k == 's' else _mk_op(rng, k, sub, i, sz)
                    d0 = [[], allp, allp[::2]][n % 3]
                    cases.append({'seed': n % 251, 'regions': regions, 'descs': descs, 'bad': None, 'ops': pre + [op], 'dirty0': d0,
                                  'via': ['direct', 'enum'][n % 2], 'pattern': 'enum-' + k + sub, 'dirty_mode': ['none', 'all', 'alt'][n % 3]})
                    n += 1
    return cases

def gen_enum_fcases(rng):
    """FuseDevWriter: every operation kind x {unbuffered, first half, second half, second half already holding 3 bytes} x
    {0, 1, room-1, room, room+1}, followed by a commit of both halves"""
    cases = []; n = 0
    kinds = [k for k in W_KINDS if k != ('h', '')] + [('h', '')]
    for k, sub in kinds:
        for pos in ('plain', 'first', 'second', 'second+3'):
            room = {'plain': 16, 'first': 6, 'second': 10, 'second+3': 7}[pos]
            sizes = [0, 1, room - 1, room, room + 1]
            if k == 'O': sizes = [1, 2, 4, 8, 16]
            if k in 'cFh': sizes = [0]
            for sz in sizes:
                pre = [] if pos == 'plain' else [('p', 0, 6)]
                if pos == 'second+3': pre.append((['w', 'a'][n % 2], 1, rdata(rng, 3)))
                i = 0 if pos in ('plain', 'first') else 1
                op = (k, i, 1 - i if pos != 'plain' else -1) if k in 'ch' else _mk_op(rng, k, sub, i, sz)
                post = [] if pos == 'plain' else [(['c', 'h'][n % 2], 0, 1)]
                cases.append({'seed': n % 251, 'cap': 16, 'mode': 'writer', 'ops': pre + [op] + post})
                n += 1
    return cases

# ------------------------------------------------------------------ FileReadWriteVolatile for File / &mut File (POSIX reference)
FT_METHODS = ['read_volatile', 'read_vectored_volatile', 'read_exact_volatile', 'write_volatile', 'write_vectored_volatile', 'write_all_volatile',
              'read_at_volatile', 'read_vectored_at_volatile', 'read_exact_at_volatile', 'write_at_volatile', 'write_vectored_at_volatile', 'write_all_at_volatile']

def gen_ftcases(rng):
    """each of the 12 trait methods x {File, &mut File} x slice shapes (none, empty, one, three with an empty one) x
    file shorter / equal / longer than the slices x position / offset inside, at and behind the end of the file"""
    cases = []; n = 0
    for m in FT_METHODS:
        vect = 'vectored' in m
        for shape in ([[], [0], [5], [3, 0, 4], [4096, 1]] if vect else [[0], [1], [5], [4097]]):
            tot = sum(shape) if vect else (shape[0] if shape else 0)
            for clen in sorted(set([0, max(tot - 1, 0), tot, tot + 3])):
                for where in (0, 2, clen, clen + 2):
                    cases.append({'seed': n % 251, 'method': m, 'content': rdata(rng, clen), 'pos': where, 'off': where, 'slices': shape, 'wrap': n % 2})
                    n += 1
    return cases

def case_text_ft(c):
    return 'seed=%d method=%s content=%s pos=%d off=%d slices=%s wrap=%d' % (c['seed'], c['method'], bytes(c['content']).hex() or '-', c['pos'], c['off'],
                                                                            ','.join(str(x) for x in c['slices']), c['wrap'])

def ftspec(c):
    """-> (res, slices after, file after, position after)"""
    m = c['method']; content = bytearray(c['content']); at = '_at_' in m
    pos = c['off'] if at else c['pos']
    lens = list(c['slices']); o = 8; sl = []
    for l in lens:
        sl.append(bytearray(pat(c['seed'], BBASE + o + i) for i in range(l))); o += l + 8
    use = sl if 'vectored' in m else (sl[:1] or [bytearray()])
    if m.startswith('read'):
        want = sum(len(x) for x in use); have = max(len(content) - pos, 0); n = min(want, have)
        data = content[pos:pos + n]; k = 0
        for x in use:
            t = min(len(x), n - k); x[:t] = data[k:k + t]; k += t
        res = ('ok', n)
        if 'exact' in m: res = ('ok', 0) if n == want else ('err', 'eof')
        newpos = c['pos'] if at else c['pos'] + n
    else:
        data = b''.join(bytes(x) for x in use); n = len(data)
        if n:
            if pos > len(content): content.extend(b'\0' * (pos - len(content)))
            content[pos:pos + n] = data
        res = ('ok', 0) if 'all' in m else ('ok', n)
        newpos = c['pos'] if at else c['pos'] + n
    return res, [bytes(x) for x in sl], bytes(content), newpos

def eval_ftcase(c, out):
    if out.get('harness_panic'): return [{'what': 'FileReadWriteVolatile::%s panicked' % c['method'], 'sig': {'method': c['method']}}]
    res, sl, fc, pos = ftspec(c)
    got = out['res']
    ok = (got[0] == res[0] and got[1] == res[1]) and [bytes.fromhex(x) for x in out['slices']] == sl and bytes.fromhex(out['file']) == fc and out['pos'] == pos and out['canary']
    if ok: return []
    return [{'what': 'FileReadWriteVolatile::%s for %s deviates from the POSIX reference: got %s pos %s, expected %s pos %s' % (
                 c['method'], '&mut File' if c['wrap'] else 'File', got, out['pos'], res, pos), 'input': case_text_ft(c), 'sig': {'method': c['method']}}]

# ------------------------------------------------------------------ FileVolatileBuf bookkeeping
def gen_fvbufcases(rng):
    return [{'seed': n % 251, 'size': cap, 'addr': init, 'count': ns} for n, (cap, init, ns) in enumerate(
        (cap, init, ns) for cap in (0, 1, 10, 4096) for init in sorted(set([0, cap // 2, cap, cap + 1])) for ns in sorted(set([0, cap, cap + 1])))]

def eval_fvbufcase(c, out):
    cap, init, ns = c['size'], c['addr'], c['count']
    if init > cap: exp = ['panic']                    # new_with_data / from_raw_ptr assert size <= cap
    else:
        head = bytes(pat(c['seed'], BBASE + i) for i in range(init))
        exp = ['ok', [0, cap, 1, init, cap, init, cap - init, ns if ns <= cap else init, cap, int(cap == 0), cap, cap, 0, cap, init], head.hex()]
    if out.get('res') == exp: return []
    return [{'what': 'FileVolatileBuf / borrow_as_buf bookkeeping differs: got %s, expected %s' % (out.get('res'), exp), 'input': 'seed=%d size=%d addr=%d count=%d' % (c['seed'], cap, init, ns), 'sig': {'method': 'FileVolatileBuf'}}]

MISC_EXPECTED = {"noop_write": "err22", "noop_write_vectored": "err22", "noop_flush": "ok0", "noop_write_from_at": "err22", "noop_split": "err", "noop_avail": 0,
                 "noop_written": 0, "noop_commit": "ok0", "noop_async_write": "err22", "noop_async_write2": "err22", "noop_async_write3": "err22",
                 "noop_async_write_all": "err22", "noop_async_commit": "err22", "noop_async_write_from_at": "err22",
                 "default_reader": [0, 0, "ok0", "eof", "ok", "err"], "reader_clone": ["0304", "03040506", 3, 5, 1, 7], "fusedev_flush": "err"}
