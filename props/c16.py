"""C16 -- directory listing returns each entry exactly once across any chunking/resumption.

Coq: Model/Readdir.v, Proofs/Readdir*.v, Props/C16.v.
Tie: harness bin `readdir` = raw FUSE message pipe into Server::handle_message over the real
PassthroughFs / Vfs; this file encodes requests and decodes replies from the kernel layout,
takes the raw getdents64 listing of the host directory as the oracle, runs resume histories,
compares the replies with the Coq model (coq_check_cases) and evaluates the property
predicate on what the implementation returned."""
import os, sys, json, re, random, struct, subprocess, ctypes, shutil, stat, time, atexit
from vlib import *

PROP = 'C16'

# ------------------------------------------------------------------ FUSE wire client (kernel layout, by hand)
OP = dict(LOOKUP=1, FORGET=2, GETATTR=3, SETATTR=4, OPEN=14, READ=15, WRITE=16, RELEASE=18, INIT=26, OPENDIR=27,
          READDIR=28, RELEASEDIR=29, CREATE=35, FALLOCATE=43, READDIRPLUS=44)
FUSE_ATOMIC_O_TRUNC = 1 << 3
FUSE_DO_READDIRPLUS = 1 << 13
FUSE_NO_OPEN_SUPPORT = 1 << 17
FUSE_NO_OPENDIR_SUPPORT = 1 << 24

class FuseError(Exception):
    pass

class FuseClient:
    """talks to a harness bin that pipes raw messages into Server::handle_message"""
    def __init__(self, binpath):
        self.p = subprocess.Popen([binpath], stdin=subprocess.PIPE, stdout=subprocess.PIPE, stderr=subprocess.DEVNULL, text=True, bufsize=1)
        self.unique = 0
        self.verb = 'msg'      # 'amsg' = Server::async_handle_message
        self.log = []          # (opcode, nodeid, body hex, bufsize) of everything sent, for replays
    def cmd(self, line):
        self.p.stdin.write(line + '\n'); self.p.stdin.flush()
        out = self.p.stdout.readline()
        if not out: raise FuseError('harness died on: ' + line[:200])
        return out.strip()
    def new(self, spec):
        r = self.cmd('new ' + spec)
        if r != 'ok': raise FuseError('new %s -> %s' % (spec, r))
        self.spec = spec
    def msg(self, opcode, nodeid, body=b'', bufsize=8192, uid=0, gid=0):
        """-> (error (positive errno, 0 = ok), payload bytes) or None when nothing was written; 'panic' on panic"""
        self.unique += 1
        hdr = struct.pack('<IIQQIIII', 40 + len(body), opcode, self.unique, nodeid, uid, gid, 4242, 0)
        r = self.cmd('%s %d %s' % (self.verb, bufsize, (hdr + body).hex()))
        w = r.split()
        if w[0] != 'reply': raise FuseError(r[:300])
        self.last_ret = w[2]
        if w[2] == 'ret=panic': return 'panic'
        if w[1] == '-': return None
        rep = bytes.fromhex(w[1])
        ln, err, uq = struct.unpack('<IiQ', rep[:16])
        if ln != len(rep) or uq != self.unique:
            raise FuseError('bad out header len=%d actual=%d unique=%d/%d' % (ln, len(rep), uq, self.unique))
        return (-err, rep[16:])
    def close(self):
        try:
            self.p.stdin.write('quit\n'); self.p.stdin.flush(); self.p.wait(timeout=10)
        except Exception:
            self.p.kill()
    # ---- typed requests
    def init(self, flags, major=7, minor=31):
        r = self.msg(OP['INIT'], 0, struct.pack('<IIII', major, minor, 0, flags))
        if not isinstance(r, tuple) or r[0] != 0: raise FuseError('INIT failed %r' % (r,))
        return struct.unpack('<IIII', r[1][:16])[3]           # negotiated flags
    def lookup(self, parent, name):
        r = self.msg(OP['LOOKUP'], parent, name + b'\0')
        if r[0] != 0: return r[0], None
        return 0, parse_entry_out(r[1])
    def forget(self, nodeid, n):
        return self.msg(OP['FORGET'], nodeid, struct.pack('<Q', n))
    def getattr(self, nodeid, fh=None):
        r = self.msg(OP['GETATTR'], nodeid, struct.pack('<IIQ', 1 if fh is not None else 0, 0, fh or 0))
        if r[0] != 0: return r[0], None
        return 0, parse_attr(r[1][16:])
    def opendir(self, nodeid, flags=os.O_RDONLY | os.O_DIRECTORY):
        r = self.msg(OP['OPENDIR'], nodeid, struct.pack('<II', flags, 0))
        if r[0] != 0: return r[0], None
        return 0, struct.unpack('<QII', r[1][:16])[0]
    def releasedir(self, nodeid, fh):
        return self.msg(OP['RELEASEDIR'], nodeid, struct.pack('<QIIQ', fh, 0, 0, 0))[0]
    def readdir(self, nodeid, fh, size, offset, plus, extra=16):
        return self.msg(OP['READDIRPLUS' if plus else 'READDIR'], nodeid,
                        struct.pack('<QQIIQII', fh, offset, size, 0, 0, 0, 0), bufsize=size + extra)

def parse_attr(b):
    f = struct.unpack('<QQQQQQIIIIIIIIII', b[:88])
    return dict(zip(['ino', 'size', 'blocks', 'atime', 'mtime', 'ctime', 'atimensec', 'mtimensec', 'ctimensec',
                     'mode', 'nlink', 'uid', 'gid', 'rdev', 'blksize', 'flags'], f))

def parse_entry_out(b):
    nodeid, gen, ev, av, evn, avn = struct.unpack('<QQQQII', b[:40])
    return {'nodeid': nodeid, 'generation': gen, 'attr': parse_attr(b[40:128])}

def round8(n): return (n + 7) & ~7

def decode_dirents(payload, plus):
    """own decoder from the kernel layout: fuse_dirent {u64 ino; u64 off; u32 namelen; u32 type; char name[]} padded
    to 8; fuse_direntplus = fuse_entry_out (128 bytes) + fuse_dirent.  -> list of dicts or raises ValueError"""
    out = []; p = 0
    while p < len(payload):
        ent = None
        if plus:
            if p + 128 > len(payload): raise ValueError('truncated entry_out at %d' % p)
            ent = parse_entry_out(payload[p:p + 128]); p += 128
        if p + 24 > len(payload): raise ValueError('truncated dirent header at %d' % p)
        ino, off, namelen, ty = struct.unpack('<QQII', payload[p:p + 24])
        rec = round8(24 + namelen)
        if p + rec > len(payload): raise ValueError('truncated dirent name at %d' % p)
        name = payload[p + 24:p + 24 + namelen]
        pad = payload[p + 24 + namelen:p + rec]
        d = {'ino': ino, 'off': off, 'type': ty, 'name': name, 'pad_zero': pad == b'\0' * len(pad)}
        if ent is not None: d['nodeid'] = ent['nodeid']; d['attr_ino'] = ent['attr']['ino']; d['mode'] = ent['attr']['mode']
        out.append(d); p += rec
    return out

# ------------------------------------------------------------------ oracle: raw getdents64 of the host directory
_libc = ctypes.CDLL(None, use_errno=True)
SYS_getdents64 = 217

def raw_getdents(path, bufsize=32768):
    """-> list of (name, d_ino, d_off, d_type, d_reclen) in kernel order, read with one fd from position 0"""
    fd = os.open(path, os.O_RDONLY | os.O_DIRECTORY)
    buf = ctypes.create_string_buffer(bufsize); out = []
    try:
        while True:
            n = _libc.syscall(SYS_getdents64, fd, buf, bufsize)
            if n < 0: raise OSError(ctypes.get_errno(), 'getdents64')
            if n == 0: break
            p = 0
            while p < n:
                ino, off, reclen, ty = struct.unpack_from('<QqHB', buf, p)
                name = buf.raw[p + 19:p + reclen].split(b'\0', 1)[0]
                out.append((name, ino, off & 0xffffffffffffffff, ty, reclen)); p += reclen
    finally:
        os.close(fd)
    return out

def one_getdents(path, size, seek=None):
    """one getdents64 call with a buffer of `size` bytes after an optional lseek -> list of names, or errno"""
    fd = os.open(path, os.O_RDONLY | os.O_DIRECTORY)
    try:
        if seek is not None: os.lseek(fd, seek, os.SEEK_SET)
        buf = ctypes.create_string_buffer(max(size, 1))
        n = _libc.syscall(SYS_getdents64, fd, buf, size)
        if n < 0: return ctypes.get_errno()
        out = []; p = 0
        while p < n:
            ino, off, reclen, ty = struct.unpack_from('<QqHB', buf, p)
            out.append(buf.raw[p + 19:p + reclen].split(b'\0', 1)[0]); p += reclen
        return out
    finally:
        os.close(fd)

I64_MAX = 2 ** 63 - 1

def host_reclen(name): return round8(19 + len(name) + 1)
def fuse_size(name, plus): return round8(24 + len(name)) + (128 if plus else 0)
def is_dot(name): return name in (b'.', b'..')

# ------------------------------------------------------------------ directories
def name_of_len(rng, n, used):
    while True:
        s = bytes(rng.choice(b'abcdefghijklmnopqrstuvwxyzABCDEFGHIJKLMNOPQRSTUVWXYZ0123456789_-+,=@%~ \xc3\xa9') for _ in range(n))
        if s not in used and s not in (b'.', b'..') and b'/' not in s: used.add(s); return s

def make_dir(base, name, lengths, rng):
    """create directory base/name with one entry per length; entry kinds vary"""
    p = os.path.join(base.encode(), name.encode()); os.mkdir(p)
    used = set()
    for i, ln in enumerate(lengths):
        if isinstance(ln, bytes): nm = ln; used.add(nm)
        else: nm = name_of_len(rng, ln, used)
        q = os.path.join(p, nm)
        k = i % 11
        if k == 3: os.mkdir(q)
        elif k == 5: os.symlink(b'target', q)
        elif k == 7: os.mkfifo(q)
        else: os.close(os.open(q, os.O_CREAT | os.O_WRONLY, 0o644))
    return p

# names that start with dots (or are made of dots and one other byte) but are neither "." nor "..": ordinary entries
DOTNAMES = [b'.a', b'..a', b'...', b'..data', b'....', b'. ', b'.. ', b'a.', b'.a.', b'a..', b'..\xc3\xa9', b'.-']

def dir_plans(rng, tier):
    """name -> list of name lengths"""
    all_len = list(range(1, 256))
    plans = {
        'e0': [], 'e1': [1], 'e1b': [255], 'e2': [8, 9], 'e3': [16, 1, 17],
        'e9': [rng.randint(1, 255) for _ in range(9)],
        'r8': [3, 12, 5, 14, 7, 8, 9, 18, 1, 10, 6, 11],          # every residue of the name length mod 8
        'dd': list(DOTNAMES),                                     # ONLY names that start with / consist of dots
        'd1': [b'..a'],                                           # such a name alone in a directory

        'e40': [1, 2, 3, 4, 5, 6, 7, 8, 9, 15, 16, 17, 23, 24, 25, 247, 248, 249, 250, 251, 252, 253, 254, 255] + [rng.randint(2, 60) for _ in range(16)],
        'e300': all_len + [rng.randint(2, 40) for _ in range(45)],
        'e3000': [1, 255, 254, 129, 64, 65, 66, 67, 68, 69, 70, 71] + [rng.randint(3, 12) for _ in range(3000 - 12)],
    }
    for k in plans: rng.shuffle(plans[k])
    plans['e9'] = [b'..data'] + plans['e9'] + [b'...']
    plans['e40'] = [b'.a', b'..a'] + plans['e40'] + [b'....', b'.. ']
    plans['e300'] = plans['e300'] + [b'..x', b'...y']
    plans['r8'] = plans['r8'] + [b'..b']
    return plans

# ------------------------------------------------------------------ Coq terms
def coq_dir(entries):
    return '[' + ';\n '.join('mk_hent (unhex "%s") %d %d %d' % (n.hex(), ino, off, ty) for n, ino, off, ty, _ in entries) + ']'

COQ_HEADER = ('From Coq Require Import List String NArith Bool.\nFrom FB Require Import Lib.Hex Model.Readdir.\n'
              'Import ListNotations.\nLocal Open Scope string_scope.\nLocal Open Scope N_scope.\n')

# ------------------------------------------------------------------ streams and histories
class Stream:
    """one listing in progress by a client: starts at `start_off` (0 or the offset of a previously returned entry),
    always resumes from the offset of the last entry it received"""
    def __init__(self, sid, start_off, k, plus, size_policy, handles):
        self.sid, self.off, self.k0, self.plus, self.policy, self.handles = sid, start_off, k, plus, size_policy, handles
        self.start_off = start_off
        self.got = []          # entries received (dicts)
        self.replies = []      # (size, offset, n entries | 'err N')
        self.done = False; self.steps = 0

def next_visible(oracle, k):
    for j in range(k, len(oracle)):
        if not is_dot(oracle[j][0]): return j
    return None

def model_batch(oracle, k, size):
    """host records getdents64(size) returns from index k (python mirror, used only to classify findings)"""
    tot = 0; b = []
    for j in range(k, len(oracle)):
        if tot + oracle[j][4] > size: break
        tot += oracle[j][4]; b.append(j)
    return b

def fetch_mirror(oracle, cookie_idx, k, size, off):
    """python mirror of the batch do_readdir fetches (only used to classify findings): list of indices or 'EINVAL'"""
    def batch(pos):
        if pos < len(oracle) and oracle[pos][4] > size: return 'EINVAL'
        return model_batch(oracle, pos, size)
    if off <= I64_MAX: return batch(k)
    pos = 0; found = False
    while True:
        b = batch(pos)
        if b == 'EINVAL' or not b: return b
        pos += len(b)
        if found: return b
        ci = cookie_idx.get(off)
        if ci in b:
            rest = b[b.index(ci) + 1:]; found = True
            if rest: return rest
    return []

def choose_size(rng, policy, oracle, k, plus, dc=None):
    sz = choose_size0(rng, policy, oracle, k, plus)
    if dc is not None and policy == 'fit_all': sz = max(sz, dc.max_reclen) + rng.choice([0, 8, 40, 100])
    if dc is not None and dc.max_size: sz = min(sz, dc.max_size)
    return sz

def choose_size0(rng, policy, oracle, k, plus):
    j = next_visible(oracle, k)
    need = fuse_size(oracle[j][0], plus) if j is not None else fuse_size(b'x', plus)
    dots = sum(oracle[i][4] for i in range(k, j if j is not None else len(oracle)))
    safe = max(need, dots + (oracle[j][4] if j is not None else 0))     # what the code really needs
    if policy == 'min': return need
    if policy in ('safe_min', 'fit_all'): return safe
    if policy == 'small': return safe + rng.choice([0, 1, 7, 8, 9, 31, 40, 100, 200, 333])
    if policy == 'page': return max(4096, safe)
    if policy == 'big': return 65536
    if policy == 'mixed':
        return max(safe, rng.choice([safe, safe + 8, 512, 1000, 4096, 4097, 8192, 20000, 65536]))
    return int(policy)

class DirCase:
    def __init__(self, label, path, oracle):
        self.label, self.path, self.oracle = label, path, oracle
        self.cookie_idx = {e[2]: i for i, e in enumerate(oracle)}
        self.visible = [i for i, e in enumerate(oracle) if not is_dot(e[0])]
        self.max_size = None                                   # largest buffer for which the host returns the maximal prefix
        self.max_reclen = max([e[4] for e in oracle] or [24])
        self.pols = None
        self.short_batches = False                           # host returns fewer records than would fit: outside the Coq model

def check_oracle(dc, findings_or_broken):
    """the Section hypotheses of the theorems, checked on the real host listing"""
    o = dc.oracle
    offs = [e[2] for e in o]
    ok = len(set(offs)) == len(offs) and all(c != 0 for c in offs) and all(e[4] == host_reclen(e[0]) for e in o)
    again = raw_getdents(dc.path, 4096)
    ok = ok and [e[:4] for e in again] == [e[:4] for e in o]
    # getdents64 returns the maximal prefix that fits (from the start and after an lseek to a cookie)
    for size in ([] if dc.short_batches else [24, 48, 100, 333, 1000, 2000, 4096, 65536]):
        for seek in [None] + [e[2] for e in o[:3] if e[2] <= I64_MAX]:
            k = 0 if seek is None else dc.cookie_idx[seek] + 1
            want = [o[i][0] for i in model_batch(o, k, size)]
            if k < len(o) and o[k][4] > size: want = 22
            got = one_getdents(dc.path, size, seek)
            if got != want:
                if isinstance(got, list) and isinstance(want, list) and got and want[:len(got)] == got and size >= 2000:
                    dc.max_size = min(dc.max_size or size, size) // 2       # host caps what one call returns
                else: ok = False
    if not ok:
        findings_or_broken.append({'kind': 'oracle-hypothesis', 'dir': dc.label,
                                   'what': 'host listing violates cookies distinct/non-zero, reclen formula or stable order'})
    return ok

def run_history(cl, rng, dc, nodeid, fhs, streams, noise_rate, plus_refs, max_reqs=400):
    """interleave the streams (and noise requests) on one fs instance; returns the request/response history"""
    hist = []
    live = [s for s in streams]
    oracle = dc.oracle
    # host quirk (ext4, seen on 6.18): lseek to the end-of-directory cookie as the very first operation on a fresh
    # fd makes the next lseek(0)+getdents64 return nothing once.  That breaks the host hypothesis "lseek(0) rewinds",
    # not the library, so every fresh handle is first read once from offset 0 (these requests are part of the history).
    for fh in fhs:
        if fh != 0 or len(fhs) > 1: do_request(cl, dc, nodeid, fh, 4096, 0, False, hist, None, plus_refs)
    while live and len(hist) < max_reqs:
        if rng.random() < noise_rate:
            # noise: any handle, any size, a valid offset (0 or some cookie) or a huge bogus one; result recorded too
            fh = rng.choice(fhs)
            r = rng.random()
            if r < 0.2 or not oracle: off = 0
            elif r < 0.9: off = rng.choice(oracle)[2]
            else: off = rng.choice([c for c in (2 ** 63, 2 ** 64 - 1, 2 ** 63 + 12345) if c not in dc.cookie_idx])
            k = 0 if off == 0 else (dc.cookie_idx[off] + 1 if off in dc.cookie_idx else None)
            plus = rng.random() < 0.3
            size = choose_size(rng, rng.choice(dc.pols or ['safe_min', 'small', 'page', 'mixed']), oracle, k if k is not None else 0, plus, dc)
            do_request(cl, dc, nodeid, fh, size, off, plus, hist, None, plus_refs)
            continue
        s = rng.choice(live)
        k = 0 if s.off == 0 else dc.cookie_idx[s.off] + 1
        size = choose_size(rng, s.policy, oracle, k, s.plus, dc)
        fh = fhs[rng.choice(s.handles) % len(fhs)]
        do_request(cl, dc, nodeid, fh, size, s.off, s.plus, hist, s, plus_refs)
        if s.done or s.steps > 3500: live.remove(s)
    return hist

def do_request(cl, dc, nodeid, fh, size, off, plus, hist, stream, plus_refs, extra=16):
    r = cl.readdir(nodeid, fh, size, off, plus, extra=extra)
    rec = {'fh': fh, 'size': size, 'off': off, 'plus': plus, 'stream': stream.sid if stream else None}
    if r == 'panic' or r is None:
        rec['res'] = 'panic' if r == 'panic' else 'noreply'
    elif r[0] != 0:
        rec['res'] = 'err'; rec['errno'] = r[0]
    else:
        rec['res'] = 'ok'; rec['len'] = len(r[1])
        try:
            rec['ents'] = decode_dirents(r[1], plus)
        except ValueError as ex:
            rec['res'] = 'undecodable'; rec['why'] = str(ex); rec['raw'] = r[1].hex()[:2000]
        if plus and rec['res'] == 'ok':
            for e in rec['ents']: plus_refs[e['nodeid']] = plus_refs.get(e['nodeid'], 0) + 1
    hist.append(rec)
    if stream is not None:
        stream.steps += 1
        if rec['res'] == 'ok':
            stream.replies.append((size, off, len(rec['ents'])))
            stream.got += rec['ents']
            if rec['ents']: stream.off = rec['ents'][-1]['off']
            else: stream.done = True
        else:
            stream.replies.append((size, off, rec['res'])); stream.done = True
    return rec

# ------------------------------------------------------------------ the property predicate on observations
def judge_history(dc, hist, streams, cfgdesc):
    """-> findings.  Per reply: size respected, entries are the oracle's (name, type, cookie), no dots, non-zero offsets,
    zero padding.  Per stream: concatenation = the visible oracle entries from the start point, exactly once, in
    order, ending with an empty reply."""
    F = []
    o = dc.oracle
    def fnd(what, rec, sig, **kw):
        d = {'what': what, 'input': {'dir': dc.label, 'config': cfgdesc, 'request': {k: rec[k] for k in ('fh', 'size', 'off', 'plus')}}, 'sig': sig}
        d['input'].update(kw); F.append(d)
    for rec in hist:
        k = 0 if rec['off'] == 0 else (dc.cookie_idx[rec['off']] + 1 if rec['off'] in dc.cookie_idx else None)
        if rec['res'] in ('panic', 'noreply', 'undecodable'):
            fnd('readdir request: %s' % rec['res'], rec, {'class': rec['res']}); continue
        if rec['res'] == 'err':
            if k is None: continue
            j = next_visible(o, k)
            need = fuse_size(o[j][0], rec['plus']) if j is not None else 1
            if rec['size'] >= need:
                sig = {'class': 'error-reply', 'errno': rec['errno']}
                if rec['off'] > I64_MAX and fetch_mirror(o, dc.cookie_idx, k, rec['size'], rec['off']) == 'EINVAL': sig['path'] = 'fallback-scan'
                fnd('readdir with a size that admits the next entry fails with errno %d%s' % (rec['errno'],
                    ' (linear-scan fallback: a record before the resume point does not fit the buffer)' if 'path' in sig else ''), rec, sig)
            continue
        if rec['len'] > rec['size']:
            fnd('reply of %d bytes exceeds the requested size %d' % (rec['len'], rec['size']), rec, {'class': 'size-exceeded'})
        for e in rec['ents']:
            i = dc.cookie_idx.get(e['off'])
            if e['off'] == 0 or i is None or o[i][0] != e['name'] or o[i][3] != e['type'] or is_dot(e['name']) or not e['pad_zero']:
                fnd('entry %r type %d off %d is not an entry of the directory with that continuation offset' % (e['name'][:40], e['type'], e['off']),
                    rec, {'class': 'wrong-entry'}); break
            if rec['plus'] and cfgdesc['kind'] == 'passthrough' and (e['attr_ino'] != o[i][1] or e['ino'] != o[i][1]):
                fnd('readdirplus entry %r reports ino %d, host d_ino %d' % (e['name'][:40], e['attr_ino'], o[i][1]), rec, {'class': 'wrong-ino'}); break
        if k is not None:
            # every single reply is a prefix of what remains, non-empty while something remains and fits
            vis = [i for i in dc.visible if i >= k]
            want = [o[i][2] for i in vis[:len(rec['ents'])]]
            if [e['off'] for e in rec['ents']] != want:
                fnd('reply is not the next entries of the directory after offset %d' % rec['off'], rec, {'class': 'not-next-entries'},
                    got=[e['name'].hex() for e in rec['ents'][:5]], want=[o[i][0].hex() for i in vis[:5]])
            elif vis and not rec['ents'] and rec['size'] >= fuse_size(o[vis[0]][0], rec['plus']):
                # the batch is what getdents64 returns from the resume point (cache hit / lseek) or what the
                # linear scan leaves (offset above i64::MAX without a cache hit)
                cands = [model_batch(o, k, rec['size'])]
                if rec['off'] > I64_MAX:
                    m = fetch_mirror(o, dc.cookie_idx, k, rec['size'], rec['off'])
                    if m != 'EINVAL': cands.append(m)
                b = next((c for c in cands if c and all(is_dot(o[i][0]) for i in c)), cands[-1])
                cls = 'dots-only-batch' if b and all(is_dot(o[i][0]) for i in b) else 'other'
                fnd('empty reply (end of directory) although %d entries remain and size %d admits the next one (%d bytes); host batch: %s'
                    % (len(vis), rec['size'], fuse_size(o[vis[0]][0], rec['plus']), [o[i][0].decode(errors='replace') for i in b][:4]),
                    rec, {'class': 'premature-end', 'cause': cls})
    for s in streams:
        if not s.done: continue
        if any(isinstance(r[2], str) for r in s.replies): continue        # judged above per request
        vis = [i for i in dc.visible if i >= s.k0]
        got = [(e['name'], e['type'], e['off']) for e in s.got]
        want = [(o[i][0], o[i][3], o[i][2]) for i in vis]
        if got != want and not any(f['sig'].get('class') in ('premature-end', 'not-next-entries', 'wrong-entry') for f in F):
            F.append({'what': 'stream from offset %d: concatenated replies list %d entries, directory has %d from that point' % (s.start_off, len(got), len(want)),
                      'input': {'dir': dc.label, 'config': cfgdesc, 'stream': s.replies[:50]}, 'sig': {'class': 'stream-mismatch'}})
    return F

def check_plus_refs(cl, plus_refs, root_children, F, cfgdesc):
    """readdirplus took exactly one reference per delivered entry: after forgetting count-1 the node is alive,
    after one more forget it is gone."""
    n = 0
    for nodeid, cnt in sorted(plus_refs.items()):
        n += 1
        if cnt > 1:
            cl.forget(nodeid, cnt - 1)
        e, _ = cl.getattr(nodeid)
        if e != 0:
            F.append({'what': 'readdirplus delivered node %d %d times but it holds fewer references' % (nodeid, cnt),
                      'input': {'config': cfgdesc}, 'sig': {'class': 'plus-refs-too-few'}}); continue
        cl.forget(nodeid, 1)
        e, _ = cl.getattr(nodeid)
        if e == 0:
            F.append({'what': 'readdirplus delivered node %d %d times but it holds more references (leak)' % (nodeid, cnt),
                      'input': {'config': cfgdesc}, 'sig': {'class': 'plus-refs-too-many'}})
    plus_refs.clear()
    return n

def probe_tight_buffer(cl, nodeid, fh, dc, F, cfgdesc):
    """reply buffers of size .. size+15 bytes pass the server's `available_bytes < size` test although the 16-byte
    header has to fit as well: the reply must still be well-formed and readdirplus must not keep references of
    entries it did not deliver"""
    n = 0
    vis = [dc.oracle[i] for i in dc.visible]
    if len(vis) < 2: return 0
    for plus in (False, True):
        for extra in (0, 8, 15):
            size = sum(fuse_size(e[0], plus) for e in vis[:2])
            r = cl.readdir(nodeid, fh, size, 0, plus, extra=extra); n += 1
            rec = {'fh': fh, 'size': size, 'off': 0, 'plus': plus}
            bad = None; got = []
            if not isinstance(r, tuple): bad = 'no reply / panic'
            elif r[0] == 0:
                try: got = decode_dirents(r[1], plus)
                except ValueError as ex: bad = 'reply of %d bytes is not a sequence of whole entries (%s)' % (len(r[1]), ex)
            leaked = []
            if plus:
                for e in vis:
                    err, ent = cl.lookup(nodeid, e[0])
                    if err: continue
                    cl.forget(ent['nodeid'], 1 + sum(1 for g in got if g['name'] == e[0]))
                    if cl.getattr(ent['nodeid'])[0] == 0:
                        leaked.append(e[0].decode(errors='replace')); cl.forget(ent['nodeid'], 1)
            if bad or leaked:
                F.append({'what': 'reply buffer of size+%d bytes (size %d, %s): %s%s' % (extra, size, 'readdirplus' if plus else 'readdir', bad or 'reply ok',
                                                                                     '; references kept for undelivered entries %s' % leaked if leaked else ''),
                          'input': {'dir': dc.label, 'config': cfgdesc, 'request': rec, 'reply_buffer': size + extra}, 'sig': {'class': 'tight-buffer'}})
    return n

def check_no_stray_refs(cl, dirnode, dc, F, cfgdesc, limit=400):
    """after all references were returned, every name looked up afresh has exactly the one reference of that lookup"""
    n = 0
    for i in dc.visible[:limit]:
        err, ent = cl.lookup(dirnode, dc.oracle[i][0])
        if err != 0: continue
        n += 1
        cl.forget(ent['nodeid'], 1)
        e, _ = cl.getattr(ent['nodeid'])
        if e == 0:
            F.append({'what': 'entry %r still referenced after all readdir(plus) references were forgotten (leaked lookup)' % dc.oracle[i][0][:40],
                      'input': {'dir': dc.label, 'config': cfgdesc}, 'sig': {'class': 'stray-reference'}})
            break
    return n

# ------------------------------------------------------------------ model comparison
def check_cases_sep(name, header, exprs, shard, timeout):
    """like vlib.coq_check_cases but one `Eval vm_compute` per case: elaborating one list literal that holds all the
    (large) case terms costs far more than evaluating them.  -> (failing indices, error logs)"""
    vals, errs = coq_eval_values(name, header, exprs, shard=shard, timeout=timeout)
    fails = [i for i, v in enumerate(vals) if v is not None and not re.match(r'= true\s*:', v)]
    elogs = [{'log': e} for e in errs]
    if any(v is None for v in vals) and not elogs: elogs.append({'log': 'no value for some cases'})
    return fails, elogs

RX = {'coq': 'all_rfixes'}

def coq_req(rec):
    return 'mk_req %d %d %d %s' % (rec['fh'], rec['size'], rec['off'], 'true' if rec['plus'] else 'false')

def coq_obs(rec, full, with_ino):
    if rec['res'] == 'err': return 'OErr %d' % rec['errno']
    if rec['res'] != 'ok': return 'OErr 0'
    if full:
        wi = with_ino and rec['plus']
        return 'OFull %s [%s]' % ('true' if wi else 'false', '; '.join('mk_dirent %d %d %d (unhex "%s") 0' % (e['ino'] if wi else 0, e['off'], e['type'], e['name'].hex()) for e in rec['ents']))
    return 'OOffs [%s]' % '; '.join(str(e['off']) for e in rec['ents'])

def model_exprs(dirname, noopendir, fhs, hist, full, with_ino):
    return '(hist_check %s %s %s %s [%s] [%s])' % (
        RX['coq'], 'true' if full else 'false', 'true' if noopendir else 'false', dirname, '; '.join(str(h) for h in fhs),
        ';\n '.join('(%s, %s)' % (coq_req(r), coq_obs(r, full, with_ino)) for r in hist))

# ------------------------------------------------------------------ main
def build_trees(rng, tier, findings, broken):
    trees = {}
    roots = [('ext4', os.path.join(SCRATCH, 'c16-tree'))]
    if os.path.isdir('/dev/shm') and os.access('/dev/shm', os.W_OK): roots.append(('tmpfs', '/dev/shm/verif-c16-%d' % os.getpid()))
    plans = dir_plans(rng, tier)
    for fsname, root in roots:
        shutil.rmtree(root, ignore_errors=True); os.makedirs(root)
        dcs = []
        for name, lengths in plans.items():
            if fsname == 'tmpfs' and name in ('e3000', 'e300', 'e9', 'r8'): continue
            p = make_dir(root, name, lengths, rng)
            dc = DirCase('%s/%s' % (fsname, name), p, raw_getdents(p))
            dc.name = name
            if check_oracle(dc, broken): dcs.append(dc)
        trees[fsname] = (root, dcs)
    return trees

_fuse_procs = []

def fuse_umount(mnt):
    try: _libc.umount2(mnt.encode(), 2)
    except Exception: pass

def build_fuse_tree(rng, bindir, broken):
    """a FUSE mount served by the harness (`readdir serve`): directories with cookies above i64::MAX (no lseek
    possible -> linear-scan fallback of do_readdir), "." / ".." records anywhere, long names early"""
    mnt = os.path.join(SCRATCH, 'c16-fusemnt'); spec = os.path.join(SCRATCH, 'c16-cookiefs.spec')
    fuse_umount(mnt); os.makedirs(mnt, exist_ok=True)
    if not os.path.exists('/dev/fuse'): return None
    used_c = {0, 2 ** 63, 2 ** 64 - 1, 2 ** 63 + 12345}
    def cookie(big):
        while True:
            c = rng.randrange(2 ** 63 + 1, 2 ** 64 - 2) if big else rng.randrange(1, 2 ** 62)
            if c not in used_c: used_c.add(c); return c
    lines = []; ino = [100]
    def add(d, name, big, ty=8):
        ino[0] += 1; lines.append('%s %s %d %d %d' % (d, name.hex(), ino[0], cookie(big), ty))
    used = set()
    # n0: dots first, everything above i64::MAX
    add('n0', b'.', True, 4); add('n0', b'..', True, 4)
    for ln in [1, 2, 8, 9, 16, 40]: add('n0', name_of_len(rng, ln, used), True)
    # n1: mixed cookies, dots in the middle, a 200-byte name early
    seq = [3, 200, 1, None, 7, 8, 9, None, 24, 25, 31, 32, 33, 5]
    dots = [b'.', b'..']
    for i, ln in enumerate(seq):
        if ln is None: add('n1', dots.pop(0), rng.random() < 0.5, 4)
        else: add('n1', name_of_len(rng, ln, used), i % 3 != 0)
    # n2: 60 entries above i64::MAX, dots last, a few long names
    for i in range(60): add('n2', name_of_len(rng, 255 if i in (7, 41) else rng.randint(1, 60), used), True)
    add('n2', b'.', True, 4); add('n2', b'..', True, 4)
    lines.append('n3')                                        # empty directory without even dots
    # nd: dot-names first, adjacent to "." / ".." and to each other, and last; no: ONLY dot-names (not even "." ".."); n1: one alone
    add('nd', b'..a', True); add('nd', b'.', False, 4); add('nd', b'...', True); add('nd', b'..data', False); add('nd', b'..', True, 4)
    add('nd', name_of_len(rng, 6, used), True); add('nd', b'....', True); add('nd', b'.a', False); add('nd', name_of_len(rng, 11, used), True); add('nd', b'. ', True)
    for i, nm in enumerate(DOTNAMES): add('no', nm, i % 2 == 0)
    add('na', b'.', True, 4); add('na', b'..', True, 4); add('na', b'..data', True)
    # s0: served with at most two records per host READDIR: getdents64 returns short batches (fewer than would fit)
    for i, ln in enumerate([4, None, 9, 17, 2, 30, None, 6, 11, 5, 8, 13, 3, 21, 7]):
        if ln is None: add('s0', b'.' if i == 1 else b'..', i % 2 == 0, 4)
        else: add('s0', name_of_len(rng, ln, used), i % 3 != 1)
    open(spec, 'w').write('\n'.join(lines) + '\n')
    p = subprocess.Popen([os.path.join(bindir, 'readdir'), 'serve', mnt, spec], stdout=subprocess.PIPE, stderr=subprocess.DEVNULL, text=True)
    _fuse_procs.append((p, mnt)); atexit.register(fuse_cleanup)
    line = p.stdout.readline()
    if line.strip() != 'mounted':
        broken.append({'kind': 'harness', 'what': 'cookie fs could not be mounted (FUSE unavailable?)'}); return None
    dcs = []
    for name in ('n0', 'n1', 'n2', 'n3', 's0', 'nd', 'no', 'na'):
        path = os.path.join(mnt, name).encode()
        dc = DirCase('fusefs/%s' % name, path, raw_getdents(path)); dc.name = name
        dc.short_batches = name.startswith('s')
        if check_oracle(dc, broken):
            if dc.max_size is None: dc.max_size = 3000
            dc.max_size = min(dc.max_size, 3000); dc.pols = ['fit_all']
            dcs.append(dc)
    return mnt, dcs

def fuse_cleanup():
    for p, mnt in _fuse_procs:
        fuse_umount(mnt)
        try: p.kill(); p.wait(timeout=5)
        except Exception: pass
    del _fuse_procs[:]

def exact_chunk_sizes(dc, plus, k=0):
    """sizes for which a request from index k ends mid-directory at a visible entry X with every record of the
    getdents64 batch delivered, so that the cookie cached for the handle is exactly the offset of X"""
    o = dc.oracle; out = []
    for size in range(32, 1400, 8):
        if k < len(o) and o[k][4] > size: continue
        b = model_batch(o, k, size)
        if not b or b[-1] == len(o) - 1 or is_dot(o[b[-1]][0]): continue
        tot = 0; ok = True
        for i in b:
            if is_dot(o[i][0]): continue
            tot += fuse_size(o[i][0], plus)
            if tot > size: ok = False; break
        if ok and any(not is_dot(o[i][0]) for i in range(b[-1] + 1, len(o))):
            if not out or out[-1][1] != b[-1]: out.append((size, b[-1]))
    return out

def sweep_history(cl, dc, nodeid, fh, plus, plus_refs, k0=0, reduced=False):
    """every requested size, all residues mod 8, in a window around the entry boundaries: from the size of the first
    entry to the size of the first three entries + 8, from the start of the directory and from the offset of its first
    visible entry; the reply buffer is 64 bytes larger than size + header, so a reply that exceeds `size` can be seen
    as such; each reply is followed by a continuation from its last entry (exactly-once across the chunk boundary)"""
    hist = []
    o = dc.oracle
    do_request(cl, dc, nodeid, fh, 4096, 0, False, hist, None, plus_refs)          # prime the fresh handle
    vis = [o[i] for i in dc.visible]
    starts = [(0, 0)] + ([(vis[0][2], 1)] if len(vis) > 4 and not reduced else [])
    for off, vi in starts:
        w = vis[vi:vi + 3]
        lo = fuse_size(w[0][0], plus); hi = sum(fuse_size(e[0], plus) for e in w) + 8
        dots = sum(e[4] for e in o if is_dot(e[0]))
        for size in range(max(lo, 24), hi + dots + 1):
            rec = do_request(cl, dc, nodeid, fh, size, off, plus, hist, None, plus_refs, extra=80)
            if rec['res'] == 'ok' and rec['ents'] and size % 3 == 0:
                do_request(cl, dc, nodeid, fh, 4096, rec['ents'][-1]['off'], plus, hist, None, plus_refs, extra=80)
    return hist

def goback_history(cl, rng, dc, nodeid, fhs, plus_refs):
    """deterministic go-back patterns on ONE handle: a chunk that ends at X (cookie cached = X), then a request from
    another offset (the end-of-directory cookie: empty reply; offset 0; some other entry), then going back to X"""
    hist = []
    fh = fhs[0]
    do_request(cl, dc, nodeid, fh, 4096, 0, False, hist, None, plus_refs)          # prime the fresh handle
    o = dc.oracle
    eof = o[-1][2]
    for plus in (False, True):
        cands = exact_chunk_sizes(dc, plus)
        picks = cands[:2] + cands[len(cands) // 2:len(cands) // 2 + 1] + cands[-1:]
        for size, xi in picks:
            X = o[xi][2]
            for other in (eof, 0, o[rng.randrange(len(o))][2]):
                do_request(cl, dc, nodeid, fh, size, 0, plus, hist, None, plus_refs)          # chunk ending at X
                do_request(cl, dc, nodeid, fh, max(size, 512), other, plus, hist, None, plus_refs)   # elsewhere (EOF: empty reply)
                do_request(cl, dc, nodeid, fh, max(size, 512), X, plus, hist, None, plus_refs)       # go back: resume from X
    return hist

def stream_set(rng, dc, fhs, quick):
    """the resume patterns: sequential, go-back (start at the offset of some entry), interleaved handles, plain/plus"""
    S = []; sid = 0
    n = len(dc.oracle)
    pols = ['safe_min', 'small', 'page', 'big', 'mixed']
    if dc.pols: pols = ['fit_all', 'fit_all', 'fit_all', 'safe_min']
    starts = [0]
    if n > 2: starts += [dc.oracle[rng.randrange(n)][2] for _ in range(2)] + [dc.oracle[-1][2], dc.oracle[max(0, n - 2)][2]]
    if quick: starts = starts[:2] + (starts[3:4] if n < 1000 else [])
    for plus in (False, True):
        for st in starts:
            pol = rng.choice(pols)
            if n > 1000 and pol in ('safe_min', 'small'): pol = rng.choice(['page', 'big', 'mixed'])
            k = 0 if st == 0 else dc.cookie_idx[st] + 1
            hs = [rng.randrange(3)] if rng.random() < 0.6 else [0, 1, 2]
            S.append(Stream(sid, st, k, plus, pol, hs)); sid += 1
    if n <= 400:
        for plus in ((False,) if quick and n > 100 else (False, True)):
            S.append(Stream(sid, 0, 0, plus, 'safe_min', [0])); sid += 1
            S.append(Stream(sid, 0, 0, plus, 'small', [0, 1, 2])); sid += 1
    # the statement's hypothesis taken literally: the size admits exactly the next entry
    S.append(Stream(sid, 0, 0, False, 'min', [0])); sid += 1
    return S

def run_check(tier, seed):
    ev = Evidence(PROP, tier, seed)
    ev.cov['checker_cmd'] = 'make -C coq Props/C16.vo (coqc 8.16.1, full .vo) + Print Assumptions audit; harness bin readdir; coq_check_cases'
    ev.cov['trusted_base'] = TRUSTED_COMMON + [
        'Model/Readdir.v is a hand transcription of do_readdir / add_dirent / PseudoFs::do_readdir; tied on every run by replaying request histories on the real Server+PassthroughFs/Vfs and comparing every reply with the model inside Coq',
        'host oracle hypotheses of the theorems (distinct non-zero d_off cookies, d_reclen = ALIGN8(19+namelen+1), stable order of an unchanged directory, getdents64 returns the maximal fitting prefix, lseek(d_off) resumes after that entry): checked on each generated directory (ext4 and tmpfs) but trusted for other hosts',
        'props/c16.py FUSE encoder/decoder (hand-written from the kernel layout) and the raw getdents64 oracle via ctypes',
        'reply buffer handed to the server holds at least size+16 bytes (what the kernel provides)',
    ]
    ev.assumptions = ['host quirk avoided: on this ext4 an lseek to the end-of-directory cookie as the first operation on a fresh fd makes the following lseek(0)+getdents64 return nothing once (kernel behaviour, reproduced with raw syscalls); every fresh handle is therefore read once from offset 0 before the histories', 'directory unchanged while it is listed', 'single-threaded client (no concurrent requests on one handle)',
                      'linear-scan fallback (offsets > i64::MAX / lseek EINVAL) is exercised on the real code only with offsets no entry carries; its found-path is covered by the theorems and the model only']
    findings, broken = [], []
    rng = random.Random(seed)
    quick = tier == 'quick'
    RX['coq'] = 'all_rfixes'
    ev.cov['code_variant'] = {'model': 'all_rfixes', 'decided_by': 'C16_full'}
    t0 = time.time()
    import pure_tie; pure_tie.prepare(PROP, ev, broken)      # Gen/RustPure.v from the function bodies in REPO (PROP_src_* theorems)
    std_audit(ev, PROP, broken)
    pure_tie.after_audit(PROP, broken)                         # a source tie broke: look for a concrete differing input
    log('C16: coq audit %.1fs' % (time.time() - t0)); t0 = time.time()
    ok, out, bindir = cargo_build(['readdir'], features=['async-io'])
    if not ok:
        broken.append({'kind': 'harness-build', 'log': out[-3000:]})
        return finish(ev, PROP, findings, broken)
    trees = build_trees(rng, tier, findings, broken)
    ft = build_fuse_tree(rng, bindir, broken)
    if ft is not None: trees['fusefs'] = ft
    else: ev.assumptions.append('FUSE cookie file system not available in this run: linear-scan fallback exercised only with offsets no entry carries')
    evals = 0; nontriv = set(); samples = []; exprs = []; expr_meta = []
    headers = {}
    try:
        for fsname, (root, dcs) in trees.items():
            configs = [('passthrough', False), ('passthrough', True), ('vfs', False)]
            if not quick: configs.append(('vfs', True))
            if quick and fsname != 'ext4': configs = configs[:2]
            if fsname == 'fusefs': configs = [('passthrough', False), ('passthrough', True)]
            for kind, noopendir in configs:
                cfgdesc = {'fs': fsname, 'kind': kind, 'no_opendir': noopendir}
                cl = FuseClient(os.path.join(bindir, 'readdir'))
                try:
                    if kind == 'passthrough':
                        cl.new('passthrough root=%s no_opendir=%d' % (root, noopendir)); prefix = []
                    else:
                        big = ' '.join('mount=/big/%s=%s' % (n.decode(), os.path.join(root, 'e0')) for n in PSEUDO_BIG)
                        cl.new('vfs no_opendir=%d mount=/m/x=%s mount=/m/y=%s mount=/p1=%s %s' % (noopendir, root, root, root, big)); prefix = [b'm', b'x']
                    neg = cl.init(FUSE_DO_READDIRPLUS | (FUSE_NO_OPENDIR_SUPPORT if noopendir else 0))
                    if bool(neg & FUSE_NO_OPENDIR_SUPPORT) != noopendir:
                        broken.append({'kind': 'harness', 'what': 'no_opendir negotiation', 'config': cfgdesc}); continue
                    base = 1
                    for comp in prefix:
                        err, ent = cl.lookup(base, comp)
                        if err: raise FuseError('lookup %r -> %d' % (comp, err))
                        base = ent['nodeid']
                    for dc in dcs:
                        if quick and kind == 'vfs' and dc.name not in ('e0', 'e3', 'e9', 'e40'): continue
                        if quick and fsname == 'tmpfs' and noopendir and dc.name in ('e0', 'e1', 'e1b', 'e2'): continue
                        err, ent = cl.lookup(base, dc.name.encode())
                        if err: raise FuseError('lookup dir %s -> %d' % (dc.name, err))
                        nodeid = ent['nodeid']
                        fhs = [0] if noopendir else []
                        plus_refs = {}
                        streams = stream_set(rng, dc, fhs, quick)
                        # one history with half of the streams interleaved + noise, then one strictly sequential per stream
                        half = len(streams) // 2
                        hists = [(streams[:half], 0.15), ] + [([s], 0.0) for s in streams[half:]]
                        for ss, noise in hists:
                            # each history starts from fresh handles so that the model can start from fresh_fd
                            if not noopendir:
                                for fh in fhs: cl.releasedir(nodeid, fh)
                                fhs = []
                                for _ in range(3):
                                    err, fh = cl.opendir(nodeid)
                                    if err: raise FuseError('opendir -> %d' % err)
                                    fhs.append(fh)
                            hist = run_history(cl, rng, dc, nodeid, fhs, ss, noise, plus_refs, max_reqs=(400 if not quick else (250 if len(dc.oracle) < 100 else 100)))
                            evals += len(hist)
                            F = judge_history(dc, hist, ss, cfgdesc)
                            findings += F
                            for r in hist:
                                if r['res'] == 'ok' and r['ents']:
                                    nontriv.add((dc.label, kind, noopendir, r['plus'], r['size'], r['off'] == 0, len(r['ents'])))
                            dn = 'dir_%s_%s' % (fsname, dc.name)
                            headers[dn] = dc
                            full = len(dc.oracle) <= 12
                            if dc.short_batches: continue
                            exprs.append((dn, model_exprs(dn, noopendir, fhs, hist, full, kind == 'passthrough')))
                            expr_meta.append({'dir': dc.label, 'config': cfgdesc, 'requests': [{k: r[k] for k in ('fh', 'size', 'off', 'plus')} for r in hist][:60],
                                              'n_requests': len(hist), 'had_finding': bool(F)})
                            if len(samples) < 4 and hist:
                                r = hist[min(1, len(hist) - 1)]
                                samples.append({'dir': dc.label, 'config': cfgdesc, 'request': {k: r[k] for k in ('fh', 'size', 'off', 'plus')},
                                                'reply': [e['name'].decode(errors='replace')[:20] for e in r.get('ents', [])][:6], 'res': r['res']})
                        if not noopendir and 3 <= len(dc.visible) and len(dc.oracle) <= 400 and (kind == 'passthrough' or not quick) and not dc.short_batches:
                            # deterministic class: go back to a cached cookie after another request moved the fd
                            for fh in fhs: cl.releasedir(nodeid, fh)
                            fhs = []
                            for _ in range(3):
                                err, fh = cl.opendir(nodeid)
                                if err: raise FuseError('opendir -> %d' % err)
                                fhs.append(fh)
                            hist = goback_history(cl, rng, dc, nodeid, fhs, plus_refs)
                            evals += len(hist)
                            findings += judge_history(dc, hist, [], cfgdesc)
                            dn = 'dir_%s_%s' % (fsname, dc.name); headers[dn] = dc
                            exprs.append((dn, model_exprs(dn, noopendir, fhs, hist, len(dc.oracle) <= 12, kind == 'passthrough')))
                            expr_meta.append({'dir': dc.label, 'config': cfgdesc, 'pattern': 'go-back after another offset on one handle',
                                              'requests': [{k: r[k] for k in ('fh', 'size', 'off', 'plus')} for r in hist][:60], 'n_requests': len(hist)})
                        if dc.name in ('r8', 'dd', 'd1', 'nd', 'no', 'na') and kind == 'passthrough' and not (quick and fsname == 'tmpfs' and dc.name != 'dd'):
                            # deterministic class: every size (all residues mod 8) around the entry boundaries
                            for plus in (False, True):
                                if not noopendir:
                                    for fh in fhs: cl.releasedir(nodeid, fh)
                                    fhs = []
                                    for _ in range(3):
                                        err, fh = cl.opendir(nodeid)
                                        if err: raise FuseError('opendir -> %d' % err)
                                        fhs.append(fh)
                                hist = sweep_history(cl, dc, nodeid, fhs[0], plus, plus_refs, reduced=(dc.name != 'r8'))
                                evals += len(hist)
                                findings += judge_history(dc, hist, [], cfgdesc)
                                dn = 'dir_%s_%s' % (fsname, dc.name); headers[dn] = dc
                                exprs.append((dn, model_exprs(dn, noopendir, fhs, hist, False, kind == 'passthrough')))
                                expr_meta.append({'dir': dc.label, 'config': cfgdesc, 'pattern': 'size sweep, all residues mod 8, plus=%s' % plus,
                                                  'requests': [{k: r[k] for k in ('fh', 'size', 'off', 'plus')} for r in hist][:60], 'n_requests': len(hist)})
                        if len(dc.oracle) <= 400:
                            evals += check_plus_refs(cl, plus_refs, None, findings, cfgdesc)
                            evals += check_no_stray_refs(cl, nodeid, dc, findings, cfgdesc)
                        if dc.name == 'e9' and kind == 'passthrough' and not noopendir:
                            evals += probe_tight_buffer(cl, nodeid, fhs[0], dc, findings, cfgdesc)
                    if kind == 'vfs':
                        fp, bp, n = pseudo_cases(cl, rng, cfgdesc, exprs, expr_meta)
                        findings += fp; broken += bp; evals += n
                finally:
                    cl.close()
        evals += deterministic_blocks(bindir, trees, rng, quick, findings, broken, exprs, expr_meta, headers)
    except FuseError as ex:
        broken.append({'kind': 'harness', 'error': str(ex)[:500]})
    log('C16: implementation runs %.1fs (%d requests, %d histories)' % (time.time() - t0, evals, len(exprs))); t0 = time.time()
    # ---- model vs implementation, inside Coq
    if not any(b['kind'] in ('proof', 'hygiene') for b in broken):
        groups = {}
        for i, (dn, e) in enumerate(exprs):
            g = dn if (dn in headers and len(headers[dn].oracle) > 45) else 'small'
            groups.setdefault(g, []).append(i)
        from concurrent.futures import ThreadPoolExecutor
        def one(g):
            idx = groups[g]
            hdr = COQ_HEADER
            for dn in sorted(set(exprs[i][0] for i in idx)):
                if dn in headers: hdr += 'Definition %s : list hent := %s.\n' % (dn, coq_dir(headers[dn].oracle))
            big = g in headers and len(headers[g].oracle) > 1000
            per = (max(3, (len(idx) + 1) // 2) if big else max(3, (len(idx) + 3) // 4)) if g != 'small' else max(10, (len(idx) + 15) // 16)
            t1 = time.time()
            fails, errs = check_cases_sep('c16_' + g, hdr, [exprs[i][1] for i in idx], shard=per, timeout=900)
            log('C16:   %s: %d histories %.1fs' % (g, len(idx), time.time() - t1))
            return g, [idx[j] for j in fails], errs
        with ThreadPoolExecutor(max_workers=4) as ex:
            for dn, fails, errs in ex.map(one, sorted(groups)):
                for e in errs: broken.append({'kind': 'correspondence', 'name': 'coq evaluation of cases failed', 'dir': dn, 'log': e['log'][-800:]})
                for i in fails:
                    broken.append({'kind': 'correspondence', 'name': 'Model/Readdir.v run vs Server+filesystem replies', 'case': expr_meta[i]})
        ev.cov['model_vs_impl_histories'] = len(exprs)
    log('C16: coq model comparison %.1fs' % (time.time() - t0))
    fuse_cleanup()
    for fsname, (root, dcs) in trees.items():
        if fsname != 'fusefs': shutil.rmtree(root, ignore_errors=True)
    ev.cov['evaluations'] = evals
    ev.cov['distinct_nontrivial'] = len(nontriv)
    ev.cov['rule'] = ('evaluations = READDIR/READDIRPLUS requests sent through Server::handle_message (each judged by the property predicate and replayed in the Coq model) '
                      '+ reference-count probes; distinct_nontrivial = distinct (directory, fs kind, no_opendir, plus, size, offset==0, entries returned) with a non-empty reply')
    ev.cov['samples'] = samples
    findings = dedup(findings)
    for f in findings: f.setdefault('input', {}).update({'seed': seed, 'tier': tier})
    for b in broken: b.update({'seed': seed, 'tier': tier})
    return finish(ev, PROP, findings, broken)

CELLS = [('', 'amsg', 'async entry point'), ('use_host_ino=1', 'msg', 'use_host_ino'), ('inode_file_handles=1', 'msg', 'inode_file_handles'),
         ('use_host_ino=1 inode_file_handles=1', 'amsg', 'use_host_ino + inode_file_handles, async'), ('enable_mntid=1', 'msg', 'enable_mntid'),
         ('xattr=1 writeback=1 killpriv_v2=1', 'msg', 'unrelated knobs on')]

def open_dir(cl, kind, root, noopendir, opts, verb, dname):
    """new file system instance on `cl`; -> nodeid of directory dname"""
    cl.verb = verb
    if kind == 'passthrough': cl.new('passthrough root=%s no_opendir=%d %s' % (root, noopendir, opts)); prefix = []
    else: cl.new('vfs no_opendir=%d %s mount=/m/x=%s' % (noopendir, opts, root)); prefix = [b'm', b'x']
    neg = cl.init(FUSE_DO_READDIRPLUS | (FUSE_NO_OPENDIR_SUPPORT if noopendir else 0))
    if bool(neg & FUSE_NO_OPENDIR_SUPPORT) != bool(noopendir): raise FuseError('no_opendir negotiation (%s)' % opts)
    base = 1
    for comp in prefix + [dname.encode()]:
        err, ent = cl.lookup(base, comp)
        if err: raise FuseError('lookup %r -> %d' % (comp, err))
        base = ent['nodeid']
    return base

def deterministic_blocks(bindir, trees, rng, quick, findings, broken, exprs, expr_meta, headers):
    """configuration cells crossed with the size sweep / go-back histories, the async entry point, and request-field
    edge values (size 0, handle never opened / released / of another directory, size beyond the reply buffer)"""
    n = 0
    root, dcs = trees['ext4']
    by = {dc.name: dc for dc in dcs}
    if 'r8' not in by: return 0
    dc = by['r8']; dn = 'dir_ext4_r8'; headers[dn] = dc
    def fresh(cl, nodeid, noopendir):
        if noopendir: return [0]
        out = []
        for _ in range(3):
            err, fh = cl.opendir(nodeid)
            if err: raise FuseError('opendir -> %d' % err)
            out.append(fh)
        return out
    # ---- configuration cells x {sweep (plus), go-back}
    for ci, (opts, verb, label) in enumerate(CELLS):
        for noopendir in (False, True):
            for kind in (('passthrough', 'vfs') if ci in (0, 3) else ('passthrough',)):
                cfgdesc = {'fs': 'ext4', 'kind': kind, 'no_opendir': noopendir, 'options': opts,
                           'entry': 'async_handle_message' if verb == 'amsg' else 'handle_message', 'block': 'cell ' + label}
                cl = FuseClient(os.path.join(bindir, 'readdir'))
                try:
                    nodeid = open_dir(cl, kind, root, noopendir, opts, verb, 'r8')
                    plus_refs = {}
                    fhs = fresh(cl, nodeid, noopendir)
                    hist = sweep_history(cl, dc, nodeid, fhs[0], True, plus_refs, reduced=True)
                    n += len(hist); findings.extend(judge_history(dc, hist, [], cfgdesc))
                    exprs.append((dn, model_exprs(dn, noopendir, fhs, hist, False, False)))
                    expr_meta.append({'dir': dc.label, 'config': cfgdesc, 'n_requests': len(hist), 'requests': [{k: r[k] for k in ('fh', 'size', 'off', 'plus')} for r in hist][:40]})
                    if not noopendir:
                        for fh in fhs: cl.releasedir(nodeid, fh)
                        fhs = fresh(cl, nodeid, noopendir)
                        hist = goback_history(cl, rng, dc, nodeid, fhs, plus_refs)
                        n += len(hist); findings.extend(judge_history(dc, hist, [], cfgdesc))
                        exprs.append((dn, model_exprs(dn, noopendir, fhs, hist, False, False)))
                        expr_meta.append({'dir': dc.label, 'config': cfgdesc, 'n_requests': len(hist), 'pattern': 'go-back'})
                    n += check_plus_refs(cl, plus_refs, None, findings, cfgdesc)
                    n += check_no_stray_refs(cl, nodeid, dc, findings, cfgdesc)
                finally:
                    cl.close()
    # ---- request-field edge values
    other = by.get('e9')
    for noopendir in (False, True):
        for verb in ('msg', 'amsg'):
            cfgdesc = {'fs': 'ext4', 'kind': 'passthrough', 'no_opendir': noopendir, 'entry': verb, 'block': 'edge values'}
            cl = FuseClient(os.path.join(bindir, 'readdir'))
            try:
                nodeid = open_dir(cl, 'passthrough', root, noopendir, '', verb, 'r8')
                plus_refs = {}
                fhs = fresh(cl, nodeid, noopendir)
                hist = []
                do_request(cl, dc, nodeid, fhs[0], 4096, 0, False, hist, None, plus_refs)
                first = dc.oracle[dc.visible[0]][2]
                closed = 0x7777
                if not noopendir:
                    err, closed = cl.opendir(nodeid); cl.releasedir(nodeid, closed)       # a handle that was released
                for plus in (False, True):
                    for off in (0, first):
                        do_request(cl, dc, nodeid, fhs[0], 0, off, plus, hist, None, plus_refs)            # size 0
                        do_request(cl, dc, nodeid, 0x7777, 4096, off, plus, hist, None, plus_refs)         # handle never opened
                        do_request(cl, dc, nodeid, closed, 4096, off, plus, hist, None, plus_refs)         # released handle
                        do_request(cl, dc, nodeid, fhs[0], 1, off, plus, hist, None, plus_refs)            # smaller than any record
                        do_request(cl, dc, nodeid, fhs[0], 23, off, plus, hist, None, plus_refs)
                n += len(hist)
                # requests on handles that are not open are judged below (they must fail); the others as usual
                findings.extend(judge_history(dc, [r for r in hist if noopendir or r['fh'] in fhs], [], cfgdesc))
                for r in hist:
                    if not noopendir and r['fh'] in (0x7777, closed) and r['size'] and r['res'] != 'err':
                        findings.append({'what': 'READDIR on a handle that is not open is answered (%s)' % r['res'], 'input': {'dir': dc.label, 'config': cfgdesc, 'request': {k: r[k] for k in ('fh', 'size', 'off', 'plus')}}, 'sig': {'class': 'closed-handle'}})
                exprs.append((dn, model_exprs(dn, noopendir, fhs, hist, False, False)))
                expr_meta.append({'dir': dc.label, 'config': cfgdesc, 'n_requests': len(hist), 'requests': [{k: r[k] for k in ('fh', 'size', 'off', 'plus')} for r in hist][:40]})
                # outside the model (judged only): a size beyond the reply buffer must be refused; the handle of another
                # directory must not list this one
                for plus in (False, True):
                    r = cl.msg(OP['READDIRPLUS' if plus else 'READDIR'], nodeid, struct.pack('<QQIIQII', fhs[0], 0, 0xffffffff, 0, 0, 0, 0), bufsize=8192); n += 1
                    if not (isinstance(r, tuple) and r[0] == 12):
                        findings.append({'what': 'READDIR with size 2^32-1 and an 8 KiB reply buffer: expected ENOMEM, got %r' % (r if not isinstance(r, tuple) else r[0],),
                                         'input': {'dir': dc.label, 'config': cfgdesc, 'request': {'size': 0xffffffff, 'off': 0, 'plus': plus}}, 'sig': {'class': 'size-beyond-buffer'}})
                if other is not None and not noopendir:
                    err, ent = cl.lookup(1, b'e9'); err2, ofh = cl.opendir(ent['nodeid'])
                    r = cl.readdir(nodeid, ofh, 4096, 0, False); n += 1
                    if isinstance(r, tuple) and r[0] == 0 and r[1]:
                        findings.append({'what': 'READDIR of one directory with the handle of another one is answered with entries',
                                         'input': {'dir': dc.label, 'config': cfgdesc, 'request': {'fh': ofh, 'size': 4096, 'off': 0}}, 'sig': {'class': 'foreign-handle'}})
            finally:
                cl.close()
    # ---- no_readdir (passthrough and Vfs option): listing is disabled by configuration: replies must be empty and well-formed
    for kind, opts in (('passthrough', 'no_readdir=1'),):
        cl = FuseClient(os.path.join(bindir, 'readdir'))
        try:
            nodeid = open_dir(cl, kind, root, False, opts, 'msg', 'r8')
            err, fh = cl.opendir(nodeid)
            for plus in (False, True):
                r = cl.readdir(nodeid, fh, 4096, 0, plus); n += 1
                if not (isinstance(r, tuple) and r[0] == 0 and r[1] == b''):
                    findings.append({'what': 'no_readdir: expected an empty reply', 'input': {'dir': dc.label, 'config': {'options': opts}}, 'sig': {'class': 'no-readdir'}})
        finally:
            cl.close()
    return n

def dedup(findings):
    seen = {}; out = []
    for f in findings:
        k = json.dumps(f['sig'], sort_keys=True)
        seen[k] = seen.get(k, 0) + 1
        if seen[k] <= 3: out.append(f)
    return out

PSEUDO_BIG = [b'c' + b'x' * i for i in range(30)]        # 30 mount points under /big: names of 1..30 bytes

def pseudo_cases(cl, rng, cfgdesc, exprs, expr_meta):
    """pseudo directories seen through the VFS: root (children m, p1) and /m (children x, y): index offsets"""
    F, B = [], []; n = 0
    layout = {1: [b'm', b'p1', b'big']}
    err, ent = cl.lookup(1, b'm')
    if err: return F, [{'kind': 'harness', 'what': 'lookup pseudo dir m'}], 0
    layout[ent['nodeid']] = [b'x', b'y']
    err, ent = cl.lookup(1, b'big')
    if err: return F, [{'kind': 'harness', 'what': 'lookup pseudo dir big'}], 0
    layout[ent['nodeid']] = list(PSEUDO_BIG)
    for nodeid, names in layout.items():
        hist = []
        for plus in (False, True):
            sizes = [fuse_size(b'x', plus), fuse_size(b'x', plus) * 2, fuse_size(b'p1', plus) * 2 + 7, 4096, 31, 0]
            offs = [0, 1, 2, 3, 5, 2 ** 63, 2 ** 64 - 2]
            if len(names) > 5:
                sizes += [fuse_size(names[-1], plus), 333, 1000, rng.randrange(32, 3000)]
                offs += [len(names) - 1, len(names), len(names) + 1, rng.randrange(len(names)), rng.randrange(len(names))]
            for size in sizes:
                for off in offs:
                    r = cl.readdir(nodeid, 0, size, off, plus); n += 1
                    rec = {'fh': 0, 'size': size, 'off': off, 'plus': plus}
                    if not isinstance(r, tuple): rec['res'] = 'panic'
                    elif r[0]: rec['res'] = 'err'; rec['errno'] = r[0]
                    else:
                        rec['res'] = 'ok'; rec['ents'] = decode_dirents(r[1], plus); rec['len'] = len(r[1])
                        want = []
                        tot = 0
                        for i in range(off, len(names)) if off < len(names) else []:
                            sz = fuse_size(names[i], plus)
                            if tot + sz > size: break
                            tot += sz; want.append((names[i], i + 1))
                        got = [(e['name'], e['off']) for e in rec['ents']]
                        if rec['len'] > size or got != want:
                            F.append({'what': 'pseudo directory listing from offset %d size %d: got %r want %r' % (off, size, got, want),
                                      'input': {'config': cfgdesc, 'node': nodeid, 'request': rec['size']}, 'sig': {'class': 'pseudo-listing'}})
                    hist.append(rec)
        # resuming client on the pseudo directory: exactly once, in order, ends with an empty reply
        for plus in (False, True):
            for size in ([fuse_size(names[-1], plus), fuse_size(names[-1], plus) * 2 + 9, 1024] if len(names) > 5 else [fuse_size(b'big', plus)]):
                off = 0; got = []; ok = True
                for _ in range(len(names) + 2):
                    r = cl.readdir(nodeid, 0, size, off, plus); n += 1
                    rec = {'fh': 0, 'size': size, 'off': off, 'plus': plus}
                    if not isinstance(r, tuple) or r[0]: rec['res'] = 'err'; hist.append(rec); ok = False; break
                    rec['res'] = 'ok'; rec['ents'] = decode_dirents(r[1], plus); hist.append(rec)
                    if not rec['ents']: break
                    got += [e['name'] for e in rec['ents']]; off = rec['ents'][-1]['off']
                if not ok or got != names or hist[-1].get('ents') != []:
                    F.append({'what': 'pseudo directory listed by a resuming client with size %d: got %d names, directory has %d' % (size, len(got), len(names)),
                              'input': {'config': cfgdesc, 'node': nodeid, 'size': size, 'plus': plus}, 'sig': {'class': 'pseudo-stream'}})
        ch = '[' + '; '.join('(unhex "%s", 0)' % nm.hex() for nm in names) + ']'
        cases = '; '.join('(%s, %d, %d, %s)' % ('true' if r['plus'] else 'false', r['size'], r['off'],
                                               ('POffs [%s]' % '; '.join(str(e['off']) for e in r['ents'])) if r['res'] == 'ok' else 'PBad') for r in hist)
        exprs.append(('pseudo', '(pseudo_hist_check %s [%s])' % (ch, cases)))
        expr_meta.append({'dir': 'pseudo node %d' % nodeid, 'config': cfgdesc, 'n_requests': len(hist)})
    return F, B, n


def replay(path):
    """re-run the check with the seed and tier recorded in a replay file: the generated trees, requests and
    (hash-based) directory cookies are functions of the seed, so the failing input is produced again"""
    r = json.load(open(path))
    items = r.get('failing') or r.get('broken') or []
    seed, tier = 1, 'quick'
    for it in items:
        src = it.get('input', it)
        if 'seed' in src: seed, tier = src['seed'], src['tier']; break
    return run_check(tier, seed)
