"""C20 -- the asynchronous request path behaves exactly like the synchronous one."""
import os, sys, random, struct, collections
from vlib import *
import server_common as S
sys.path.insert(0, os.path.join(ROOT, 'translator'))
import server_async_dispatch, server_dispatch, rust_abi

PROP = 'C20'
MAXBUF = 1 << 20
HDRSZ = 4096
ASYNC_OPS = (1, 3, 4, 14, 15, 16, 20, 30, 35, 43)

HEADER = S.HEADER.replace('Model.Server Model.ServerCmp.', 'Model.Server Model.ServerCmp Model.ServerAsync Proofs.ServerAsyncEquiv.')

# ------------------------------------------------------------------ harness driver (two observations per case)
def case_line(c):
    return S.case_line(c) + ' fill=%d yield=%d hook=%d fdfail=%d' % (c['fill'], int(bool(c.get('yield'))), int(bool(c.get('hook'))), int(bool(c.get('fdfail'))))

def run_impl(cases, bindir, timeout=900):
    inp = '\n'.join(case_line(c) for c in cases) + '\n'
    rc, out = run([os.path.join(bindir, 'codec_async')], input=inp, timeout=timeout)
    obs = {}
    for line in out.split('\n'):
        if line.startswith('id='):
            o = S.parse_obs(line)
            obs.setdefault(o['id'], {})[o['mode']] = o
    return rc, obs, out

def hdr_of(c):
    r = c['req']
    if len(r) < 40: return None
    ln, op, unique, nodeid = struct.unpack_from('<IIQQ', r, 0)
    return {'len': ln, 'op': op, 'unique': unique}

def view(c, o):
    """what C20 compares: result, call log, reply (packets on fusedev / used bytes on virtio)"""
    return (o['res'], o['panic'], tuple(o['calls']) + ((('hook:' + o.get('hooklog', '-')),) if c.get('hook') else ()),
            tuple(o['packets']) if c['tr'] != 'virtio' else (), o['mem'] if c['tr'] == 'virtio' else b'')

def errhdr(errno, unique):
    return struct.pack('<IiQ', 16, -errno, unique)

def passthrough_of(c):
    fs = c['fs']
    if fs[0] == 'open': return fs[3]
    if fs[0] == 'create': return fs[4]
    return None

def strip_pt(reply):
    return reply[:-4] + b'\0\0\0\0' if len(reply) >= 4 else reply

def in_known_class(c):
    """the defining condition of the one known defect class; mirrors Proofs.ServerAsyncEquiv.known_class (checked against it in
    Coq on every case, see model_vs_impl)"""
    h = hdr_of(c)
    if not h or c['remap'] == 'fail': return False
    r = c['req']
    return h['len'] <= MAXBUF + HDRSZ and h['op'] == 16 and len(r) >= 80 and struct.unpack_from('<I', r, 56)[0] > MAXBUF

def classify(c, so, ao):
    """-> None when the two observations agree (C20 holds on this case), else (what, sig).
    The signature names a known defect class only when BOTH the input is in the class and the async
    observation is exactly what that defect produces; anything else is 'unclassified'."""
    vs, va = view(c, so), view(c, ao)
    h = hdr_of(c)
    op = h['op'] if h else None
    pt = passthrough_of(c)
    if pt and op in (14, 35) and (h and h['op'] in (14, 35)):
        # AsyncFileSystem::async_open/async_create cannot return a passthrough backing id (no slot in the trait):
        # compare modulo the passthrough field of OpenOut
        def sp(v):
            pk = tuple(strip_pt(p) if len(p) > 16 else p for p in v[3])
            return (v[0], v[1], v[2], pk, strip_pt(v[4]) if len(v[4]) > 16 else v[4])
        if sp(vs) == va: return None if vs == va else 'inexpressible'
    if vs == va: return None
    stale = bytes([c['fill']]) * 16
    fd = c['tr'] != 'virtio'
    def reply_is(v, hdrbytes, strict):
        # strict: exactly one packet; otherwise the stale second write of the (repaired) async_commit defect may follow
        if fd: return list(v[3]) == [hdrbytes] or (not strict and list(v[3]) == [hdrbytes, stale])
        return v[4] == hdrbytes
    base = {'op': op if op in S.OPS else 'other', 'tr': c['tr']}
    ok_remap = c['remap'] != 'fail'
    # 1. the KNOWN class first, decided by its defining condition (= Coq known_class: header parses, id remap succeeds, not
    #    oversized, opcode 16, a whole WriteIn is there and its size field exceeds MAX_BUFFER_SIZE; the capacity, the transport
    #    and the filesystem's answer are NOT part of it), and only if the async observation is exactly what that defect produces:
    #    no filesystem call beyond the id remap, the ENOMEM reply if it fits (else the failed attempt), while the sync handler
    #    called write.  Anything else inside the class stays 'unclassified'.
    if in_known_class(c):
        enomem = errhdr(12, h['unique'])
        fits = c['cap'] >= 16 and not c.get('fdfail')
        only_remap = len(ao['calls']) == 1 and ao['calls'][0].startswith('id_remap(') and so['calls'][:1] == ao['calls']
        sync_wrote = len(so['calls']) == 2 and so['calls'][1].startswith('write(')
        reply_ok = (reply_is(va, enomem, True) and ao['res'] == 'ok:16') if fits else (ao['res'] == 'err:EncodeMessage' and not ao['packets'] and not ao['mem'])
        if only_remap and sync_wrote and reply_ok and not ao['panic'] and ao.get('hooklog') == so.get('hooklog'):
            return ('WRITE with size %d > MAX_BUFFER_SIZE is answered ENOMEM by async_write without calling the filesystem; the sync path calls write'
                    % struct.unpack_from('<I', c['req'], 56)[0], dict(base, defect='async-write-size-gate'))
    # 2. labels of the defects repaired by 2dcabb6 / 45bf06c (status "fixed": a recurrence is a VIOLATION under its old name)
    elif h and ok_remap:
        enomem = errhdr(12, h['unique'])
        only_remap = len(ao['calls']) == 1 and ao['calls'][0].startswith('id_remap(')
        oversize = h['len'] > MAXBUF + HDRSZ
        if c['cap'] < 16:
            if only_remap and ao['res'] == 'err:EncodeMessage' and not ao['packets'] and not ao['mem']:
                return ('reply capacity %d < 16: the async gate answers ENOMEM (which cannot be written) before dispatch; the sync path ran %s and returned %s'
                        % (c['cap'], [x.split('(')[0] for x in so['calls'][1:]] or 'no filesystem call', so['res']),
                        dict(base, defect='async-gate-small-capacity', op='any'))
        elif oversize and op in (2, 42):
            if only_remap and reply_is(va, enomem, False) and ao['res'] == 'ok:16' and not so['packets'] and not so['mem']:
                return ('oversized %s (len %d) gets an ENOMEM reply on the async path; the sync path sends none (%s)' % (S.OPS[op][0], h['len'], so['res']),
                        dict(base, defect='async-gate-forget-reply'))
    if fd and c['cap'] >= 16 and vs[:3] == va[:3] and len(vs[3]) == 1 and len(vs[3][0]) == 16 and list(va[3]) == [vs[3][0], stale] \
            and struct.unpack_from('<i', vs[3][0], 4)[0] < 0:
        return ('async error reply on fusedev is followed by a second 16-byte write of stale reply-buffer memory (async_commit on an unbuffered writer)',
                dict(base, defect='async-commit-unbuffered-rewrite', op='any'))
    diff = [n for n, x, y in zip(('res', 'panic', 'calls', 'packets', 'mem'), vs, va) if x != y]
    return ('async and sync handlers differ in %s for opcode %s (prior INIT minor %s, remap %s, vu %d)' % ('/'.join(diff), op, c['minor'], c['remap'], int(c['vu'])), dict(base, defect='unclassified', differs=diff))

# ------------------------------------------------------------------ Coq terms
def coq_buf0(c): return '(List.repeat %d 16)' % c['fill']
def coq_async_handle(c, mask):
    return '(async_handle %s %s %d %s %s %s)' % (S.coq_cfg(c, mask), 'Virtio' if c['tr'] == 'virtio' else 'FuseDev', c['cap'], coq_buf0(c), hexN(c['req']), S.coq_fs(c['fs']))

def model_vs_impl(tag, cases, obs, mask, broken, sync_every=1):
    """async_handle vs the async observation for every case; handle vs the sync observation for every
    [sync_every]-th case (the sync tie is C01-C03's, with the same generator). In the quick tier (sync_every > 1) every
    second case of the early-return block is compared between the two real handlers only, unless they differ.
    -> (bad async idx, bad sync idx)"""
    ok, out = coq_make(['Model/ServerAsync.vo', 'Proofs/ServerAsyncEquiv.vo', 'Spec/Init.vo'])
    if not ok:
        broken.append({'kind': 'proof', 'name': 'build of Model/ServerAsync.vo / Proofs/ServerAsyncEquiv.vo failed', 'site': coq_error_site(out)})
        return [], []
    idx = [i for i, c in enumerate(cases) if c['id'] in obs and 'sync' in obs[c['id']] and 'async' in obs[c['id']]
           and not c.get('fdfail')      # the models assume the fd accepts every write
           and not (sync_every > 1 and c.get('block') and c.get('half') and view(c, obs[c['id']]['sync']) == view(c, obs[c['id']]['async']))]
    exprs = []; tags = []
    for n, i in enumerate(idx):
        c = cases[i]; k = 'Virtio' if c['tr'] == 'virtio' else 'FuseDev'
        exprs.append('(obs_eqb %s %s %s)' % (k, coq_async_handle(c, mask), S.coq_obs(obs[c['id']]['async']))); tags.append(('a', i))
        # the class the python predicate suppresses is the class C20_partial excludes (every WRITE, every 5th other case; the
        # capacity, transport and answer are not part of the class -- C20_known_class_only_request -- so fixed ones are passed)
        hh = hdr_of(c)
        if (hh and hh['op'] == 16) or n % 5 == 0:
            exprs.append('(Bool.eqb (known_class %s FuseDev 0 %s FUnit) %s)' % (S.coq_cfg(c, mask), hexN(c['req']), 'true' if in_known_class(c) else 'false')); tags.append(('k', i))
        if n % sync_every == 0 or obs[c['id']]['sync']['res'] != obs[c['id']]['async']['res']:
            exprs.append('(obs_eqb %s %s %s)' % (k, S.coq_handle(c, mask), S.coq_obs(obs[c['id']]['sync']))); tags.append(('s', i))
    nsh = min(NPROC, 8)      # coqc start-up (loading the models) dominates on a loaded machine: few, larger shards
    shard = max(20, (len(exprs) + nsh - 1) // nsh)
    fails, errs = coq_check_cases(tag, HEADER, exprs, shard=shard)
    if errs: broken.append({'kind': 'correspondence', 'name': 'Coq evaluation of the server models failed', 'log': errs[0]})
    for j in fails:
        if tags[j][0] == 'k':
            broken.append({'kind': 'correspondence', 'name': 'python in_known_class disagrees with Coq known_class', 'case': case_json(cases[tags[j][1]])})
    return [tags[j][1] for j in fails if tags[j][0] == 'a'], [tags[j][1] for j in fails if tags[j][0] == 's']

# the witness of Proofs/ServerAsyncEquiv.v (C20_refuted_write_size) and the three former witnesses of the repaired
# defects (C20_repaired_witnesses_agree), byte for byte
def hdr_bytes(ln, op, unique, nodeid): return struct.pack('<IIQQ', ln, op, unique, nodeid) + bytes(16)
def witness_cases():
    mk = lambda tr, cap, req, fs, fill, defect, rep=None: {'tr': tr, 'cap': cap, 'req': req, 'fs': fs, 'remap': (0, 0), 'minor': None, 'vu': False, 'wf': None,
                                                           'fill': fill, 'witness': defect, 'repaired': rep, 'rsegs': [len(req)], 'wsegs': [cap]}
    return [
        mk('virtio', 4096, hdr_bytes(80, 16, 7, 1) + struct.pack('<QQIIQII', 3, 0, MAXBUF + 1, 0, 0, 0, 0), ('count', 0), 0, 'async-write-size-gate'),
        mk('virtio', 4096, hdr_bytes(MAXBUF + 4097, 2, 7, 1) + struct.pack('<Q', 1), ('unit',), 0, None, 'async-gate-forget-reply'),
        mk('virtio', 0, hdr_bytes(48, 2, 7, 1) + struct.pack('<Q', 1), ('unit',), 0, None, 'async-gate-small-capacity'),
        mk('fusedev', 4096, hdr_bytes(56, 3, 7, 1) + bytes(16), ('err', 'os', 2), 165, None, 'async-commit-unbuffered-rewrite'),
    ]

# ------------------------------------------------------------------ cases
def config_cases(rng):
    """deterministic block: every field of [config] the models read, crossed with the answers that make it matter, on both
    transports (added after the seeded change C20b -- `<` vs `<=` on the protocol minor in async_lookup -- slipped through the
    random pairing of minor in {None,3,4,33} with a zero-inode entry)."""
    out = []
    def add(c, minor):
        c['minor'] = minor; out.append(c)      # make_case treats minor=None as 'choose'
    both = ('fusedev', 'virtio')
    # cfg_minor (Server.vers.minor, set by a priming INIT in the harness): read by lookup / async_lookup only
    for minor in (0, 3, 4, 5, 33, None):
        for kind in ('entry0', 'entry', 'err'):
            for tr in both:
                q = S.gen_wf(rng, 1)
                add(S.make_case(rng, 0, q['bytes'], S.gen_fs(rng, kind, 1, q['fields']), q, transport=tr, cap=4096, remap=(0, 0), minor=minor, vu=False), minor)
    # cfg_vu_req: SETUPMAPPING / REMOVEMAPPING with and without a cache request handler
    for op in (48, 49):
        for vu in (True, False):
            for tr in both:
                q = S.gen_wf(rng, op)
                add(S.make_case(rng, 0, q['bytes'], ('unit',), q, transport=tr, cap=4096, remap=(0, 0), minor=None, vu=vu), None)
    # cfg_remap: identity, shifted (wrapping), failing -- on an async opcode, a fall-back opcode and a no-reply opcode
    for op in (3, 10, 2):
        for remap in ((0, 0), (1000, 2000), ((1 << 32) - 1, 1 << 31), 'fail'):
            for tr in both:
                q = S.gen_wf(rng, op)
                add(S.make_case(rng, 0, q['bytes'], q['fs'], q, transport=tr, cap=4096, remap=remap, minor=None, vu=False), None)
    # the minor an INIT stores, then read back (cfg_fsopt_mask is INIT's only)
    for minor in (3, 4, 5):
        q = S.gen_wf(rng, 26)
        add(S.make_case(rng, 0, q['bytes'], q['fs'], q, transport='fusedev', cap=4096, remap=(0, 0), minor=minor, vu=False), minor)
    return out

OK_KIND = {1: ('entry', 128), 3: ('attr', 104), 4: ('attr', 104), 14: ('open', 16), 15: ('read', None), 16: ('count', 8),
           20: ('unit', 0), 30: ('unit', 0), 35: ('create', 144), 43: ('unit', 0)}

def early_return_cases(rng, transports=('fusedev', 'virtio')):
    """deterministic block: for each of the ten async opcodes, every early-return path of the handler in argument order --
    fixed struct absent / one byte short (with an honest and with a lying length field), length field below / above what is
    there, name missing (lookup, create: see also gen_badname_cases), payload shorter than size (write), split impossible /
    data larger than the reply area (read), reply one byte too large for the capacity and exactly fitting (every handler) --
    on each transport, served by both real handlers (added after the seeded change C20c: async_create stopped answering
    EINVAL for an unterminated name; only the random mutator produced such requests)."""
    out = []
    def req_of(q, body, hlen=None):
        h = q['hdr']
        return S.in_header(40 + len(body) if hlen is None else hlen, q['op'], h['unique'], h['nodeid'], h['uid'], h['gid'], h['pid']) + body
    for op in ASYNC_OPS:
        name, sname, tail, kinds = S.OPS[op]
        okkind, replylen = OK_KIND[op]
        for tr in transports:
            q = S.gen_wf(rng, op)
            fs_ok = S.gen_fs(rng, okkind, op, q['fields'])
            body = q['bytes'][40:]
            fixed = len(S.enc_struct(sname, q['fields'], S.COMPAT.get(sname))) if sname else 0
            vs = [(b'', None), (body, 40 + fixed - 1 if fixed else 39), (body, 40 + len(body) + 8), (body, 0), (body, 39), (body[:fixed], None)]
            if fixed: vs += [(body[:fixed - 1], None), (body[:fixed - 1], 40 + len(body)), (body[:fixed // 2], None)]
            if tail == 'name': vs += [(body[:fixed] + q['name1'], None), (body[:fixed] + b'\0', None), (body + b'tail', None)]
            if op == 16:
                half = q['payload'][:len(q['payload']) // 2]
                vs += [(body[:fixed] + half, None), (body[:fixed], 40 + len(body)), (body + b'extra', None)]
                b0 = bytearray(body); struct.pack_into('<I', b0, 16, 0); vs.append((bytes(b0), None))
            for v, hl in vs:
                out.append(S.make_case(rng, 0, req_of(q, v, hl), fs_ok, None, transport=tr, cap=4096, remap=(0, 0), minor=33, vu=False))
            # capacities around the reply
            if op == 15:
                data = bytes(rng.getrandbits(8) for _ in range(100))
                for cap in (0, 15, 16, 17, 16 + 99, 16 + 100):
                    for fs in (('read', data), ('err', 'os', 5)):
                        out.append(S.make_case(rng, 0, q['bytes'], fs, q, transport=tr, cap=cap, remap=(0, 0), minor=33, vu=False))
            else:
                for cap in (15, 16, 16 + replylen - 1, 16 + replylen):
                    for fs in (fs_ok, ('err', 'kind', 3)):
                        out.append(S.make_case(rng, 0, q['bytes'], fs, q, transport=tr, cap=max(cap, 0), remap=(0, 0), minor=33, vu=False))
    return out

FLAG_WORDS = [(3, 'getattr_flags'), (4, 'valid'), (15, 'read_flags'), (16, 'write_flags'), (20, 'fsync_flags'), (30, 'fsync_flags')]

def audit_cases(rng, full):
    """deterministic blocks added by the coverage audit (notes/C20.md): every dispatch arm once well-formed with a MetricsHook
    attached, every gating flag word one bit at a time, every error kind through every reply-helper path, count truncation,
    open/create answer shapes, suspended futures (the filesystem returns Pending once), a /dev/fuse that refuses the write."""
    out = []
    trs = ('fusedev', 'virtio')
    def mk(q, fs=None, req=None, **kw):
        c = S.make_case(rng, 0, req if req is not None else q['bytes'], fs if fs is not None else q['fs'], q if req is None else None,
                        transport=kw.pop('tr', trs[len(out) % 2]), cap=kw.pop('cap', 1 << 16), remap=(0, 0), minor=33, vu=kw.pop('vu', True))
        c.update(kw); c['block'] = 'audit'; c['half'] = kw.get('half', 0); out.append(c); return c
    # A. every arm of the dispatch, well-formed, with a hook; and opcodes without an arm
    for op in sorted(S.OPS):
        q = S.gen_wf(rng, op)
        mk(q, S.gen_fs(rng, S.OPS[op][3][0], op, q['fields']), hook=True)
    q = S.gen_wf(rng, 10)
    for op in (0, 7, 19, 47, 50, 51, 4096, 1 << 31, (1 << 32) - 1):
        b = bytearray(q['bytes']); struct.pack_into('<I', b, 4, op)
        mk(q, ('unit',), req=bytes(b), hook=True)
    # B. gating flag words, one bit at a time (and none, all)
    bits = list(range(32)) if full else list(range(12)) + [31]
    for op, field in FLAG_WORDS:
        for i, v in enumerate([0, (1 << 32) - 1] + [1 << b for b in bits]):
            q = S.gen_wf(rng, op)
            f = dict(q['fields']); f[field] = v
            body = S.enc_struct(S.OPS[op][1], f) + q['payload']
            h = q['hdr']
            req = S.in_header(40 + len(body), op, h['unique'], h['nodeid'], h['uid'], h['gid'], h['pid']) + body
            mk(q, S.gen_fs(rng, OK_KIND[op][0], op, f), req=req, half=int(i % 4 != 0), **{'yield': i % 2 == 0})
    # C. every error kind / boundary errno through every reply-helper path
    for op in (ASYNC_OPS if full else (3, 15, 16, 35)):
        for i, e in enumerate([('err', 'kind', k) for k in range(10)] + [('err', 'os', 1), ('err', 'os', 4095)]):
            q = S.gen_wf(rng, op)
            mk(q, e, half=int(i % 4 != 0), **{'yield': i % 2 == 1})
    # D. count returned by write larger than 32 bits (`count as u32`)
    for n_ in ((1 << 32) + 5, (1 << 64) - 1):
        for tr in trs:
            q = S.gen_wf(rng, 16); mk(q, ('count', n_), tr=tr)
    # E. open / create answers: handle absent / present x each OpenOptions bit
    for op, kind in ((14, 'open'), (35, 'create')):
        for fh in (None, 0, (1 << 64) - 1):
            for opts in (0, 1, 2, 4, 8, 16, 31):
                q = S.gen_wf(rng, op)
                fs = ('open', fh, opts, None) if kind == 'open' else ('create', S.gen_entry(rng), fh, opts, None)
                mk(q, fs, half=1 if opts in (2, 8) else 0, **{'yield': opts == 4})
    # G. the known class (WRITE, size > MAX_BUFFER_SIZE) crossed with everything that is NOT part of it: capacity, transport,
    #    id remap, prior minor, the answer, a hook -- so that its suppression (and only its) is exercised on every run
    for cap in (0, 1, 15, 16, 17, 24, 4096):
        for tr in trs:
            for remap, minor, fs in (((0, 0), 33, ('count', 32768)), ((1000, 2000), 4, ('err', 'os', 5))):
                q = S.gen_wf(rng, 16)
                b = bytearray(q['bytes']); struct.pack_into('<I', b, 56, rng.choice([MAXBUF + 1, 3500291122, (1 << 32) - 1]))
                c = mk(q, fs, req=bytes(b), tr=tr, cap=cap, hook=(cap in (1, 17)))
                c['remap'] = remap; c['minor'] = minor
    #    ... and its boundary from outside: size = MAX_BUFFER_SIZE, an id remap that fails, a length field beyond MAX + HDR
    q = S.gen_wf(rng, 16)
    for size, remap, hl in ((MAXBUF, (0, 0), None), (MAXBUF + 1, 'fail', None), (MAXBUF + 1, (0, 0), MAXBUF + HDRSZ + 1)):
        for cap in (1, 4096):
            b = bytearray(q['bytes']); struct.pack_into('<I', b, 56, size)
            if hl: struct.pack_into('<I', b, 0, hl)
            c = mk(q, ('count', 7), req=bytes(b), cap=cap); c['remap'] = remap
    # H (audit6). the metrics hook x the paths that leave before the dispatch: a length field beyond MAX + HDR (answered / FORGET
    #    dropped) and an id remap that fails -- the hook log (nothing collected, nothing released) must be the same on both paths
    for op in (1, 2, 15, 42):
        q = S.gen_wf(rng, op)
        for hl in (MAXBUF + HDRSZ + 1, (1 << 32) - 1):
            b = bytearray(q['bytes']); struct.pack_into('<I', b, 0, hl)
            mk(q, req=bytes(b), hook=True, cap=4096)
        c = mk(q, hook=True, cap=4096); c['remap'] = 'fail'
    # I (audit6). READ failing after it pushed data; the error kinds beyond the first ten through the async reply helpers
    for c0 in S.gen_readerr_cases(rng, 0):
        c0['block'] = 'audit'; c0['half'] = 0; out.append(c0)
    for i, c0 in enumerate(S.gen_errkind_ext_cases(rng, 0)):
        if full or i % 4 == 0: c0['block'] = 'audit'; c0['half'] = 1; out.append(c0)
    # F. the fd refuses the write (fusedev): both handlers must report the failure alike; not modelled (the models' fd accepts)
    for op in ASYNC_OPS + (10, 28, 38, 2):
        q = S.gen_wf(rng, op)
        mk(q, S.gen_fs(rng, S.OPS[op][3][0], op, q['fields']), tr='fusedev', fdfail=True)
        if 'err' in S.OPS[op][3]: mk(q, ('err', 'os', 5), tr='fusedev', fdfail=True)
    return out

def gen(rng, n, start=0, targeted='full', witnesses=True, config_block=True):
    cases = S.gen_cases(rng, n, frac_malformed=0.35)
    # the async handlers get extra weight: as many cases again are theirs
    extra = []
    for i in range(n):
        op = ASYNC_OPS[i % len(ASYNC_OPS)] if i < 2 * len(ASYNC_OPS) else rng.choice(ASYNC_OPS)
        q = S.gen_wf(rng, op)
        if rng.random() < 0.3: extra.append(S.make_case(rng, 0, S.mutate(rng, q), q['fs'], None))
        else: extra.append(S.make_case(rng, 0, q['bytes'], q['fs'], q))
    # targeted: the gates
    gate_ops = (2, 42, 1, 16, 15, 26, 38, 10) if targeted == 'full' else (2, 42, rng.choice([1, 16, 15]), rng.choice([26, 38, 10]))
    for op in gate_ops:
        q = S.gen_wf(rng, op)
        for l in (MAXBUF + HDRSZ, MAXBUF + HDRSZ + 1, (1 << 32) - 1):
            b = bytearray(q['bytes']); struct.pack_into('<I', b, 0, l)
            for tr in (('fusedev', 'virtio') if targeted == 'full' else (rng.choice(['fusedev', 'virtio']),)):
                extra.append(S.make_case(rng, 0, bytes(b), q['fs'], None, transport=tr, cap=rng.choice([16, 64, 4096]), remap=(0, 0)))
        for cap in (0, 15, 16, 17):
            extra.append(S.make_case(rng, 0, q['bytes'], q['fs'], q, cap=cap))
    for size in (MAXBUF - 1, MAXBUF, MAXBUF + 1, (1 << 32) - 1):
        q = S.gen_wf(rng, 16)
        b = bytearray(q['bytes']); struct.pack_into('<I', b, 56, size)
        for tr in (('fusedev', 'virtio') if targeted == 'full' else (rng.choice(['fusedev', 'virtio']),)):
            extra.append(S.make_case(rng, 0, bytes(b), q['fs'], None, transport=tr, cap=4096, remap=(0, 0)))
    # error answers of every async handler on both transports (the reply-helper paths)
    for op in ASYNC_OPS:
        q = S.gen_wf(rng, op)
        for tr in ('fusedev', 'virtio'):
            extra.append(S.make_case(rng, 0, q['bytes'], ('err', 'os', rng.choice(S.ERRNOS)), q, transport=tr, cap=4096, remap=(0, 0)))
    cases += extra
    if config_block:
        cases += config_cases(rng)
        cases += audit_cases(rng, targeted == 'full')
        er = early_return_cases(rng)
        for i, c in enumerate(er): c['block'] = 'early'; c['half'] = int(i % 4 != 0)
        cases += er
        # malformed names of every opcode that carries strings: lookup / create (async handlers) on both transports, the
        # fall-back opcodes alternating
        bn = S.gen_badname_cases(rng, 0) + [c for c in S.gen_badname_cases(rng, 0, transports=('virtio', 'fusedev'))
                                           if struct.unpack_from('<I', c['req'], 4)[0] in (1, 35)]
        for i, c in enumerate(bn): c['block'] = 'badname'; c['half'] = i % 2
        cases += bn
    for c in cases: c['fill'] = rng.randrange(256)
    if witnesses: cases += witness_cases()
    for i, c in enumerate(cases): c['id'] = start + i
    return cases

def evaluate(cases, obs, findings, stats, hist, nontriv):
    for c in cases:
        o = obs.get(c['id'])
        if not o or 'sync' not in o or 'async' not in o: continue
        so, ao = o['sync'], o['async']
        h = hdr_of(c); op = h['op'] if h else -1
        hist[('wf' if c['wf'] else 'malformed', c['tr'], 'async-op' if op in ASYNC_OPS else 'fallback')] += 1
        nontriv.add((op if op in S.OPS else 'other', c['tr'], ao['res'].split(':')[0], len(ao['packets']), bool(c['wf']), c['fs'][0] == 'err'))
        if not ao['canary'] or not so['canary']:
            findings.append({'what': 'memory outside the supplied buffers was modified', 'sig': {'defect': 'oob'}, 'input': case_json(c, o)})
        r = classify(c, so, ao)
        if r is None: stats['agree'] += 1
        elif r == 'inexpressible': stats['agree_modulo_passthrough'] += 1
        else:
            what, sig = r
            stats['differ:' + sig['defect']] += 1
            findings.append({'what': what, 'sig': sig, 'input': case_json(c, o)})

def case_json(c, o=None):
    d = S.case_json(c)
    d['fill'] = c['fill']; d['harness_line'] = case_line(c)
    if o:
        for m in ('sync', 'async'):
            if m in o:
                x = o[m]
                d['observed_' + m] = {'res': x['res'], 'panic': x['panic'], 'calls': x['calls'], 'packets': [p.hex() for p in x['packets']], 'mem': x['mem'].hex(), 'canary_ok': x['canary'], 'hooklog': x.get('hooklog')}
    return d

def run_check(tier, seed):
    ev = Evidence(PROP, tier, seed)
    ev.cov['checker_cmd'] = 'make -C coq Props/C20.vo (coqc 8.16.1, full .vo) + Print Assumptions audit'
    ev.cov['trusted_base'] = TRUSTED_COMMON + S.SERVER_TRUSTED + [
        'coq/Model/ServerAsync.v is a hand model of src/api/server/async_io.rs (async_handle_message, the ten async handlers, async_reply_ok / async_do_reply_error) and of the '
        'async writer primitives of src/transport/fusedev/mod.rs; tied to the code by running it inside Coq on the same seeded requests as the real async_handle_message',
        'translator/server_async_dispatch.py (arms of the async dispatch match and which await an async handler, the gate\'s shape, async_write\'s size gate, the unbuffered early return of commit/async_commit); regenerated into coq/Gen/RustAsyncDispatch.v on every run',
        'harness/src/bin/codec_async.rs: one scripted filesystem implementing FileSystem and AsyncFileSystem (always-ready futures, trivial executor); fresh server + filesystem per run; '
        'pwrite/pwrite64 are interposed in the harness binary and forwarded as write(2) on the seqpacket socket so that every write call on the fake /dev/fuse is one observed packet; the reply buffer is pre-filled with a per-case byte',
    ]
    ev.assumptions = ['the filesystem answers the async trait method exactly as it answers the sync one (same scripted result); a passthrough backing id cannot be returned through AsyncFileSystem::async_open/async_create, '
                      'so C20 is stated (and evaluated) for filesystem answers without one',
                      'the fd accepts every write (on a real /dev/fuse the stale second write of the async error path is rejected by the kernel and async_handle_message returns an error after the reply was delivered)']
    broken = []; findings = []
    try:
        write_if_changed(os.path.join(COQ, 'Gen/RustAsyncDispatch.v'), server_async_dispatch.emit_coq(server_async_dispatch.translate(REPO)))
        write_if_changed(os.path.join(COQ, 'Gen/RustDispatch.v'), server_dispatch.emit_coq(server_dispatch.translate(REPO)))
        write_if_changed(os.path.join(COQ, 'Gen/RustABI.v'), rust_abi.emit_coq(rust_abi.translate(REPO)))
    except rust_abi.TranslateError as ex:
        broken.append({'kind': 'translator', 'item': 'translator/server_async_dispatch.py', 'error': str(ex)})
    audit = std_audit(ev, PROP, broken)
    ok, out, bindir = cargo_build(['codec_async'], features=['async-io'])
    if not ok:
        broken.append({'kind': 'harness-build', 'log': out[-3000:]})
        return finish(ev, PROP, findings, broken)
    n = 40 if tier == 'quick' else 3000
    quick = tier == 'quick'
    rng = random.Random(seed)
    cases = gen(rng, n, targeted='some' if quick else 'full')
    mask = S.fsopt_mask()
    stats = collections.Counter(); hist = collections.Counter(); nontriv = set()
    all_obs = {}
    def one_round(cs, tag):
        rc, obs, raw = run_impl(cs, bindir)
        missing = [c for c in cs if c['id'] not in obs or len(obs[c['id']]) != 2]
        if rc != 0 or missing:
            c = missing[0] if missing else None
            findings.append({'what': 'harness process died (exit %s) while serving a request' % rc, 'input': case_json(c) if c else None, 'sig': {'defect': 'crash'}})
        all_obs.update(obs)
        n0 = len(findings)
        evaluate(cs, obs, findings, stats, hist, nontriv)
        differing = set(f['input']['id'] for f in findings[n0:] if f.get('input'))
        bad_a, bad_s = model_vs_impl(tag, cs, obs, mask, broken, sync_every=4 if quick else 1)
        nb = 0
        for i in bad_a:
            c = cs[i]; nb += 1
            if not any(f.get('input') and f['input']['id'] == c['id'] and f['sig'].get('defect') == 'unclassified' for f in findings):
                broken.append({'kind': 'correspondence', 'name': 'Model/ServerAsync.v async_handle vs Server::async_handle_message', 'case': case_json(c, obs[c['id']])})
        for i in bad_s:
            c = cs[i]; nb += 1
            broken.append({'kind': 'correspondence', 'name': 'Model/Server.v handle vs Server::handle_message', 'case': case_json(c, obs[c['id']])})
        return nb
    nbad = one_round(cases, 'c20')
    # the Coq witness of C20_refuted_write_size must reproduce on the real handlers as that defect, and the former
    # witnesses of the repaired defects must agree (C20_repaired_witnesses_agree)
    wit = {}
    for c in cases:
        got = [f['sig'].get('defect') for f in findings if f.get('input') and f['input']['id'] == c['id']]
        if c.get('witness'):
            wit[c['witness']] = got == [c['witness']]
            if got != [c['witness']]:
                broken.append({'kind': 'correspondence', 'name': 'witness of C20_refuted (%s) does not reproduce on the implementation' % c['witness'],
                               'case': case_json(c, all_obs.get(c['id'])), 'got': got})
        elif c.get('repaired'):
            wit['repaired:' + c['repaired']] = got == []
    ev.cov['witness_replays'] = wit
    unknown_before = [f for f in findings if finding_known(f, known_findings(PROP)) is None]
    if broken and not unknown_before:
        # a proof / translator lemma / model tie broke without a failing input: search harder for a concrete request on
        # which the two real handlers differ (implementation only, no Coq: ~3 ms per case), with extra weight on the
        # opcodes of the cases where model and code disagree and on the ten async opcodes
        focus = set()
        for b in broken:
            cj = b.get('case') or {}
            try: focus.add(struct.unpack_from('<I', bytes.fromhex(cj.get('req', '')), 4)[0])
            except Exception: pass
        focus = [op for op in focus if op in S.OPS] or list(ASYNC_OPS)
        r2 = random.Random(seed + 1)
        more = gen(r2, 1200 if quick else 6000, start=len(cases), targeted='full', witnesses=False, config_block=False)
        for i in range(1200 if quick else 6000):
            op = r2.choice(focus) if r2.random() < 0.7 else r2.choice(ASYNC_OPS)
            q = S.gen_wf(r2, op)
            c = S.make_case(r2, 0, S.mutate(r2, q), q['fs'], None) if r2.random() < 0.25 else S.make_case(r2, 0, q['bytes'], q['fs'], q)
            c['fill'] = r2.randrange(256); c['id'] = len(cases) + len(more); more.append(c)
        rc2, obs2, raw2 = run_impl(more, bindir)
        all_obs.update(obs2)
        evaluate(more, obs2, findings, stats, hist, nontriv)
        cases += more
        ev.cov['searched_harder'] = {'cases': len(more), 'focus_opcodes': sorted(focus)}
    # shrink the first new failing request
    new_f = [f for f in findings if finding_known(f, known_findings(PROP)) is None and f.get('input') and f['sig'].get('defect') != 'crash']
    if new_f:
        f0 = new_f[0]; c0 = next((c for c in cases if c['id'] == f0['input']['id']), None)
        if c0 is not None:
            def still(c2):
                c2 = dict(c2); c2.setdefault('fill', c0['fill'])
                rcx, ox, _ = run_impl([c2], bindir)
                o = ox.get(c2['id'])
                if not o or len(o) != 2: return False
                r = classify(c2, o['sync'], o['async'])
                return r not in (None, 'inexpressible') and r[1].get('defect') == f0['sig'].get('defect')
            try:
                small = S.shrink_req(c0, still)
                rcx, ox, _ = run_impl([small], bindir)
                f0['shrunk_input'] = case_json(small, ox.get(small['id']))
            except Exception as ex:
                f0['shrink_error'] = str(ex)
    ev.cov['evaluations'] = 2 * sum(1 for c in cases if c['id'] in all_obs)
    ev.cov['distinct_nontrivial'] = len(nontriv)
    ev.cov['model_vs_impl_cases'] = 2 * len(all_obs)
    ev.cov['model_vs_impl_disagreements'] = nbad
    ev.cov['comparison'] = dict(stats)
    ev.cov['rule'] = ('every case is served by handle_message and by async_handle_message (fresh server each); the C20 predicate (same result, same filesystem calls with the same arguments, same packets / used reply bytes) is '
                      'evaluated on the two observations; both observations are compared with the Coq models handle / async_handle. Cases: the C01-C03 generator (all opcodes, 35% malformed) + as many again on the ten async opcodes '
                      '+ targeted gate cases (length field at MAX+HDR, +1, 2^32-1; capacity 0/15/16/17; WRITE size around MAX_BUFFER_SIZE; an error answer for every async handler) x {fusedev, virtio}. '
                      'distinct_nontrivial = distinct (opcode, transport, async result class, #packets, well-formed?, fs error?) tuples')
    ev.cov['input_distribution'] = {' / '.join(k): v for k, v in sorted(hist.items(), key=lambda kv: -kv[1])[:40]}
    ev.cov['samples'] = [case_json(c, all_obs.get(c['id'])) for c in cases[:2] + cases[-2:]]
    # keep the report small: one finding per signature
    seen = set(); uniq = []
    for f in findings:
        key = json.dumps(f['sig'], sort_keys=True)
        if key in seen: continue
        seen.add(key); uniq.append(f)
    return finish(ev, PROP, uniq, broken)

def replay(path):
    """re-run the failing inputs of a replay file on both real handlers and re-evaluate the C20 predicate"""
    r = json.load(open(path))
    ok, out, bindir = cargo_build(['codec_async'], features=['async-io'])
    if not ok:
        print(out[-2000:]); return 2
    items = r.get('failing') or [b for b in r.get('broken', []) if b.get('case')]
    bad = 0
    for n, f in enumerate(items):
        i = f.get('input') or f.get('case')
        if not i or 'harness_line' not in i: continue
        rc, o = run([os.path.join(bindir, 'codec_async')], input=i['harness_line'] + '\n', timeout=120)
        obs = {}
        for line in o.split('\n'):
            if line.startswith('id='):
                x = S.parse_obs(line); obs[x['mode']] = x
        c = {'id': i['id'], 'tr': i['tr'], 'cap': i['cap'], 'req': bytes.fromhex(i['req']), 'remap': 'fail' if i['remap'] == 'fail' else tuple(i['remap']),
             'fill': i.get('fill', 165), 'fs': ('raw',), 'wf': None, 'minor': i.get('minor'), 'vu': i.get('vu', False), 'hook': 'hook=1' in i['harness_line']}
        print('case %d: %s' % (n, i['harness_line'][:300]))
        for m in ('sync', 'async'):
            if m in obs: print('  %-5s res=%s calls=%s packets=%s mem=%s' % (m, obs[m]['res'], [x.split('(')[0] for x in obs[m]['calls']], [p.hex() for p in obs[m]['packets']], obs[m]['mem'].hex()[:96]))
        if len(obs) == 2:
            same = view(c, obs['sync']) == view(c, obs['async'])
            print('  -> %s' % ('agree' if same else 'DIFFER'))
            bad += 0 if same else 1
    print('VIOLATION property=%s replay=%s' % (PROP, path) if bad else 'no difference reproduced')
    return 1 if bad else 0
