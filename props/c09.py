"""C09 -- concurrent lookups and forgets never lose a reference or duplicate an inode."""
import os, sys, json, random, re, itertools, shutil
from vlib import *

PROP = 'C09'
HEADER = ('From Coq Require Import List NArith Bool.\nFrom FB Require Import Model.Conc.\n'
          'Import ListNotations.\nLocal Open Scope N_scope.\n')

def expand(p):
    """a readdirplus entry that is not delivered is a lookup followed at once by forget(1) of the same number (not atomic)"""
    out = []
    for o in p:
        out += ['L', 'F1'] if o == 'R-' else (['L'] if o == 'R+' else [o])
    return out

_SEQ = {}
def seq_outcomes(r0, progs):
    k = (r0, json.dumps(progs))
    if k not in _SEQ: _SEQ[k] = _seq_outcomes(r0, progs)
    return _SEQ[k]

def _seq_outcomes(r0, progs):
    """final counts of all sequential orders of the operations (per-thread order kept)"""
    progs = [expand(p) for p in progs]
    outs = set()
    def go(pos, refs):
        done = True
        for t, p in enumerate(progs):
            if pos[t] < len(p):
                done = False
                o = p[pos[t]]
                r2 = refs + 1 if o == 'L' else refs - min(int(o[1:]), refs)
                go(pos[:t] + (pos[t] + 1,) + pos[t + 1:], r2)
        if done: outs.add(refs)
    go(tuple(0 for _ in progs), r0)
    return outs

def coq_prog(p):
    def one(o):
        if o == 'L': return 'CLookup'
        if o == 'R+': return '(CRdp true)'
        if o == 'R-': return '(CRdp false)'
        return '(CForget %s)' % o[1:]
    return '[' + '; '.join(one(o) for o in p) + ']'

def coq_nats(l): return '[' + '; '.join('%d%%nat' % x for x in l) + ']'
def coq_ns(l): return '[' + '; '.join('%d' % x for x in l) + ']'

SMALL = [(['R-'], ['F1']), (['R-'], ['L']), (['R+'], ['F1']), (['R-'], ['R-']), (['R-'], ['R+']),
         (['L'], ['F1']), (['F1'], ['L']), (['L', 'F1'], ['L']), (['F1', 'L'], ['L']), (['L'], ['L'])]

def programs(tier, rnd):
    """(initial count, thread programs, max schedules of the depth-first enumeration)"""
    P = []
    # the smallest racing programs are enumerated exhaustively, from a positive count first: they contain the
    # windows lookup-CAS vs forget (load .. compare-exchange) and probe vs removal
    for r0 in (1, 2, 0):
        for a, b in SMALL: P.append((r0, [a, b], (400 if len(a) + len(b) == 2 and 'R-' not in a + b else (80 if r0 else 30)) if tier == 'quick' else 5000))
    two = [(['R-', 'L'], ['F1']), (['R+', 'F1'], ['R-']), (['L'], ['F1', 'L']), (['L', 'L'], ['F1']), (['L', 'F1', 'L'], ['F1']), (['L', 'F2'], ['L', 'F1']), (['F1', 'L'], ['F1', 'L'])]
    for r0 in (0, 1, 2):
        for a, b in two: P.append((r0, [a, b], 20 if tier == 'quick' else 5000))
    three = [(['R-'], ['L'], ['F1']), (['L'], ['L'], ['F1']), (['L'], ['F1'], ['F1']), (['L'], ['L'], ['L'])]
    for r0 in (0, 1):
        for pr in three: P.append((r0, list(pr), 20 if tier == 'quick' else 5000))
    # the smallest racing programs in the other three numbering cells (inode_file_handles x use_host_ino): the refcount
    # protocol is the same, the number a file keeps while its mapping is remembered comes from different tables
    for cell in ((1, 0), (0, 1), (1, 1)):
        for r0 in (1, 0):
            for a, b in [(['L'], ['F1']), (['L'], ['L']), (['R-'], ['F1']), (['F1', 'L'], ['L'])]:
                P.append((r0, [a, b], 40 if tier == 'quick' else 5000, cell))
    if tier != 'quick':
        for r0 in (0, 1, 2):
            P.append((r0, [['L', 'F1', 'L'], ['F1', 'L'], ['L', 'F2']], 100000))
    return P

def post_count(r0, pr):
    """when every sequential order ends with the same count k >= 2, the client afterwards forgets k-1 of its
    references: the number must stay usable with count 1"""
    outs = seq_outcomes(r0, pr)
    if len(outs) == 1:
        k = next(iter(outs))
        if k >= 2: return k - 1
    return 0

def make_script(progs, rnd, nrandom):
    script = ''
    for r0, pr, mx in progs:
        script += 'r0 %d\n' % r0 + ''.join('thread %s\n' % ' '.join(p) for p in pr)
        pc = post_count(r0, pr)
        if pc: script += 'post %d\n' % pc
        script += 'dfs %d\n' % mx
        for _ in range(nrandom):
            script += 'sched ' + ' '.join(str(rnd.randrange(len(pr))) for _ in range(24)) + '\n'
    return script

def parse_runs(out):
    runs = []; complete = truncated = 0
    for l in out.split('\n'):
        if not l.startswith('{'): continue
        try: r = json.loads(l)
        except Exception: continue
        if 'dfs_complete' in r: complete += 1
        elif 'dfs_truncated' in r: truncated += 1
        else: runs.append(r)
    return runs, complete, truncated

def judge(r):
    """C09 on one executed schedule of the implementation: same number for every lookup; the final count is the
    result of SOME sequential order of the operations; the number is usable iff the count is positive, and stays
    usable while the client holds references (also after it forgot all but one of them); one inode object."""
    pr = r['progs']; r0 = r['r0']; final = max(r['rc'], 0)
    for t, res in enumerate(r['results']):
        for o, v in zip(pr[t], res):
            if o in ('L', 'R+', 'R-') and v != r['ino']:
                return '%s in thread %d returned %d, the file has number %d' % ('lookup' if o == 'L' else 'readdirplus entry', t, v, r['ino'])
    for v in r.get('pre', []):
        if v != r['ino']:
            return 'a lookup before the run returned %d, the file had number %d before it was forgotten (a file keeps its number while the mapping is remembered)' % (v, r['ino'])
    if [len(x) for x in r['results']] != [len(p) for p in pr]: return 'not every operation completed'
    outs = seq_outcomes(r0, pr)
    if final not in outs:
        return 'final lookup count %d is not the result of any sequential order of the operations (possible: %s): a reference was %s' % (
            final, sorted(outs), 'lost' if final < min(outs) else 'leaked or counted twice')
    if (r['getattr'] == 9) != (final == 0): return 'count %d but getattr errno %d' % (final, r['getattr'])
    holds = r0 + sum(1 for p in pr for o in p if o in ('L', 'R+')) - sum(int(o[1:]) for p in pr for o in p if o[0] == 'F')
    if holds > 0 and r['getattr'] != 0:
        return 'the client still holds %d reference(s) to number %d but getattr answers errno %d' % (holds, r['ino'], r['getattr'])
    if r['ninodes'] != 2 + (1 if final > 0 else 0): return '%d inode objects in the table (root, the listed directory, the file) with count %d' % (r['ninodes'], final)
    if r.get('post', 0) > 0 and (r['rc2'] != 1 or r['getattr2'] != 0):
        return 'after the run the client forgot %d of its %d references: count %d, getattr errno %d (expected count 1, usable)' % (
            r['post'], r['post'] + 1, r['rc2'], r['getattr2'])
    return None

def explore(bindir, d, progs, rnd, nrandom, budget_s, tag):
    """One harness process per program (depth-first enumeration capped by count AND by wall time, then seeded random
    schedules).  A schedule that does not complete is reported by the watchdog inside the harness (with the schedule).
    A process cut by our own timeout, or output cut short, is partial coverage -- never a finding.
    -> runs, stats, findings, broken"""
    from concurrent.futures import ThreadPoolExecutor
    jobs = []
    for k, pe in enumerate(progs):
        r0, pr, mx = pe[:3]; cell = pe[3] if len(pe) > 3 else (0, 0)
        txt = 'cfg %d %d\nr0 %d\n' % (cell[0], cell[1], r0) + ''.join('thread %s\n' % ' '.join(p) for p in pr)
        pc = post_count(r0, pr)
        if pc: txt += 'post %d\n' % pc
        txt += 'dfs %d %d\n' % (mx, budget_s)
        for _ in range(nrandom):
            txt += 'sched ' + ' '.join(str(rnd.randrange(len(pr))) for _ in range(24)) + '\n'
        sp = os.path.join(d, '%s_%d.txt' % (tag, k)); open(sp, 'w').write(txt)
        jobs.append((k, r0, pr, sp))
    def one(j):
        k, r0, pr, sp = j
        rc, out = run([os.path.join(bindir, 'ptconc'), sp, d], timeout=budget_s + nrandom + 300)
        return j, rc, out
    runs = []; findings = []; broken = []
    st = {'programs': len(progs), 'programs_fully_enumerated': 0, 'programs_truncated_by_count': 0, 'programs_truncated_by_time': 0,
          'programs_cut_by_timeout': 0, 'hung_schedules': 0}
    with ThreadPoolExecutor(max_workers=4) as ex:
        results = list(ex.map(one, jobs))
    for (k, r0, pr, sp), rc, out in results:
        mine = []
        for l in out.split('\n'):
            if not l.startswith('{'): continue
            try: r = json.loads(l)
            except Exception: continue                # a line cut short
            if 'dfs_complete' in r: st['programs_fully_enumerated'] += 1
            elif 'dfs_truncated' in r: st['programs_truncated_by_' + r.get('by', 'count')] += 1
            elif 'hung' in r:
                st['hung_schedules'] += 1
                findings.append({'what': 'a schedule does not complete -- %s' % r['hung'],
                                 'input': {'r0': r['r0'], 'threads': r['progs'], 'schedule': r['sched']},
                                 'observed': {'steps': r['steps'], 'trace': r['trace'], 'yield point of each worker': r['pos']},
                                 'sig': {'check': 'hang', 'threads': len(r['progs'])}})
            elif 'sched' in r: mine.append(r)
        runs += mine
        if rc == 124 or (rc != 0 and 'panicked' not in out):
            # our timeout (or the process was killed): what was observed counts, the rest is not explored
            st['programs_cut_by_timeout'] += 1
            if not mine: broken.append({'kind': 'harness-run', 'program': {'r0': r0, 'threads': pr}, 'rc': rc, 'log': out[-600:]})
        elif rc != 0:
            # a panic (in the server code under test, or an assertion of the harness): concrete input = the program and
            # the last schedule that completed before it
            findings.append({'what': 'the run panicked: ' + ' '.join(out[out.find('panicked'):].split())[:300],
                             'input': {'r0': r0, 'threads': pr, 'after_schedule': mine[-1]['sched'] if mine else None},
                             'sig': {'check': 'panic', 'threads': len(pr)}})
    return runs, st, findings, broken

def run_check(tier, seed):
    ev = Evidence(PROP, tier, seed)
    ev.cov['checker_cmd'] = 'make -C coq Props/C09.vo (coqc 8.16.1, full .vo) + Print Assumptions audit'
    ev.cov['trusted_base'] = TRUSTED_COMMON + [
        'Model/Conc.v: hand-written small-step model of do_lookup / forget_one at the granularity of atomic operations and lock acquisitions; tied to the code by running real threads under a deterministic scheduler (verif hook yield points) and replaying every explored schedule in the model: yield-point trace, completed operations, final count must agree',
        'sequential consistency: the model interleaves atomic steps; Rust Acquire/AcqRel/Relaxed orderings on the single refcount location and the RwLock are assumed to give that (all shared accesses are RMWs on one location or under the lock) -- the property is PARTIAL with respect to weak memory',
        'the scheduler switches threads at the 6 hook points; while a forget is paused between its load and its compare-exchange (it holds the write lock) only lock-free continuations of lookups are scheduled, so the forget CAS-retry path is driven too',
        'harness/src/bin/ptconc.rs and the verif_hooks module',
    ]
    ev.assumptions = ['one file, looked up through two hard-link names and listed (readdirplus) through a third one in a subdirectory, forgets by its inode number', 'fewer than 2^64-1 lookups applied (no refcount saturation)']
    findings, broken = [], []
    audit = std_audit(ev, PROP, broken)
    ok, out, bindir = cargo_build(['ptconc'])
    if not ok:
        broken.append({'kind': 'harness-build', 'log': out[-3000:]})
        return finish(ev, PROP, findings, broken)
    rnd = random.Random(seed)
    progs = programs(tier, rnd)
    d = os.path.join(SCRATCH, 'ptconc', str(os.getpid())); os.makedirs(d, exist_ok=True)      # per process
    import time as _t; _t0 = _t.time()
    budget = 20 if tier == 'quick' else 20           # seconds of enumeration per program (the quick caps by count are reached long before)
    runs, stats, f1, b1 = explore(bindir, d, progs, rnd, 2 if tier == 'quick' else 30, budget, 'c09')
    findings += f1; broken += b1
    complete = stats['programs_fully_enumerated']; truncated = stats['programs_truncated_by_count'] + stats['programs_truncated_by_time']
    ev.cov['harness_s'] = round(_t.time() - _t0, 1)
    ev.cov['exploration'] = stats
    exprs = []; shapes = set(); samples = []; n_sched = len(runs)
    def finding_of(r, bad):
        return {'what': bad, 'input': {'cell (inode_file_handles, use_host_ino)': r.get('cell', [0, 0]), 'r0': r['r0'], 'threads': r['progs'], 'schedule': r['sched']},
                'observed': {k: r.get(k) for k in ('pre', 'ino', 'trace', 'results', 'rc', 'getattr', 'ninodes', 'post', 'rc2', 'getattr2')},
                'sig': {'check': 'concurrent', 'threads': len(r['progs'])}}
    for r in runs:
        pr = r['progs']; r0 = r['r0']; final = max(r['rc'], 0)
        bad = judge(r)
        if bad: findings.append(finding_of(r, bad))
        shapes.add((tuple(r.get('cell', [0, 0])), r0, json.dumps(pr), tuple(r['trace'])))
        if len(samples) < 3: samples.append(r)
        exprs.append('check_sched %d [%s] %s %s %d %s' % (r0, '; '.join(coq_prog(p) for p in pr), coq_nats(r['sched']), coq_ns(r['trace']), final, coq_ns(r['dones'])))
    if audit['ok'] and exprs:
        n_sched = len(runs)
        cap = 8000                                    # schedules replayed in the Coq model (all of them in the quick tier)
        if len(exprs) > cap:
            keep = sorted(rnd.sample(range(len(exprs)), cap))
            exprs = [exprs[i] for i in keep]; runs = [runs[i] for i in keep]
            ev.cov['model_replay_sampled'] = cap
        fails, errs = coq_check_cases('c09', HEADER, ['(%s)' % e for e in exprs], shard=120)
        for e in errs[:3]: broken.append({'kind': 'correspondence', 'name': 'coq evaluation of cases failed', 'log': e})
        for i in fails[:10]:
            r = runs[i]
            broken.append({'kind': 'correspondence', 'name': 'Model/Conc.v under the same schedule vs real threads (yield trace, completed operations, final count)',
                           'case': {'r0': r['r0'], 'threads': r['progs'], 'schedule': r['sched']},
                           'observed': {k: r[k] for k in ('trace', 'dones', 'rc')}, 'n_disagreeing_schedules': len(fails)})
        ev.cov['model_vs_impl_schedules'] = len(exprs)
        if (fails or errs) and not findings:
            # the model no longer represents the code: search harder for a failing schedule before giving up --
            # exhaustive enumeration of the small programs (no truncation), judged by the property predicate alone
            deep = [(r0, [a, b], 20000) for r0 in (1, 2, 0) for a, b in SMALL + [(['L', 'L'], ['F1']), (['L'], ['F1', 'L']), (['L', 'F2'], ['L', 'F1'])]]
            runs2, st2, f2, _ = explore(bindir, d, deep, rnd, 50, 25, 'c09_deep')
            findings += f2
            ev.cov['deep_search_schedules'] = len(runs2)
            for r in runs2:
                bad = judge(r)
                if bad: findings.append(finding_of(r, bad))
            if not findings:
                # last resort: the racing steps may not be separated by a yield point (the scheduler cannot put a
                # thread between them): run the small programs free-running many times and look at the final counts
                iters = 100000 if tier == 'quick' else 50000
                st = [(1, [['R-'], ['L']]), (1, [['F1'], ['L']]), (2, [['L', 'F1'], ['L']]), (1, [['L'], ['L'], ['F1']]), (2, [['F1', 'L'], ['L', 'F1']])]
                txt = ''.join('r0 %d\n' % r0 + ''.join('thread %s\n' % ' '.join(p) for p in pr) + 'stress %d\n' % iters for r0, pr in st)
                sp3 = os.path.join(d, 'c09_stress.txt'); open(sp3, 'w').write(txt)
                rc3, out3 = run([os.path.join(bindir, 'ptconc'), sp3, d], timeout=900)
                for l in out3.split('\n'):
                    if not l.startswith('{"stress"'): continue
                    r = json.loads(l); outs = seq_outcomes(r['r0'], r['progs'])
                    for cnt, ga, times in r['outcomes']:
                        if max(cnt, 0) not in outs or (ga == 9) != (max(cnt, 0) == 0):
                            findings.append({'what': 'free-running threads: final lookup count %d (getattr errno %d) in %d of %d runs is not the result of any sequential order (possible: %s)' % (cnt, ga, times, r['stress'], sorted(outs)),
                                             'input': {'r0': r['r0'], 'threads': r['progs'], 'schedule': 'free-running, %d repetitions (not deterministic: no yield point separates the racing steps)' % r['stress']},
                                             'observed': {'outcomes [count, getattr errno, times]': r['outcomes']},
                                             'sig': {'check': 'concurrent-stress', 'threads': len(r['progs'])}})
                ev.cov['stress_runs'] = iters * len(st)
    shutil.rmtree(d, ignore_errors=True)
    ev.cov['evaluations'] = n_sched
    ev.cov['distinct_nontrivial'] = len(shapes)
    ev.cov['programs'] = len(progs); ev.cov['programs_fully_enumerated'] = complete; ev.cov['programs_truncated'] = truncated
    ev.cov['rule'] = ('depth-first enumeration of schedules (at yield-point granularity) of %d small 2- and 3-thread programs of lookup / forget / readdirplus-entry (delivered or given back) operations over initial counts 0..2; '
                      'evaluations = schedules executed on real threads and replayed in the Coq model; distinct_nontrivial = distinct (initial count, program, yield trace)' % len(progs))
    ev.cov['samples'] = samples
    return finish(ev, PROP, findings, broken)
