"""Shared by props/c10.py and props/c11.py: layer/history generator, harness driver,
translation of cases to Coq terms of Model/Overlay.v."""
import os, random, json, re, subprocess
from vlib import *

NAMES = ['a', 'b', 'c', 'd', 'e', 'f']
DIR_MODES = [0o755, 0o755, 0o700, 0o711, 0o1777, 0o750, 0o555]
FILE_MODES = [0o644, 0o644, 0o600, 0o755, 0o444, 0o640, 0o4755, 0o2644, 0o666]
OPQ = ['user.fuseoverlayfs.opaque', 'trusted.overlay.opaque', 'user.overlay.opaque']
USER_X = ['user.k1', 'user.k2']

# ---------------------------------------------------------------- layer trees (python mirror of Coq `tree`)
# ('d', mode, xattrs{name: bytes}, children{name: node}) | ['f', mode, bytearray, xattrs, ino] | ('l', bytes) | ('w',)

class Gen:
    def __init__(self, rng):
        self.r = rng
        self.ino = 0

    def data(self):
        r = self.r
        n = r.choice([0, 1, 2, 3, 5, 8, 12])
        return bytes(r.randrange(256) if r.random() < 0.3 else r.choice(b'abcxyz01') for _ in range(n))

    def xattrs(self, p=0.12):
        x = {}
        if self.r.random() < p:
            x[self.r.choice(USER_X)] = self.data()[:4]
        return x

    def opaque_x(self):
        r = self.r
        x = {}
        if r.random() < 0.18:
            x[r.choice(OPQ)] = r.choice([b'y', b'y', b'Y', b'n', b'yy', b''])
        return x

    def entry(self, depth, is_upper, hint):
        """hint: kind this name has in another layer (to provoke same-name clashes)"""
        r = self.r
        k = r.random()
        if hint is not None and r.random() < 0.55:
            kind = hint if r.random() < 0.6 else r.choice(['d', 'f', 'w', 'l'])
        else:
            kind = 'd' if k < 0.40 else 'f' if k < 0.72 else 'l' if k < 0.82 else 'w'
        if depth >= 3 and kind == 'd' and r.random() < 0.7: kind = 'f'
        if kind == 'd':
            x = self.opaque_x(); x.update(self.xattrs(0.06))
            ch = {}
            if depth < 3:
                for n in NAMES:
                    if r.random() < (0.34 if depth == 1 else 0.25):
                        ch[n] = self.entry(depth + 1, is_upper, None)
            return ('d', r.choice(DIR_MODES), x, ch)
        if kind == 'f':
            self.ino += 1
            return ['f', r.choice(FILE_MODES), bytearray(self.data()), self.xattrs(), self.ino]
        if kind == 'l':
            return ('l', r.choice([b'a', b'b/c', b'../x', b'/etc/passwd', b'nowhere']))
        return ('w',)

    def layer(self, is_upper, others):
        r = self.r
        ch = {}
        for n in NAMES:
            hint = None
            for o in others:
                if n in o[3]: hint = o[3][n][0]
            p = 0.55 if hint else 0.4
            if r.random() < p:
                e = self.entry(1, is_upper, hint)
                # align sub-directories with other layers so that merges go deep
                if e[0] == 'd' and hint == 'd' and r.random() < 0.7:
                    for o in others:
                        if n in o[3] and o[3][n][0] == 'd':
                            for m, oc in o[3][n][3].items():
                                if r.random() < 0.5:
                                    e[3][m] = self.entry(2, is_upper, oc[0])
                ch[n] = e
        x = {}
        if r.random() < 0.04: x[r.choice(OPQ)] = b'y'
        return ('d', r.choice([0o755, 0o755, 0o755, 0o700, 0o1777]), x, ch)


def ent_lines(k, t, path='.'):
    out = []
    def xs(x): return ''.join(' %s=%s' % (a, b.hex() if b else '-') for a, b in sorted(x.items()))
    if t[0] == 'd':
        out.append('ent %d D %s %x%s' % (k, path, t[1], xs(t[2])))
        for n in sorted(t[3]):
            out += ent_lines(k, t[3][n], n if path == '.' else path + '/' + n)
    elif t[0] == 'f':
        out.append('ent %d F %s %x %s%s' % (k, path, t[1], bytes(t[2]).hex() or '-', xs(t[3])))
    elif t[0] == 'l':
        out.append('ent %d L %s %s' % (k, path, t[1].hex()))
    else:
        out.append('ent %d W %s' % (k, path))
    return out

def ser_xs(x, hide=False):
    it = [(a, b) for a, b in sorted(x.items()) if not (hide and a in OPQ)]
    return '[' + ''.join('%s=%s,' % (a, bytes(b).hex()) for a, b in it) + ']' if it else ''

def ser(t, hide=False):
    if t[0] == 'd':
        return 'd%x%s(%s)' % (t[1], ser_xs(t[2], hide), ''.join('%s=%s,' % (n, ser(t[3][n], hide)) for n in sorted(t[3])))
    if t[0] == 'f': return 'f%x%s:%s' % (t[1], ser_xs(t[3], hide), bytes(t[2]).hex())
    if t[0] == 'l': return 'l:' + t[1].hex()
    return 'w'

def coq_str(s): return '"' + s.replace('"', '""') + '"'
def coq_bytes(b): return '(unhex "%s")' % bytes(b).hex() if len(b) else '[]'
def coq_xs(x): return '[' + '; '.join('(%s, %s)' % (coq_str(a), coq_bytes(b)) for a, b in sorted(x.items())) + ']'
def coq_tree(t):
    if t[0] == 'd':
        return '(Dir %d %s [%s])' % (t[1], coq_xs(t[2]), '; '.join('(%s, %s)' % (coq_str(n), coq_tree(c)) for n, c in t[3].items()))
    if t[0] == 'f': return '(File %d %d %s %s)' % (t[4], t[1], coq_bytes(t[2]), coq_xs(t[3]))
    if t[0] == 'l': return '(Lnk %s)' % coq_bytes(t[1])
    return 'Wh'
def coq_path(p): return '[' + '; '.join(coq_str(c) for c in p.split('/') if c and c != '.') + ']'

# ---------------------------------------------------------------- python reference view (only to choose plausible operations)
def is_opaque(x):
    for k in OPQ:
        v = x.get(k)
        if v is not None and len(v) == 1 and v in (b'y', b'Y'): return True
    return False

def merge(es):
    """es: entries of one name per layer, top first (absent layers skipped) -> node or None"""
    if not es or es[0][0] == 'w': return None
    top = es[0]
    if top[0] != 'd': return top if top[0] != 'f' else ['f', top[1], bytearray(top[2]), dict(top[3]), top[4]]
    st = []
    for e in es:
        if e[0] != 'd': break
        st.append(e)
        if is_opaque(e[2]): break
    names = []
    for d in st:
        for n in d[3]:
            if n not in names: names.append(n)
    ch = {}
    for n in names:
        m = merge([d[3][n] for d in st if n in d[3]])
        if m is not None: ch[n] = m
    return ('d', top[1], {k: v for k, v in top[2].items() if k not in OPQ}, ch)

def vget(v, p):
    for c in [c for c in p.split('/') if c and c != '.']:
        if v is None or v[0] != 'd' or c not in v[3]: return None
        v = v[3][c]
    return v

def all_paths(v, pre=''):
    out = []
    if v[0] == 'd':
        for n, c in v[3].items():
            q = pre + '/' + n if pre else n
            out.append((q, c)); out += all_paths(c, q)
    return out

OP_WEIGHTS = [('lookup', 5), ('getattr', 3), ('readdir', 4), ('read', 4), ('readlink', 2), ('create', 8), ('mkdir', 9),
              ('mknod', 3), ('symlink', 4), ('link', 4), ('unlink', 10), ('rmdir', 9), ('open', 5), ('write', 8),
              ('chmod', 5), ('truncate', 3), ('setxattr', 3), ('getxattr', 2), ('listxattr', 1), ('removexattr', 2), ('rename', 1)]

def gen_op(r, v):
    kinds = [k for k, w in OP_WEIGHTS for _ in range(w)]
    ps = all_paths(v)
    dirs = [''] + [p for p, c in ps if c[0] == 'd']
    files = [p for p, c in ps if c[0] == 'f']
    links = [p for p, c in ps if c[0] == 'l']
    def newname(existing_ok=0.15):
        d = r.choice(dirs)
        dn = vget(v, d)
        if len([c for c in d.split('/') if c]) >= 3: d = r.choice([x for x in dirs if len([c for c in x.split('/') if c]) < 3])
        dn = vget(v, d)
        free = [n for n in NAMES if n not in dn[3]] or NAMES
        n = r.choice(NAMES) if r.random() < existing_ok else r.choice(free)
        return (d + '/' + n) if d else n
    def anyp():
        d = r.choice(dirs); n = r.choice(NAMES)
        return (d + '/' + n) if d else n
    for _ in range(30):
        k = r.choice(kinds)
        wild = r.random() < 0.12
        if k == 'lookup': return {'k': k, 'p': anyp() if (wild or not ps) else r.choice(ps)[0]}
        if k == 'getattr': return {'k': k, 'p': r.choice(ps)[0] if ps and not wild else '.'}
        if k == 'readdir': return {'k': k, 'p': r.choice(dirs) or '.'}
        if k == 'read' and files: return {'k': k, 'p': r.choice(files), 'off': r.choice([0, 0, 1, 3, 20]), 'len': r.choice([1, 4, 64])}
        if k == 'readlink' and links: return {'k': k, 'p': r.choice(links)}
        if k in ('create', 'mknod'): return {'k': k, 'p': newname(), 'mode': r.choice(FILE_MODES)}
        if k == 'mkdir': return {'k': k, 'p': newname(), 'mode': r.choice(DIR_MODES)}
        if k == 'symlink': return {'k': k, 'p': newname(), 'target': r.choice([b'a', b'x/y', b'../b'])}
        if k == 'link' and (files or links): return {'k': k, 'p': r.choice(files + links), 'q': newname()}
        if k == 'unlink':
            c = files + links
            if wild or not c: return {'k': k, 'p': anyp_nondir(r, v, dirs)}
            return {'k': k, 'p': r.choice(c)}
        if k == 'rmdir':
            c = [d for d in dirs if d]
            if wild and files: return {'k': k, 'p': r.choice(files)}
            if c:
                empt = [d for d in c if not vget(v, d)[3]]
                return {'k': k, 'p': r.choice(empt) if empt and r.random() < 0.6 else r.choice(c)}
        if k == 'open' and (files or dirs):
            if files and r.random() < 0.85: return {'k': k, 'p': r.choice(files), 'fl': r.choice(['r', 'w', 'rw', 'wt', 'a'])}
            return {'k': k, 'p': r.choice(dirs) or '.', 'fl': 'r'}
        if k == 'write' and files:
            n = r.choice([1, 2, 5])
            return {'k': k, 'p': r.choice(files), 'off': r.choice([0, 0, 1, 4, 9]), 'data': bytes(r.choice(b'WXYZ') for _ in range(n))}
        if k == 'chmod' and (files or len(dirs) > 1):
            c = files + [d for d in dirs if d]
            p = r.choice(c)
            return {'k': k, 'p': p, 'mode': r.choice(DIR_MODES if vget(v, p)[0] == 'd' else FILE_MODES)}
        if k == 'truncate' and files: return {'k': k, 'p': r.choice(files), 'size': r.choice([0, 1, 3, 10])}
        if k in ('setxattr', 'getxattr', 'removexattr', 'listxattr') and (files or len(dirs) > 1):
            c = files + [d for d in dirs if d]
            o = {'k': k, 'p': r.choice(c)}
            if k != 'listxattr': o['name'] = r.choice(USER_X)
            if k == 'setxattr': o['val'] = bytes(r.choice(b'pqr') for _ in range(r.choice([1, 2])))
            return o
        if k == 'rename' and ps: return {'k': k, 'p': r.choice(ps)[0], 'q': newname()}
    return {'k': 'readdir', 'p': '.'}

def anyp_nondir(r, v, dirs):
    for _ in range(10):
        d = r.choice(dirs); n = r.choice(NAMES)
        p = (d + '/' + n) if d else n
        c = vget(v, p)
        if c is None or c[0] != 'd': return p
    return 'f/f/f'

def ref_apply(v, o, st):
    """ordinary file system semantics on the python view, good enough to keep generating sensible operations"""
    k = o['k']
    def parent(p):
        pp, _, n = p.rpartition('/')
        d = vget(v, pp)
        return (d, n) if d is not None and d[0] == 'd' else (None, n)
    if k in ('create', 'mknod', 'mkdir', 'symlink'):
        d, n = parent(o['p'])
        if d is None or n in d[3]: return
        st['ino'] += 1
        d[3][n] = (['f', o['mode'] & 0o7777, bytearray(), {}, st['ino']] if k in ('create', 'mknod') else
                   ('d', o['mode'] & 0o1777, {}, {}) if k == 'mkdir' else ('l', o['target']))
    elif k == 'link':
        s = vget(v, o['p']); d, n = parent(o['q'])
        if s is None or s[0] == 'd' or d is None or n in d[3]: return
        d[3][n] = s
    elif k == 'unlink':
        d, n = parent(o['p'])
        if d is not None and n in d[3] and d[3][n][0] != 'd': del d[3][n]
    elif k == 'rmdir':
        d, n = parent(o['p'])
        if d is not None and n in d[3] and d[3][n][0] == 'd' and not d[3][n][3]: del d[3][n]
    elif k == 'open':
        f = vget(v, o['p'])
        if f is not None and f[0] == 'f' and open_flags(o['fl'])[1]: f[2][:] = b''
    elif k == 'write':
        f = vget(v, o['p'])
        if f is not None and f[0] == 'f':
            off = o['off']
            if len(f[2]) < off: f[2].extend(b'\0' * (off - len(f[2])))
            f[2][off:off + len(o['data'])] = o['data']
    elif k == 'truncate':
        f = vget(v, o['p'])
        if f is not None and f[0] == 'f':
            s = o['size']
            if len(f[2]) < s: f[2].extend(b'\0' * (s - len(f[2])))
            del f[2][s:]
    elif k == 'chmod':
        f = vget(v, o['p'])
        if f is not None and f[0] == 'f': f[1] = o['mode'] & 0o7777
    elif k == 'setxattr':
        f = vget(v, o['p'])
        if f is not None and f[0] == 'f': f[3][o['name']] = o['val']
        if f is not None and f[0] == 'd': f[2][o['name']] = o['val']
    elif k == 'removexattr':
        f = vget(v, o['p'])
        if f is not None and f[0] == 'f': f[3].pop(o['name'], None)
        if f is not None and f[0] == 'd': f[2].pop(o['name'], None)

def op_line(o):
    k = o['k']
    if k in ('lookup', 'getattr', 'readdir', 'readlink', 'unlink', 'rmdir', 'listxattr'): a = [o['p']]
    elif k == 'read': a = [o['p'], o['off'], o['len']]
    elif k in ('create', 'mkdir', 'mknod', 'chmod'): a = [o['p'], '%x' % o['mode']]
    elif k == 'symlink': a = [o['p'], o['target'].hex()]
    elif k in ('link', 'rename'): a = [o['p'], o['q']]
    elif k == 'open': a = [o['p'], o['fl']]
    elif k == 'write': a = [o['p'], o['off'], o['data'].hex()]
    elif k == 'truncate': a = [o['p'], o['size']]
    elif k == 'setxattr': a = [o['p'], o['name'], o['val'].hex()]
    elif k in ('getxattr', 'removexattr'): a = [o['p'], o['name']]
    return 'op %d %s %s' % (1 if o.get('dump') else 0, k, ' '.join(str(x) for x in a))

def coq_op(o):
    k = o['k']; p = coq_path(o['p'])
    if k == 'lookup': return 'OLookup %s' % p
    if k == 'getattr': return 'OGetattr %s' % p
    if k == 'readdir': return 'OReaddir %s' % p
    if k == 'read': return 'ORead %s %d %d' % (p, o['off'], o['len'])
    if k == 'readlink': return 'OReadlink %s' % p
    if k == 'create': return 'OCreate %s %d' % (p, o['mode'])
    if k == 'mkdir': return 'OMkdir %s %d' % (p, o['mode'])
    if k == 'mknod': return 'OMknod %s %d' % (p, o['mode'])
    if k == 'symlink': return 'OSymlink %s %s' % (p, coq_bytes(o['target']))
    if k == 'link': return 'OLink %s %s' % (p, coq_path(o['q']))
    if k == 'unlink': return 'OUnlink %s' % p
    if k == 'rmdir': return 'ORmdir %s' % p
    if k == 'rename': return 'ORename %s %s' % (p, coq_path(o['q']))
    if k == 'open':
        acc, t, a, cr, x = open_flags(o['fl'])
        return 'OOpen %s (mkOF %s %s %s %s %s)' % (p, {'r': 'ARD', 'w': 'AWR', 'rw': 'ARW'}[acc], *('true' if b else 'false' for b in (t, a, cr, x)))
    if k == 'write': return 'OWrite %s %d %s' % (p, o['off'], coq_bytes(o['data']))
    if k == 'chmod': return 'OChmod %s %d' % (p, o['mode'])
    if k == 'truncate': return 'OTruncate %s %d' % (p, o['size'])
    if k == 'setxattr': return 'OSetxattr %s %s %s' % (p, coq_str(o['name']), coq_bytes(o['val']))
    if k == 'getxattr': return 'OGetxattr %s %s' % (p, coq_str(o['name']))
    if k == 'listxattr': return 'OListxattr %s' % p
    if k == 'removexattr': return 'ORemovexattr %s %s' % (p, coq_str(o['name']))
    raise ValueError(k)

# ---------------------------------------------------------------- cases
def gen_case(r, cid, restart, maxops=40, force_upper=None):
    g = Gen(r)
    has_upper = (r.random() >= 0.12) if force_upper is None else force_upper
    nlow = r.choice([1, 1, 2, 2, 3])
    layers = {}
    others = []
    order = ([0] if has_upper else []) + list(range(1, nlow + 1))
    # lowers first so that the upper can be generated with clash hints too
    for k in reversed(order):
        t = g.layer(k == 0, others)
        layers[k] = t; others.append(t)
    stack = [layers[k] for k in order]
    v = merge(stack)
    if v is None: v = ('d', 0o755, {}, {})
    st = {'ino': 2000}
    ops = []
    n = r.choice([3, 8, 15, 25, maxops])
    for i in range(n):
        o = gen_op(r, v)
        o['dump'] = r.random() < 0.75 or i == n - 1
        ops.append(o)
        if has_upper: ref_apply(v, o, st)
    return {'id': cid, 'upper': has_upper, 'nlow': nlow, 'layers': layers, 'ops': ops, 'restart': restart}

def case_lines(c):
    out = ['case %s upper=%d nlow=%d names=%s restart=%d' % (c['id'], 1 if c['upper'] else 0, c['nlow'], ','.join(NAMES), 1 if c['restart'] else 0)]
    for k in sorted(c['layers']): out += ent_lines(k, c['layers'][k])
    out += [op_line(o) for o in c['ops']]
    out.append('end')
    return out

def run_harness(cases, bindir, tag):
    d = os.path.join(SCRATCH, 'ovl-' + tag); os.makedirs(d, exist_ok=True)
    shards = [cases[i::NPROC] for i in range(NPROC)]
    procs = []
    for i, sh in enumerate(shards):
        if not sh: continue
        f = os.path.join(d, 'cases%d.txt' % i)
        open(f, 'w').write('\n'.join(l for c in sh for l in case_lines(c)) + '\n')
        sd = os.path.join(d, 'scratch%d' % i)
        subprocess.run(['rm', '-rf', sd]); os.makedirs(sd)
        procs.append((sh, subprocess.Popen([os.path.join(bindir, 'overlay'), f, sd], stdout=subprocess.PIPE, stderr=subprocess.DEVNULL, text=True)))
    res = {}
    for sh, p in procs:
        try:
            out, _ = p.communicate(timeout=900)
        except subprocess.TimeoutExpired:
            p.kill(); out = ''
        res.update(parse_output(out))
        subprocess.run(['rm', '-rf', os.path.join(d)], check=False) if False else None
    return res

def parse_output(out):
    res = {}; cur = None
    for line in out.split('\n'):
        w = line.split(' ')
        if w[0] == 'case':
            cur = {'raw': {}, 'view0': None, 'restart0': None, 'ops': [], 'lowerchg': [], 'flags': []}
            res[w[1]] = cur
        elif cur is None: continue
        elif w[0] == 'raw': cur['raw'][int(w[1])] = w[2]
        elif w[0] == 'view':
            if cur['ops']: cur['ops'][-1]['view'] = w[1]
            else: cur['view0'] = w[1]
        elif w[0] == 'restart':
            if cur['ops']: cur['ops'][-1]['restart'] = w[1]
            else: cur['restart0'] = w[1]
        elif w[0] == 'upper':
            if cur['ops']: cur['ops'][-1]['upper'] = w[1]
        elif w[0] == 'op':
            cur['ops'].append({'i': int(w[1]), 'ret': w[2], 'payload': w[3] if len(w) > 3 else ''})
        elif w[0] == 'lowerchg': cur['lowerchg'].append((int(w[1]), int(w[2]), w[3]))
        elif w[0] in ('mountfail', 'harness-panic'): cur['flags'].append(line)
        elif w[0] == 'end': cur['done'] = True
    return res

COQ_HEADER = ('From Coq Require Import List String NArith Bool Uint63.\nFrom FB Require Import Lib.Hex Model.Overlay Model.OverlayEval.\n'
              'Import ListNotations.\nLocal Open Scope string_scope.\nLocal Open Scope N_scope.\n')

def shash(s):
    h = 0
    for b in s.encode(): h = (h * 1000003 + b) & ((1 << 63) - 1)
    return h
def coq_hash(s): return '%d%%uint63' % shash(s)

def coq_expects(c, obs):
    """the observed run as a Coq `list expect`; views/uppers equal to the previous one are passed as None"""
    items = []
    pv = obs['view0']; pu = obs['raw'].get(0, '')
    for o, ob in zip(c['ops'], obs['ops']):
        ret = ob['ret']
        e = 9997 if ret == 'panic' else int(ret)
        v = u = 'None'
        if o.get('dump'):
            if ob.get('view') != pv: v = '(Some %s)' % coq_hash(ob.get('view', '!missing')); pv = ob.get('view')
            if c['upper'] and ob.get('upper') != pu: u = '(Some %s)' % coq_hash(ob.get('upper', '!missing')); pu = ob.get('upper')
        items.append('E %s (%s) %d %s %s %s' % ('true' if o.get('dump') else 'false', coq_op(o), e, coq_str(ob['payload']), v, u))
    return '[' + ';\n '.join(items) + ']'

def coq_layers(c):
    u = '(Some ' + coq_tree(c['layers'][0]) + ')' if c['upper'] else 'None'
    ls = '[' + '; '.join(coq_tree(c['layers'][k]) for k in range(1, c['nlow'] + 1)) + ']'
    return u, ls

# ---------------------------------------------------------------- analysis of failing cases
def parse_ser(s):
    """serialisation -> ('d', mode, xattrs, children) | ('f', mode, datahex, xattrs) | ('l', hex) | ('w',) ; None when it has markers"""
    if s is None or '!' in s or '?' in s: return None
    pos = [0]
    def hexnum():
        m = re.match(r'[0-9a-f]*', s[pos[0]:]); pos[0] += m.end(); return m.group(0)
    def xs():
        x = {}
        if s[pos[0]:pos[0] + 1] != '[': return x
        pos[0] += 1
        while s[pos[0]] != ']':
            j = s.index('=', pos[0]); k = s[pos[0]:j]; pos[0] = j + 1
            x[k] = hexnum(); assert s[pos[0]] == ','; pos[0] += 1
        pos[0] += 1
        return x
    def node():
        c = s[pos[0]]; pos[0] += 1
        if c == 'd':
            m = int(hexnum(), 16); x = xs(); assert s[pos[0]] == '('; pos[0] += 1
            ch = {}
            while s[pos[0]] != ')':
                j = s.index('=', pos[0]); n = s[pos[0]:j]; pos[0] = j + 1
                ch[n] = node(); assert s[pos[0]] == ','; pos[0] += 1
            pos[0] += 1
            return ('d', m, x, ch)
        if c == 'f':
            m = int(hexnum(), 16); x = xs(); assert s[pos[0]] == ':'; pos[0] += 1
            return ('f', m, hexnum(), x)
        if c == 'l':
            assert s[pos[0]] == ':'; pos[0] += 1
            return ('l', hexnum())
        if c == 'w': return ('w',)
        raise ValueError('bad serialisation at %d: %s' % (pos[0], s[:80]))
    try:
        return node()
    except Exception:
        return None

def diff_trees(a, b, path=''):
    """a = observed, b = expected -> list of (path, kind)"""
    if a is None or b is None: return [(path, 'unparsable')]
    if a[0] != b[0]: return [(path, 'type')]
    out = []
    if a[0] == 'd':
        if a[1] != b[1]: out.append((path, 'mode'))
        out += diff_xs(a[2], b[2], path)
        for n in sorted(set(a[3]) | set(b[3])):
            q = path + '/' + n if path else n
            if n not in a[3]: out.append((q, 'missing'))
            elif n not in b[3]: out.append((q, 'extra'))
            else: out += diff_trees(a[3][n], b[3][n], q)
    elif a[0] == 'f':
        if a[1] != b[1]: out.append((path, 'mode'))
        if a[2] != b[2]: out.append((path, 'content'))
        out += diff_xs(a[3], b[3], path)
    elif a[0] == 'l':
        if a[1] != b[1]: out.append((path, 'target'))
    return out

def diff_xs(xa, xb, path):
    out = []
    for k in sorted(set(xa) | set(xb)):
        if k not in xa: out.append((path, 'xattr-missing'))
        elif k not in xb: out.append((path, 'xattr-extra'))
        elif xa[k] != xb[k]: out.append((path, 'xattr-value'))
    return out

def tree_at(t, p):
    for c in [c for c in p.split('/') if c]:
        if t is None or t[0] != 'd' or c not in t[3]: return None
        t = t[3][c]
    return t

def with_all_dumps(c):
    c2 = dict(c); c2['ops'] = [dict(o, dump=True) for o in c['ops']]
    return c2

def first_failing_prefix(name, c, ob, mk_expr):
    """smallest k such that mk_expr(prefix of k+1 ops) evaluates to false (None if none)"""
    ex = []
    for k in range(1, len(c['ops']) + 1):
        c2 = dict(c); c2['ops'] = c['ops'][:k]
        ex.append(mk_expr(c2, ob))
    f, e = coq_check_cases(name, COQ_HEADER, ex, shard=4)
    if e: return None, e
    return (f[0] if f else None), None

def expr_tie(c, ob):
    u, ls = coq_layers(c)
    return '(check_case %s %s %s %s)' % (u, ls, coq_hash(ob['view0']), coq_expects(c, ob))
def expr_union(c, ob):
    u, ls = coq_layers(c)
    return '(check_union %s %s %s)' % (u, ls, coq_hash(ob['view0']))
def expr_ordinary(c, ob):
    u, ls = coq_layers(c)
    return '(check_ordinary %s %s %s)' % (u, ls, coq_expects(c, ob))

def coq_string_value(ans):
    """'= "...." : string' -> python str"""
    m = re.match(r'= "(.*)"\s*: string', ans, flags=re.S)
    return m.group(1).replace('""', '"') if m else None

def spec_view_after(c, k):
    u, ls = coq_layers(c)
    vals, errs = coq_eval_values('ovl_spec', COQ_HEADER, ['spec_view %s %s [%s]' % (u, ls, '; '.join(coq_op(o) for o in c['ops'][:k + 1]))])
    return coq_string_value(vals[0]) if vals and vals[0] else None

def model_views_after(c, k):
    u, ls = coq_layers(c)
    ops = '[%s]' % '; '.join('(%s, %s)' % ('true' if o.get('dump') else 'false', coq_op(o)) for o in c['ops'][:k + 1])
    vals, errs = coq_eval_values('ovl_model', COQ_HEADER, ['model_view %s %s %s' % (u, ls, ops), 'model_upper %s %s %s' % (u, ls, ops),
                                                            'model_restart_view %s %s %s' % (u, ls, ops)])
    return [coq_string_value(v) if v else None for v in vals]

def replay_input(c, k=None):
    ops = c['ops'] if k is None else c['ops'][:k + 1]
    return {'upper': c['upper'], 'nlow': c['nlow'], 'layers': {str(i): ser(t) for i, t in c['layers'].items()},
            'ops': [{a: (b.hex() if isinstance(b, (bytes, bytearray)) else b) for a, b in o.items()} for o in ops],
            'harness_input': case_lines(dict(c, ops=ops))}

def open_flags(fl):
    """'r' | 'w' | 'rw' [ '+' subset of t(runc) a(ppend) c(reat) x(excl) ]  (legacy: 'wt', 'a') -> (access, trunc, append, creat, excl)"""
    if fl == 'wt': fl = 'w+t'
    if fl == 'a': fl = 'w+a'
    acc, _, bits = fl.partition('+')
    return acc, 't' in bits, 'a' in bits, 'c' in bits, 'x' in bits
def open_readonly(fl):
    """the copy-up test of OverlayFs::open: flags & (O_APPEND|O_CREAT|O_TRUNC|O_RDWR|O_WRONLY) == 0"""
    acc, t, a, cr, x = open_flags(fl)
    return acc == 'r' and not (t or a or cr)

# ---------------------------------------------------------------- shared exploration driver
MODIFYING = {'create', 'mkdir', 'mknod', 'symlink', 'link', 'unlink', 'rmdir', 'write', 'chmod', 'truncate', 'setxattr', 'removexattr', 'rename'}
def modifying(o): return o['k'] in MODIFYING or (o['k'] == 'open' and not open_readonly(o['fl']))

def corpus_cases(prop, restart):
    """hand-written regression inputs (the defects' minimal witnesses and the design's targeted shapes)"""
    def D(mode=0o755, x=None, **ch): return ('d', mode, x or {}, ch)
    ino = [500]
    def Fi(data=b'old', mode=0o644, x=None):
        ino[0] += 1; return ['f', mode, bytearray(data), x or {}, ino[0]]
    cs = []
    def add(layers, ops, upper=True):
        nlow = max(layers)
        cs.append({'id': 'k%d' % len(cs), 'upper': upper, 'nlow': nlow, 'layers': layers, 'restart': restart,
                   'ops': [dict(o, dump=True) for o in ops]})
    # D4: rmdir a lower-only directory, mkdir it again
    add({0: D(), 1: D(d=D(0o755, None, old=Fi()))},
        [{'k': 'unlink', 'p': 'd/old'}, {'k': 'rmdir', 'p': 'd'}, {'k': 'mkdir', 'p': 'd', 'mode': 0o755}, {'k': 'readdir', 'p': 'd'}])
    # upper file shadowing a lower file, unlinked
    add({0: D(c=Fi(b'up')), 1: D(c=Fi(b'low'))}, [{'k': 'unlink', 'p': 'c'}])
    # copy-up then unlink
    add({0: D(), 1: D(a=D(0o700, None, f=Fi(b'hello', 0o600)))},
        [{'k': 'write', 'p': 'a/f', 'off': 5, 'data': b'X'}, {'k': 'read', 'p': 'a/f', 'off': 0, 'len': 64}, {'k': 'unlink', 'p': 'a/f'}])
    # whiteout in lower, opaque upper dir, file over dir
    add({0: D(a=D(0o755, {'user.overlay.opaque': b'y'}, n=Fi(b'n'))), 1: D(a=D(0o755, None, o=Fi(b'o')), b=('w',)), 2: D(b=D(0o755, None, z=Fi()), a=Fi(b'file'))},
        [{'k': 'mkdir', 'p': 'b', 'mode': 0o711}, {'k': 'create', 'p': 'a/o', 'mode': 0o600}, {'k': 'rmdir', 'p': 'b'}, {'k': 'symlink', 'p': 'b', 'target': b'a'}])
    # symlink and nested directory copy-up, xattrs on lower entries
    add({0: D(), 1: D(p=D(0o750, {'user.k1': b'v'}, q=D(0o711, None, s=('l', b'../t'), f=Fi(b'data', 0o640, {'user.k2': b'w'}))))},
        [{'k': 'link', 'p': 'p/q/s', 'q': 'p/q/t'}, {'k': 'chmod', 'p': 'p/q/f', 'mode': 0o600}, {'k': 'truncate', 'p': 'p/q/f', 'size': 2}, {'k': 'open', 'p': 'p/q/f', 'fl': 'wt'}])
    # no upper layer
    add({1: D(a=D(0o755, None, f=Fi())), 2: D(a=D(0o755, None, g=Fi()), h=('l', b'a'))},
        [{'k': 'mkdir', 'p': 'x', 'mode': 0o755}, {'k': 'unlink', 'p': 'a/f'}, {'k': 'write', 'p': 'a/g', 'off': 0, 'data': b'Z'}, {'k': 'setxattr', 'p': 'a', 'name': 'user.k1', 'val': b'p'},
         {'k': 'chmod', 'p': 'a/f', 'mode': 0o600}, {'k': 'read', 'p': 'a/g', 'off': 0, 'len': 8}, {'k': 'open', 'p': 'a/f', 'fl': 'wt'}, {'k': 'rmdir', 'p': 'a'}], upper=False)
    if prop == 'C11':
        # a client sets one of the overlay's own opaque markers on a merged directory (known finding client-sets-opaque-marker)
        add({0: D(d=D(0o755, None, n=Fi(b'n'))), 1: D(d=D(0o755, None, o=Fi(b'o')))},
            [{'k': 'readdir', 'p': 'd'}, {'k': 'setxattr', 'p': 'd', 'name': 'user.overlay.opaque', 'val': b'y'}, {'k': 'readdir', 'p': 'd'}])
    return cs

def pattern_cases(restart, full=False):
    """Deterministic enumeration: one name ('f') held by every 3- and 4-layer stack (1 upper + 2 or 3 lowers) in every
    combination of {directory, regular file, symlink, whiteout, absent}; each directory layer has a child only it
    has (NAMES[layer]) and a child every directory layer has ('e', content = layer number).  No operations: the
    initial view (and, for C11, the restarted view) is what is compared."""
    import itertools
    cs = []
    for nlayers in (3, 4):
        # quick tier: every 3-layer pattern, 4-layer patterns without symlinks; thorough: everything
        for kinds in itertools.product('dflw-' if (nlayers == 3 or full) else 'dfw-', repeat=nlayers):
            layers = {}
            for i, kd in enumerate(kinds):
                ch = {}
                if kd == 'd':
                    ch['f'] = ('d', 0o755, {}, {NAMES[i]: ['f', 0o644, bytearray(b'u%d' % i), {}, 900 + 10 * i],
                                                 'e': ['f', 0o644, bytearray(b'%d' % i), {}, 901 + 10 * i]})
                elif kd == 'f': ch['f'] = ['f', 0o600, bytearray(b'F%d' % i), {}, 902 + 10 * i]
                elif kd == 'l': ch['f'] = ('l', b'L%d' % i)
                elif kd == 'w': ch['f'] = ('w',)
                layers[i] = ('d', 0o755, {}, ch)
            cs.append({'id': 'p%d%s' % (nlayers, ''.join(kinds).replace('-', 'n')), 'upper': True, 'nlow': nlayers - 1,
                       'layers': layers, 'restart': restart, 'ops': []})
    return cs

def open_flag_cases(restart):
    """Deterministic enumeration of OPEN flag words: access mode {O_RDONLY, O_WRONLY, O_RDWR} x every subset of
    {O_TRUNC, O_APPEND, O_CREAT, O_EXCL} (48 words), each applied to a lower-only file, an upper-only file, a file
    copied up beforehand and a file under a lower-only directory, each open followed by a read of the file; once with
    an upper layer and once without (lower-only file and file under a lower-only directory).  The harness compares the
    raw dump of every lower directory after every step; results and payloads of all steps and the final view are compared."""
    import itertools
    cs = []
    def F(data, ino): return ['f', 0o644, bytearray(data), {}, ino]
    for acc in ('r', 'w', 'rw'):
        for k in range(16):
            bits = ''.join(b for i, b in enumerate('tacx') if k >> i & 1)
            fl = acc + ('+' + bits if bits else '')
            lower = lambda: ('d', 0o755, {}, {'a': F(b'lower-a', 801), 'c': F(b'lower-c', 802), 'd': ('d', 0o755, {}, {'f': F(b'lower-df', 803)})})
            ops = [{'k': 'chmod', 'p': 'c', 'mode': 0o640}]
            for f in ('a', 'b', 'c', 'd/f'):
                ops += [{'k': 'open', 'p': f, 'fl': fl}, {'k': 'read', 'p': f, 'off': 0, 'len': 16}]
            cs.append({'id': 'o1%s' % fl.replace('+', '_'), 'upper': True, 'nlow': 1, 'restart': restart,
                       'layers': {0: ('d', 0o755, {}, {'b': F(b'upper-b', 804)}), 1: lower()},
                       'ops': [dict(o, dump=(i == len(ops) - 1)) for i, o in enumerate(ops)]})
            ops = []
            for f in ('a', 'd/f'):
                ops += [{'k': 'open', 'p': f, 'fl': fl}, {'k': 'read', 'p': f, 'off': 0, 'len': 16}]
            cs.append({'id': 'o0%s' % fl.replace('+', '_'), 'upper': False, 'nlow': 1, 'restart': restart,
                       'layers': {1: lower()}, 'ops': [dict(o, dump=(i == len(ops) - 1)) for i, o in enumerate(ops)]})
    return cs

def explore(prop, seed, n, restart, bindir, tag, with_corpus=True, patterns=False, open_flags_enum=False):
    r = random.Random(seed)
    cases = ((corpus_cases(prop, restart) if with_corpus else []) + (pattern_cases(restart, full=(patterns == 'full')) if patterns else [])
             + (open_flag_cases(restart) if open_flags_enum else [])
             + [gen_case(r, str(i), restart) for i in range(n)])
    obs = run_harness(cases, bindir, tag)
    good = []; bad_harness = []
    for c in cases:
        ob = obs.get(c['id'])
        if (not ob or not ob.get('done') or ob['flags'] or len(ob['ops']) != len(c['ops'])
                or any(ser(t) != ob['raw'].get(k) for k, t in c['layers'].items())):
            bad_harness.append({'case': c['id'], 'flags': ob and ob['flags']})
        else:
            good.append(c)
    return good, obs, bad_harness

def eval_bools(name, exprs):
    """-> set of failing indices, error logs"""
    if not exprs: return set(), []
    f, e = coq_check_cases(name, COQ_HEADER, exprs, shard=max(4, min(40, len(exprs) // (2 * NPROC) + 1)))
    return set(f), e

def shape(c, ob):
    """coarse shape of a case for the distinct_nontrivial count"""
    return tuple(sorted(set((o['k'], b['ret']) for o, b in zip(c['ops'], ob['ops']) if b['ret'] == '0' and modifying(o))))


def parse_first_bad(ans):
    """'= Some (12, "view", "ret") : ...' -> (12, [strings...]); '= None : ...' -> None"""
    if ans is None: return 'error'
    if re.match(r'= None\s*:', ans): return None
    m = re.match(r'= Some \((\d+), (.*)\)\s*: option', ans, flags=re.S)
    if not m: return 'error'
    strs = [x.replace('""', '"') for x in re.findall(r'"((?:[^"]|"")*)"', m.group(2))]
    return int(m.group(1)), strs

def locate_ordinary(name, cases, obs):
    """for each case -> None | (k, spec_view, spec_ret)"""
    ex = []
    for c in cases:
        u, ls = coq_layers(c)
        ex.append('ordinary_first_bad %s %s %s' % (u, ls, coq_expects(c, obs[c['id']])))
    vals, errs = coq_eval_values(name, COQ_HEADER, ex, shard=max(1, len(ex) // NPROC + 1))
    return [parse_first_bad(v) for v in vals]

def locate_tie(name, cases, obs):
    ex = []
    for c in cases:
        u, ls = coq_layers(c)
        ex.append('tie_first_bad %s %s %s %s' % (u, ls, coq_hash(obs[c['id']]['view0']), coq_expects(c, obs[c['id']])))
    vals, errs = coq_eval_values(name, COQ_HEADER, ex, shard=max(1, len(ex) // NPROC + 1))
    return [parse_first_bad(v) for v in vals]

def is_pattern(c): return c['id'].startswith('p3') or c['id'].startswith('p4')
def is_flagcase(c): return c['id'].startswith('o0') or c['id'].startswith('o1')
def expr_pattern(c, ob):
    u, ls = coq_layers(c)
    return '(check_pattern %s %s %s)' % (u, ls, coq_hash(ob['view0']))
