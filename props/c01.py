"""C01 -- untrusted request bytes never crash the server nor corrupt the reply stream."""
import os, sys, random, struct, collections
from vlib import *
import server_common as S

PROP = 'C01'

def predicate(c, o):
    """C01 evaluated on one implementation run. -> list of (what, sig)"""
    bad = []
    req = c['req']
    op = struct.unpack_from('<I', req, 4)[0] if len(req) >= 8 else None
    unique = struct.unpack_from('<Q', req, 8)[0] if len(req) >= 16 else None
    if o['panic'] or o['res'] == 'panic': bad.append(('handle_message panicked', {'kind': 'panic'}))
    if not o['canary']: bad.append(('memory outside the supplied buffers was modified', {'kind': 'oob'}))
    if len(o['packets']) > 1: bad.append(('%d writes reached /dev/fuse for one request' % len(o['packets']), {'kind': 'multi-reply'}))
    replies = list(o['packets'])
    if c['tr'] == 'virtio' and o['res'].startswith('ok:') and int(o['res'][3:]) > 0: replies = [o['mem']]
    for p in replies:
        if len(p) < 16: bad.append(('reply shorter than an out header (%d bytes)' % len(p), {'kind': 'short-reply'})); continue
        ln, er, un = struct.unpack_from('<IiQ', p, 0)
        if ln != len(p): bad.append(('reply length field %d != %d bytes emitted' % (ln, len(p)), {'kind': 'len'}))
        if unique is not None and un != unique: bad.append(('reply unique %d != request unique %d' % (un, unique), {'kind': 'unique'}))
        if not (er == 0 or 1 <= -er <= 4095): bad.append(('reply error field %d is neither 0 nor a negated errno' % er, {'kind': 'errno'}))
        if er != 0 and ln != 16: bad.append(('error reply carries a body', {'kind': 'errbody'}))
    if op in (2, 42) and replies: bad.append(('FORGET/BATCH_FORGET (opcode %d) produced a reply' % op, {'kind': 'forget-reply', 'op': op}))
    q = c.get('wf')
    if q and c['remap'] != 'fail' and q['op'] in S.NEEDS_REPLY and c['cap'] >= 8192:     # every generated reply is < 8 KiB, so it fits
        # DESTROY: handle_message returns Ok(0) although it wrote a reply; on virtio the used length is the caller's
        # business, so the reply is not visible through the returned length (recorded in DESIGN.md)
        if len(replies) != 1 and not (q['op'] == 38 and c['tr'] == 'virtio'):
            bad.append(('well-formed %s request got %d replies' % (S.OPS[q['op']][0], len(replies)), {'kind': 'no-answer', 'op': q['op']}))
    return bad

def run_check(tier, seed):
    ev = Evidence(PROP, tier, seed)
    ev.cov['checker_cmd'] = 'make -C coq Props/C01.vo (coqc 8.16.1, full .vo) + Print Assumptions audit'
    ev.cov['trusted_base'] = TRUSTED_COMMON + S.SERVER_TRUSTED
    ev.assumptions = ['memory safety of the unsafe blocks themselves is not modelled (canaries around every buffer in both tiers; the thorough tier replays all cases through an AddressSanitizer build)',
                      'C01_answer_required / C01_answer_exactly_one_message are proved for the FuseDev transport; for virtio the reply is the bytes placed in the writable descriptors (checked on the implementation and through the model correspondence)']
    broken = []; findings = []
    audit = std_audit(ev, PROP, broken)
    ok, out, bindir = cargo_build(['codec'])
    if not ok:
        broken.append({'kind': 'harness-build', 'log': out[-3000:]})
        return finish(ev, PROP, findings, broken)
    n = 1800 if tier == 'quick' else 12000
    rng = random.Random(seed)
    cases = S.gen_cases(rng, n, frac_malformed=0.45)
    # targeted cases: oversize FORGET/BATCH_FORGET, tiny capacities, exact-fit capacities
    extra = []
    for op in (2, 42, 1, 15, 28):
        q = S.gen_wf(rng, op)
        for l in ((1 << 20) + 4097, (1 << 32) - 1):
            b = bytearray(q['bytes']); struct.pack_into('<I', b, 0, l)
            extra.append(S.make_case(rng, 0, bytes(b), q['fs'], None))
        for cap in (0, 15, 16, 17, 16 + 128, 16 + 127):
            extra.append(S.make_case(rng, 0, q['bytes'], q['fs'], q, cap=cap))
    extra += S.gen_config_cases(rng, 0)
    extra += S.gen_virtio_seg_cases(rng, 0)
    extra += S.gen_direrr_cases(rng, 0, transports=('fusedev', 'virtio', 'chan'))
    extra += S.gen_badname_cases(rng, 0, transports=('fusedev', 'virtio', 'chan'))
    # audit6 blocks: INIT of every major class / minor / INIT_EXT tail shape (each must be answered), READ failing after data was pushed
    extra += S.gen_init_shape_cases(rng, 0)
    extra += S.gen_readerr_cases(rng, 0, transports=('fusedev', 'virtio', 'chan'))
    for i, c in enumerate(extra): c['id'] = n + i
    cases += extra
    for i, c in enumerate(cases):
        if i % 4 == 3: c['hook'] = True     # every fourth case runs with a MetricsHook installed
    rc, obs, raw = S.run_impl(cases, bindir=bindir)
    missing = [c for c in cases if c['id'] not in obs]
    if rc != 0 or missing:
        # the harness process died: under panic=abort / a crash this is itself a C01 failure on the case it stopped at
        c = missing[0] if missing else None
        findings.append({'what': 'harness process died (exit %s) while serving a request' % rc, 'input': S.case_json(c) if c else None, 'sig': {'kind': 'crash'}})
    mask = S.fsopt_mask()
    hist = collections.Counter()
    nontriv = set()
    for c in cases:
        o = obs.get(c['id'])
        if o is None: continue
        cls = ('wf' if c['wf'] else 'malformed', c['tr'], o['res'].split(':')[0] + (':' + o['res'].split(':')[1] if o['res'].startswith('err') else ''))
        hist[cls] += 1
        op = struct.unpack_from('<I', c['req'], 4)[0] if len(c['req']) >= 8 else -1
        nontriv.add((op if op in S.OPS else 'other', c['tr'], o['res'].split(':')[0], len(o['packets']), bool(c['wf'])))
        for what, sig in predicate(c, o):
            findings.append({'what': what, 'sig': sig, 'input': S.case_json(c, o)})
    bad_idx = S.model_vs_impl('c01', cases, obs, mask, broken) if audit['ok'] or True else []
    pred_failed = set(f['input']['id'] for f in findings if f.get('input'))
    for i in bad_idx:
        c = cases[i]
        if c['id'] not in pred_failed:
            broken.append({'kind': 'correspondence', 'name': 'Model/Server.v handle vs Server::handle_message', 'case': S.case_json(c, obs[c['id']])})
    # shrink the first finding
    if findings and findings[0].get('input') and tier == 'quick':
        f0 = findings[0]; c0 = next((c for c in cases if c['id'] == f0['input']['id']), None)
        if c0 is not None:
            def still(c2):
                rc2, ob2, _ = S.run_impl([c2], bindir=bindir)
                o2 = ob2.get(c2['id'])
                return o2 is None or any(w == f0['what'] for w, s in predicate(c2, o2))
            try:
                small = shrink_req(c0, still) if False else S.shrink_req(c0, still)
                rc2, ob2, _ = S.run_impl([small], bindir=bindir)
                f0['shrunk_input'] = S.case_json(small, ob2.get(small['id']))
            except Exception as ex:
                f0['shrink_error'] = str(ex)
    # thorough tier: the same requests through an AddressSanitizer build of the harness + crate
    if tier == 'thorough':
        oka, outa, bina = cargo_build_asan(['codec'])
        if not oka:
            ev.cov['asan'] = 'not run: ASan build failed'
        else:
            inp = '\n'.join(S.case_line(c) for c in cases) + '\n'
            rca, outa = run([os.path.join(bina, 'codec')], input=inp, timeout=3000, env={'ASAN_OPTIONS': 'detect_leaks=0:abort_on_error=0:halt_on_error=1'})
            n_lines = sum(1 for l in outa.split('\n') if l.startswith('id='))
            ev.cov['asan'] = {'cases': n_lines, 'exit': rca}
            if 'AddressSanitizer' in outa or rca != 0 or n_lines != len(cases):
                last = [l for l in outa.split('\n') if l.startswith('id=')][-1:] or ['']
                idx = n_lines if n_lines < len(cases) else None
                findings.append({'what': 'AddressSanitizer report / abnormal exit while serving a request (memory outside the supplied buffers touched)',
                                 'sig': {'kind': 'asan'}, 'input': S.case_json(cases[idx]) if idx is not None else None,
                                 'asan_output': outa[outa.find('AddressSanitizer') - 200:][:3000] if 'AddressSanitizer' in outa else outa[-1500:]})
    ev.cov['evaluations'] = len(obs)
    ev.cov['distinct_nontrivial'] = len(nontriv)
    ev.cov['model_vs_impl_cases'] = len(obs)
    ev.cov['model_vs_impl_disagreements'] = len(bad_idx)
    ev.cov['rule'] = ('seeded generator: ~55% well-formed requests of every opcode laid out from the kernel header tables (pairwise distinct field values, boundary values), '
                      '~45% malformed (truncation at any offset, trailing bytes, length-field lies, opcode holes, count/size extremes, NULs removed, random bytes) x {fusedev, the real FuseChannel::get_request path with its shared read/write buffer, virtio with random '
                      'descriptor segmentations} x reply capacities {0,15,16,17,...,128KiB} x remap {ok, shifted, fail}; deterministic blocks: oversize FORGET/BATCH_FORGET and tiny/exact-fit capacities, the configuration block (prior INIT minor x LOOKUP answers, id remap x requests, cache-request handler x mapping requests, INIT after an old minor), 13 name-taking opcodes x 7 malformed string tails; every fourth case runs with a counting MetricsHook installed (behaviour must not change); distinct_nontrivial counts distinct '
                      '(opcode, transport, result class, #packets, well-formed?) tuples observed')
    ev.cov['input_distribution'] = {' / '.join(k): v for k, v in sorted(hist.items(), key=lambda kv: -kv[1])[:40]}
    ev.cov['samples'] = [S.case_json(c, obs.get(c['id'])) for c in cases[:2] + cases[-2:]]
    return finish(ev, PROP, findings, broken)

def replay(path):
    return S.replay(PROP, path)
