"""C11 -- overlay disk state matches the live view across restart; copy-up preserves files."""
import os, sys, json, random
from vlib import *
import overlay_common as oc
import overlay_audit as oa

PROP = 'C11'

def expr_tie11(c, ob):
    u, ls = oc.coq_layers(c)
    rs = '[' + '; '.join(('(Some %s)' % oc.coq_hash(b['restart'])) if (o.get('dump') and 'restart' in b) else 'None'
                         for o, b in zip(c['ops'], ob['ops'])) + ']'
    return '(check_case11 %s %s %s %s %s %s)' % (u, ls, oc.coq_hash(ob['view0']), oc.coq_hash(ob['restart0'] or ''), oc.coq_expects(c, ob), rs)

def lowers_have(c, p):
    """does the union of the lower layers alone show an entry at path p?"""
    low = oc.merge([c['layers'][k] for k in range(1, c['nlow'] + 1)])
    return oc.vget(low, p) is not None if low is not None else False

def classify_restart(c, ob, k):
    o = c['ops'][k]; b = ob['ops'][k]
    d = oc.diff_trees(oc.parse_ser(b.get('restart')), oc.parse_ser(b.get('view')))
    up0 = oc.parse_ser(ob['ops'][k - 1]['upper'] if k else ob['raw'][0]); up1 = oc.parse_ser(b.get('upper'))
    p = o.get('q') if o['k'] in ('link', 'rename') else o['p']
    a0 = oc.tree_at(up0, p); a1 = oc.tree_at(up1, p)
    under = bool(d) and all(x[1] == 'extra' and (x[0] == p or x[0].startswith(p + '/')) for x in d)
    sig = {'class': 'other', 'op': o['k']}
    if o['k'] == 'mkdir' and b['ret'] == '0' and under and a0 is not None and a0[0] == 'w' and a1 is not None and a1[0] == 'd' \
            and not oc.is_opaque({n: bytes.fromhex(v) for n, v in a1[2].items()}):
        sig = {'class': 'mkdir-over-upper-whiteout-not-opaque'}
    elif o['k'] in ('unlink', 'rmdir') and b['ret'] == '0' and under and a0 is not None and a0[0] in ('f', 'l', 'd') and a1 is None \
            and lowers_have(c, p):
        sig = {'class': 'rm-upper-only-entry-leaves-lower-visible'}
    elif o['k'] in ('setxattr', 'removexattr') and b['ret'] == '0' and o.get('name') in oc.OPQ and a1 is not None and a1[0] == 'd':
        sig = {'class': 'client-sets-opaque-marker'}
    what = ('after %s %s (errno %s) a freshly started overlay over the same directories shows a different tree: %s'
            % (o['k'], p, b['ret'], ', '.join('%s:%s' % (q or '/', kd) for q, kd in d[:6])))
    return {'what': what, 'sig': sig, 'input': oc.replay_input(c, k), 'live_view': b.get('view'), 'restarted_view': b.get('restart'),
            'upper_before': ob['ops'][k - 1]['upper'] if k else ob['raw'][0], 'upper_after': b.get('upper')}

def copy_up_findings(c, ob):
    """between two consecutive dumped steps: an entry that was visible before and newly appears in the upper
    directory was copied up; type, permission bits, content / link target must be those it had, and newly
    created ancestor directories must have the modes they had in the view."""
    out = []
    prev_view = oc.parse_ser(ob['view0']); prev_up = oc.parse_ser(ob['raw'].get(0))
    prev_ok = True
    for k, (o, b) in enumerate(zip(c['ops'], ob['ops'])):
        if 'view' not in b or 'upper' not in b:
            prev_ok = False; continue
        view = oc.parse_ser(b['view']); up = oc.parse_ser(b['upper'])
        if prev_ok and prev_view is not None and prev_up is not None and up is not None and b['ret'] != 'panic':
            target = o.get('p')
            for q, node in oc.all_paths(up):
                if node[0] == 'w' or oc.tree_at(prev_up, q) is not None: continue
                before = oc.tree_at(prev_view, q)
                if before is None: continue              # created by this operation, not copied up
                if oc.modifying(o) and q in (o.get('p'), o.get('q')) and o['k'] not in ('link',):
                    # the entry the operation itself changes / replaces: only its type must survive a copy-up
                    if o['k'] in ('write', 'chmod', 'truncate', 'setxattr', 'removexattr', 'open') and before[0] != node[0]:
                        out.append((k, q, 'type', before, node))
                    continue
                bad = None
                if before[0] != node[0]: bad = 'type'
                elif node[0] in ('d', 'f') and before[1] != node[1]: bad = 'permission bits'
                elif node[0] == 'f' and before[2] != node[2]: bad = 'content'
                elif node[0] == 'l' and before[1] != node[1]: bad = 'link target'
                if bad: out.append((k, q, bad, before, node))
        prev_view, prev_up, prev_ok = view, up, True
    return out

def analyse(cases, obs, bindir, tag, findings, broken, stats):
    tie_fail, errs = oc.eval_bools('c11_tie_' + tag, [expr_tie11(c, obs[c['id']]) for c in cases])
    if errs: broken.append({'kind': 'correspondence', 'name': 'Coq evaluation of the cases failed', 'log': errs[0]['log']})
    pred_fail = set(); relocate = []
    for i, c in enumerate(cases):
        ob = obs[c['id']]
        stats['evals'] += 1 + sum(1 for b in ob['ops'] if 'restart' in b)
        stats['shapes'].add(oc.shape(c, ob))
        stats['restarts'] += 1 + sum(1 for b in ob['ops'] if 'restart' in b)
        if ob['restart0'] != ob['view0']:
            findings.append({'what': 'a second instance over untouched directories shows a different tree', 'sig': {'class': 'other', 'op': 'none'},
                             'input': oc.replay_input(c, -1), 'live_view': ob['view0'], 'restarted_view': ob['restart0']})
            pred_fail.add(i)
        elif any('view' in b and b['view'] != b.get('restart') for b in ob['ops']):
            relocate.append(i); pred_fail.add(i)
        for (k, q, bad, before, node) in copy_up_findings(c, ob)[:1]:
            sig = {'class': 'copy-up', 'what': bad}
            if bad == 'permission bits' and node[0] == 'd' and before[0] == 'd' and (before[1] & 0o6000) and node[1] == (before[1] & 0o1777):
                sig = {'class': 'copy-up-dir-drops-setid-bits'}      # mkdir(2) keeps 01777 only
            findings.append({'what': 'copy-up of %s during %s %s did not preserve its %s' % (q, c['ops'][k]['k'], c['ops'][k]['p'], bad),
                             'sig': sig, 'input': oc.replay_input(c, k), 'before': before, 'in_upper': node})
            stats['copyups_bad'] += 1
            pred_fail.add(i)
    if relocate:
        re_cases = [oc.with_all_dumps(cases[i]) for i in relocate]
        obs2 = oc.run_harness(re_cases, bindir, tag + 'r')
        for c in re_cases:
            ob = obs2.get(c['id'])
            if not ob or len(ob['ops']) != len(c['ops']): continue
            for k, b in enumerate(ob['ops']):
                if b.get('view') != b.get('restart'):
                    findings.append(classify_restart(c, ob, k)); break
    tie_only = [cases[i] for i in sorted(tie_fail) if i not in pred_fail][:8]
    if tie_only:
        for c, loc in zip(tie_only, oc.locate_tie('c11_tieloc_' + tag, tie_only, obs)):
            ob = obs[c['id']]
            k = loc[0] if isinstance(loc, tuple) else None
            broken.append({'kind': 'correspondence', 'name': 'Model/Overlay.v (step / restart / upper layer) vs OverlayFs', 'case': oc.replay_input(c, k),
                           'first_differing_op': k, 'implementation': (ob['ops'][k] if k is not None and k < len(ob['ops']) else None),
                           'model': loc[1] if isinstance(loc, tuple) else ('restart view differs' if loc is None else loc)})
    stats['tie_cases'] += len(cases)

def run_check(tier, seed):
    ev = Evidence(PROP, tier, seed)
    ev.cov['checker_cmd'] = 'make -C coq Props/C11.vo (coqc 8.16.1, full .vo) + Print Assumptions audit; harness bin overlay (restart after every dumped step); coq_check_cases'
    ev.cov['trusted_base'] = TRUSTED_COMMON + [
        'coq/Model/Overlay.v is a hand model of src/overlayfs/{mod,sync_io}.rs and of the host calls PassthroughFs issues; tied to the code every run: return codes, client-visible tree, raw upper directory and the tree shown by a second OverlayFs instance over the same directories, after each dumped step',
        'harness/src/bin/overlay.rs and props/overlay_common.py (generator, serialisation, 63-bit hash comparison)',
        'host kernel + ext4 behave as modelled for the calls made as root with umask 0',
    ]
    ev.assumptions = ['a restart is a new OverlayFs + new PassthroughFs layers over the same directories in the same process (no crash in the middle of an operation)',
                      'operations are addressed by a freshly looked-up path, one client, type-correct requests, no set-gid directories, no special files other than whiteouts',
                      'copy-up is judged on type, permission bits (07777 for files, 01777 for directories), content and link target; ownership, times and xattrs are outside this property']
    findings = []; broken = []
    std_audit(ev, PROP, broken)
    ok_ev, out_ev = coq_make(['Model/OverlayEval.vo'])      # the case evaluators live outside the proofs' cone (Uint63 hashes)
    if not ok_ev: broken.append({'kind': 'correspondence', 'name': 'coq/Model/OverlayEval.v does not build', 'log': out_ev[-1500:]})
    ok, out, bindir = cargo_build(['overlay'])
    stats = {'evals': 0, 'shapes': set(), 'restarts': 0, 'tie_cases': 0, 'copyups_bad': 0}
    if not ok:
        broken.append({'kind': 'harness-build', 'log': out[-3000:]})
    else:
        n = 40 if tier == "quick" else 1200
        cases, obs, badh = oc.explore(PROP, seed + 11, n, True, bindir, 'c11', )
        cases = [c for c in cases]
        if badh: broken.append({'kind': 'harness', 'name': 'harness output incomplete or layers not materialised as generated', 'cases': badh[:5]})
        analyse(cases, obs, bindir, 'a', findings, broken, stats)
        # deterministic blocks of the coverage audit (props/overlay_audit.py): entry points / request fields / cells without
        # a model operation are judged by restart = live and untouched lowers; configuration cells go through the model
        free = oa.free_cases(PROP, True)
        fobs = oc.run_harness(free, bindir, 'c11f')
        f2, b2 = oa.analyse_free(PROP, free, fobs)
        findings.extend(f2); broken.extend(b2)
        stats['restarts'] += sum(len(c['ops']) + 1 for c in free); stats['evals'] += sum(len(c['ops']) + 1 for c in free)
        cells = oa.cell_cases(PROP, True, full=(tier == 'thorough'), cells=(None if tier == 'thorough' else ['wdkx', 'm'])) + oa.bigdir_cases(PROP, True) + oa.root_cases(PROP, True)
        cobs = oc.run_harness(cells, bindir, 'c11g')
        good = [c for c in cells if cobs.get(c['id']) and cobs[c['id']].get('done') and not cobs[c['id']]['flags'] and len(cobs[c['id']]['ops']) == len(c['ops'])
                and all(oc.ser(t) == cobs[c['id']]['raw'].get(k) for k, t in c['layers'].items())]
        if len(good) != len(cells): broken.append({'kind': 'harness', 'name': 'audit block: harness output incomplete or layers not materialised'})
        analyse(good, cobs, bindir, 'g', findings, broken, stats)
        if broken and not [f for f in findings if not finding_known(f, known_findings(PROP))]:
            cases2, obs2, _ = oc.explore(PROP, seed + 104729, n * 4, True, bindir, 'c11x', with_corpus=False)
            analyse(cases2, obs2, bindir, 'b', findings, [], stats)
        ev.cov['samples'] = [{'layers': {str(k): oc.ser(t) for k, t in c['layers'].items()}, 'ops': [oc.op_line(o) for o in c['ops'][:5]],
                              'live_view': obs[c['id']]['ops'][min(4, len(c['ops']) - 1)].get('view'),
                              'restarted_view': obs[c['id']]['ops'][min(4, len(c['ops']) - 1)].get('restart')} for c in cases[8:10]]
    ev.cov['evaluations'] = stats['evals']
    ev.cov['distinct_nontrivial'] = len(stats['shapes'])
    ev.cov['rule'] = ('evaluations = restarts compared (second instance vs live instance, whole tree); distinct_nontrivial = number of distinct sets of '
                      '(modifying operation kind that succeeded) per history')
    ev.cov['restarts'] = stats['restarts']
    ev.cov['model_vs_impl_cases'] = stats['tie_cases']
    return finish(ev, PROP, findings, broken)
