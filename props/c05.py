"""C05 -- passthrough requests have the effect and result of the same host system call."""
import os, sys, json, re, random, shutil, stat
from vlib import *
sys.path.insert(0, os.path.join(ROOT, 'translator'))
import validators
from pt_common import *

PROP = 'C05'
O_WRONLY, O_RDWR, O_CREAT, O_EXCL, O_TRUNC, O_APPEND, O_NONBLOCK, O_DIRECTORY, O_NOFOLLOW = 1, 2, 0o100, 0o200, 0o1000, 0o2000, 0o4000, 0o200000, 0o400000
UIDS = [0, 0, 1000, 1001]; GIDS = [0, 1000, 1001]
# open-flag bits beyond the access mode / O_TRUNC / O_APPEND / O_EXCL: O_NOATIME, O_SYNC, O_NOFOLLOW, O_NOCTTY, O_CLOEXEC, O_LARGEFILE, O_DSYNC
EXTRA_OPEN_BITS = [0, 0o1000000, 0o4010000, 0o400000, 0o400, 0o2000000, 0o100000, 0o10000]

CONFIGS = [
    {'xattr': True},
    {'xattr': True, 'writeback': True, 'cache': 'always'},
    {'xattr': True, 'no_open': True, 'cache': 'always', 'no_direct_io': True},
    {'xattr': True, 'killpriv_v2': True, 'no_direct_io': True},
    {'xattr': True, 'no_opendir': True, 'cache': 'never'},
    {'xattr': False, 'use_host_ino': True, 'cache': 'metadata', 'killpriv_v2': True, 'writeback': True, 'no_direct_io': True},
    {'xattr': True, 'inode_file_handles': True, 'killpriv_v2': True},
]

def all_configs():
    out = []
    for no_open in (False, True):
        for no_opendir in (False, True):
            for ifh in (False, True):
                for uhi in (False, True):
                    for wb in (False, True):
                        for cache in ('never', 'metadata', 'auto', 'always'):
                            for xa in (False, True):
                                out.append({'xattr': xa, 'no_open': no_open, 'no_opendir': no_opendir, 'inode_file_handles': ifh,
                                            'use_host_ino': uhi, 'writeback': wb, 'cache': cache, 'killpriv_v2': (len(out) % 2 == 0), 'no_direct_io': (len(out) % 3 == 0)})
    return out

def gen_tree(rng):
    t = Tree()
    R = t.add('dir', 0o777)
    names = {}
    def put(d, name, i): t.link(d, name, i)
    f1 = t.add('reg', 0o644, data=b'hello world'); put(R, b'f1', f1)
    f2 = t.add('reg', rng.choice([0o600, 0o640, 0o666, 0o200, 0o444]), uid=1000, gid=1000, data=b'0123456789'); put(R, b'f2', f2)
    fs = t.add('reg', 0o6755, uid=rng.choice([0, 1000]), gid=rng.choice([0, 1001]), data=b'suid-sgid'); put(R, b'fs', fs)
    fg = t.add('reg', 0o2644, uid=1001, gid=1000, data=b'sgid-noexec'); put(R, b'fg', fg)
    d1 = t.add('dir', 0o755); put(R, b'd1', d1)
    d2 = t.add('dir', rng.choice([0o2775, 0o2777, 0o777]), uid=1000, gid=1001); put(R, b'd2', d2)
    d3 = t.add('dir', rng.choice([0o700, 0o750, 0o1777]), uid=1001, gid=1000); put(R, b'd3', d3)
    g = t.add('reg', 0o644, data=b'in-d1'); put(d1, b'g', g)
    dd = t.add('dir', 0o777); put(d1, b'dd', dd)
    put(d2, b'hl', f1)
    l1 = t.add('lnk', 0o777, target=b'f1'); put(R, b'l1', l1)
    l2 = t.add('lnk', 0o777, target=b'/nonexistent/x'); put(d1, b'l2', l2)
    ff = t.add('fifo', 0o666); put(R, b'ff', ff)
    if rng.random() < 0.5:
        t.nodes[f1]['xattrs'][b'user.a'] = b'A1'
    return t, R

NAMES = [b'f1', b'f2', b'fs', b'fg', b'd1', b'd2', b'd3', b'g', b'dd', b'hl', b'l1', b'l2', b'ff', b'n1', b'n2', b'n3', b'n4', b'x' * 255, b'y' * 256, b'', b'.', b'..', b'a/b']
XNAMES = [b'user.a', b'user.b', b'user.c', b'user.', b'bad', b'', b'user.' + b'z' * 251]

def gen_history(rng, n_ops, k=0, wb=False, late_create=False):
    ops = []; ni = 1; nh = 0
    hflags = []       # the flags each handle slot was opened with
    def nm(): return rng.choice(NAMES[:17]) if rng.random() < 0.9 else rng.choice(NAMES)
    def islot(): return rng.randrange(ni) if rng.random() < 0.97 else ('raw', 0)
    def hslot(): return rng.randrange(nh) if nh and rng.random() < 0.97 else ('raw', 0)
    def who(): return rng.choice(UIDS), rng.choice(GIDS)
    for n in [b'f1', b'f2', b'fs', b'fg', b'd1', b'd2', b'd3', b'l1', b'ff']:
        ops.append({'op': 'lookup', 'p': 0, 'name': n}); ni += 1
    def create_existing_block():
        nonlocal ni, nh
        # CREATE on names that already exist (the whole class, rotated deterministically over the histories so that every
        # (target kind, flag set) cell is exercised in several configurations): regular files with content (root-owned,
        # user-owned, suid), a file in a subdirectory, a symlink, a directory, a FIFO; with/without O_TRUNC, O_APPEND,
        # O_EXCL; each followed by getattr, a write through the returned handle, and a fresh open + read
        targets = [(0, b'f1'), (0, b'f2'), (0, b'fs'), (5, b'g'), (0, b'l1'), (0, b'd1'), (0, b'ff')]
        flagsets = [O_RDWR, O_RDWR | O_TRUNC, O_WRONLY | O_TRUNC, O_WRONLY | O_APPEND, O_RDWR | O_EXCL, O_RDWR | O_TRUNC | O_EXCL]
        for j in range(6):
            cell = (k * 6 + j + k // 7) % (len(targets) * len(flagsets))      # k // 7: the 7 configurations x 42 cells must not stay in phase
            (par, name), fl = targets[cell % len(targets)], flagsets[cell // len(targets)]
            u, g = (0, 0) if j % 2 == 0 else (1000, 1000)
            fl |= EXTRA_OPEN_BITS[(k + j) % len(EXTRA_OPEN_BITS)]
            ops.append({'op': 'create', 'p': par, 'name': name, 'mode': 0o644, 'umask': 0, 'flags': fl, 'fuse_flags': (k + j) % 2, 'uid': u, 'gid': g})
            ci = ni; ch = nh; ni += 1; nh += 1; hflags.append(fl)
            ops.append({'op': 'getattr', 'i': ci, 'h': None})
            ops.append({'op': 'write', 'i': ci, 'h': ch, 'off': 1, 'data': b'Z', 'flags': fl, 'fuse_flags': 0})
            ops.append({'op': 'open', 'i': ci, 'flags': O_NONBLOCK, 'fuse_flags': 0}); nh += 1; hflags.append(O_NONBLOCK)
            ops.append({'op': 'read', 'i': ci, 'h': nh - 1, 'size': 64, 'off': 0, 'flags': O_NONBLOCK})
            ops.append({'op': 'getattr', 'i': ci, 'h': None})
    if not late_create: create_existing_block()
    # SETATTR over the subsets of the validity bits {ATIME, MTIME, ATIME_NOW, MTIME_NOW, SIZE, MODE, with/without handle}
    # (enumerated deterministically over the histories: all 16 time-bit combinations in every history) x random
    # {UID, GID, KILL_SUIDGID, CTIME}; explicit times are distinctive constants far from now with non-zero nanoseconds;
    # each request is preceded by a getattr so that "unchanged / set / now" can be told apart afterwards
    ops.append({'op': 'open', 'i': 1, 'flags': O_RDWR | O_NONBLOCK, 'fuse_flags': 0}); th = nh; nh += 1; hflags.append(O_RDWR | O_NONBLOCK)
    for j in range(16):
        idx = k * 16 + j
        valid = 0
        for bit, m in enumerate([0x10, 0x20, 0x80, 0x100, 0x8, 0x1]):
            if (idx >> bit) & 1: valid |= m
        with_handle = (idx >> 6) & 1
        for m in (0x2, 0x4, 0x800, 0x400):
            if rng.random() < 0.25: valid |= m
        ops.append({'op': 'getattr', 'i': 1, 'h': None})
        ops.append({'op': 'setattr', 'i': 1, 'h': th if with_handle else None, 'valid': valid, 'mode': rng.choice([0o644, 0o640, 0o4755]), 'uid': 0, 'gid': rng.choice([0, 1000]),
                    'size': rng.choice([0, 5, 11, 20]), 'atime': 1000000000 + 1000 * idx + 1, 'ansec': 111111111 + j, 'mtime': 1100000000 + 1000 * idx + 2, 'mnsec': 222222222 + j,
                    'time_probe': True})
    n_ops += len(ops) - 9
    while len(ops) < n_ops:
        r = rng.random()
        if r < 0.13:
            ops.append({'op': 'lookup', 'p': islot(), 'name': nm()}); ni += 1
        elif r < 0.21:
            u, g = who()
            fl = rng.choice([O_RDWR, O_WRONLY, 0, O_RDWR | O_TRUNC, O_WRONLY | O_APPEND, O_RDWR | O_EXCL, O_WRONLY | O_TRUNC, O_RDWR | O_NOFOLLOW])
            ops.append({'op': 'create', 'p': islot(), 'name': nm(), 'mode': rng.choice([0o644, 0o600, 0o666, 0o2755, 0o4755, 0o777, 0o100644]), 'umask': rng.choice([0, 0o022, 0o077, 0o7022]),
                        'flags': fl, 'fuse_flags': rng.choice([0, 1]), 'uid': u, 'gid': g}); ni += 1; nh += 1; hflags.append(fl)
        elif r < 0.27:
            u, g = who()
            ops.append({'op': 'mkdir', 'p': islot(), 'name': nm(), 'mode': rng.choice([0o755, 0o700, 0o777, 0o2775, 0o1777]), 'umask': rng.choice([0, 0o022, 0o077]), 'uid': u, 'gid': g}); ni += 1
        elif r < 0.31:
            u, g = who()
            ops.append({'op': 'mknod', 'p': islot(), 'name': nm(), 'mode': rng.choice([0o100644, 0o010600, 0o020666, 0o140755, 0o644, 0o040755, 0o120777, 0o102755]), 'rdev': rng.choice([0, 0x103, 0x501]),
                        'umask': rng.choice([0, 0o022]), 'uid': u, 'gid': g}); ni += 1
        elif r < 0.35:
            u, g = who()
            ops.append({'op': 'symlink', 'p': islot(), 'name': nm(), 'target': rng.choice([b'f1', b'../x', b'/abs', b'', b'd1/g', b't' * 100]), 'uid': u, 'gid': g}); ni += 1
        elif r < 0.39: ops.append({'op': 'link', 'i': islot(), 'p': islot(), 'name': nm()}); ni += 1
        elif r < 0.44: ops.append({'op': 'unlink', 'p': islot(), 'name': nm()})
        elif r < 0.47: ops.append({'op': 'rmdir', 'p': islot(), 'name': nm()})
        elif r < 0.54: ops.append({'op': 'rename', 'p': islot(), 'name': nm(), 'p2': islot(), 'name2': nm(), 'flags': rng.choice([0, 0, 0, 1, 2, 3, 8])})
        elif r < 0.62:
            fl = rng.choice([0, O_WRONLY, O_RDWR, O_RDWR | O_TRUNC, O_WRONLY | O_APPEND, O_WRONLY | O_TRUNC, O_DIRECTORY, O_RDWR | O_NONBLOCK])
            fl |= rng.choice(EXTRA_OPEN_BITS)
            ops.append({'op': 'open', 'i': islot(), 'flags': fl | O_NONBLOCK, 'fuse_flags': rng.choice([0, 1])}); nh += 1; hflags.append(fl | O_NONBLOCK)
        elif r < 0.64:
            ops.append({'op': 'opendir', 'i': islot(), 'flags': 0}); nh += 1; hflags.append(O_DIRECTORY)
        elif r < 0.71:
            h = hslot(); i = islot()
            fl = hflags[h] if not isinstance(h, tuple) else 0
            if rng.random() < 0.15 and not wb: fl ^= O_APPEND
            if rng.random() < 0.5: ops.append({'op': 'read', 'i': i, 'h': h, 'size': rng.choice([0, 4, 64]), 'off': rng.choice([0, 0, 3, 40]), 'flags': fl})
            else: ops.append({'op': 'write', 'i': i, 'h': h, 'off': rng.choice([0, 2, 15]), 'data': rng.choice([b'', b'W', b'WXYZ']), 'flags': fl, 'fuse_flags': rng.choice([0, 4])})
        elif r < 0.76:
            # same inode as the handle: the common, succeeding case
            if nh:
                k = rng.randrange(len(ops))
                cand = [(j, o) for j, o in enumerate(ops) if o['op'] in ('open', 'create')]
                if cand:
                    j, o = rng.choice(cand)
                    hidx = sum(1 for o2 in ops[:j] if o2['op'] in ('open', 'opendir', 'create'))
                    iref = o['i'] if o['op'] == 'open' else 1 + sum(1 for o2 in ops[:j] if o2['op'] in ('lookup', 'mkdir', 'mknod', 'create', 'symlink', 'link'))
                    fl = hflags[hidx]
                    if rng.random() < 0.2 and not wb: fl ^= O_APPEND
                    c = rng.random()
                    if c < 0.35: ops.append({'op': 'write', 'i': iref, 'h': hidx, 'off': rng.choice([0, 2, 15]), 'data': rng.choice([b'W', b'WXYZ', b'']), 'flags': fl, 'fuse_flags': rng.choice([0, 4])})
                    elif c < 0.6: ops.append({'op': 'read', 'i': iref, 'h': hidx, 'size': 64, 'off': rng.choice([0, 3]), 'flags': fl})
                    elif c < 0.7: ops.append({'op': 'getattr', 'i': iref, 'h': hidx})
                    elif c < 0.8: ops.append({'op': 'setattr', 'i': iref, 'h': hidx, 'valid': rng.choice([8, 8 | 0x800, 1, 1 | 8]), 'mode': rng.choice([0o644, 0o6755, 0o2711]), 'uid': 0, 'gid': 0, 'size': rng.choice([0, 4, 30])})
                    elif c < 0.86: ops.append({'op': 'lseek', 'i': iref, 'h': hidx, 'off': rng.choice([0, 5, 100]), 'whence': rng.choice([0, 1, 2, 9])})
                    elif c < 0.92: ops.append({'op': 'fallocate', 'i': iref, 'h': hidx, 'mode': rng.choice([0, 1, 3, 0x10]), 'off': rng.choice([0, 4]), 'len': rng.choice([0, 8, 40])})
                    elif c < 0.96: ops.append({'op': 'fsync', 'i': iref, 'h': hidx})
                    else: ops.append({'op': 'release', 'i': iref, 'h': hidx})
        elif r < 0.80: ops.append({'op': 'getattr', 'i': islot(), 'h': None})
        elif r < 0.87:
            v = rng.choice([1, 2, 4, 2 | 4, 8, 8 | 0x800, 1 | 8, 0x10 | 0x20, 0x80 | 0x100 | 0x10 | 0x20, 1 | 2 | 4 | 8])
            ops.append({'op': 'setattr', 'i': islot(), 'h': None, 'valid': v, 'mode': rng.choice([0o600, 0o644, 0o777, 0o4755, 0o2755, 0o6711, 0o2644, 0o1777, 0o100644]),
                        'uid': rng.choice([0, 1000, 1001]), 'gid': rng.choice([0, 1000, 1001]), 'size': rng.choice([0, 3, 25])})
        elif r < 0.89: ops.append({'op': 'readlink', 'i': islot()})
        elif r < 0.92: ops.append({'op': 'setxattr', 'i': islot(), 'name': rng.choice(XNAMES), 'value': rng.choice([b'', b'v', b'value2']), 'flags': rng.choice([0, 0, 1, 2, 3, 4])})
        elif r < 0.94: ops.append({'op': 'getxattr', 'i': islot(), 'name': rng.choice(XNAMES[:5]), 'size': rng.choice([0, 1, 64])})
        elif r < 0.955: ops.append({'op': 'listxattr', 'i': islot(), 'size': rng.choice([0, 3, 256])})
        elif r < 0.97: ops.append({'op': 'removexattr', 'i': islot(), 'name': rng.choice(XNAMES[:5])})
        elif r < 0.98:
            u, g = who(); ops.append({'op': 'access', 'i': islot(), 'mask': rng.randrange(8), 'uid': u, 'gid': g})
        elif r < 0.985: ops.append({'op': 'statfs', 'i': islot()})
        elif r < 0.99: ops.append({'op': 'flush', 'i': islot(), 'h': hslot()})
        else: ops.append({'op': 'statfs', 'i': islot()})
    # ordinary single-component names that merely LOOK special (they start with dots but are neither "." nor ".."): every
    # name-taking operation, with the export root AND a subdirectory as parent, on missing and on existing entries
    DOTNAMES = [b'..a', b'...', b'..data', b'.. ', b'.a', b'..\xff', b'....', b'a..']
    n0 = DOTNAMES[k % len(DOTNAMES)]
    for par in (0, 5):
        ops.append({'op': 'lookup', 'p': par, 'name': n0}); ni += 1
        # (root parent: created for a non-root caller -- with inode_file_handles this needs the parent descriptor to be
        # obtained before the credentials are switched, for mkdir and symlink as for mknod and create)
        cu = 1000 if par == 0 else 0
        ops.append({'op': 'mkdir', 'p': par, 'name': n0, 'mode': 0o750, 'umask': 0, 'uid': cu, 'gid': cu}); ni += 1
        ops.append({'op': 'lookup', 'p': par, 'name': n0}); ni += 1
        ops.append({'op': 'lookup', 'p': ni - 1, 'name': b'..'}); ni += 1
        ops.append({'op': 'rmdir', 'p': par, 'name': n0})
        ops.append({'op': 'create', 'p': par, 'name': n0, 'mode': 0o640, 'umask': 0, 'flags': O_RDWR, 'fuse_flags': 0, 'uid': 0, 'gid': 0}); ci = ni; ch = nh; ni += 1; nh += 1; hflags.append(O_RDWR)
        ops.append({'op': 'write', 'i': ci, 'h': ch, 'off': 0, 'data': b'dots', 'flags': O_RDWR, 'fuse_flags': 0})
        ops.append({'op': 'lookup', 'p': par, 'name': n0}); ni += 1
        ops.append({'op': 'getattr', 'i': ni - 1, 'h': None})
        ops.append({'op': 'link', 'i': ci, 'p': par, 'name': n0 + b'L'}); ni += 1
        ops.append({'op': 'symlink', 'p': par, 'name': n0 + b's', 'target': b'f1', 'uid': cu, 'gid': cu}); ni += 1
        ops.append({'op': 'readlink', 'i': ni - 1})
        ops.append({'op': 'mknod', 'p': par, 'name': n0 + b'm', 'mode': 0o010600, 'rdev': 0, 'umask': 0, 'uid': cu, 'gid': cu}); ni += 1
        ops.append({'op': 'rename', 'p': par, 'name': n0, 'p2': par, 'name2': n0 + b'r', 'flags': 0})
        ops.append({'op': 'lookup', 'p': par, 'name': n0}); ni += 1
        ops.append({'op': 'lookup', 'p': par, 'name': n0 + b'r'}); ni += 1
        for suffix in (b'r', b'L', b's', b'm'):
            ops.append({'op': 'unlink', 'p': par, 'name': n0 + suffix})
        ops.append({'op': 'lookup', 'p': par, 'name': n0 + b'L'}); ni += 1
    # special files and links are never opened for I/O, through any opening request: open, the per-request descriptors of
    # read/write/fallocate/fsync under no_open, setattr(size), create on the existing name (symlink l1 = slot 8, FIFO ff = slot 9,
    # plus a socket and a character device made through mknod)
    ops.append({'op': 'mknod', 'p': 0, 'name': b'sock', 'mode': 0o140666, 'rdev': 0, 'umask': 0, 'uid': 0, 'gid': 0}); sk = ni; ni += 1
    ops.append({'op': 'mknod', 'p': 0, 'name': b'cdev', 'mode': 0o020666, 'rdev': 0x103, 'umask': 0, 'uid': 0, 'gid': 0}); cd = ni; ni += 1
    for sp in (8, 9, sk, cd):
        ops.append({'op': 'open', 'i': sp, 'flags': O_RDWR | O_NONBLOCK, 'fuse_flags': 0}); sh = nh; nh += 1; hflags.append(O_RDWR | O_NONBLOCK)
        ops.append({'op': 'read', 'i': sp, 'h': sh, 'size': 4, 'off': 0, 'flags': O_RDWR | O_NONBLOCK})
        ops.append({'op': 'write', 'i': sp, 'h': sh, 'off': 0, 'data': b'x', 'flags': O_RDWR | O_NONBLOCK, 'fuse_flags': 0})
        ops.append({'op': 'fallocate', 'i': sp, 'h': sh, 'mode': 0, 'off': 0, 'len': 4})
        ops.append({'op': 'fsync', 'i': sp, 'h': sh})
        ops.append({'op': 'setattr', 'i': sp, 'h': None, 'valid': 8, 'mode': 0, 'uid': 0, 'gid': 0, 'size': 0})
        ops.append({'op': 'getattr', 'i': sp, 'h': None})
    for nm_ in (b'sock', b'cdev'):
        ops.append({'op': 'create', 'p': 0, 'name': nm_, 'mode': 0o644, 'umask': 0, 'flags': O_RDWR | O_NONBLOCK, 'fuse_flags': 0, 'uid': 0, 'gid': 0}); ni += 1; nh += 1; hflags.append(O_RDWR | O_NONBLOCK)
    # twins of open/release/fsync on directories, and flush: opendir / fsyncdir / releasedir on the root and a subdirectory,
    # flush + release of a file handle (fsyncdir is compared with the direct calls only; it is not in the Coq model)
    for dslot in (0, 5):
        ops.append({'op': 'opendir', 'i': dslot, 'flags': 0}); dh = nh; nh += 1; hflags.append(O_DIRECTORY)
        ops.append({'op': 'fsyncdir', 'i': dslot, 'h': dh, 'datasync': k % 2})
        ops.append({'op': 'fsync', 'i': dslot, 'h': dh})
        ops.append({'op': 'getattr', 'i': dslot, 'h': dh})
        ops.append({'op': 'releasedir', 'i': dslot, 'h': dh})
        ops.append({'op': 'releasedir', 'i': dslot, 'h': dh})
    ops.append({'op': 'open', 'i': 1, 'flags': O_RDWR, 'fuse_flags': 0}); fh = nh; nh += 1; hflags.append(O_RDWR)
    ops.append({'op': 'flush', 'i': 1, 'h': fh}); ops.append({'op': 'flush', 'i': 2, 'h': fh})
    ops.append({'op': 'release', 'i': 2, 'h': fh}); ops.append({'op': 'release', 'i': 1, 'h': fh}); ops.append({'op': 'flush', 'i': 1, 'h': fh})
    # (audit 6) the flags word of OPENDIR is a request field of its own: non-zero words (access modes, O_TRUNC, O_APPEND, O_NOATIME)
    # on the root, a subdirectory and a regular file -- the direct call is open(O_DIRECTORY | flags): EISDIR / ENOTDIR / success
    ODF = [O_WRONLY, O_RDWR, O_TRUNC, O_APPEND, 0o1000000, O_RDWR | O_TRUNC, O_NONBLOCK, O_WRONLY | O_APPEND]
    for j in range(2):
        fl = ODF[(2 * k + j) % len(ODF)]
        for tgt in (0, 5, 1):
            ops.append({'op': 'opendir', 'i': tgt, 'flags': fl}); dh = nh; nh += 1; hflags.append(fl | O_DIRECTORY)
            ops.append({'op': 'fsyncdir', 'i': tgt, 'h': dh, 'datasync': 0})
            ops.append({'op': 'releasedir', 'i': tgt, 'h': dh})
    # (audit 6) the kill-privilege flag of every request kind that has one, aimed at a set-uid/set-gid file in every history (the
    # serving thread must run the call without CAP_FSETID exactly when killpriv_v2 was negotiated and the flag is set): WRITE with
    # WRITE_KILL_PRIV (non-empty and empty), OPEN(O_TRUNC) and CREATE(O_TRUNC) on the existing name with FOPEN_IN_KILL_SUIDGID,
    # SETATTR(SIZE) with KILL_SUIDGID with and without a handle; the mode is restored before and read back after each
    ops.append({'op': 'create', 'p': 0, 'name': b'kp', 'mode': 0o6755, 'umask': 0, 'flags': O_RDWR, 'fuse_flags': 0, 'uid': 0, 'gid': 0})
    kpi = ni; kph = nh; ni += 1; nh += 1; hflags.append(O_RDWR)
    ops.append({'op': 'write', 'i': kpi, 'h': kph, 'off': 0, 'data': b'kill-priv', 'flags': O_RDWR, 'fuse_flags': 0})
    KP = ['write', 'write-empty', 'open-trunc', 'setattr', 'setattr-handle', 'create-trunc', 'write-noflag']
    for j in range(4):
        v = KP[(4 * k + j) % len(KP)]
        ops.append({'op': 'setattr', 'i': kpi, 'h': None, 'valid': 1, 'mode': 0o6755, 'uid': 0, 'gid': 0, 'size': 0})
        if v.startswith('write'):
            ops.append({'op': 'write', 'i': kpi, 'h': kph, 'off': 2, 'data': b'' if v == 'write-empty' else b'KP', 'flags': O_RDWR, 'fuse_flags': 0 if v == 'write-noflag' else 4})
        elif v == 'open-trunc':
            ops.append({'op': 'open', 'i': kpi, 'flags': O_WRONLY | O_TRUNC, 'fuse_flags': 1}); nh += 1; hflags.append(O_WRONLY | O_TRUNC)
        elif v == 'create-trunc':
            ops.append({'op': 'create', 'p': 0, 'name': b'kp', 'mode': 0o644, 'umask': 0, 'flags': O_RDWR | O_TRUNC, 'fuse_flags': 1, 'uid': 0, 'gid': 0}); ni += 1; nh += 1; hflags.append(O_RDWR | O_TRUNC)
        else:
            ops.append({'op': 'setattr', 'i': kpi, 'h': kph if v == 'setattr-handle' else None, 'valid': 8 | 0x800, 'mode': 0, 'uid': 0, 'gid': 0, 'size': 3 + j})
        ops.append({'op': 'getattr', 'i': kpi, 'h': None})
    # (audit 6) entry replies (statx path) after explicit time stamps were set: every time field of every reply is compared (see
    # time_fields_differ); f1 carries the explicit atime/mtime of the SETATTR block unless a later request touched it
    ops.append({'op': 'lookup', 'p': 0, 'name': b'f1'}); ni += 1
    ops.append({'op': 'setattr', 'i': kpi, 'h': None, 'valid': 0x10 | 0x20, 'mode': 0, 'uid': 0, 'gid': 0, 'size': 0, 'atime': 1200000000 + k, 'ansec': 123456789, 'mtime': 1300000000 + k, 'mnsec': 987654321})
    ops.append({'op': 'lookup', 'p': 0, 'name': b'kp'}); ni += 1
    ops.append({'op': 'link', 'i': kpi, 'p': 5, 'name': b'kpl'}); ni += 1
    ops.append({'op': 'getattr', 'i': kpi, 'h': None})
    # (with inode_file_handles the create-on-existing block runs into the known finding for non-root callers: run it late)
    if late_create: create_existing_block()
    # the per-request flags word of READ/WRITE (last, because under writeback it runs into the known finding):
    # {handle opened with O_APPEND, without} x request flags {as opened, O_APPEND toggled, toggled again, plus O_NONBLOCK /
    # O_DIRECT toggles} x offsets {0, middle, EOF, beyond EOF} x two consecutive requests with flipping flags (the recorded
    # flags matter only from the second on) and a READ in between (it updates the recorded flags too); with no_open the
    # same requests run on per-request descriptors
    O_DIRECT = 0o40000
    T = [0, O_APPEND, O_APPEND | O_NONBLOCK, O_NONBLOCK]
    offs = [0, 3, 10, 40]
    ops.append({'op': 'create', 'p': 0, 'name': b'wfl', 'mode': 0o666, 'umask': 0, 'flags': O_RDWR, 'fuse_flags': 0, 'uid': 0, 'gid': 0})
    ci = ni; ch = nh; ni += 1; nh += 1; hflags.append(O_RDWR)
    ops.append({'op': 'write', 'i': ci, 'h': ch, 'off': 0, 'data': b'0123456789', 'flags': O_RDWR, 'fuse_flags': 0})
    for oa in (0, O_APPEND):
        base = O_RDWR | oa
        ops.append({'op': 'open', 'i': ci, 'flags': base, 'fuse_flags': 0}); h = nh; nh += 1; hflags.append(base)
        seq = [base, base ^ O_APPEND, base ^ O_APPEND, base ^ T[(k + 2) % len(T)], base ^ T[(k + 4) % len(T)], base]
        for j, fl in enumerate(seq):
            ops.append({'op': 'write', 'i': ci, 'h': h, 'off': offs[(k + j) % 4], 'data': bytes([65 + j + (8 if oa else 0)]) * 2, 'flags': fl, 'fuse_flags': 0})
            ops.append({'op': 'getattr', 'i': ci, 'h': None})
            if j == 1: ops.append({'op': 'read', 'i': ci, 'h': h, 'size': 4, 'off': 1, 'flags': base if k % 2 else fl})
    ops.append({'op': 'open', 'i': ci, 'flags': O_NONBLOCK, 'fuse_flags': 0}); nh += 1; hflags.append(O_NONBLOCK)
    ops.append({'op': 'read', 'i': ci, 'h': nh - 1, 'size': 128, 'off': 0, 'flags': O_NONBLOCK})
    # O_DIRECT toggled through the request flags (very last: it runs into the known finding in every configuration)
    ops.append({'op': 'open', 'i': ci, 'flags': O_RDWR, 'fuse_flags': 0}); h = nh; nh += 1; hflags.append(O_RDWR)
    dseq = [O_RDWR | O_DIRECT, O_RDWR | O_DIRECT, O_RDWR] if k % 2 == 0 else [O_RDWR | O_DIRECT | O_APPEND, O_RDWR]
    for j, fl in enumerate(dseq):
        if (k + j) % 3 == 0: ops.append({'op': 'read', 'i': ci, 'h': h, 'size': 4, 'off': 0, 'flags': fl})
        ops.append({'op': 'write', 'i': ci, 'h': h, 'off': offs[(k + j) % 4], 'data': b'dd', 'flags': fl, 'fuse_flags': 0})
        ops.append({'op': 'getattr', 'i': ci, 'h': None})
    return ops

CMP_KEYS = ('errno', 'mode', 'nlink', 'uid', 'gid', 'size', 'rdev', 'data', 'n', 'handle')
def canon_reply(o, kv):
    d = {k: kv[k] for k in CMP_KEYS if k in kv}
    if 'mode' in d and stat.S_ISDIR(int(d['mode'])): d.pop('size', None)
    if o['op'] == 'listxattr' and 'data' in d: d['data'] = canon_xlist(d['data']).hex()
    if o['op'] == 'statfs': d = {'errno': d['errno']}
    return d

# FileSystem methods PassthroughFs implements but Vfs does not route (answered ENOSYS by the trait default): reported to the
# lead as an observation for C07; not part of C05
VFS_UNROUTED = ('lseek', 'batch_forget')

def parse_ts(v):
    a, b = v.split('.'); return (int(a), int(b))

def time_classes(o_prev, r_prev, o, r):
    """(class of atime, class of mtime) after SETATTR o given the getattr reply just before: 'keep' | 'set' | 'now' | 'other'"""
    if o_prev['op'] != 'getattr' or errno_of(r_prev) != 0 or 'atime' not in r or 'atime' not in r_prev: return None
    now = int(r.get('now', '0')); out = []
    for key, req in (('atime', (o['atime'], o['ansec'])), ('mtime', (o['mtime'], o['mnsec']))):
        before, after = parse_ts(r_prev[key]), parse_ts(r[key])
        if after == req: out.append('set')
        elif after == before: out.append('keep')
        elif abs(after[0] - now) <= 30: out.append('now')
        else: out.append('other:%d.%d' % after)
    return tuple(out)

def time_fields_differ(ra, rb, now):
    """every time field (and the block size) of an attribute-carrying reply against the direct calls: a field that is far from
    the present on either side was set explicitly by an earlier request and must be equal to the nanosecond; otherwise both
    sides must be near the present (the two runs happen minutes apart).  -> list of differing field names"""
    out = []
    for key in ('atime', 'mtime', 'ctime'):
        if key not in ra or key not in rb: continue
        va, vb = parse_ts(ra[key]), parse_ts(rb[key])
        fa, fb = abs(va[0] - now) > 86400, abs(vb[0] - now) > 86400
        if fa != fb or (fa and va != vb): out.append(key)
    if 'blksize' in ra and 'blksize' in rb and ra['blksize'] != rb['blksize']: out.append('blksize')
    return out

def replay(path):
    return run_check('quick', json.load(open(path)).get('seed', 1))

def run_check(tier, seed):
    ev = Evidence(PROP, tier, seed)
    ev.cov['checker_cmd'] = 'make -C coq Props/C05.vo (coqc 8.16.1, full .vo) + Print Assumptions audit'
    ev.cov['trusted_base'] = TRUSTED_COMMON + [
        'coq/Model/HostFs.v is a DESCRIPTION of Linux (ext4, 6.x) on the calls exercised: validated differentially (reference run by plain libc calls vs the model, every request), not verified; time stamps, statfs numbers, ACLs, quota, SEEK_DATA/HOLE, other file systems are not modelled',
        'harness bin ptfs: the FileSystem-trait driver, the reference implementation by libc calls (shadow mode) and the per-request observation of geteuid/getegid/capget of the serving thread',
        'the reference applies the documented request-flag adjustments (writeback: O_WRONLY->O_RDWR and O_APPEND cleared; F_SETFL from the request flags) and the special-file gate, i.e. "the same host call" means the call with those arguments',
    ]
    ev.assumptions = ['Linux x86_64, ext4 with user xattrs, process is root with CAP_SETUID/SETGID/FSETID/MKNOD/DAC_*; no supplementary groups',
                      'no other actor modifies the export during a history']
    findings = []; broken = []; samples = []; evals = 0; nontriv = set()
    rng = random.Random(seed); quick = tier == 'quick'
    import time; now0 = int(time.time()); nfind_t = 0
    # the cone of Props/C05.v contains the translated name constants (Gen/Validators.v, via Model/Names.v)
    try:
        write_if_changed(os.path.join(COQ, 'Gen/Validators.v'), validators.emit_coq(validators.translate(REPO)))
    except validators.TranslateError as ex:
        broken.append({'kind': 'translator', 'item': 'translator/validators.py', 'error': str(ex)})
    import pure_tie; pure_tie.prepare(PROP, ev, broken)      # Gen/RustPure.v from the function bodies in REPO (PROP_src_* theorems)
    audit = std_audit(ev, PROP, broken)
    pure_tie.after_audit(PROP, broken)                         # a source tie broke: look for a concrete differing input
    coq_ok = bool(audit.get('ok'))
    ok, out, bindir = cargo_build(['ptfs'])
    if not ok:
        broken.append({'kind': 'harness-build', 'log': out[-3000:]})
        ev.cov['rule'] = 'harness did not build'; ev.cov['samples'] = [{'note': 'no run'}]
        return finish(ev, PROP, findings, broken)
    base = os.path.join(SCRATCH, 'c05-%d' % os.getpid())
    shutil.rmtree(base, ignore_errors=True); os.makedirs(base)
    os.chmod(base, 0o755)
    p = base
    while p != '/':            # non-root callers must be able to traverse down to the export
        p = os.path.dirname(p)
        if not (os.stat(p).st_mode & 0o001):
            ev.assumptions.append('%s is not world-searchable: operations as non-root callers that re-resolve nothing are unaffected (all calls are relative to O_PATH descriptors)' % p); break
    try:
        cfgs = CONFIGS if quick else (CONFIGS + all_configs())
        n_hist = 21 if quick else max(600, len(cfgs))
        hist = []
        for k in range(n_hist):
            hrng = random.Random(rng.getrandbits(64))
            tree, R = gen_tree(hrng)
            hist.append({'k': k, 'tree': tree, 'R': R, 'ops': gen_history(hrng, 45 if quick else 60, k, bool(effective_cfg(cfgs[k % len(cfgs)]).get('writeback')), bool(cfgs[k % len(cfgs)].get('inode_file_handles'))), 'cfg': cfgs[k % len(cfgs)],
                         'export': os.path.join(base, 'h%d' % k, 'export'), 'shadow': os.path.join(base, 'h%d' % k, 'shadow')})
        runs = {}
        for mode, key in (('pt', 'export'), ('shadow', 'shadow')):
            lines = []
            for hh in hist:
                os.makedirs(os.path.dirname(hh[key]), exist_ok=True)
                build_real(hh['tree'], hh['R'], hh[key])
                c = dict(hh['cfg']) if mode == 'pt' else effective_cfg(hh['cfg'])
                c.pop('do_import', None)
                lines.append('H %d %s %s %s' % (hh['k'], mode, hh[key], cfg_line(dict(c, digest=1))))
                lines += [op_line(o) for o in hh['ops']] + ['E']
            rc, out = run_ptfs(bindir, lines, 'c05-' + mode, timeout=900)
            hs = parse_output(out)
            if rc != 0 or len(hs) != len(hist):
                broken.append({'kind': 'harness-run', 'what': mode + ' run', 'rc': rc, 'log': out[-1500:]})
            runs[mode] = hs
        # the same PassthroughFs behind a Vfs (do_import=false, mounted at "/"): same replies as standalone, for the histories
        # of the default configuration; requests naming an inode/handle the client never received are answered by the Vfs itself
        vh = [hh for hh in hist if hh['k'] % len(cfgs) == 0]
        lines = []
        for hh in vh:
            hh['vexport'] = os.path.join(os.path.dirname(hh['export']), 'vexport')
            build_real(hh['tree'], hh['R'], hh['vexport'])
            c = dict(hh['cfg']); c.pop('do_import', None)
            lines.append('H %d vfs %s %s' % (hh['k'], hh['vexport'], cfg_line(dict(c, digest=1))))
            lines += [op_line(o) for o in hh['ops']] + ['E']
        rc, out = run_ptfs(bindir, lines, 'c05-vfs', timeout=600)
        vs = parse_output(out)
        if rc != 0 or len(vs) != len(vh): broken.append({'kind': 'harness-run', 'what': 'vfs run', 'rc': rc, 'log': out[-1500:]})
        elif len(runs.get('pt', [])) == len(hist):
            for hh, vres in zip(vh, vs):
                a = runs['pt'][hh['k']]
                if not vres['ok'] or len(vres['ops']) != len(hh['ops']) or len(a['ops']) != len(hh['ops']):
                    broken.append({'kind': 'harness-run', 'what': 'vfs history %d' % hh['k'], 'log': vres['msg']}); continue
                ivalid = [True]; hvalid = []
                for j, (o, ra, rv) in enumerate(zip(hh['ops'], a['ops'], vres['ops'])):
                    okref = all(not isinstance(o[x], tuple) and ivalid[o[x]] for x in ('p', 'p2', 'i') if x in o) and \
                            (o.get('h') is None or (not isinstance(o['h'], tuple) and hvalid[o['h']]))
                    evals += 1
                    if okref and o['op'] not in VFS_UNROUTED and (canon_reply(o, ra['r']) != canon_reply(o, rv['r']) or ra['tree'] != rv['tree']):
                        findings.append({'what': 'request %d (%s) is answered differently behind a Vfs: standalone %s | behind Vfs %s' % (j, op_line(o), ra['raw'], rv['raw']),
                                         'input': {'seed': seed, 'history': hh['k'], 'cfg': hh['cfg'], 'ops': [op_line(x) for x in hh['ops']]},
                                         'sig': {'kind': 'vfs-vs-standalone', 'op': o['op']}}); break
                    good = errno_of(ra['r']) == 0 and errno_of(rv['r']) == 0
                    if o['op'] in ('lookup', 'mkdir', 'mknod', 'create', 'symlink', 'link'): ivalid.append(good)
                    if o['op'] in ('open', 'opendir', 'create'): hvalid.append(good and ra['r'].get('handle') == '1')
        exprs = []; exmap = []; time_cases = []
        if 'pt' in runs and 'shadow' in runs and len(runs['pt']) == len(hist) and len(runs['shadow']) == len(hist):
            for hh, a, b in zip(hist, runs['pt'], runs['shadow']):
                rin = {'seed': seed, 'history': hh['k'], 'cfg': hh['cfg'], 'ops': [op_line(o) for o in hh['ops']]}
                if not a['ok'] or not b['ok'] or len(a['ops']) != len(hh['ops']) or len(b['ops']) != len(hh['ops']):
                    broken.append({'kind': 'harness-run', 'what': 'history %d' % hh['k'], 'pt': a['msg'], 'shadow': b['msg'], 'n': [len(a['ops']), len(b['ops']), len(hh['ops'])]}); continue
                diverged = False
                a2b = {}; b2a = {}      # inode identity: the replies name the same objects as the direct calls do
                for j, (o, ra, rb) in enumerate(zip(hh['ops'], a['ops'], b['ops'])):
                    evals += 1
                    if not diverged and not hh['cfg'].get('inode_file_handles') and 'ino' in ra['r'] and 'ino' in rb['r']:
                        ia, ib = ra['r']['ino'], rb['r']['ino']
                        if a2b.setdefault(ia, ib) != ib or b2a.setdefault(ib, ia) != ia:
                            diverged = True
                            findings.append({'what': 'request %d (%s) returns a different object than the direct calls name (inode identities do not correspond): passthrough %s | direct %s' % (j, op_line(o), ra['raw'], rb['raw']),
                                             'input': rin, 'sig': {'kind': 'identity', 'op': o['op']}})
                    ca, cb = canon_reply(o, ra['r']), canon_reply(o, rb['r'])
                    if errno_of(ra['r']) == 0: nontriv.add((o['op'], 'ok', ra['r'].get('mode', '')[:3]))
                    else: nontriv.add((o['op'], errno_of(ra['r'])))
                    # credentials and capabilities of the serving thread after the request
                    cr = ra['creds']
                    if cr.get('euid') != '0' or cr.get('egid') != '0' or cr.get('fsetid') != '1' or cr.get('eff') != a['msg'].split('eff=')[1].split()[0]:
                        findings.append({'what': 'after request %d (%s) the serving thread has euid=%s egid=%s CAP_FSETID=%s eff=%s' % (j, op_line(o), cr.get('euid'), cr.get('egid'), cr.get('fsetid'), cr.get('eff')),
                                         'input': rin, 'sig': {'kind': 'creds', 'op': o['op']}})
                    # ownership of objects created for a non-root caller
                    if o['op'] in ('create', 'mkdir', 'mknod', 'symlink') and errno_of(ra['r']) == 0 and o['uid'] != 0 and int(ra['r']['uid']) != o['uid']:
                        findings.append({'what': 'request %d (%s): object created for uid %d is owned by uid %s' % (j, op_line(o), o['uid'], ra['r']['uid']),
                                         'input': rin, 'sig': {'kind': 'owner', 'op': o['op']}})
                    # atime / mtime after a SETATTR: unchanged, set to the request's value, or set to now -- same class as the direct calls
                    if o.get('time_probe') and j > 0 and errno_of(ra['r']) == 0 and errno_of(rb['r']) == 0 and not diverged:
                        ka, kb = time_classes(hh['ops'][j - 1], a['ops'][j - 1]['r'], o, ra['r']), time_classes(hh['ops'][j - 1], b['ops'][j - 1]['r'], o, rb['r'])
                        if ka is not None and kb is not None:
                            nontriv.add(('setattr-times', o['valid'] & 0x1b8, ka))
                            if ka != kb:
                                findings.append({'what': 'request %d (%s): atime/mtime afterwards are (%s, %s) but the direct calls give (%s, %s)' % (j, op_line(o), ka[0], ka[1], kb[0], kb[1]),
                                                 'input': rin, 'sig': {'kind': 'times', 'valid_time_bits': o['valid'] & 0x1b0}})
                            time_cases.append((hh['k'], j, o, ka))
                    if not diverged and errno_of(ra['r']) == 0 and errno_of(rb['r']) == 0 and ca == cb:
                        tf = time_fields_differ(ra['r'], rb['r'], now0)
                        if tf:
                            nfind_t += 1
                            if nfind_t <= 12:
                                findings.append({'what': 'request %d (%s): the %s of the reply differs from the same calls made directly: passthrough %s | direct %s' % (j, op_line(o), '/'.join(tf), ra['raw'], rb['raw']),
                                                 'input': rin, 'sig': {'kind': 'time-field', 'op': o['op'], 'field': tf[0]}})
                    if not diverged and (ca != cb or ra['tree'] != rb['tree']):
                        diverged = True
                        fld = sorted(k for k in set(ca) | set(cb) if ca.get(k) != cb.get(k)) or ['tree']
                        findings.append({'what': 'request %d (%s) differs from the same calls made directly: passthrough %s | direct %s%s' % (j, op_line(o), ra['raw'], rb['raw'], '' if ra['tree'] == rb['tree'] else ' | exported tree differs'),
                                         'input': rin, 'sig': {'kind': 'reply', 'op': o['op'], 'field': fld[0], 'pt_errno': errno_of(ra['r']), 'direct_errno': errno_of(rb['r']),
                                                               'ifh': bool(hh['cfg'].get('inode_file_handles')), 'nonroot': o.get('uid', 0) != 0,
                                                               'writeback': bool(effective_cfg(hh['cfg']).get('writeback')), 'req_append': bool(o['op'] in ('read', 'write') and o['flags'] & O_APPEND),
                                                               'req_direct': bool(o['op'] in ('read', 'write') and o['flags'] & 0o40000)}})
                if not diverged:
                    wa, wb = walk_tree(hh['export']), walk_tree(hh['shadow'])
                    if wa != wb:
                        dif = sorted(p for p in set(wa) | set(wb) if wa.get(p) != wb.get(p))
                        findings.append({'what': 'exported tree differs from the tree produced by the direct calls at %r: %s vs %s' % (dif[0], wa.get(dif[0]), wb.get(dif[0])),
                                         'input': rin, 'sig': {'kind': 'tree', 'path': dif[0].decode('latin1')}})
                # the model on the same history
                if coq_ok:
                    mops = [(o, r) for o, r in zip(hh['ops'], a['ops']) if MODELLED(o)]
                    mops = cut_at_stale(mops, hh['cfg'])
                    ec = effective_cfg(hh['cfg'])
                    obs = '[' + ';\n'.join('(%s, %s)' % (reply_coq(o, r['r']), creds_coq(r['creds'])) for o, r in mops) + ']'
                    reqs = '[' + ';\n'.join(op_coq(o) for o, r in mops) + ']'
                    host = coq_host(hh['tree'])
                    exprs.append('(hist_ok %s %s %d %s %s)' % (cfg_coq(ec), host, hh['R'], reqs, obs))
                    exmap.append((hh, mops, ec, host, reqs, obs, diverged))
            if hist:
                samples.append({'history': 0, 'cfg': hist[0]['cfg'], 'requests': [op_line(o) for o in hist[0]['ops'][9:15]], 'replies': [r['raw'] for r in runs['pt'][0]['ops'][9:15]]})
        if coq_ok and exprs:
            bad, errs = coq_check_cases('c05_hist', COQ_HEADER, exprs, shard=3)
            for e_ in errs: broken.append({'kind': 'correspondence', 'name': 'coq evaluation of histories failed', 'log': e_['log']})
            ev.cov['model_vs_impl_histories'] = len(exprs)
            for i in bad[:8]:
                hh, mops, ec, host, reqs, obs, diverged = exmap[i]
                if diverged: continue            # already a finding: the implementation left the reference
                vals, _ = coq_eval_values('c05_hist_detail', COQ_HEADER, ['hist_bad %s %s %d %s %s' % (cfg_coq(ec), host, hh['R'], reqs, obs)])
                idx = [int(x) for x in re.findall(r'\d+', (vals[0] or '').split(':')[0])] if vals and vals[0] else []
                first = idx[0] if idx else None; mv = None
                if first is not None:
                    v2, _ = coq_eval_values('c05_hist_detail2', COQ_HEADER, ['nth %d (fst (run %s (start %s %d) %s)) (RpOk, root_creds)' % (first, cfg_coq(ec), host, hh['R'], reqs)])
                    mv = v2[0] if v2 else None
                broken.append({'kind': 'correspondence', 'name': 'Model/Passthrough.v + HostFs.v vs PassthroughFs (= direct calls) on a history',
                               'history': hh['k'], 'cfg': hh['cfg'], 'mismatch_at': idx[:8],
                               'request': op_line(mops[first][0]) if first is not None else None,
                               'implementation': mops[first][1]['raw'] if first is not None else None, 'model': mv,
                               'ops': [op_line(o) for o, r in mops][: (first or 0) + 1]})
        if coq_ok and time_cases:
            def tvc(c, o, which):
                if c == 'keep': return 'TKeep'
                if c == 'now': return 'TNow'
                return '(TSet %d %d)' % ((o['atime'], o['ansec']) if which == 0 else (o['mtime'], o['mnsec']))
            texprs = []
            for hk, j, o, (ca_, cm_) in time_cases:
                e = '(let e := setattr_time_effect %d %d %d %d %d in tv_eqb (fst e) %s' % (o['valid'], o['atime'], o['ansec'], o['mtime'], o['mnsec'], tvc(ca_, o, 0))
                # a size change sets mtime to now before the utimens step: an omitted mtime is then "now" (not compared)
                e += (' && tv_eqb (snd e) %s)' % tvc(cm_, o, 1)) if not (o['valid'] & 8 and (not o['valid'] & 0x30 or not o['valid'] & 0x120)) else ')'
                texprs.append(e)
            bad, errs = coq_check_cases('c05_times', COQ_HEADER, texprs)
            for e_ in errs: broken.append({'kind': 'correspondence', 'name': 'coq evaluation of time cases failed', 'log': e_['log']})
            ev.cov['model_vs_impl_time_cases'] = len(texprs)
            for i in bad[:6]:
                hk, j, o, kl = time_cases[i]
                broken.append({'kind': 'correspondence', 'name': 'Model setattr_time_effect vs PassthroughFs', 'history': hk, 'request': op_line(o), 'observed_classes': kl})
    finally:
        shutil.rmtree(base, ignore_errors=True)
    ev.cov['evaluations'] = evals
    ev.cov['distinct_nontrivial'] = len(nontriv)
    ev.cov['rule'] = ('every request of every history is run through PassthroughFs, through plain libc calls on a copy, and through the Coq model; '
                      'distinct_nontrivial counts distinct (request kind, errno | ok + file type) outcomes observed on the implementation')
    ev.cov['samples'] = samples[:5] or [{'note': 'no run'}]
    return finish(ev, PROP, findings, broken)
