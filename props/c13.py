"""C13 -- wire structures and constants match the kernel's FUSE ABI."""
import os, sys, json, re, random
from vlib import *
import layout as L
sys.path.insert(0, os.path.join(ROOT, 'translator'))
import rust_abi, kernel_spec

PROP = 'C13'
CT = kernel_spec.CT

def kernel_env(k, m):
    env = {}
    ks = json.loads(json.dumps(k['structs']))
    for name, view in m.get('kernel_compat_views', {}).items():
        fs = ks[name]; names = [f[0] for f in fs]; i = names.index(view['merge'][0])
        ks[name] = fs[:i] + [[view['as'][0], view['as'][1], None]] + fs[i + len(view['merge']):]
    for name, fields in ks.items():
        fs = []
        for f, t, a in fields:
            if a == 0: continue
            if t.startswith('struct:'): ty = {'named': t[7:]}
            else: ty = {'int': CT[t][0], 'signed': CT[t][1]}
            if a is not None: ty = {'arr': ty, 'n': a}
            fs.append([f, ty])
        env[name] = fs
    return env

def gen_probe(t):
    """the rustc probe is generated from NAMES only (struct / field / const / flag member / variant names): values and
    layouts are whatever the compiler reports, also for items the translator could not evaluate (names-only fallback)"""
    out = ['fn gen_layout() {']
    for n, fs in t['structs']:
        out.append('    println!("struct %s {} {}", size_of::<%s>(), align_of::<%s>());' % (n, n, n))
        for f, ty in fs:
            if ty.get('private'): continue       # not nameable from outside the crate
            out.append('    {{ let z: %s = unsafe {{ zeroed() }}; println!("field %s %s {} {}", offset_of!(%s, %s), size_of_val(&z.%s)); }}'
                       % (n, n, f, n, f, f))
    out.append('}')
    out.append('fn gen_consts() {')
    for n, ty, v, pub in t['consts']:
        if pub and ty in rust_abi.INT_TYPES: out.append('    println!("const %s {}", %s as u128);' % (n, n))
    for n, ty, ms in t['bitflags']:
        for mname, v in ms:
            out.append('    println!("flag %s %s {}", %s::%s.bits() as u128);' % (n, mname, n, mname))
    for n, vs in t['enums']:
        for v, d in vs:
            out.append('    println!("enum %s %s {}", %s::%s as u32);' % (n, v, n, v))
    out.append('}')
    return '\n'.join(out) + '\n'

def has_opaque(ty):
    return 'opaque' in ty or ('arr' in ty and has_opaque(ty['arr']))

def gen_cprobe(k, m):
    c = ['#include <stdio.h>', '#include <stddef.h>', '#include <linux/fuse.h>', '#include <linux/virtio_fs.h>',
         '#define SZ(s,f) sizeof(((struct s*)0)->f)', 'int main(void){']
    for name, fields in sorted(k['structs'].items()):
        if name.startswith('cuse_') or name == 'virtio_fs_config': continue
        c.append('printf("struct %s %%zu\\n", sizeof(struct %s));' % (name, name))
        for f, t, a in fields:
            if a == 0: continue
            c.append('printf("field %s %s %%zu %%zu\\n", offsetof(struct %s,%s), SZ(%s,%s));' % (name, f, name, f, name, f))
    for n, v in sorted(k['consts'].items()):
        if n.startswith('FUSE_DEV_IOC'): continue
        c.append('printf("const %s %%llu\\n", (unsigned long long)(%s));' % (n, n))
    for e, d in k['enums'].items():
        for n in d: c.append('printf("const %s %%llu\\n", (unsigned long long)(%s));' % (n, n))
    c.append('return 0;}')
    return '\n'.join(c) + '\n'

def parse_probe(out):
    r = {'struct': {}, 'field': {}, 'const': {}, 'flag': {}, 'enum': {}, 'opfrom': {}, 'conv': {}}
    for line in out.split('\n'):
        w = line.split()
        if not w: continue
        if w[0] == 'struct': r['struct'][w[1]] = [int(x) for x in w[2:]]
        elif w[0] == 'field': r['field'][(w[1], w[2])] = (int(w[3]), int(w[4]))
        elif w[0] == 'const': r['const'][w[1]] = int(w[2])
        elif w[0] == 'flag': r['flag'][(w[1], w[2])] = int(w[3])
        elif w[0] == 'enum': r['enum'][(w[1], w[2])] = int(w[3])
        elif w[0] == 'opfrom': r['opfrom'][int(w[1])] = int(w[2])
        elif w[0] == 'conv':
            r['conv'][(int(w[1]), w[2])] = dict((kv.split('=')[0], int(kv.split('=')[1])) for kv in w[3:])
    return r

def run_check(tier, seed):
    ev = Evidence(PROP, tier, seed)
    ev.cov['checker_cmd'] = 'make -C coq Props/C13.vo (coqc 8.16.1, full .vo) + Print Assumptions audit'
    ev.cov['trusted_base'] = TRUSTED_COMMON + [
        'translator/rust_abi.py (struct bodies, consts, bitflags, enum discriminants, From<u32> arms, conversion field pairings); its struct/const/enum output is compared with rustc (offset_of!/size_of, values) by harness abi_probe on every run',
        'spec/kernel_abi.json + spec/abi_map.json (hand-reviewed transcription of uapi fuse.h 7.38 / virtio_fs.h and crate<->kernel pairing); compared with gcc offsetof/sizeof/values against /usr/include/linux on every run; FUSE_HAS_RESEND, FUSE_NOTIFY_RESEND and NOTIFY_CODE_MAX=8 (newer than the installed header) rest on the transcription',
        'libc::stat64/statvfs64 field types for x86_64-linux-gnu as listed in translator/rust_abi.py (probe runs the real conversions on boundary values)',
        'coq/Lib/Layout.v layout function: compared with rustc and gcc through the python mirror lib/layout.py',
    ]
    ev.assumptions = ['x86_64-unknown-linux-gnu (little endian, natural alignment)',
                      'crate speaks protocol 7.33: InHeader.padding is one u32 (kernel 7.38 splits it), SetxattrIn is the 8-byte compat form']
    findings = []          # (what, detail)  -- concrete failing items
    broken = []            # broken ties / proof obligations
    samples = []
    evals = 0; nontriv = set()

    k, m = kernel_spec.load()
    kc = kernel_spec.kernel_consts(k)
    # 1. translate
    t = None
    try:
        t = rust_abi.translate(REPO)
        write_if_changed(os.path.join(COQ, 'Gen/RustABI.v'), rust_abi.emit_coq(t))
        write_if_changed(os.path.join(COQ, 'Spec/KernelABI.v'), kernel_spec.emit())
    except rust_abi.TranslateError as ex:
        broken.append({'kind': 'translator', 'item': 'translator/rust_abi.py', 'error': str(ex)})
    # The strict translation failed on a conversion body: the model cannot be regenerated, so no theorem is
    # re-checked.  Still search for a concrete failing input: translate everything else and run the real
    # conversions / layouts / constants through the probes and the specification predicates below.
    t_lenient = None
    if t is None:
        try: t_lenient = rust_abi.translate(REPO, lenient_conv=True)
        except rust_abi.TranslateError:
            # names-only fallback: structs / constants / flags / discriminants the reader cannot evaluate are kept by
            # name, and the rustc probe reports what the compiler makes of them (class: the failing-input search must
            # not stop because the translator met source it cannot read)
            try: t_lenient = rust_abi.translate(REPO, lenient_names=True)
            except rust_abi.TranslateError as ex2:
                t_lenient = None
                broken.append({'kind': 'translator', 'item': 'translator/rust_abi.py (names-only fallback)', 'error': str(ex2)})
    # 2. Coq
    audit = None
    if t is not None:
        audit = props_audit(PROP)
        ev.cov['obligations'] = audit['obligations']
        ev.cov['discharged'] = audit['discharged']
        hy = hygiene(coq_cone(PROP))
        if hy:
            broken.append({'kind': 'hygiene', 'offences': hy[:20]})
            ev.cov['discharged'] = 0
        else:
            ev.cov['discharged'] += 1 if audit['ok'] else 0
        if not audit['ok']:
            es = audit['error_site']
            broken.append({'kind': 'proof', 'theorem_or_lemma': es[2] if es else None,
                           'site': es[:2] if es else None, 'message': es[3] if es else audit['log'][-1500:],
                           'disallowed_axioms': audit.get('disallowed_axioms'),
                           'missing_print_assumptions': audit.get('missing_print_assumptions')})
        ev.cov['axioms'] = audit['axioms']
    # 3. probes on the implementation
    pr = None
    if t is None and t_lenient is not None:
        t_probe = t_lenient
    else:
        t_probe = t
    if t_probe is not None:
        write_if_changed(os.path.join(HARNESS, 'src/gen/abi_probe_gen.rs'), gen_probe(t_probe))
        ok, out, bindir = cargo_build(['abi_probe'])
        if not ok:
            broken.append({'kind': 'harness-build', 'log': out[-3000:]})
        else:
            rc, out = run([os.path.join(bindir, 'abi_probe')], timeout=120)
            if rc != 0: broken.append({'kind': 'probe-run', 'log': out[-2000:]})
            else: pr = parse_probe(out)
    # C probe
    cp = None
    cdir = os.path.join(SCRATCH, 'cprobe'); os.makedirs(cdir, exist_ok=True)
    open(os.path.join(cdir, 'p.c'), 'w').write(gen_cprobe(k, m))
    rc, out = run(['gcc', '-O0', '-o', 'p', 'p.c'], cwd=cdir, timeout=120)
    if rc == 0:
        rc, out = run([os.path.join(cdir, 'p')], timeout=60)
        if rc == 0: cp = parse_probe(out)
    if cp is None:
        broken.append({'kind': 'c-probe', 'log': out[-2000:]})

    kenv = kernel_env(k, m)
    # 4a. kernel spec vs gcc
    if cp is not None:
        kenv_raw = kernel_env(k, {})
        for name in sorted(kenv_raw):
            if name.startswith('cuse_') or name == 'virtio_fs_config' or name not in cp['struct']: continue
            sz, _ = L.size_align(kenv_raw, {'named': name}); evals += 1
            if cp['struct'][name][0] != sz:
                broken.append({'kind': 'spec-vs-gcc', 'struct': name, 'spec_size': sz, 'gcc_size': cp['struct'][name][0]})
            off = 0
            for f, ft in kenv_raw[name]:
                s, a = L.size_align(kenv_raw, ft); o = L.round_up(off, a); off = o + s; evals += 1
                if cp['field'].get((name, f)) != (o, s):
                    broken.append({'kind': 'spec-vs-gcc', 'struct': name, 'field': f, 'spec': (o, s), 'gcc': cp['field'].get((name, f))})
        for n, v in k['consts'].items():
            if n in cp['const']:
                evals += 1
                g = cp['const'][n]
                if g >= (1 << 63) and v < (1 << 32): g &= 0xffffffff     # (1 << 31) is a negative int in C
                if g != v: broken.append({'kind': 'spec-vs-gcc', 'const': n, 'spec': v, 'gcc': g})
        for e, d in k['enums'].items():
            for n, v in d.items():
                evals += 1
                if cp['const'].get(n) != v: broken.append({'kind': 'spec-vs-gcc', 'const': n, 'spec': v, 'gcc': cp['const'].get(n)})
    tt = t if t is not None else t_lenient
    if tt is not None and pr is not None:
        renv = dict((n, fs) for n, fs in tt['structs'])
        # 4b. translator + python layout vs rustc
        opaque_structs = set(n for n, fs in tt['structs'] if any(has_opaque(ft) or ft.get('private') for f, ft in fs))
        def untranslated(n, seen=()):
            # a struct with an unreadable field, or that embeds one
            if n in opaque_structs: return True
            def named(ft): return ft['named'] if 'named' in ft else (named(ft['arr']) if 'arr' in ft else None)
            return any(named(ft) and named(ft) not in seen and named(ft) in renv and untranslated(named(ft), seen + (n,)) for f, ft in renv[n])
        for n, fs in tt['structs']:
            if untranslated(n): continue
            sz, al = L.size_align(renv, {'named': n}); evals += 1
            if pr['struct'].get(n) != [sz, al]:
                broken.append({'kind': 'translator-vs-rustc', 'struct': n, 'translated': [sz, al], 'rustc': pr['struct'].get(n)})
            off = 0
            for f, ft in fs:
                s, a = L.size_align(renv, ft); o = L.round_up(off, a); off = o + s; evals += 1
                if pr['field'].get((n, f)) != (o, s):
                    broken.append({'kind': 'translator-vs-rustc', 'struct': n, 'field': f, 'translated': (o, s), 'rustc': pr['field'].get((n, f))})
        for n, ty, v, pub in tt['consts']:
            if pub and v is not None and ty in rust_abi.INT_TYPES:
                evals += 1
                if pr['const'].get(n) != v: broken.append({'kind': 'translator-vs-rustc', 'const': n, 'translated': v, 'rustc': pr['const'].get(n)})
        for n, ty, ms in tt['bitflags']:
            for mn, v in ms:
                if v is None: continue
                evals += 1
                if pr['flag'].get((n, mn)) != v: broken.append({'kind': 'translator-vs-rustc', 'flag': n + '::' + mn, 'translated': v, 'rustc': pr['flag'].get((n, mn))})
        for n, vs in tt['enums']:
            for vn, v in vs:
                if v is None: continue
                evals += 1
                if pr['enum'].get((n, vn)) != v: broken.append({'kind': 'translator-vs-rustc', 'enum': n + '::' + vn, 'translated': v, 'rustc': pr['enum'].get((n, vn))})
        arms = dict((a, b) for a, b in tt['opcode_from']['arms']); disc = dict((vn, pr['enum'].get(('Opcode', vn)) if v is None else v) for vn, v in tt['enums'][0][1])
        for nn, got in (pr['opfrom'].items() if not tt['opcode_from'].get('error') else []):
            evals += 1
            want = disc[arms.get(nn, tt['opcode_from']['default'])]
            if got != want: broken.append({'kind': 'translator-vs-rustc', 'opcode_from': nn, 'translated': want, 'rustc': got})

        # 5. the property itself, evaluated on what rustc produced (failing-input search)
        alias = m['field_alias']
        for p in m['struct_pairs']:
            rs, ks = p['rust'], p['kernel']
            kf = [f for f, ty in kenv[ks]]
            if 'slice' in p:
                raw = [f for f, tt, a in k['structs'][ks] if a != 0]
                kf = raw[p['slice'][0]:p['slice'][1]]
            kl = L.flatten(kenv, {'named': ks})
            sel = [l for l in kl if L.head(l[0]) in kf]
            base = sel[0][1] if sel else 0
            after = [l for l in kl if L.head(l[0]) not in kf and l[1] > base]
            ksz = (after[0][1] if after else L.size_align(kenv, {'named': ks})[0]) - base
            kleaves = [(a, o - base, w, s) for a, o, w, s in sel]
            # rust leaves from rustc's own offsets for top-level fields + translated nested layout
            rl = []
            if rs not in renv:
                findings.append({'what': 'crate struct %s (paired with kernel %s) is not a `pub struct` of the ABI files any more' % (rs, ks)})
                continue
            for f, ft in renv[rs]:
                o, s = pr['field'].get((rs, f), (None, None))
                if has_opaque(ft) or (ft.get('private') and o is None) or ('named' in ft and ft['named'] in renv and untranslated(ft['named'])):
                    # names-only fallback: the type was not read.  The field matches iff rustc puts it exactly where the
                    # kernel has the field of that name (same offset, same extent); then it is credited with the kernel's leaves
                    fa = alias.get(rs + '.' + f, f)
                    kl_f = [l for l in kleaves if L.head(l[0]) == fa]
                    if ft.get('private') and o is None:
                        # cannot be probed: place it after the previous field
                        o = (rl[-1][1] + rl[-1][2]) if rl else 0
                        s = (kl_f[-1][1] + kl_f[-1][2] - kl_f[0][1]) if kl_f else 0
                    if kl_f and o == kl_f[0][1] and s == kl_f[-1][1] + kl_f[-1][2] - kl_f[0][1]: rl += kl_f
                    else: rl.append((fa, o if o is not None else -1, s, None))
                    continue
                for path, off, w, sg in L.flatten(renv, ft, f, 0):
                    rl.append((alias.get(rs + '.' + path, path), (o if o is not None else -1) + off, w, sg))
            rsz = pr['struct'].get(rs, [None])[0]
            evals += 1; nontriv.add(('layout', rs))
            if rl != kleaves or rsz != ksz:
                diffs = [{'crate': a, 'kernel': b} for a, b in zip(rl, kleaves) if a != b][:6]
                findings.append({'what': 'layout of %s differs from %s' % (rs, ks), 'crate_size': rsz, 'kernel_size': ksz,
                                 'first_differences': diffs, 'crate_leaves': len(rl), 'kernel_leaves': len(kleaves)})
            if len(samples) < 3: samples.append({'pair': [rs, ks], 'leaves': rl[:4], 'size': rsz})
        paired = set(p['rust'] for p in m['struct_pairs'])
        for n, fs in tt['structs']:
            if n not in paired: findings.append({'what': 'crate struct %s is not paired with any kernel struct' % n})
        for a, b in m['const_pairs']:
            evals += 1; nontriv.add(('const', a))
            have = pr['const'].get(a, dict((c[0], c[2]) for c in tt['consts']).get(a))
            if have is None and a not in pr['const']:
                broken.append({'kind': 'coverage', 'name': 'constant %s is neither evaluated by the translator nor visible to the probe' % a}); continue
            if have != kc.get(b): findings.append({'what': 'constant %s = %s but kernel %s = %s' % (a, have, b, kc.get(b))})
        for g, ps in m['bitflag_pairs'].items():
            for a, b in ps:
                evals += 1; nontriv.add(('flag', g, a))
                if pr['flag'].get((g, a)) != kc.get(b):
                    findings.append({'what': 'flag %s::%s = %s but kernel %s = %s' % (g, a, pr['flag'].get((g, a)), b, kc.get(b))})
        for g, ty, ms in tt['bitflags']:
            for mn, v in ms:
                if mn not in [a for a, b in m['bitflag_pairs'].get(g, [])] and (g + '::' + mn) not in [r['rust'] for r in m['rust_only_bitflags']]:
                    findings.append({'what': 'flag member %s::%s has no kernel counterpart in the pairing' % (g, mn)})
        init_flags = json.load(open(os.path.join(ROOT, 'spec/init_flags.json')))
        for r in m['rust_only_bitflags']:
            g, mn = r['rust'].split('::'); v = pr['flag'].get((g, mn), 0)
            for kn in init_flags:
                if kc.get(kn, 0) & v: findings.append({'what': 'crate-only bit %s collides with kernel %s' % (r['rust'], kn)})
        for a, b in m['opcode_pairs']:
            evals += 1; nontriv.add(('opcode', a))
            if pr['enum'].get(('Opcode', a)) != kc.get(b): findings.append({'what': 'Opcode::%s = %s but kernel %s = %s' % (a, pr['enum'].get(('Opcode', a)), b, kc.get(b))})
        for a, b in m['notify_pairs']:
            evals += 1; nontriv.add(('notify', a))
            if pr['enum'].get(('NotifyOpcode', a)) != kc.get(b): findings.append({'what': 'NotifyOpcode::%s = %s but kernel %s = %s' % (a, pr['enum'].get(('NotifyOpcode', a)), b, kc.get(b))})
        for n, vs in tt['enums']:
            pl = m['opcode_pairs'] if n == 'Opcode' else m['notify_pairs']
            for vn, v in vs:
                if vn != m['unsupported_opcode'] and vn not in [a for a, b in pl]:
                    findings.append({'what': 'enum variant %s::%s has no kernel counterpart in the pairing' % (n, vn)})
        sup = set(kc[b] for a, b in m['opcode_pairs'] if not b.endswith('BSWAP_RESERVED'))
        unsup = pr['enum'].get(('Opcode', m['unsupported_opcode']))
        for nn, got in sorted(pr['opfrom'].items()):
            evals += 1
            if nn in sup or nn < 64: nontriv.add(('opfrom', nn))
            want = nn if nn in sup else unsup
            if got != want: findings.append({'what': 'Opcode::from(%d) as u32 = %d, expected %d' % (nn, got, want), 'input': nn})
        # conversions on the real code
        widths = dict((f, ty['int'] * 8) for f, ty in renv['Attr'] if 'int' in ty)
        kw = dict((f, ty['int'] * 8) for f, ty in renv['Kstatfs'] if 'int' in ty)
        for (pi, tag), vals in sorted(pr['conv'].items()):
            if tag == 'attr_of_stat':
                st = pr['conv'][(pi, 'stat_in')]
                for a, s in m['attr_stat_pairs']:
                    evals += 1; nontriv.add(('conv', pi, a))
                    if vals[a] != st[s] % (1 << widths[a]):
                        findings.append({'what': 'Attr::with_flags: %s = %d, expected %s mod 2^%d = %d' % (a, vals[a], s, widths[a], st[s] % (1 << widths[a])), 'input': st})
                if vals['flags'] != 0xabcd0000 + pi: findings.append({'what': 'Attr::with_flags drops flags', 'input': st})
            elif tag == 'attr_from_stat':
                # twin entry point: From<stat64> for Attr (what GETATTR / SETATTR replies are built with)
                st = pr['conv'][(pi, 'stat_in')]
                for a, s in m['attr_stat_pairs']:
                    evals += 1; nontriv.add(('conv-from', pi, a))
                    if vals[a] != st[s] % (1 << widths[a]):
                        findings.append({'what': 'Attr::from(stat64): %s = %d, expected %s mod 2^%d = %d' % (a, vals[a], s, widths[a], st[s] % (1 << widths[a])), 'input': st})
                if vals['flags'] != 0: findings.append({'what': 'Attr::from(stat64): flags = %d, expected 0' % vals['flags'], 'input': st})
            elif tag == 'entry_out':
                # twin entry point: From<Entry> for EntryOut (LOOKUP / CREATE / MKNOD / READDIRPLUS ... replies)
                st = pr['conv'][(pi, 'stat_in')]; ein = pr['conv'][(pi, 'entry_in')]; oa = pr['conv'][(pi, 'entry_out_attr')]
                for a, s in m['entry_out_pairs']:
                    evals += 1; nontriv.add(('conv-entry', pi, a))
                    got = oa['flags'] if a == 'attr.flags' else vals[a]
                    if got != ein[s]:
                        findings.append({'what': 'EntryOut::from(Entry): %s = %d, expected %s = %d' % (a, got, s, ein[s]), 'input': {'entry': ein, 'attr': st}})
                for a, s in m['attr_stat_pairs']:
                    evals += 1
                    if oa[a] != st[s] % (1 << widths[a]):
                        findings.append({'what': 'EntryOut::from(Entry): attr.%s = %d, expected attr.%s mod 2^%d = %d' % (a, oa[a], s, widths[a], st[s] % (1 << widths[a])),
                                         'input': {'entry': ein, 'attr': st}})
            elif tag == 'filelock':
                evals += 1
                for a, b, c in (('in_start', 'start', 'back_start'), ('in_end', 'end', 'back_end'), ('in_type', 'lock_type', 'back_type'), ('in_pid', 'pid', 'back_pid')):
                    if not (vals[a] == vals[b] == vals[c]):
                        findings.append({'what': 'FileLock conversions: wire %s = %d -> %s = %d -> wire = %d' % (a[3:], vals[a], b, vals[b], vals[c]), 'input': vals})
            elif tag == 'context':
                evals += 1
                for a in ('uid', 'gid', 'pid'):
                    if vals[a] != vals['in_' + a]:
                        findings.append({'what': 'Context::from(&InHeader): %s = %d, expected the header\'s %d' % (a, vals[a], vals['in_' + a]), 'input': vals})
            elif tag == 'stat_of_attr':
                at = pr['conv'][(pi, 'attr_of_stat')]
                for a, s in m['attr_stat_pairs']:
                    evals += 1
                    if vals[s] != at[a]: findings.append({'what': 'stat64::from(Attr): %s = %d, expected %s = %d' % (s, vals[s], a, at[a]), 'input': at})
            elif tag == 'attr_roundtrip':
                at = pr['conv'][(pi, 'attr_of_stat')]; evals += 1
                if vals != at: findings.append({'what': 'Attr -> stat64 -> Attr is not the identity', 'input': at, 'output': vals})
            elif tag == 'stat_of_setattr':
                at = pr['conv'][(pi, 'attr_of_stat')]
                for a, s in m['setattr_stat_pairs']:
                    evals += 1
                    if vals[s] != at[a]: findings.append({'what': 'stat64::from(SetattrIn): %s = %d, expected %s = %d' % (s, vals[s], a, at[a]), 'input': at})
            elif tag == 'kstatfs':
                sv = pr['conv'][(pi, 'statvfs_in')]
                for a, s in m['kstatfs_statvfs_pairs']:
                    evals += 1
                    if vals[a] != sv[s] % (1 << kw[a]): findings.append({'what': 'Kstatfs::from: %s = %d, expected %s mod 2^%d' % (a, vals[a], s, kw[a]), 'input': sv})
                if vals['padding'] != 0 or vals['spare'] != 0: findings.append({'what': 'Kstatfs::from: padding/spare not zero', 'input': sv})
        # every `impl From<A> for B` of the ABI files must be a conversion this check evaluates (a new one is a new way
        # for host data to reach the wire that nothing above looks at)
        known_conv = m.get('probed_conversions', {})
        for fi in sorted(set(tt.get('from_impls', []))):
            if fi not in known_conv:
                broken.append({'kind': 'coverage', 'name': 'conversion `impl From<%s> for %s` of the ABI files is not evaluated by any probe or theorem' % tuple(fi.split('->'))})
        need_tags = ('attr_of_stat', 'attr_from_stat', 'entry_out', 'stat_of_attr', 'attr_roundtrip', 'stat_of_setattr', 'kstatfs', 'filelock', 'context')
        missing_tags = [tg for tg in need_tags if not any(k[1] == tg for k in pr['conv'])]
        if missing_tags: broken.append({'kind': 'coverage', 'name': 'conversion probes did not run', 'missing': missing_tags})
        if pr['conv']:
            samples.append({'conversion_probe': pr['conv'].get((4, 'stat_in')), 'attr': pr['conv'].get((4, 'attr_of_stat'))})

        # 6. Coq model vs implementation (correspondence of Layout.v and of the conversion model)
        if audit is not None and audit['ok']:
            def coq_leaves(ls): return '[' + '; '.join('{| l_path := "%s"; l_off := %d; l_width := %d; l_signed := %s |}' % (a, o, w, 'true' if s else 'false') for a, o, w, s in ls) + ']'
            items = []
            for n, fs in t['structs']:
                rl = []
                for f, ft in fs:
                    o, s = pr['field'][(n, f)]
                    rl += [(pa, o + off, w, sg) for pa, off, w, sg in L.flatten(renv, ft, f, 0)]
                items.append('(match struct_leaves rust_structs "%s", struct_size rust_structs "%s" with Some l, Some z => leaves_eqb l %s && (z =? %d) | _, _ => false end)'
                             % (n, n, coq_leaves(rl), pr['struct'][n][0]))
            conv_items = []
            def fn_of(d): return '(fun f => match 0 with _ => ' + ''.join('if String.eqb f "%s" then %d else ' % (kk, vv) for kk, vv in d.items()) + '0 end)'
            for (pi, tag), vals in sorted(pr['conv'].items()):
                if tag == 'attr_of_stat':
                    st = pr['conv'][(pi, 'stat_in')]
                    for a in widths:
                        conv_items.append('(apply_conv rust_conv_attr_of_stat %s (fun _ => %d) "%s" =? %d)' % (fn_of(st), vals['flags'], a, vals[a]))
                elif tag == 'attr_from_stat':
                    st = pr['conv'][(pi, 'stat_in')]
                    for a in widths:
                        conv_items.append('(apply_conv rust_conv_attr_from_stat %s (fun _ => 77) "%s" =? %d)' % (fn_of(st), a, vals[a]))
                elif tag == 'entry_out':
                    st = pr['conv'][(pi, 'stat_in')]; ein = pr['conv'][(pi, 'entry_in')]; oa = pr['conv'][(pi, 'entry_out_attr')]
                    src = dict(ein); src.update(('attr.' + kk, vv) for kk, vv in st.items())
                    for a in vals:
                        conv_items.append('(apply_conv rust_conv_entry_out %s (fun _ => 77) "%s" =? %d)' % (fn_of(src), a, vals[a]))
                    for a in widths:
                        conv_items.append('(apply_conv rust_conv_entry_out %s (fun _ => 77) "attr.%s" =? %d)' % (fn_of(src), a, oa[a]))
                elif tag == 'stat_of_attr':
                    at = pr['conv'][(pi, 'attr_of_stat')]
                    for s_ in vals:
                        conv_items.append('(apply_conv rust_conv_stat_of_attr %s (fun _ => 0) "%s" =? %d)' % (fn_of(at), s_, vals[s_]))
                elif tag == 'stat_of_setattr':
                    at = pr['conv'][(pi, 'attr_of_stat')]
                    for s_ in vals:
                        conv_items.append('(apply_conv rust_conv_stat_of_setattr %s (fun _ => 0) "%s" =? %d)' % (fn_of(at), s_, vals[s_]))
                elif tag == 'kstatfs':
                    sv = pr['conv'][(pi, 'statvfs_in')]
                    for a in kw:
                        if a in vals: conv_items.append('(apply_conv rust_conv_kstatfs_of_statvfs %s (fun _ => 0) "%s" =? %d)' % (fn_of(sv), a, vals[a]))
            op_items = ['(match opcode_from_disc %d with Some v => v =? %d | None => false end)' % (nn, got) for nn, got in sorted(pr['opfrom'].items())]
            body = ('From Coq Require Import List String NArith Bool.\nFrom FB Require Import Lib.Layout Gen.RustABI Spec.KernelABI Proofs.ABI.\n'
                    'Import ListNotations.\nLocal Open Scope string_scope.\nLocal Open Scope N_scope.\n'
                    'Definition idx_false (l : list bool) : list N := map fst (filter (fun p => negb (snd p)) (combine (map N.of_nat (seq 0 (List.length l))) l)).\n'
                    'Eval vm_compute in idx_false [%s].\nEval vm_compute in idx_false [%s].\nEval vm_compute in idx_false [%s].\n'
                    % (';\n'.join(items), ';\n'.join(conv_items), ';\n'.join(op_items)))
            rc, out = coq_eval('c13_cases', body)
            ans = coq_flat(out)
            evals += len(items) + len(conv_items) + len(op_items)
            ev.cov['model_vs_impl_cases'] = len(items) + len(conv_items) + len(op_items)
            if rc != 0 or len(ans) != 3:
                broken.append({'kind': 'correspondence', 'name': 'coq evaluation of cases failed', 'log': out[-1500:]})
            else:
                for nm, a, lst in zip(['Layout.v struct_leaves vs rustc offset_of', 'conversion model apply_conv vs real conversions', 'opcode_from model vs Opcode::from'], ans, [items, conv_items, op_items]):
                    if not re.match(r'= (\[\]|nil)\s*:', a):
                        idx = [int(x) for x in re.findall(r'\d+', a.split(':')[0])]
                        broken.append({'kind': 'correspondence', 'name': nm, 'failing_case_indices': idx[:10],
                                       'first_case': lst[idx[0]][:400] if idx else None})

    ev.cov['evaluations'] = evals
    ev.cov['distinct_nontrivial'] = len(nontriv)
    ev.cov['rule'] = ('every crate struct/const/flag/enum item compared with its kernel counterpart using rustc-probed and gcc-probed values; '
                      'Opcode::from evaluated on 0..4999, 2^k-1,2^k,2^k+1 and specials; conversions (Attr::with_flags and its twins From<stat64> for Attr / From<Entry> for EntryOut, stat64 from Attr / SetattrIn, Kstatfs, FileLock, Context) on 9 boundary valuations with pairwise distinct fields; every From impl of the ABI files must be one of them; '
                      'distinct_nontrivial counts distinct (kind,item) pairs compared: struct pairs, constants, flag members, opcodes, Opcode::from inputs that are supported or < 64, conversion (probe,field) pairs')
    ev.cov['samples'] = samples[:5] or [{'note': 'no implementation probe ran'}]

    # classify
    known = known_findings(PROP)
    rc = 0
    new = []
    for f in findings:
        kf = [x for x in known if x['signature'] in f['what']]
        if kf: print('KNOWN-FINDING: property=%s %s' % (PROP, kf[0]['what']))
        else: new.append(f)
    if new:
        violation(PROP, {'property': PROP, 'kind': 'property fails on the implementation', 'failing': new[:20], 'broken_obligations': broken[:10]})
        rc = 1
    elif broken:
        violation(PROP, {'property': PROP, 'kind': 'proof obligation / model-code tie no longer checks; no concrete failing input found',
                         'broken': broken[:20]}, no_input=True)
        rc = 1
    ev.violations = len(new) + (1 if (broken and not new) else 0)
    ev.write()
    return rc
