"""C19 -- saving and restoring VFS state reproduces the same namespace (cargo feature `persist`)."""
import os, sys, json, re, random, copy
from vlib import *
from vfs_common import *
import vfs_src, c07
from c07 import okmount

PROP = 'C19'
PATHS = [[('N', 1)], [('N', 2), ('N', 3)], [('N', 4), ('N', 5), ('N', 6)], [('N', 7)], [('N', 2), ('N', 8)]]
MANY = [[('N', 20 + j)] for j in range(8)] + [[('N', 30), ('N', 31), ('N', 32), ('N', 33), ('N', 34 + j)] for j in range(3)] + [[('N', 40 + j), ('N', 41)] for j in range(4)]

def replay_steps(case, steps):
    for st in steps:
        if case.dead: break
        case.do(copy.deepcopy(st))

def probe(g, case, extra_inodes):
    """what a client can see: options, every mount path walked by lookups, directory listings, previously issued inode
    numbers, and what the next mount / next pseudo directory get"""
    if case.dead: return
    case.do({'k': 'Q'})
    c07.probe_mount_paths(g, case, [])
    for d in [ROOT_INO, 2, 3, 4, 9, 10, 11, 12]:
        if case.dead: return
        g.request('readdir', d, size=4096, offset=0, limit=100, uid=1005, gid=100007)
        g.request('readdirplus', d, size=4096, offset=0, limit=100, uid=1005, gid=100007)
        g.request('getattr', d, uid=1005, gid=100007)
    for x in extra_inodes:
        if case.dead: return
        a = mk_ans(ent={'ino': 41, 'stino': 41, 'uid': 5, 'gid': 1007, 'tag': 9}, attr={'ino': 7, 'uid': 5, 'gid': 100001, 'tag': 3})
        g.request('getattr', x, ans=a, uid=1005, gid=100007)
        g.request('lookup', x, name=('norm', 3), ans=a, uid=100005, gid=7)
        g.request('setattr', x, ans=a, uid=5, gid=1007, auid=100005, agid=1006)
    # the future: next mount index and next pseudo inode
    if case.dead: return
    p = mk_path(g.rng, [('N', 90), ('N', 91 + len(case.steps) % 3)], noise=False)
    st, o = g.mount(path=p, map=None, ans=okmount(g.rng))
    if o['status'] == 'ok':
        g.request('lookup', ROOT_INO, name=('norm', 90), uid=0, gid=0)
        g.umount(p)

def base_history(sess, rng, tb, cfg, n, use_maps, root_mount=False, many=False):
    """run B: the history without any save/restore"""
    c = Case(sess, cfg, tb); g = HistoryGen(c, rng, use_maps=use_maps)
    paths = [mk_path(rng, [], noise=False)] if root_mount else [mk_path(rng, p, noise=False) for p in (MANY if many else PATHS)]
    for _ in range(n):
        if c.dead: break
        r = rng.random()
        if r < 0.40:
            m = g.mapping() if use_maps else None
            g.mount(path=rng.choice(paths), map=m, ans=dict(okmount(rng, rng.choice([1, 1, 9])), uid=pick_id(rng, g.maps_in_play), gid=pick_id(rng, g.maps_in_play)))
        elif r < 0.55: g.umount(rng.choice(paths))
        elif r < 0.65: g.init()
        elif r < 0.70: c.do({'k': 'D'})
        else: g.request()
    return c, g

def variant(sess, rng, tb, cfg, base_steps, k, ver, fresh, issued):
    """-> (A, B, alignment): B = base[:k] + probe + base[k:] + probe ; A = the same steps with a save/restore at k"""
    B = Case(sess, cfg, tb); gB = HistoryGen(B, random.Random(1), use_maps=False); gB.next_bid = 1000
    replay_steps(B, base_steps[:k]); n1 = len(B.steps)
    probe(gB, B, issued); n2 = len(B.steps)
    replay_steps(B, base_steps[k:])
    probe(gB, B, issued)
    B.finish()
    A = Case(sess, cfg, tb)
    replay_steps(A, B.steps[:n1])
    if not A.dead: A.do({'k': 'S', 'ver': ver, 'fresh': fresh})
    replay_steps(A, B.steps[n1:])
    A.finish()
    return A, B, n1

def compare(A, B, n1, findings, cfg, ver, fresh):
    """the property: from the save/restore on, the restored VFS answers exactly like the one that was never saved"""
    if len(A.steps) <= n1: return 0
    sobs = A.obs[n1] if A.steps[n1]['k'] == 'S' else None
    ctx = {'ver': ver, 'fresh': fresh}
    if sobs is None: return 0
    if sobs['status'] != 'ok':
        kind = 'restore-failed'
        findings.append({'what': 'save/restore failed: %s' % sobs['raw'][:100], 'sig': dict(kind=kind, **ctx), 'input': A.replay_obj(n1)})
        return 1
    bad_reattach = [r for r in sobs.get('reattached', []) if r[3] != 0]
    if bad_reattach:
        findings.append({'what': 'restore_mount failed for %s' % (bad_reattach[:3],), 'sig': dict(kind='restore-mount-failed', **ctx), 'input': A.replay_obj(n1)})
    n = 0
    for j in range(n1, len(B.steps)):
        ja = j + 1
        if ja >= len(A.steps): break
        n += 1
        fa, fb = A.flat[ja], B.flat[j]
        if fa == fb and A.obs[ja].get('pino') != B.obs[j].get('pino'):
            fa = fa + ['pino', A.obs[ja].get('pino')]      # same result, but the mount point got another pseudo inode number
        if fa == fb: continue
        st = B.steps[j]
        sig = dict(kind='diverges', step=st['k'], op=st.get('op'), **ctx)
        # classification of the two expected shapes of divergence
        gm = cfg['gmap'] is not None and cfg['gmap'][2] != 0
        if st['k'] == 'Q' and fa[1] != fb[1] and fa[2:] == fb[2:]:
            sig = dict(kind='initialized-not-persisted')            # only the `initialized` flag differs
        elif st['k'] == 'I' and A.obs[ja]['status'] != B.obs[j]['status'] and 22 in (A.obs[ja].get('errno'), B.obs[j].get('errno')):
            sig = dict(kind='initialized-not-persisted')            # one side refuses a second init with EINVAL
        elif st['k'] in ('M', 'D') and fa[:2] == fb[:2] and A.obs[ja].get('pino') == B.obs[j].get('pino') and \
                [e['m'] for e in A.obs[ja]['events']] != [e['m'] for e in B.obs[j]['events']] and \
                [e for e in A.obs[ja]['events'] if e['m'] not in ('init', 'destroy')] == [e for e in B.obs[j]['events'] if e['m'] not in ('init', 'destroy')]:
            sig = dict(kind='initialized-not-persisted')            # same result, only init/destroy calls to backends differ
        elif fresh == 'default' and gm and st['k'] in ('R', 'M'):
            sig = dict(kind='global-id-mapping-not-restored')       # fresh Vfs built with VfsOptions::default(): Vfs.id_mapping stays None
        findings.append({'what': 'after save(v%d)/restore(fresh=%s) step `%s` answers %s, without save/restore %s' % (ver, fresh, step_tok(st)[:160], A.obs[ja]['raw'][:200], B.obs[j]['raw'][:200]),
                         'sig': sig, 'input': A.replay_obj(ja)})
        break          # later steps inherit the divergence
    return n

# ------------------------------------------------------------------ index wrap-around + save/restore + re-attachment order
def alloc_sim(ctr, occupied):
    """allocate_fs_idx as the specification states it: first free non-zero index from the counter on, cyclically"""
    i = ctr
    for _ in range(257):
        idx, i = i, (i + 1) % 256
        if idx != 0 and idx not in occupied: return idx, i
    return None, i

class WrapGen:
    """drives a history in which the 8-bit index counter goes round; self.ctr = the counter value the specification predicts"""
    def __init__(self, case, g, rng): self.c, self.g, self.rng, self.ctr = case, g, rng, 1
    def occupied(self): return set(m['idx'] for m in self.c.mounts.values())
    def burn(self):
        """take one index and give it back: mount + umount of a scratch path, or a mount that fails after the allocation
        (relative path: insert_mount_locked answers EINVAL; the counter has moved)"""
        if self.rng.random() < 0.4:
            idx, self.ctr = alloc_sim(self.ctr, self.occupied())
            self.g.mount(path=mk_path(self.rng, [('N', 9)], rooted=False, noise=False), map=None, ans=okmount(self.rng))
        else:
            p = mk_path(self.rng, [('N', 8)], noise=False)
            st, o = self.g.mount(path=p, map=None, ans=okmount(self.rng))
            if o['status'] == 'ok':
                self.ctr = (o['vals'][0] + 1) % 256; self.g.umount(p)
            else: idx, self.ctr = alloc_sim(self.ctr, self.occupied())
    def burn_until(self, target):
        n = 0
        while self.ctr != target and n < 700 and not self.c.dead: self.burn(); n += 1
    def keep(self, k):
        st, o = self.g.mount(path=mk_path(self.rng, [('N', k)], noise=False), map=None, ans=okmount(self.rng, self.rng.choice([1, 1, 7])))
        if o['status'] == 'ok': self.ctr = (o['vals'][0] + 1) % 256
        return o
    def resync(self):
        for st, o in zip(reversed(self.c.steps), reversed(self.c.obs)):
            if st['k'] == 'M' and o['status'] == 'ok': self.ctr = (o['vals'][0] + 1) % 256; return
            if st['k'] == 'M': return

def probe_small(g, case, issued, k):
    """a short probe for histories with very many mounts: options, requests on issued inode numbers, walks to a few mount
    paths, the next two mounts (index and pseudo inode number) and their release"""
    if case.dead: return
    case.do({'k': 'Q'})
    live = sorted(case.mounts.values(), key=lambda m: m['idx'])
    for m in live[:2] + live[-2:]:
        if case.dead: return
        g.request('lookup', ROOT_INO, name=('norm', m['cpath'][0]), uid=0, gid=0)
    for x in issued:
        if case.dead: return
        a = mk_ans(ent={'ino': 41, 'stino': 41, 'uid': 5, 'gid': 1007, 'tag': 9}, attr={'ino': 7, 'uid': 5, 'gid': 100001, 'tag': 3})
        g.request('getattr', x, ans=a, uid=1005, gid=100007)
        g.request('lookup', x, name=('norm', 3), ans=a, uid=100005, gid=7)
    ps = [mk_path(g.rng, [('N', 90), ('N', 91 + k)], noise=False), mk_path(g.rng, [('N', 95 + k)], noise=False)]
    oks = []
    for p in ps:
        if case.dead: return
        st, o = g.mount(path=p, map=None, ans=okmount(g.rng))
        if o['status'] == 'ok': oks.append(p)
    for p in oks:
        if case.dead: return
        g.umount(p)

def with_saves(sess, tb, cfg, B, marks, orders, ver=2, fresh='same'):
    """A = the steps of B with a save/restore inserted before position marks[i], re-attaching in the order orders[i](n)"""
    A = Case(sess, cfg, tb); at = dict((m, i) for i, m in enumerate(marks)); used = []
    for j, st in enumerate(B.steps + [None]):
        if A.dead: break
        if j in at:
            n = len(A.mounts); sel = orders[at[j]](n)
            A.do({'k': 'S', 'ver': ver, 'fresh': fresh, 'order': sel}); used.append(sel)
        if st is not None and not A.dead: A.do(copy.deepcopy(st))
    A.finish()
    return A, used

def compare_aligned(A, B, marks, findings, ctx, only=None):
    """every step of B after the first save point must be answered by A (which went through the save/restores) in the same
    way; `only`: restrict the comparison to these step kinds (used when only a subset of the backends was re-attached)"""
    n = 0; ja = 0; ms = set(marks)
    for j in range(len(B.steps)):
        while ja < len(A.steps) and A.steps[ja]['k'] == 'S':
            o = A.obs[ja]
            if o['status'] != 'ok':
                findings.append({'what': 'save/restore failed: %s' % o['raw'][:100], 'sig': dict(kind='restore-failed', **ctx), 'input': A.replay_obj(ja)}); return n
            badr = [r for r in o.get('reattached', []) if r[3] != 0]
            if badr:
                findings.append({'what': 'restore_mount failed for %s' % (badr[:3],), 'sig': dict(kind='restore-mount-failed', **ctx), 'input': A.replay_obj(ja)}); return n
            ja += 1
        if ja >= len(A.steps): break
        if j >= marks[0] and (only is None or B.steps[j]['k'] in only):
            n += 1
            fa, fb = A.flat[ja], B.flat[j]
            if fa == fb and A.obs[ja].get('pino') != B.obs[j].get('pino'): fa = fa + ['pino', A.obs[ja].get('pino')]
            if fa != fb:
                st = B.steps[j]
                findings.append({'what': 'after save/restore with re-attachment order %s (index counter wrapped) step `%s` answers %s, without save/restore %s' % (ctx.get('order'), step_tok(st)[:160], A.obs[ja]['raw'][:200], B.obs[j]['raw'][:200]),
                                 'sig': dict(kind='diverges', step=st['k'], op=st.get('op'), **ctx), 'input': A.replay_obj(ja)})
                return n
        ja += 1
    return n

ORDERS = {
    'asc': lambda n: list(range(n)),
    'desc': lambda n: list(range(n))[::-1],
    'high-first': lambda n: ([n - 1] + list(range(n - 1))) if n else [],
    'high-last-low-desc': lambda n: (list(range(n - 1))[::-1] + [n - 1]) if n else [],
    'rot': lambda n: (list(range(n // 2, n)) + list(range(n // 2))),
}

def wrap_base(sess, rng, tb, cfg):
    """B: two mounts at indices 200/201, the counter goes round (254 attached on the way), a low index is attached after the wrap;
    probes at: counter above every attached index / at 255 / at 0 / below the old mounts with free indices in between /
    resting on an attached index / between attached indices"""
    B = Case(sess, cfg, tb); g = HistoryGen(B, rng, use_maps=False); w = WrapGen(B, g, rng); marks = []
    def mark():
        if B.dead: return
        marks.append(len(B.steps)); probe(g, B, [(m['idx'] << 56) | m['root'] for m in sorted(B.mounts.values(), key=lambda m: m['idx'])][:4]); w.resync()
    w.burn_until(200); w.keep(50); w.keep(51); mark()            # 200, 201 attached; counter 202
    w.burn_until(254); w.keep(56); mark()                        # 254 attached; counter 255: the probe's mount takes 255, the counter wraps
    mark()                                                       # counter 0
    w.keep(53); w.burn_until(5); mark()                          # a low index attached after the wrap; counter 5 < 200
    w.burn_until(200); mark()                                    # counter rests on an attached index
    w.keep(54); mark()                                           # counter between attached indices (below 254)
    B.finish()
    return B, marks

def wrap_cases(sess, rng, tb, tier, findings):
    """-> (tie cases, evaluations, shapes)"""
    q = tier == 'quick'; ties = []; evals = 0; shapes = set()
    cfg = {'gmap': None, 'rm': 0, 'no_open': 1, 'no_opendir': 1}
    # (a) one wrapped history, a save/restore at each of the six situations, the order of re-attachment varying
    B, marks = wrap_base(sess, rng, tb, cfg)
    plans = [['asc', 'desc', 'high-first', 'high-last-low-desc', 'rot', 'desc'], ['desc', 'high-first', 'asc', 'desc', 'high-last-low-desc', 'rot']]
    if not q: plans += [[rng.choice(sorted(ORDERS)) for _ in marks] for _ in range(4)]
    for pl in plans:
        A, used = with_saves(sess, tb, cfg, B, marks, [ORDERS[o] for o in pl])
        evals += compare_aligned(A, B, marks, findings, {'order': '/'.join(pl), 'wrapped': True})
        if not q or pl is plans[0]: ties.append(A)
        shapes.add(('wrap', tuple(pl)))
    # one save/restore alone at every situation (a divergence at an earlier one would hide a later one)
    for i, m in enumerate(marks):
        for o in (['desc', 'high-first'] if q else sorted(ORDERS)):
            A, used = with_saves(sess, tb, cfg, B, [m], [ORDERS[o]], ver=(1 if i % 2 else 2))
            evals += compare_aligned(A, B, [m], findings, {'order': o, 'wrapped': True, 'at': i})
            if not q or (i == 3 and o == 'desc'): ties.append(A)
            shapes.add(('wrap1', i, o))
    # (b) only a subset of the backends is re-attached before the next mounts: the indices and pseudo inode numbers of
    # the new mounts must be those of the never-saved Vfs (the free indices below the old mounts are not affected)
    B2 = Case(sess, cfg, tb); g2 = HistoryGen(B2, rng, use_maps=False); w2 = WrapGen(B2, g2, rng)
    w2.burn_until(200); w2.keep(50); w2.keep(51); w2.keep(52); w2.burn_until(5)
    m2 = len(B2.steps)
    for k in range(3): g2.mount(path=mk_path(rng, [('N', 60 + k)], noise=False), map=None, ans=okmount(rng))
    B2.finish()
    for sel in ([0], [2], [1, 0], [], [2, 0, 1]):
        A, used = with_saves(sess, tb, cfg, B2, [m2], [lambda n, sel=sel: [i for i in sel if i < n]])
        evals += compare_aligned(A, B2, [m2], findings, {'order': 'subset %s' % sel, 'wrapped': True}, only=('M',))
        if not q or sel in ([0], [2, 0, 1]): ties.append(A)
        shapes.add(('subset', tuple(sel)))
    # (c) the table nearly full: 250 attached mounts, the counter wrapped to 0 / resting inside the occupied range
    B3 = Case(sess, cfg, tb); g3 = HistoryGen(B3, rng, use_maps=False); w3 = WrapGen(B3, g3, rng); marks3 = []
    for k in range(250): w3.keep(300 + k)
    def mark3(k):
        if B3.dead: return
        marks3.append(len(B3.steps)); probe_small(g3, B3, [(250 << 56) | 1, (1 << 56) | 1], k); w3.resync()
    w3.burn_until(0); mark3(0)
    g3.umount(mk_path(rng, [('N', 300 + 99)], noise=False)); mark3(1)       # index 100 free again, below the counter
    B3.finish()
    for pl in ([['desc', 'rot']] if q else [['desc', 'rot'], ['high-first', 'asc'], ['rot', 'desc']]):
        A, used = with_saves(sess, tb, cfg, B3, marks3, [ORDERS[o] for o in pl])
        evals += compare_aligned(A, B3, marks3, findings, {'order': '/'.join(pl), 'wrapped': True, 'full': True}); ties.append(A)
        shapes.add(('full', tuple(pl)))
    for c in ties: c.heavy = True
    return ties, evals, shapes

def gen_cases(sess, rng, tb, tier, findings):
    q = tier == 'quick'; tie_cases = []; evals = 0; shapes = set()
    if not os.environ.get('VFS_NO_DET'):
        t_, e_, s_ = wrap_cases(sess, rng, tb, tier, findings); tie_cases += t_; evals += e_; shapes |= s_
    plans = []
    for i in range(6 if q else 60):
        use_maps = i % 3 != 0
        gm = gen_mapping(rng) if (use_maps and rng.random() < 0.6) else None
        plans.append(dict(cfg={'gmap': gm, 'rm': int(rng.random() < 0.4), 'no_open': int(rng.random() < 0.5), 'no_opendir': int(rng.random() < 0.5),
                               'no_writeback': int(rng.random() < 0.5), 'killpriv_v2': int(rng.random() < 0.5), 'no_readdir': int(rng.random() < 0.5), 'seal_size': int(rng.random() < 0.5)},
                          use_maps=use_maps, root=(i % 5 == 4), n=rng.randrange(8, 30), many=(i % 5 == 2)))
    # the two situations of the known findings, deterministically: INIT without capability bits; global mapping and a
    # fresh Vfs built with VfsOptions::default()
    cfg0 = {'gmap': (0, 1000, 65536), 'rm': 0, 'no_open': 1, 'no_opendir': 1}
    b0 = Case(sess, cfg0, tb); g0 = HistoryGen(b0, rng, use_maps=False)
    g0.mount(path=mk_path(rng, [('N', 1)], noise=False), map=None, ans=dict(okmount(rng), uid=5, gid=6))
    b1_steps = [copy.deepcopy(st) for st in b0.steps]                 # without the INIT, for the mapping case
    b0.do({'k': 'I', 'opts': 0, 'ierr': 0}); b0.finish()
    for steps, fresh in ((b0.steps, 'same'), (b1_steps, 'default')):
        A, B, n1 = variant(sess, rng, tb, cfg0, steps, len(steps), 2, fresh, [(1 << 56) | 1])
        evals += compare(A, B, n1, findings, cfg0, 2, fresh); tie_cases.append(A)
    # deterministic, remove_pseudo_root set: the last-created pseudo directory is evicted by an umount, a refused umount of an
    # ancestor happens, then save/restore; the probe's new mount must get the pseudo inode number it would have got anyway
    if not os.environ.get('VFS_NO_DET'):
        cfg1 = {'gmap': None, 'rm': 1, 'no_open': 1, 'no_opendir': 1}
        b2 = Case(sess, cfg1, tb); g2 = HistoryGen(b2, rng, use_maps=False)
        g2.mount(path=mk_path(rng, [('N', 1)], noise=False), map=None, ans=okmount(rng))
        g2.mount(path=mk_path(rng, [('N', 2), ('N', 3)], noise=False), map=None, ans=okmount(rng))
        g2.mount(path=mk_path(rng, [('N', 4)], noise=False), map=None, ans=okmount(rng))
        g2.umount(mk_path(rng, [('N', 2)], noise=False))                   # refused: not a mount point
        g2.umount(mk_path(rng, [('N', 4)], noise=False))                   # evicts the last-created pseudo directory
        b2.finish()
        for ver in (2, 1):
            A, B, n1 = variant(sess, rng, tb, cfg1, b2.steps, len(b2.steps), ver, 'same', [(1 << 56) | 1])
            evals += compare(A, B, n1, findings, cfg1, ver, 'same'); tie_cases.append(A)
    # deterministic: a non-empty global mapping and mounts whose own mapping is degenerate (empty range = explicit "translate
    # nothing here", identity, range 1, the largest range); after save/restore they must still hide the global mapping
    if not os.environ.get('VFS_NO_DET'):
        cfg3 = {'gmap': (0, 1000, 65536), 'rm': 0, 'no_open': 1, 'no_opendir': 1}
        b3 = Case(sess, cfg3, tb); g3 = HistoryGen(b3, rng, use_maps=True); roots = []
        for k, D in enumerate(DEGENERATE_MAPS):
            st, o = g3.mount(path=mk_path(rng, [('N', 60 + k)], noise=False), map=D, ans=dict(okmount(rng), uid=5, gid=65535))
            if o['status'] == 'ok': roots.append((o['vals'][0] << 56) | 1)
        g3.mount(path=mk_path(rng, [('N', 70)], noise=False), map=None, ans=dict(okmount(rng), uid=5, gid=65535))
        b3.finish()
        for fresh in ('same', 'default'):
            A, B, n1 = variant(sess, rng, tb, cfg3, b3.steps, len(b3.steps), 2, fresh, roots + [(6 << 56) | 1])
            evals += compare(A, B, n1, findings, cfg3, 2, fresh); tie_cases.append(A)
    for pl in plans:
        base, g = base_history(sess, rng, tb, pl['cfg'], pl['n'] + (25 if pl['many'] else 0), pl['use_maps'], pl['root'], pl['many']); base.finish()
        issued = sorted(set(g.pool))[:4]
        per_mount_maps = any(st['k'] == 'M' and st['map'] is not None for st in base.steps)
        n = len(base.steps)
        ks = sorted(set([n] + [rng.randrange(0, n + 1) for _ in range(2 if q else 8)])) if not (tier == 'thorough' and n <= 12) else list(range(n + 1))
        for k in ks:
            vers = [2] if per_mount_maps else [2, 1]
            for ver in vers:
                fresh = 'same' if (pl['cfg']['gmap'] is None or rng.random() < 0.75) else 'default'
                if pl['cfg']['gmap'] is None and rng.random() < 0.5: fresh = 'default'
                if k == ks[-1] and ver == 2: fresh = 'default'       # the crate's documented pattern, at the end of every history
                A, B, n1 = variant(sess, rng, tb, pl['cfg'], base.steps, k, ver, fresh, issued)
                evals += compare(A, B, n1, findings, pl['cfg'], ver, fresh)
                tie_cases.append(A)
                shapes.add((ver, fresh, pl['use_maps'], pl['root'], len(B.mounts) > 0, B.initialized))
    return tie_cases, evals, shapes

def run_check(tier, seed):
    ev = Evidence(PROP, tier, seed)
    ev.cov['checker_cmd'] = 'make -C coq Props/C19.vo (coqc 8.16.1, full .vo) + Print Assumptions audit; coqc Cases/c19_*.v (vm_compute of run_hist incl. save/restore steps)'
    ev.cov['trusted_base'] = TRUSTED_COMMON + [
        'hand model coq/Model/Persist.v of save_to_bytes / restore_from_bytes / restore_mount (src/api/vfs/mod.rs mod persist, src/api/pseudo_fs.rs mod persist), replayed in Coq on every recorded history that contains a save/restore and compared with the implementation',
        'the byte format of versionize / dbs-snapshot is not modelled (a saved state is the value of VfsState / PseudoFsState); the implementation side goes through the real bytes, including version-1 snapshots written by the hook Vfs::verif_save_to_bytes_at(1)',
        'harness/src/bin/vfs.rs re-attaches a scripted backend with the same identity and answers at the recorded (index, path) of every attached mount, in index order, with restore_mount',
        'props/vfs_src.py -> coq/Gen/VfsTable.v; scripted backends; reference state of props/vfs_common.py',
    ]
    ev.assumptions = ['the fresh Vfs is constructed by the caller: with the same VfsOptions (fresh=same) or VfsOptions::default() as in the crate documentation (fresh=default); set_remove_pseudo_root is re-applied by the caller',
                      'mounts are not nested below other mount points (unsupported by the Vfs, see notes/C07.md)',
                      'version-1 snapshots are taken of histories without per-mount id mappings (the feature version 2 added)']
    findings, broken = [], []
    tb = None
    try:
        t = vfs_src.generate(REPO, COQ, write_if_changed); tb = Tables(t)
        for e_ in t.get('errors', []): broken.append({'kind': 'translator', 'item': 'props/vfs_src.py', 'error': e_})
        ev.cov['translator_assumed_shapes'] = [m['name'] + ': ' + m['vfs']['shape'] for m in t['methods'] if m['vfs'] and str(m['vfs'].get('shape', '')).startswith('assumed')]
    except vfs_src.TranslateError as ex:
        broken.append({'kind': 'translator', 'item': 'props/vfs_src.py', 'error': str(ex)})
    audit = std_audit(ev, PROP, broken)
    okm, outm = coq_make(['Model/VfsRun.vo'])
    if not okm:
        es = coq_error_site(outm)
        broken.append({'kind': 'proof', 'theorem_or_lemma': es[2] if es else None, 'site': list(es[:2]) if es else None, 'message': es[3] if es else outm[-1500:]})
    ok, out, bindir = cargo_build(['vfs'], features=['persist', 'async-io'])
    if not ok:
        broken.append({'kind': 'harness-build', 'log': out[-3000:]})
        return finish(ev, PROP, findings, broken)
    if tb is None: return finish(ev, PROP, findings, broken)
    rng = random.Random(seed)
    sess = Session(bindir)
    cases, evals, shapes = gen_cases(sess, rng, tb, tier, findings)
    dis = []
    if audit['ok'] and okm:
        heavy = [c for c in cases if getattr(c, 'heavy', False)]          # long wrap-around histories: one coqc each
        dis = check_model('c19', [c for c in cases if not getattr(c, 'heavy', False)], ev, broken, shard=6)
        if heavy: dis += check_model('c19w', heavy, ev, broken, shard=1)
    rounds = 1
    new_findings = [f for f in findings if finding_known(f, known_findings(PROP)) is None]
    if (dis or broken) and not new_findings:
        c2, e2, s2 = gen_cases(sess, random.Random(seed + 1), tb, 'thorough' if tier == 'thorough' else 'quick', findings)
        cases += c2; evals += e2; shapes |= s2; rounds = 2
    sess.close()
    for c, si in dis[:3]: broken.append(describe_disagreement('Model/VfsRun.v run_hist (with Model/Persist.v) vs harness vfs', c, si))
    ev.cov['evaluations'] = evals; ev.cov['histories'] = len(cases)
    ev.cov['distinct_nontrivial'] = len(shapes)
    ev.cov['rule'] = ('evaluations = steps after a save/restore whose observation (result + backend call log) was compared with the same step of the run without save/restore; '
                      'distinct_nontrivial = distinct (snapshot version, fresh Vfs options, per-mount mappings used, root mount, mounts attached, initialized) situations at the save point; '
                      'save points: after random prefixes and at the end of every base history (every prefix in the thorough tier for short histories); search rounds %d' % rounds)
    ev.cov['samples'] = [{'step': step_tok(c.steps[i]), 'observed': c.obs[i]['raw'][:300]} for c in cases[:3] for i in range(len(c.steps)) if c.steps[i]['k'] == 'S'][:4]
    seen = {}; uniq = []
    for f in findings:
        k = json.dumps(f.get('sig'), sort_keys=True)
        if k in seen: seen[k] += 1; continue
        seen[k] = 1; uniq.append(f)
    for f in uniq: f['count'] = seen[json.dumps(f.get('sig'), sort_keys=True)]
    return finish(ev, PROP, uniq, broken)

def replay(path):
    return replay_generic(PROP, path, features=['persist', 'async-io'])
