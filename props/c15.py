"""C15 -- handles and descriptors are released when the client releases them."""
import os, sys, json, random, re
from vlib import *
import ptcommon as P
import c08

PROP = 'C15'
HEADER = ('From Coq Require Import List NArith Bool.\nFrom FB Require Import Model.Inodes Model.Handles.\n'
          'Import ListNotations.\nLocal Open Scope N_scope.\n')
USE_KIND = {'getattr': 0, 'fsync': 1, 'fsyncdir': 2, 'flush': 3, 'lseek': 4, 'read': 5, 'write': 6, 'fallocate': 7, 'setattr': 8}
EBADF, ENOSYS = 9, 38

def model_expr(c, recs):
    """history as observed -> Coq term: first_mismatch_h cfg fresh [(hop, hobs)...] 0"""
    fx = P.FhIndex(); root = recs[0]['host']
    no_opendir = c['no_opendir']
    ck = set(); prev_cookies = recs[0]['sizes'][4]
    steps = []
    for r in recs[1:]:
        o = r['op']; ok = r['res'] == 0
        err = '(OHErrno %d)' % r['res']
        if o in ('lookup', 'mkdir', 'mknod', 'symlink', 'link', 'forget', 'bforget'):
            op, orep = P.inode_op(r, fx, root)
            hop = '(HInode %s)' % op
            ob = {'(OOk': '(OHOk', '(OErrno': '(OHErrno'}
            for a, b in ob.items(): orep = orep.replace(a, b)
            if orep == 'OUnit': orep = 'OHUnit'
        elif o in ('rename', 'unlink', 'rmdir'):
            hop = '(HInode ONop)'; orep = 'OHUnit'
        elif o == 'create':
            t = r['host']
            if r['existed'] and r['excl']: t = None
            if r['res'] in (23, 24): t = None
            hop = '(HCreate %d %s %s %s)' % (r['p'], P.coq_opt_target(t, fx), P.coq_bool(r['existed']), P.coq_bool(ok))
            orep = '(OHCreated %d %s)' % (r['ino'], 'None' if r['h'] < 0 else '(Some %d)' % r['h']) if ok else err
        elif o in ('open', 'opendir'):
            hop = '(HOpen %s %d %s)' % (P.coq_bool(o == 'opendir'), r['ino'], P.coq_bool(ok))
            orep = '(OHHandle %d)' % r['h'] if ok else err
        elif o in ('release', 'releasedir'):
            hop = '(HRelease %s %d %d %s)' % (P.coq_bool(o == 'releasedir'), r['ino'], r['h'], P.coq_bool(r.get('flush', False)))
            orep = 'OHUnit' if ok else err
            if ok: ck.discard(r['h'])
        elif o in ('readdir', 'readdirplus'):
            now = r['sizes'][4]; had = r['h'] in ck
            if not ok:
                # an error after getdents64 returned something (the position record was written again): the
                # listing itself worked, a later step failed (do_lookup of an entry: the inode was forgotten)
                if not no_opendir and (now - prev_cookies) == (0 if had else 1) and now > 0 and r['res'] == EBADF:
                    host = '(Some true)'; ck.add(r['h'])
                else:
                    host = 'None'
                    if now == prev_cookies - 1: ck.discard(r['h'])
            else:
                if r['ents'] or no_opendir: nonempty = True
                else: nonempty = (now - prev_cookies) == (0 if had else 1)     # host oracle inferred from the cookie table
                host = '(Some %s)' % P.coq_bool(nonempty)
                if not no_opendir:
                    if nonempty: ck.add(r['h'])
                    else: ck.discard(r['h'])
            ents = '[' + '; '.join('(%s, %s)' % (P.coq_target(e['host'], fx), P.coq_bool(e['del'])) for e in r['ents']) + ']'
            hop = '(HReaddir %s %d %d %s %s)' % (P.coq_bool(r['plus']), r['ino'], r['h'], host, ents)
            orep = '(OHEnts [%s])' % '; '.join('(%d, %s)' % (e['ino'], P.coq_bool(e['del'])) for e in r['ents']) if ok else err
        elif o == 'use':
            hop = '(HUse %d %d %d)' % (USE_KIND[r['kind']], r['ino'], r['h'])
            orep = 'OHUnit' if ok else err
        elif o == 'destroy':
            hop = '(HDestroy %s)' % P.coq_target(root, fx); orep = 'OHUnit'; ck = set()
        else:
            raise Exception('unknown op ' + o)
        prev_cookies = r['sizes'][4]
        sz = r['sizes']
        steps.append('(%s, (%s, %s, (%d,%d,%d), (%d,%d), %d))' % (hop, orep, P.coq_valid(r), sz[0], sz[1], sz[2], sz[3], sz[4], r['fds']))
    cfg = '(mkHC %s %s %s)' % (P.coq_cfg(c['mode']), P.coq_bool(c['no_open']), P.coq_bool(c['no_opendir']))
    return 'first_mismatch_h %s (h_fresh %s %s) [%s] 0' % (cfg, cfg, P.coq_target(root, fx), ';\n '.join(steps))

def predicate(c, recs):
    """C15 evaluated on the implementation's observations alone.
    -> (step index, label, detail) or None"""
    ifh = c['mode'][0]; no_open, no_opendir = c['no_open'], c['no_opendir']
    led = {}; ever = set()
    iled = {1: 2}            # the client's references per inode NUMBER as the server reported it (registers may alias)
    def forget(n, cnt):
        if n != 1: iled[n] = iled.get(n, 0) - min(cnt, iled.get(n, 0))
    fds0 = recs[0]['fds']
    for k, r in enumerate(recs[1:]):
        o = r['op']; ok = r['res'] == 0
        if o in ('lookup', 'mkdir', 'mknod', 'symlink', 'link', 'create') and ok: iled[r['ino']] = iled.get(r['ino'], 0) + 1
        elif o == 'forget': forget(r['ino'], r['count'])
        elif o == 'bforget':
            for a, b in r['reqs']: forget(a, b)
        elif o == 'readdirplus':
            for e in r['ents']:
                if e['del']: iled[e['ino']] = iled.get(e['ino'], 0) + 1
        elif o == 'destroy': iled = {1: 2}
        newh = None
        if o in ('open', 'opendir') and ok: newh = (r['h'], r['ino'])
        if o == 'create' and ok and r['h'] >= 0: newh = (r['h'], r['ino'])
        if newh:
            if newh[0] in ever: return (k, 'handle-reused', 'handle %d was returned before' % newh[0])
            ever.add(newh[0]); led[newh[0]] = newh[1]
        if o in ('release', 'releasedir'):
            off = no_opendir if o == 'releasedir' else no_open
            want = ENOSYS if off else (0 if led.get(r['h']) == r['ino'] else EBADF)
            if r['res'] != want: return (k, 'release', 'release of (inode %d, handle %d) answered %d, expected %d' % (r['ino'], r['h'], r['res'], want))
            if ok: led.pop(r['h'], None)
        if o == 'use':
            pair = led.get(r['h']) == r['ino']
            kind = r['kind']
            if kind == 'lseek': uses_table = True
            elif kind == 'fsyncdir': uses_table = not no_opendir
            else: uses_table = not no_open          # getattr/setattr(handle), fsync, flush, read, write, fallocate
            if r.get('nohandle') and kind in ('getattr', 'setattr'): uses_table = False      # GETATTR / SETATTR without a handle: only the inode counts
            if uses_table and not pair and r['res'] != EBADF and not (kind == 'flush' and no_open):
                return (k, 'handle-use', '%s with (inode %d, handle %d), a pair the client does not hold, answered %d instead of EBADF' % (kind, r['ino'], r['h'], r['res']))
            if uses_table and pair and r['res'] == EBADF and kind in ('lseek', 'fsync', 'fsyncdir', 'flush'):
                return (k, 'handle-use', '%s with the held pair (inode %d, handle %d) answered EBADF' % (kind, r['ino'], r['h']))
        if o in ('readdir', 'readdirplus') and not no_opendir:
            pair = led.get(r['h']) == r['ino']
            if not pair and r['res'] != EBADF: return (k, 'handle-use', 'readdir with a pair the client does not hold answered %d' % r['res'])
            # a handle does not keep its inode alive: once the client has forgotten every reference to the number
            # (over-counted forgets included) the entries can no longer be looked up and EBADF is the right answer
            if pair and r['res'] == EBADF and iled.get(r['ino'], 0) > 0:
                return (k, 'handle-use', 'readdir with a held pair on inode %d (client holds %d references) answered EBADF' % (r['ino'], iled.get(r['ino'], 0)))
        if o == 'destroy': led = {}
        sz = r['sizes']
        if sz[3] != len(led): return (k, 'handle-table', 'server holds %d handles, client %d' % (sz[3], len(led)))
        if sz[4] > sz[3]: return (k, 'cookie-table', '%d directory-position records for %d handles' % (sz[4], sz[3]))
        owned = sz[3] + (0 if ifh else sz[0] - 1)
        if r['fds'] - fds0 != owned:
            return (k, 'fd-leak' if r['fds'] - fds0 > owned else 'fd-lost',
                    '%d descriptors beyond a fresh server, the tables account for %d' % (r['fds'] - fds0, owned))
    return None

def read_setfl_probe_enabled():
    """The probe of the unchanged code's READ defect (a READ whose flags word makes fcntl(F_SETFL) fail closes the
    descriptor of the handle it was presented with; fixes/C15-read-closes-handle-fd.patch) is switched on by the
    presence of its entry (status known, later fixed) in known_findings.d/C15.json: see notes/C15.md, audit 6."""
    try:
        return any(isinstance(k.get('signature'), dict) and k['signature'].get('kind') == 'read'
                   for k in json.load(open(os.path.join(ROOT, 'known_findings.d', 'C15.json'))))
    except Exception:
        return False

def configs(tier):
    cs = []
    for ifh in (0, 1):
        for no_open in (0, 1):
            for no_opendir in (0, 1):
                cs.append(((ifh, 0), no_open, no_opendir))
    cs += [((0, 1), 0, 0), ((1, 1), 0, 0), ((1, 1), 1, 1)]
    return cs

def run_check(tier, seed):
    ev = Evidence(PROP, tier, seed)
    ev.cov['checker_cmd'] = 'make -C coq Props/C15.vo (coqc 8.16.1, full .vo) + Print Assumptions audit'
    ev.cov['trusted_base'] = TRUSTED_COMMON + [
        'Model/Handles.v (over Model/Inodes.v) is a hand transcription of HandleMap, do_open/do_release/create/do_readdir cookie cache/get_data/destroy/import and MountFds::get; tied to the code by running it inside Coq on every generated history and comparing reply, table sizes (hook) and the number of open descriptors of the worker process after every request',
        'descriptor accounting: the ghost counter of the model adds/subtracts per branch what the code opens/closes; for inode objects it is defined as "one descriptor per InodeHandle::File object" and that definition is what the per-request /proc-style descriptor count checks',
        'harness/src/bin/ptables.rs; descriptors counted by fcntl(F_GETFD) over 0..2047 minus the harness\'s own; one single-threaded process per history',
        'whether getdents64 returned a non-empty buffer when no entry was passed on is inferred from the cookie-table size (host oracle)',
    ]
    ev.assumptions = ['single mount under the exported directory (one MountFd)', 'descriptor exhaustion is injected for single requests (first / second / third allocation), not for readdir(plus) and destroy',
                      'descriptors held by libraries outside the crate are not modelled']
    findings, broken = [], []
    audit = std_audit(ev, PROP, broken)
    ok, out, bindir = cargo_build(['ptables'])
    if not ok:
        broken.append({'kind': 'harness-build', 'log': out[-3000:]})
        return finish(ev, PROP, findings, broken)
    rnd = random.Random(seed)
    per = 9 if tier == 'quick' else 200
    cases = []
    for mode, no_open, no_opendir in configs(tier):
        for j in range(per):
            g = P.Gen(random.Random(rnd.getrandbits(48)), no_open, no_opendir, 'c15')
            g.block_base = j * 8; g.blocks = 8          # 9 histories x 8 blocks >= the 66 (handle kind, request, release opcode) combinations
            lines = g.generate(rnd.randint(6, 18), special=(j % 8 == 5))
            cases.append({'mode': mode, 'no_open': no_open, 'no_opendir': no_opendir, 'lines': lines})
        # targeted: cookie left by a listing must go away with releasedir; destroy + re-init; everything released
        cases.append({'mode': mode, 'no_open': no_open, 'no_opendir': no_opendir, 'lines': [
            'lookup 1 0 d1', 'opendir 0 1', 'readdir 1 0 4096 0 1', 'readdirplus 1 0 4096 last 100', 'releasedir 1 0', 'lookup 2 0 f', 'open 1 2',
            'use 2 1 lseek', 'use 1 1 lseek', 'release 1 1', 'release 2 1', 'release 2 1', 'create 3 2 0 newf 0', 'use 3 2 getattr',
            'opendir 3 0', 'readdir 0 3 4096 0 100', 'destroy', 'lookup 4 0 d2', 'opendir 4 4', 'readdir 4 4 4096 0 100', 'releasedir 4 4', 'forget 4 1']})
    if read_setfl_probe_enabled():
        for mode in ((0, 0), (1, 0)):
            # judged by the predicate only: the model has no request that closes a descriptor its table still owns
            cases.append({'mode': mode, 'no_open': 0, 'no_opendir': 0, 'probe': 'read-setfl', 'lines': [
                'lookup 1 0 d1', 'opendir 0 1', 'use 1 0 read flags16384', 'use 1 0 lseek', 'lookup 2 0 f', 'releasedir 1 0']})
    res = c08.run_cases(bindir, cases, 'c15')
    evals = 0; shapes = set(); samples = []; exprs = []; idx = []; pred_fail = {}
    cut = 0
    for ci, (c, (rc, recs, out)) in enumerate(zip(cases, res)):
        hung = [r for r in recs if 'hung' in r]; recs = [r for r in recs if 'hung' not in r]
        if hung:
            # verdict of the watchdog inside the harness: this request did not return
            k = hung[0]['hung']
            findings.append({'what': 'request %d (%s) did not return within %d s' % (k, c['lines'][k] if k < len(c['lines']) else '?', hung[0]['seconds']),
                             'input': {'mode': c['mode'], 'no_open': c['no_open'], 'no_opendir': c['no_opendir'], 'lines': c['lines'][:k + 1]}, 'sig': {'check': 'hang'}})
            continue
        aborted = False
        if rc != 0 and len(recs) > 1 and 'fatal runtime error' in out:
            # the runtime ended the process (e.g. "IO Safety violation: owned file descriptor already closed"): judge what was
            # observed up to there; if the predicate has nothing to say the abort itself is the finding
            aborted = True
            c = dict(c, lines=c['lines'][:len(recs) - 1])
        elif rc != 0 or len(recs) != len(c['lines']) + 1:
            if 'panicked' in out:
                # the server (or an assertion of the harness) panicked: a concrete failing input
                findings.append({'what': 'the run panicked after request %d: %s' % (len(recs) - 1, ' '.join(out[out.find('panicked'):].split())[:300]),
                                 'input': {'mode': c['mode'], 'no_open': c['no_open'], 'no_opendir': c['no_opendir'], 'lines': c['lines'][:len(recs)]}, 'sig': {'check': 'crash'}})
            elif not recs:
                broken.append({'kind': 'harness-run', 'rc': rc, 'case': c, 'log': out[-800:]})
            else:
                cut += 1          # cut by our own timeout / killed: partial coverage, not a finding
            continue
        evals += len(recs) - 1
        for r in recs[1:]:
            shapes.add((c['mode'][0], c['no_open'], c['no_opendir'], r['op'], r['res'] in (0,), r['res'] in (EBADF, ENOSYS)))
        bad = predicate(c, recs)
        led, final_led = c08.ledger_run(recs, c['mode'][0])
        cands = [x for x in (bad, led) if x]
        if cands:
            k, label, detail = min(cands, key=lambda x: x[0])
            r = recs[1 + k]
            sig = {'op': r['op'], 'check': label}
            if r['op'] == 'create': sig.update(existed=bool(r['existed']), failed=r['res'] != 0)
            if label in ('fd-leak', 'fd-lost'): sig.update(ifh=c['mode'][0])
            if r['op'] == 'use': sig.update(kind=r['kind'], rflags=r.get('rflags', -1), nohandle=bool(r.get('nohandle')))
            findings.append({'what': 'after request %d (%s): %s' % (k, c['lines'][k], detail), 'sig': sig,
                             'input': {'mode': c['mode'], 'no_open': c['no_open'], 'no_opendir': c['no_opendir'], 'lines': c['lines'][:k + 1]},
                             'observed': {x: r[x] for x in r if x != 'valid'}})
            pred_fail[ci] = k
        elif aborted:
            findings.append({'what': 'the server process was ended by the runtime after request %d (%s): %s' % (len(recs) - 2, c['lines'][-1], ' '.join(out[out.find('fatal runtime error'):].split())[:200]),
                             'input': {'mode': c['mode'], 'no_open': c['no_open'], 'no_opendir': c['no_opendir'], 'lines': c['lines']}, 'sig': {'check': 'crash'}})
            pred_fail[ci] = len(recs) - 2
        else:
            # quiescence: the generator ends these histories by releasing / forgetting everything
            last = recs[-1]
            if last['sizes'][3] == 0 and all(v == 0 for n, v in final_led.items() if n != 1):
                sz = last['sizes']; sz0 = recs[0]['sizes']
                maps_differ = c['mode'][1] == 1 and (sz[1] != sz0[1] or sz[2] != sz0[2])    # identity->number maps are kept on purpose in the counter modes
                if sz[0] != 1 or sz[3] != 0 or sz[4] != 0 or last['fds'] != recs[0]['fds'] or maps_differ:
                    findings.append({'what': 'after releasing every handle and forgetting every inode the server keeps %d inode objects, %d handles, %d position records, %d descriptors (fresh: 1,0,0,%d)' % (sz[0], sz[3], sz[4], last['fds'], recs[0]['fds']),
                                     'sig': {'check': 'quiescence', 'ifh': c['mode'][0]}, 'input': c})
        if len(samples) < 3: samples.append({'cfg': [c['mode'], c['no_open'], c['no_opendir']], 'lines': c['lines'][:6], 'first_records': [{x: r[x] for x in r if x != 'valid'} for r in recs[1:3]]})
        if c.get('probe') or aborted: continue
        try:
            exprs.append(model_expr(c, recs)); idx.append(ci)
        except Exception as ex:
            broken.append({'kind': 'correspondence', 'name': 'encoding of an observed run failed', 'error': repr(ex), 'case': c})
    if audit['ok'] and exprs:
        vals, errs = coq_eval_values('c15', HEADER, exprs, shard=10)
        for e in errs[:3]: broken.append({'kind': 'correspondence', 'name': 'coq evaluation of cases failed', 'log': e})
        for ci, v in zip(idx, vals):
            if v is None or re.match(r'= None', v): continue
            m = re.search(r'Some (\d+)', v); k = int(m.group(1)) if m else -1
            c = cases[ci]
            broken.append({'kind': 'correspondence', 'name': 'Model/Handles.v hstep vs PassthroughFs (reply, table sizes, descriptor count)',
                           'case': {'mode': c['mode'], 'no_open': c['no_open'], 'no_opendir': c['no_opendir'], 'lines': c['lines'][:k + 1]},
                           'first_mismatching_request': k,
                           'observed': {x: y for x, y in res[ci][1][1 + k].items() if x != 'valid'} if 0 <= k < len(res[ci][1]) - 1 else None,
                           'property_predicate_failed_on_this_case': ci in pred_fail})
        ev.cov['model_vs_impl_histories'] = len(exprs)
    ev.cov['evaluations'] = evals
    ev.cov['histories_cut_by_timeout'] = cut
    ev.cov['distinct_nontrivial'] = len(shapes)
    ev.cov['rule'] = ('random open/opendir/create/release/readdir/use/forget/destroy histories in 11 (inode_file_handles, use_host_ino, no_open, no_opendir) configurations; '
                      'evaluations = requests after which reply, 5 table sizes and the descriptor count were compared with the Coq model and the client-side predicate; '
                      'distinct_nontrivial = distinct (ifh, no_open, no_opendir, request kind, ok, table-error) combinations')
    ev.cov['samples'] = samples
    return finish(ev, PROP, findings, broken)
