"""C12 -- INIT negotiation enables exactly the features both sides asked for."""
import os, sys, random, collections, struct
from vlib import *
import server_common as S
sys.path.insert(0, os.path.join(ROOT, 'translator'))
import rust_abi

PROP = 'C12'
SESSION_BUFSIZE = 256 * 4096 + 0x1000   # FUSE_KERN_BUF_PAGES * pagesize + FUSE_HEADER_SIZE (linux_session.rs), checked below

def session_bufsize():
    src = open(os.path.join(REPO, 'src/transport/fusedev/mod.rs')).read()
    import re
    a = re.search(r'pub const FUSE_KERN_BUF_PAGES: usize = (\d+);', src); b = re.search(r'pub const FUSE_HEADER_SIZE: usize = (0x[0-9a-fA-F]+|\d+);', src)
    ls = open(os.path.join(REPO, 'src/transport/fusedev/linux_session.rs')).read()
    if not a or not b or 'bufsize: FUSE_KERN_BUF_PAGES * pagesize() + FUSE_HEADER_SIZE' not in ls:
        raise rust_abi.TranslateError('session buffer size expression not found')
    return int(a.group(1)) * 4096 + int(b.group(1), 0)

def gen_init_cases(rng, n):
    cases = []
    for i in range(n):
        q = S.gen_wf(rng, 26)
        c = rng.random()
        if c < 0.08: q['fields']['major'] = rng.choice([0, 1, 6])
        elif c < 0.16: q['fields']['major'] = rng.choice([8, 9, 100, (1 << 32) - 1])
        if i < 9:
            # always present: legacy clients that get the 24-byte reply (5 <= minor < 23), both ends and the middle
            # (a seeded panic in that reply branch was caught through these)
            q['fields']['major'] = 7; q['fields']['minor'] = (5, 12, 22)[i % 3]
            q['fields']['flags'] &= ~(1 << 30); q['flags2'] = None
        coherent = True
        if q['fields']['flags'] & (1 << 30) and q['fields']['minor'] < 36:
            if rng.random() < 0.7: q['fields']['minor'] = rng.choice([36, 37, 38, 39, 40])
            else: coherent = False
        q['coherent'] = coherent
        # rebuild bytes with the adjusted fields
        body = S.enc_struct('fuse_init_in', q['fields'], S.COMPAT['fuse_init_in'])
        tb = b'' if q.get('flags2') is None else struct.pack('<I', q['flags2']) + bytes(44)
        h = q['hdr']
        q['bytes'] = S.in_header(40 + len(body) + len(tb), 26, h['unique'], h['nodeid'], h['uid'], h['gid'], h['pid']) + body + tb
        fs = ('init', q['fields']['_want']) if (i < 9 or rng.random() < 0.9) else S.gen_fs(rng, 'err', 26, {})
        q['fs'] = fs
        cases.append(S.make_case(rng, i, q['bytes'], fs, q, cap=((4096, 1 << 17, 80)[i // 3] if i < 9 else rng.choice([4096, 1 << 17, 80, 40, 24, 23])), remap=(0, 0), minor=None, vu=False))
    return cases

def run_check(tier, seed):
    ev = Evidence(PROP, tier, seed)
    ev.cov['checker_cmd'] = 'make -C coq Props/C12.vo (coqc 8.16.1, full .vo) + Print Assumptions audit'
    ev.cov['trusted_base'] = TRUSTED_COMMON + S.SERVER_TRUSTED + [
        'coq/Spec/Init.v: how a Linux client reads the INIT reply (flags2 only together with FUSE_INIT_EXT, only in the 64-byte form), transcribed from fs/fuse/inode.c process_init_reply',
        'FsOptions::all() mask, the session buffer size expression and VfsOptions::default().out_opts are re-read from the source on every run',
        'harness/src/bin/inittoggle.rs: real Vfs / PassthroughFs / OverlayFs objects; the internal switches are observed through behaviour probes (OPEN/OPENDIR ENOSYS, /proc/self/fdinfo flags of the descriptor an O_WRONLY|O_APPEND open produced, setuid bit after open(O_TRUNC) with FOPEN_IN_KILL_SUIDGID as root with CAP_FSETID, FUSE_ATTR_DAX on lookup)']
    ev.assumptions = ['page size 4096 (max_write = 256 pages); with 64 KiB pages the write-size bound does not hold and the statement says so',
                      'clients are coherent: FUSE_INIT_EXT is only sent by minor >= 36 clients (others are exercised for model correspondence only)',
                      'quick tier samples capability words per switch combination (none, all, two rotating single bits, one composite/random); thorough runs every word against every combination']
    broken = []; findings = []; import time as _t; ph = {}; t0 = _t.time()
    try:
        write_if_changed(os.path.join(COQ, 'Gen/RustABI.v'), rust_abi.emit_coq(rust_abi.translate(REPO)))
        bufsize = session_bufsize()
    except rust_abi.TranslateError as ex:
        broken.append({'kind': 'translator', 'item': 'c12 source constants', 'error': str(ex)}); bufsize = SESSION_BUFSIZE
    audit = std_audit(ev, PROP, broken); ph['audit'] = round(_t.time() - t0, 1)
    ok, out, bindir = cargo_build(['codec', 'inittoggle'])
    if not ok:
        broken.append({'kind': 'harness-build', 'log': out[-3000:]})
        return finish(ev, PROP, findings, broken)
    ph['build'] = round(_t.time() - t0, 1)
    rng = random.Random(seed)
    n = 300 if tier == 'quick' else 6000
    cases = gen_init_cases(rng, n)
    rc, obs, raw = S.run_impl(cases, bindir=bindir)
    if rc != 0 or len(obs) != len(cases): broken.append({'kind': 'harness-run', 'log': raw[-1500:]})
    ph['impl'] = round(_t.time() - t0, 1)
    mask = S.fsopt_mask()
    exprs = []; meta = []; nontriv = set(); hist = collections.Counter()
    for c in cases:
        o = obs.get(c['id'])
        if o is None: continue
        q = c['wf']
        hist[('major%s' % ('<7' if q['fields']['major'] < 7 else ('>7' if q['fields']['major'] > 7 else '=7')), 'ext' if q['fields']['flags'] >> 30 & 1 else 'legacy',
              'payload' if q.get('flags2') is not None else 'nopayload', c['fs'][0])] += 1
        if not q['coherent'] or c['cap'] < 80: continue
        r = S.reply_of(c, o)
        nontriv.add((q['fields']['major'] == 7, min(q['fields']['minor'], 40), bool(q['fields']['flags'] >> 30 & 1), q.get('flags2') is not None,
                     c['fs'][0], (c['fs'][1] >> 32) != 0 if c['fs'][0] == 'init' else None, c['tr']))
        exprs.append('(init_reply_ok %s %d %s %d %s)' % (S.coq_wfreq(q), mask, S.coq_fs(c['fs']), bufsize, hexN(r if r is not None else b'')))
        meta.append(c)
        # the capability word handed to the filesystem must be what the client offered, restricted to known bits
        if q['fields']['major'] == 7:
            want_cap = q['fields']['flags']
            if want_cap >> 30 & 1:
                want_cap = (want_cap | (q['flags2'] << 32)) if q.get('flags2') is not None else (want_cap & ~(1 << 30))
            want_cap &= mask
            got = [x for x in o['calls'] if x.startswith('init(')]
            if got != ['init(0,0,0|n:%d)' % want_cap]:
                findings.append({'what': 'INIT: filesystem was offered %s, expected capable=%d' % (got, want_cap), 'sig': {'part': 'capable'}, 'input': S.case_json(c, o)})
    ok2, out2 = coq_make(['Spec/Init.vo', 'Model/ServerCmp.vo'])
    if not ok2: broken.append({'kind': 'proof', 'name': 'Spec build', 'site': coq_error_site(out2)})
    hdr = S.SPEC_HEADER.replace('Spec.Replies.', 'Spec.Replies Spec.Init.')
    fails, errs = coq_check_cases('c12spec', hdr, exprs, shard=(100 if tier == 'quick' else 60))
    if errs: broken.append({'kind': 'spec-eval', 'log': errs[0]})
    for i in fails:
        c = meta[i]; o = obs[c['id']]; q = c['wf']
        r = S.reply_of(c, o) or b''
        det = {}
        if len(r) >= 16 + 16:
            det['reply_flags'] = struct.unpack_from('<I', r, 16 + 12)[0]
            if len(r) >= 16 + 64: det['reply_flags2'] = struct.unpack_from('<I', r, 16 + 32)[0]
        ext_lost = bool(det.get('reply_flags2')) and not (det.get('reply_flags', 0) >> 30 & 1)
        findings.append({'what': 'INIT (major %d minor %d flags 0x%x flags2 %s want 0x%x): reply does not enable exactly capable&want as the client reads it%s'
                                 % (q['fields']['major'], q['fields']['minor'], q['fields']['flags'], q.get('flags2'), c['fs'][1] if c['fs'][0] == 'init' else 0,
                                    ' [flags2 set without FUSE_INIT_EXT in flags]' if ext_lost else ''),
                         'sig': {'part': 'reply', 'ext_marker_missing': ext_lost}, 'input': S.case_json(c, o), 'reply_fields': det})
    ph['spec'] = round(_t.time() - t0, 1)
    bad_idx = S.model_vs_impl('c12', cases, obs, mask, broken)
    ph['model'] = round(_t.time() - t0, 1)
    failed_ids = set(f['input']['id'] for f in findings)
    for i in bad_idx:
        if cases[i]['id'] not in failed_ids:
            broken.append({'kind': 'correspondence', 'name': 'Model/Server.v do_init vs Server::init', 'case': S.case_json(cases[i], obs[cases[i]['id']])})
    # toggles in Vfs / passthrough / overlay
    import c12_toggles
    tn, tnon, tsamples = c12_toggles.run(rng, tier, bindir, findings, broken)
    ph['toggles'] = round(_t.time() - t0, 1); ev.cov['phase_end_s'] = ph
    ev.cov['evaluations'] = len(obs) + tn; ev.cov['distinct_nontrivial'] = len(nontriv) + tnon
    n24 = sum(1 for c in meta if c['wf']['fields']['major'] == 7 and 5 <= c['wf']['fields']['minor'] < 23 and c['fs'][0] == 'init')
    ev.cov['replies_24_byte_form_checked'] = n24
    if n24 < 9: broken.append({'kind': 'coverage', 'name': 'INIT cases with 5 <= minor < 23 evaluated by the specification', 'n': n24})
    ev.cov['spec_evaluations'] = len(exprs); ev.cov['model_vs_impl_disagreements'] = len(bad_idx); ev.cov['toggle_cases'] = tn
    ev.cov['rule'] = ('INIT requests over (major in {<7,7,>7}, minor incl. 0,4,5,22,23,35,36,38, flags single bits and random, INIT_EXT with/without the 48-byte tail, flags2 single bits and random) '
                      'x filesystem want sets (random 64-bit, all, none, single extended bits) x reply capacities; reply parsed by Spec/Init.v as the kernel does; plus Vfs/passthrough/overlay init '
                      'under every configuration switch combination followed by open/opendir probes; distinct_nontrivial = distinct (major=7?, minor, ext?, payload?, result kind, want has extended bits?, transport) + distinct toggle configurations')
    ev.cov['input_distribution'] = {'/'.join(k): v for k, v in sorted(hist.items(), key=lambda kv: -kv[1])[:30]}
    ev.cov['samples'] = [S.case_json(c, obs.get(c['id'])) for c in cases[:2]] + tsamples[:2]
    return finish(ev, PROP, findings, broken)

def replay(path):
    return S.replay(PROP, path)
