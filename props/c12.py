"""C12 -- INIT negotiation enables exactly the features both sides asked for."""
import os, sys, random, collections, struct
from vlib import *
import server_common as S
sys.path.insert(0, os.path.join(ROOT, 'translator'))
import rust_abi

PROP = 'C12'
SESSION_BUFSIZE = 256 * 4096 + 0x1000   # FUSE_KERN_BUF_PAGES * pagesize + FUSE_HEADER_SIZE (linux_session.rs), checked below

def session_bufsize():
    src = open(os.path.join(REPO, 'src/transport/fusedev/mod.rs')).read()
    import re
    a = re.search(r'pub const FUSE_KERN_BUF_PAGES: usize = (\d+);', src); b = re.search(r'pub const FUSE_HEADER_SIZE: usize = (0x[0-9a-fA-F]+|\d+);', src)
    ls = open(os.path.join(REPO, 'src/transport/fusedev/linux_session.rs')).read()
    if not a or not b or 'bufsize: FUSE_KERN_BUF_PAGES * pagesize() + FUSE_HEADER_SIZE' not in ls:
        raise rust_abi.TranslateError('session buffer size expression not found')
    return int(a.group(1)) * 4096 + int(b.group(1), 0)

TRANSPORTS = ('fusedev', 'virtio', 'chan')
GRID_MINORS = (0, 4, 5, 12, 22, 23, 35, 36, 40)

def gen_init_cases(rng, n, mask):
    """deterministic blocks first (every shape of the request the handler distinguishes), then random requests.
    blocks:  G0 legacy clients with the 24-byte reply (minor 5, 12, 22) on the three reply capacities;
             G1 minor x form grid: {no marker, marker} x {no tail, 48-byte tail, 47-byte tail, 60-byte tail};
             G2 every capability bit alone: offered alone (want = all) and wanted alone (offered = all);
             G3 major mismatch x form;  G4 filesystem refuses init;  G5 an earlier INIT negotiated an old minor;
    transports rotate over fusedev / virtio / the real channel; every third case installs the metrics hook
    (on_init_params must not change the reply)."""
    cases = []
    low = mask & 0xffffffff; high = mask >> 32; EXT = 1 << 30
    def add(major, minor, flags, f2, tail_len, want, fs=None, cap=4096, prior=None, coherent=True, q=None, tr=None):
        i = len(cases)
        q = q or S.gen_wf(rng, 26)
        q['fields'].update(major=major, minor=minor, flags=flags, _want=want)
        # the 7.36 extension is `present` for the client-side reading iff the whole InitIn2 (48 bytes) is there
        q['flags2'] = f2 if (f2 is not None and tail_len >= 48) else None
        q['coherent'] = coherent
        body = S.enc_struct('fuse_init_in', q['fields'], S.COMPAT['fuse_init_in'])
        tb = (struct.pack('<I', f2 or 0) + bytes(60))[:tail_len]
        h = q['hdr']
        q['bytes'] = S.in_header(40 + len(body) + len(tb), 26, h['unique'], h['nodeid'], h['uid'], h['gid'], h['pid']) + body + tb
        q['fs'] = fs or ('init', want)
        c = S.make_case(rng, i, q['bytes'], q['fs'], q, transport=tr or TRANSPORTS[i % 3], cap=cap, remap=(0, 0), minor=prior, vu=False)
        if prior is None: c['minor'] = None
        if i % 3 == 2: c['hook'] = True
        cases.append(c)
    ALLW = (1 << 64) - 1
    for k in range(9):                                                     # G0
        add(7, (5, 12, 22)[k % 3], rng.getrandbits(32) & ~EXT, None, 0, rng.getrandbits(64), cap=(4096, 1 << 17, 80)[k // 3], tr=TRANSPORTS[k % 3] if k // 3 != 2 else 'fusedev')
    forms = ((0, None, 0), (0, 0xffffffff, 48), (EXT, None, 0), (EXT, 0xffffffff, 48), (EXT, 0xffffffff, 47), (EXT, 0xffffffff, 60))
    for minor in GRID_MINORS:                                              # G1
        for ext, f2, tl in forms:
            add(7, minor, (0xffffffff & ~EXT) | ext, f2, tl, ALLW)
    for b in range(64):                                                    # G2
        add(7, 36, 0xffffffff, 0xffffffff, 48, 1 << b)                     #   wanted alone, everything offered
        if b < 32: add(7, 33 if b != 30 else 36, 1 << b, None, 0, ALLW)    #   offered alone (bit 30 = the marker without its tail)
        else: add(7, 38, EXT, 1 << (b - 32), 48, ALLW)
    for major in (0, 6, 8, (1 << 32) - 1):                                 # G3
        add(major, 31, low & ~EXT, None, 0, ALLW)
        add(major, 38, low | EXT, high, 48, ALLW)
        add(major, 36, low | EXT, high, 48, 0, fs=('err', 'os', 13))       #   a filesystem that would refuse: it must not even be asked
    for minor in (4, 22, 36):                                              # G4
        add(7, minor, low & ~EXT, None, 0, 0, fs=('err', 'os', 13))
        add(7, minor, low | EXT, high, 48, 0, fs=('err', 'kind', 6))
    for prior in (3, 4, 12):                                               # G5
        add(7, 38, low | EXT, high, 48, ALLW, prior=prior)
    ndet = len(cases)
    while len(cases) < max(n, ndet + 60):                                  # random requests
        q = S.gen_wf(rng, 26)
        f = q['fields']; major = f['major']
        c = rng.random()
        if c < 0.08: major = rng.choice([0, 1, 6])
        elif c < 0.16: major = rng.choice([8, 9, 100, (1 << 32) - 1])
        minor = f['minor']; coherent = True
        if f['flags'] & EXT and minor < 36:
            if rng.random() < 0.7: minor = rng.choice([36, 37, 38, 39, 40])
            else: coherent = False
        f2 = q.get('flags2')
        tl = 0 if f2 is None else (48 if rng.random() < 0.85 else rng.choice([1, 4, 47, 49, 60]))
        fs = ('init', f['_want']) if rng.random() < 0.9 else S.gen_fs(rng, 'err', 26, {})
        add(major, minor, f['flags'], f2, tl, f['_want'], fs=fs, cap=rng.choice([4096, 1 << 17, 80, 40, 24, 23]),
            prior=rng.choice([None, None, None, 3, 4, 33]), coherent=coherent, q=q, tr=rng.choice(['fusedev', 'fusedev', 'virtio', 'chan']))
    return cases, ndet

def run_check(tier, seed):
    ev = Evidence(PROP, tier, seed)
    ev.cov['checker_cmd'] = 'make -C coq Props/C12.vo (coqc 8.16.1, full .vo) + Print Assumptions audit'
    ev.cov['trusted_base'] = TRUSTED_COMMON + S.SERVER_TRUSTED + [
        'coq/Spec/Init.v: how a Linux client reads the INIT reply (flags2 only together with FUSE_INIT_EXT, only in the 64-byte form), transcribed from fs/fuse/inode.c process_init_reply',
        'FsOptions::all() mask, the session buffer size expression and VfsOptions::default().out_opts are re-read from the source on every run',
        'harness/src/bin/inittoggle.rs: real Vfs / PassthroughFs / OverlayFs objects; the internal switches are observed through behaviour probes (OPEN/OPENDIR ENOSYS, /proc/self/fdinfo flags of the descriptor an O_WRONLY|O_APPEND open produced, setuid bit after open(O_TRUNC) with FOPEN_IN_KILL_SUIDGID as root with CAP_FSETID, FUSE_ATTR_DAX on lookup)']
    ev.assumptions = ['page size 4096 (max_write = 256 pages); with 64 KiB pages the write-size bound does not hold and the statement says so',
                      'clients are coherent: FUSE_INIT_EXT is only sent by minor >= 36 clients (others are exercised for model correspondence only)',
                      'quick tier samples capability words per switch combination (none, all, two rotating single bits, one composite/random); thorough runs every word against every combination']
    broken = []; findings = []; import time as _t; ph = {}; t0 = _t.time()
    try:
        write_if_changed(os.path.join(COQ, 'Gen/RustABI.v'), rust_abi.emit_coq(rust_abi.translate(REPO)))
        bufsize = session_bufsize()
    except rust_abi.TranslateError as ex:
        broken.append({'kind': 'translator', 'item': 'c12 source constants', 'error': str(ex)}); bufsize = SESSION_BUFSIZE
    audit = std_audit(ev, PROP, broken); ph['audit'] = round(_t.time() - t0, 1)
    ok, out, bindir = cargo_build(['codec', 'inittoggle'])
    if not ok:
        broken.append({'kind': 'harness-build', 'log': out[-3000:]})
        return finish(ev, PROP, findings, broken)
    ph['build'] = round(_t.time() - t0, 1)
    rng = random.Random(seed)
    n = 300 if tier == 'quick' else 6000
    mask = S.fsopt_mask()
    cases, ndet = gen_init_cases(rng, n, mask)
    ev.cov['deterministic_init_cases'] = ndet
    rc, obs, raw = S.run_impl(cases, bindir=bindir)
    if rc != 0 or len(obs) != len(cases): broken.append({'kind': 'harness-run', 'log': raw[-1500:]})
    ph['impl'] = round(_t.time() - t0, 1)
    exprs = []; meta = []; nontriv = set(); hist = collections.Counter()
    for c in cases:
        o = obs.get(c['id'])
        if o is None: continue
        q = c['wf']
        hist[('major%s' % ('<7' if q['fields']['major'] < 7 else ('>7' if q['fields']['major'] > 7 else '=7')), 'ext' if q['fields']['flags'] >> 30 & 1 else 'legacy',
              'payload' if q.get('flags2') is not None else 'nopayload', c['fs'][0])] += 1
        if not q['coherent'] or c['cap'] < 80: continue
        r = S.reply_of(c, o)
        nontriv.add((q['fields']['major'] == 7, min(q['fields']['minor'], 40), bool(q['fields']['flags'] >> 30 & 1), q.get('flags2') is not None,
                     c['fs'][0], (c['fs'][1] >> 32) != 0 if c['fs'][0] == 'init' else None, c['tr']))
        exprs.append('(init_reply_ok %s %d %s %d %s)' % (S.coq_wfreq(q), mask, S.coq_fs(c['fs']), bufsize, hexN(r if r is not None else b'')))
        meta.append(c)
        # a major-version mismatch is answered without consulting the filesystem (the client's next INIT, with major 7,
        # is the one that negotiates; a filesystem such as the Vfs refuses to be initialised twice)
        if q['fields']['major'] != 7:
            got = [x for x in o['calls'] if x.startswith('init(')]
            if got:
                findings.append({'what': 'INIT with major %d (minor %d): the filesystem was initialised (%s) although the major version does not match; the protocol prescribes a version-only answer and a second INIT'
                                         % (q['fields']['major'], q['fields']['minor'], got[0]), 'sig': {'part': 'major-mismatch-init'}, 'input': S.case_json(c, o)})
        # the capability word handed to the filesystem must be what the client offered, restricted to known bits
        if q['fields']['major'] == 7:
            want_cap = q['fields']['flags']
            if want_cap >> 30 & 1:
                want_cap = (want_cap | (q['flags2'] << 32)) if q.get('flags2') is not None else (want_cap & ~(1 << 30))
            want_cap &= mask
            got = [x for x in o['calls'] if x.startswith('init(')]
            if got != ['init(0,0,0|n:%d)' % want_cap]:
                findings.append({'what': 'INIT: filesystem was offered %s, expected capable=%d' % (got, want_cap), 'sig': {'part': 'capable'}, 'input': S.case_json(c, o)})
    ok2, out2 = coq_make(['Spec/Init.vo', 'Model/ServerCmp.vo'])
    if not ok2: broken.append({'kind': 'proof', 'name': 'Spec build', 'site': coq_error_site(out2)})
    hdr = S.SPEC_HEADER.replace('Spec.Replies.', 'Spec.Replies Spec.Init.')
    fails, errs = coq_check_cases('c12spec', hdr, exprs, shard=45)
    if errs: broken.append({'kind': 'spec-eval', 'log': errs[0]})
    for i in fails:
        c = meta[i]; o = obs[c['id']]; q = c['wf']
        r = S.reply_of(c, o) or b''
        det = {}
        if len(r) >= 16 + 16:
            det['reply_flags'] = struct.unpack_from('<I', r, 16 + 12)[0]
            if len(r) >= 16 + 64: det['reply_flags2'] = struct.unpack_from('<I', r, 16 + 32)[0]
        ext_lost = bool(det.get('reply_flags2')) and not (det.get('reply_flags', 0) >> 30 & 1)
        findings.append({'what': 'INIT (major %d minor %d flags 0x%x flags2 %s want 0x%x): reply does not enable exactly capable&want as the client reads it%s'
                                 % (q['fields']['major'], q['fields']['minor'], q['fields']['flags'], q.get('flags2'), c['fs'][1] if c['fs'][0] == 'init' else 0,
                                    ' [flags2 set without FUSE_INIT_EXT in flags]' if ext_lost else ''),
                         'sig': {'part': 'reply', 'ext_marker_missing': ext_lost}, 'input': S.case_json(c, o), 'reply_fields': det})
    ph['spec'] = round(_t.time() - t0, 1)
    bad_idx = S.model_vs_impl('c12', cases, obs, mask, broken)
    ph['model'] = round(_t.time() - t0, 1)
    failed_ids = set(f['input']['id'] for f in findings)
    for i in bad_idx:
        if cases[i]['id'] not in failed_ids:
            broken.append({'kind': 'correspondence', 'name': 'Model/Server.v do_init vs Server::init', 'case': S.case_json(cases[i], obs[cases[i]['id']])})
    # toggles in Vfs / passthrough / overlay
    import c12_toggles
    tn, tnon, tsamples = c12_toggles.run(rng, tier, bindir, findings, broken)
    ph['toggles'] = round(_t.time() - t0, 1); ev.cov['phase_end_s'] = ph
    ev.cov['evaluations'] = len(obs) + tn; ev.cov['distinct_nontrivial'] = len(nontriv) + tnon
    n24 = sum(1 for c in meta if c['wf']['fields']['major'] == 7 and 5 <= c['wf']['fields']['minor'] < 23 and c['fs'][0] == 'init')
    ev.cov['replies_24_byte_form_checked'] = n24
    if n24 < 9: broken.append({'kind': 'coverage', 'name': 'INIT cases with 5 <= minor < 23 evaluated by the specification', 'n': n24})
    ev.cov['spec_evaluations'] = len(exprs); ev.cov['model_vs_impl_disagreements'] = len(bad_idx); ev.cov['toggle_cases'] = tn
    ev.cov['rule'] = ('deterministic INIT blocks (minor {0,4,5,12,22,23,35,36,40} x {marker, no marker} x tail {none, 48, 47, 60 bytes}; every capability bit offered alone and wanted alone; '
                      'major mismatch x form; refused init; earlier INIT with an old minor; three transports rotating; metrics hook on every third) then random '
                      'INIT requests over (major in {<7,7,>7}, minor incl. 0,4,5,22,23,35,36,38, flags single bits and random, INIT_EXT with/without the 48-byte tail, flags2 single bits and random) '
                      'x filesystem want sets (random 64-bit, all, none, single extended bits) x reply capacities; reply parsed by Spec/Init.v as the kernel does; plus Vfs/passthrough/overlay init '
                      'under every configuration switch combination, two request orders, late mount, failing backend, dax thresholds, followed by open/opendir probes and their twins (release, releasedir, create, setattr, async open); distinct_nontrivial = distinct (major=7?, minor, ext?, payload?, result kind, want has extended bits?, transport) + distinct toggle configurations')
    ev.cov['input_distribution'] = {'/'.join(k): v for k, v in sorted(hist.items(), key=lambda kv: -kv[1])[:30]}
    ev.cov['samples'] = [S.case_json(c, obs.get(c['id'])) for c in cases[:2]] + tsamples[:2]
    return finish(ev, PROP, findings, broken)

def replay(path):
    return S.replay(PROP, path)
