"""C02 -- each request is decoded into exactly the operation and arguments the client sent."""
import os, sys, random, collections, re
from vlib import *
import server_common as S
sys.path.insert(0, os.path.join(ROOT, 'translator'))
import server_dispatch, rust_abi, server_handlers

PROP = 'C02'

def run_check(tier, seed):
    ev = Evidence(PROP, tier, seed)
    ev.cov['checker_cmd'] = 'make -C coq Props/C02.vo (coqc 8.16.1, full .vo) + Print Assumptions audit'
    ev.cov['trusted_base'] = TRUSTED_COMMON + S.SERVER_TRUSTED + [
        'translator/server_dispatch.py (arms of the dispatch match, self.fs.<method> calls per handler, Arc<FS> forwarding bodies, server constants); regenerated into coq/Gen/RustDispatch.v on every run',
        'coq/Spec/Requests.v: expected_call (the meaning of each opcode in terms of kernel field names) is the specification; encode_req lays requests out with the kernel struct tables',
        'translator/server_handlers.py (Rust-subset parser + symbolic execution of each handler body up to its self.fs.<method>(..) call: request reads, guards, call arguments; ctx accessors read from mod.rs); '
        'regenerated into coq/Gen/RustHandlers.v on every run; coq/Model/ServerSrc.v gives the read steps their meaning (same Reader primitives as Model/Server.v); libc RENAME_* values, '
        'the one-to-one From impls behind `.into()` on nested structs, and the harness argument log order are trusted (checked by the differential runs)']
    ev.assumptions = ['C02_decode_exact is proved in Coq for all 45 dispatched opcodes other than INIT (INIT is C12); the same predicate is evaluated on the implementation for every generated request']
    broken = []; findings = []
    try:
        write_if_changed(os.path.join(COQ, 'Gen/RustDispatch.v'), server_dispatch.emit_coq(server_dispatch.translate(REPO)))
        write_if_changed(os.path.join(COQ, 'Gen/RustABI.v'), rust_abi.emit_coq(rust_abi.translate(REPO)))
    except rust_abi.TranslateError as ex:
        broken.append({'kind': 'translator', 'item': 'translator/server_dispatch.py', 'error': str(ex)})
    # handler bodies -> Gen/RustHandlers.v (the call each handler makes as a function of the decoded request)
    suspects = []           # handler functions whose source tie is broken: their opcodes get extra cases, generated first
    disp = []
    try:
        ht = server_handlers.translate(REPO)
        write_if_changed(os.path.join(COQ, 'Gen/RustHandlers.v'), server_handlers.emit_coq(ht))
        disp = server_dispatch.translate(REPO)['dispatch']
        ev.cov['src_handlers'] = {'translated': [e['fn'] for e in ht['entries']],
                                  'untranslated': dict((u['fn'], u['why']) for u in ht['untranslated'])}
        for fn in ht['lost']:
            suspects.append(fn)
            broken.append({'kind': 'translator', 'item': 'translator/server_handlers.py', 'handler': fn,
                           'error': 'handler %s is no longer in the translated subset: %s' % (fn, ht['lost_why'].get(fn, 'not dispatched'))})
    except (rust_abi.TranslateError, server_handlers.Unsupported) as ex:
        broken.append({'kind': 'translator', 'item': 'translator/server_handlers.py', 'error': str(ex)})
    audit = std_audit(ev, PROP, broken)
    for b in broken:
        m = re.fullmatch(r'h_(\w+)_calls_src', str(b.get('theorem_or_lemma') or '')) if b.get('kind') == 'proof' else None
        if m:
            b['handler'] = m.group(1); suspects.append(m.group(1))
            b['tie'] = 'Model/Server.v h_%s no longer makes the filesystem call that the body of fn %s in src/api/server/sync_io.rs makes (Gen/RustHandlers.v)' % (m.group(1), m.group(1))
    suspect_ops = sorted(set(n for n, _op, h, _ms in disp if h in suspects))
    ok, out, bindir = cargo_build(['codec'])
    if not ok:
        broken.append({'kind': 'harness-build', 'log': out[-3000:]})
        return finish(ev, PROP, findings, broken)
    n = 1000 if tier == 'quick' else 8000
    rng = random.Random(seed)
    # well-formed requests only (the property quantifies over field valuations), comfortable capacity
    cases = []
    if suspect_ops:
        # the tie of these handlers to the source is broken: look for the concrete request first, and harder
        cases = [c for c in S.gen_cases(rng, 600 if tier == 'quick' else 4000, opcodes=suspect_ops, frac_malformed=0.0, cap=1 << 17) if c['wf']]
        for i, c in enumerate(cases): c['id'] = 2 * 10 ** 6 + i
        ev.cov['targeted_opcodes'] = suspect_ops; ev.cov['targeted_cases'] = len(cases)
    cases += [c for c in S.gen_cases(rng, n, frac_malformed=0.0, cap=1 << 17) if c['wf']]
    cases += [c for c in S.gen_config_cases(rng, len(cases) + 100000) if c['wf']['op'] != 26]
    # requests near the size limits: full max_write (1 MiB) payloads and the largest request the transport buffer holds
    big = []
    for pl in ((1 << 20) - 81, (1 << 20) - 80, (1 << 20) - 79, 1 << 20, (1 << 20) + 4096 - 80):
        q = S.gen_big_write(rng, pl)
        big.append(S.make_case(rng, 0, q['bytes'], q['fs'], q, transport='fusedev', cap=1 << 17, minor=None, vu=False))
    if tier == 'thorough':
        for pl in ((1 << 20) - 81, 1 << 20, (1 << 20) + 4096 - 80):
            q = S.gen_big_write(rng, pl)
            big.append(S.make_case(rng, 0, q['bytes'], q['fs'], q, transport='virtio', cap=1 << 17, minor=None, vu=False))
    for i, c in enumerate(big): c['id'] = 10 ** 6 + i
    cases += big
    for c in cases:
        if c['remap'] == 'fail': c['remap'] = (rng.getrandbits(32), rng.getrandbits(32))
        if c['wf']['op'] in (48, 49): c['vu'] = True
    rc, obs, raw = S.run_impl(cases, bindir=bindir)
    if rc != 0 or len(obs) != len(cases):
        broken.append({'kind': 'harness-run', 'log': raw[-1500:]})
    mask = S.fsopt_mask()
    exprs = []; meta = []
    hist = collections.Counter(); nontriv = set()
    for c in cases:
        o = obs.get(c['id'])
        if o is None: continue
        q = c['wf']; hist[S.OPS[q['op']][0]] += 1
        nontriv.add((q['op'], tuple(sorted(k for k, v in q['fields'].items() if v not in (0,))), len(q['name1']) % 8, len(q['payload']) > 0))
        if q['op'] == 26: continue      # INIT argument (capable) is C12's
        du, dg = c['remap']
        exprs.append('(calls_ok %s %d %d %s [%s])' % (S.coq_wfreq(q), du, dg, hexN(c['req']), '; '.join(S.coq_call(x) for x in o['calls'])))
        meta.append(c)
    ok2, out2 = coq_make(['Spec/Replies.vo', 'Model/ServerCmp.vo'])
    if not ok2: broken.append({'kind': 'proof', 'name': 'Spec build', 'site': coq_error_site(out2)})
    fails, errs = coq_check_cases('c02spec', S.SPEC_HEADER, exprs, shard=60)
    if errs: broken.append({'kind': 'spec-eval', 'log': errs[0]})
    for i in fails:
        c = meta[i]; o = obs[c['id']]; q = c['wf']
        findings.append({'what': 'opcode %d (%s): filesystem calls %s differ from the operation and arguments the request encodes' % (q['op'], S.OPS[q['op']][0], [x.split('(')[0] for x in o['calls']]),
                         'sig': {'op': q['op'], 'methods': [x.split('(')[0] for x in o['calls'][1:]]}, 'input': S.case_json(c, o),
                         'fields': {k: v for k, v in q['fields'].items()}, 'names': [q['name1'].hex(), q['name2'].hex()]})
    bad_idx = S.model_vs_impl('c02', cases, obs, mask, broken)
    failed_ids = set(f['input']['id'] for f in findings)
    for i in bad_idx:
        if cases[i]['id'] not in failed_ids:
            broken.append({'kind': 'correspondence', 'name': 'Model/Server.v handle vs Server::handle_message', 'case': S.case_json(cases[i], obs[cases[i]['id']])})
    ev.cov['evaluations'] = len(obs); ev.cov['distinct_nontrivial'] = len(nontriv)
    ev.cov['spec_evaluations'] = len(exprs); ev.cov['model_vs_impl_disagreements'] = len(bad_idx)
    ev.cov['rule'] = ('well-formed requests of every opcode laid out from the kernel header tables; all fields of one request pairwise distinct boundary/random values; '
                      'gating flag bits toggled alone and combined; caller ids shifted by a random remap; expected_call (Coq, Spec/Requests.v) evaluated on the '
                      'implementation\'s call log; distinct_nontrivial = distinct (opcode, set of non-zero fields, name length mod 8, payload present)')
    ev.cov['input_distribution'] = dict(hist)
    ev.cov['samples'] = [S.case_json(c, obs.get(c['id'])) for c in cases[:3]]
    return finish(ev, PROP, findings, broken)

def replay(path):
    return S.replay(PROP, path)
