(* Specification side of C12 (server part): how a Linux client reads the INIT reply
   (fs/fuse/inode.c process_init_reply) and what the reply must therefore contain. *)
From Coq Require Import List String NArith Bool.
From FB Require Import Lib.Bytes Lib.Layout Spec.KernelABI Model.Server Model.ServerCmp Spec.Requests Spec.Replies.
Import ListNotations.
Local Open Scope string_scope.
Local Open Scope list_scope.
Local Open Scope N_scope.

Definition INIT_EXT : N := kc "FUSE_INIT_EXT".
Definition clear (v m : N) : N := N.land v (N.lnot m 64).

(* capability word the client offered: the 64-bit word when it uses the extended form *)
Definition client_capable (q : wfreq) : N :=
  let flags := fld q "flags" in
  if bit flags INIT_EXT then
    match q_flags2 q with
    | Some f2 => N.lor flags (N.shiftl f2 32)
    | None => clear flags INIT_EXT        (* marker without the extension words: legacy 32-bit set *)
    end
  else flags.

(* feature bits the client will act on after reading reply body [b] (the bits other than the
   INIT_EXT marker): flags2 counts only together with the marker, and only in the 64-byte form *)
Definition client_enabled (b : bytes) : N :=
  let g f := kget "fuse_init_out" f O b in
  let flags := g "flags" in
  let full := Nat.leb (ksize "fuse_init_out") (List.length b) in
  let seen := if bit flags INIT_EXT && full then N.lor flags (N.shiftl (g "flags2") 32) else flags in
  clear seen INIT_EXT.

Definition init_body_len (minor : N) : N :=
  if minor <? 5 then kc "FUSE_COMPAT_INIT_OUT_SIZE"
  else if minor <? 23 then kc "FUSE_COMPAT_22_INIT_OUT_SIZE"
  else N.of_nat (ksize "fuse_init_out").

(* [known]: the capability bits the server implementation knows about (FsOptions::all) *)
Definition init_reply_ok (q : wfreq) (known : N) (fs : fsres) (session_bufsize : N) (r : bytes) : bool :=
  let u := q_unique q in
  let b := body r in
  let major := fld q "major" in let minor := fld q "minor" in
  let g f := kget "fuse_init_out" f O b in
  let okhdr := (hdr_len r =? blen r) && (hdr_unique r =? u) && (hdr_err r =? 0) in
  if major <? 7 then is_error_reply r u 71          (* EPROTO *)
  else if 7 <? major then
    (* the server answers with its own major; the client retries with that version *)
    okhdr && (g "major" =? 7) &&
    (* ... and nothing is negotiated by this reply: it enables no feature (the negotiation happens in the INIT the
       client sends next, with major 7) *)
    (client_enabled b =? 0)
  else
    match fs with
    | FErr (Os n) => is_error_reply r u n
    | FErr (Kind _) => (hdr_len r =? 16) && valid_errno (neg32 (hdr_err r))
    | FInit want =>
      let expect := clear (N.land (N.land (client_capable q) known) want) INIT_EXT in
      okhdr && (blen b =? init_body_len minor) && (g "major" =? 7) &&
      (if minor <? 5 then true
       else
         (client_enabled b =? (if minor <? 23 then m32 expect else expect)) &&
         (g "max_readahead" =? fld q "max_readahead") &&
         (* write-size limit fits the transport buffers: max_write + header room <= session buffer *)
         (g "max_write" + 4096 <=? session_bufsize) && (1 <=? g "max_write"))
    | _ => false
    end.
