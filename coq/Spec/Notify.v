(* Specification side of C03 for notification messages: what the kernel reads
   (fuse_notify_inval_entry_out / fuse_notify_inval_inode_out by field name, notify codes by name). *)
From Coq Require Import List String NArith Bool.
From FB Require Import Lib.Bytes Lib.Layout Spec.KernelABI Model.Server Model.ServerCmp Model.Notify Spec.Requests Spec.Replies.
Import ListNotations.
Local Open Scope string_scope.
Local Open Scope list_scope.
Local Open Scope N_scope.

Definition notify_ok (n : notify) (p : bytes) : bool :=
  (hdr_len p =? blen p) && (hdr_unique p =? 0) &&
  match n with
  | NInvalEntry parent name =>
    (hdr_err p =? kc "FUSE_NOTIFY_INVAL_ENTRY") &&
    (kget "fuse_notify_inval_entry_out" "parent" 16 p =? m64 parent) &&
    (kget "fuse_notify_inval_entry_out" "namelen" 16 p =? blen name) &&
    bytes_eqb (skipn (16 + ksize "fuse_notify_inval_entry_out") p) (name ++ [0])
  | NInvalInode ino off len =>
    (hdr_err p =? kc "FUSE_NOTIFY_INVAL_INODE") &&
    (blen p =? 16 + N.of_nat (ksize "fuse_notify_inval_inode_out")) &&
    (kget "fuse_notify_inval_inode_out" "ino" 16 p =? m64 ino) &&
    (kget "fuse_notify_inval_inode_out" "off" 16 p =? m64 off) &&
    (kget "fuse_notify_inval_inode_out" "len" 16 p =? m64 len)
  | NResend => (hdr_err p =? kc "FUSE_NOTIFY_RESEND") && (blen p =? 16)
  end.

(* model vs observation: packets of the run, or the FailedToWrite error *)
Definition notify_obs_eqb (cap : N) (n : notify) (failed : bool) (packets : list bytes) : bool :=
  match run_notify cap n with
  | Some ps => negb failed && list_eqb bytes_eqb ps packets
  | None => failed && match packets with [] => true | _ => false end
  end.
