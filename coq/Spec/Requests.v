(* Specification side of C02: what each FUSE request means.

   A well-formed request is a structured value [wfreq] (opcode, header fields, the fields
   of the opcode's kernel request struct BY NAME, names, payload).  [encode_req] lays it out
   with the KERNEL struct tables (Spec/KernelABI.v, from include/uapi/linux/fuse.h);
   [expected_call] says which filesystem operation the opcode denotes and what each of its
   arguments must be, in terms of the kernel field names.  Nothing here looks at the crate. *)
From Coq Require Import List String NArith Bool.
From FB Require Import Lib.Bytes Lib.Layout Spec.KernelABI Model.Server.
Import ListNotations.
Local Open Scope string_scope.
Local Open Scope list_scope.
Local Open Scope N_scope.

Record wfreq := {
  q_op : N; q_unique : N; q_nodeid : N; q_uid : N; q_gid : N; q_pid : N;
  q_fields : list (string * N);
  q_name1 : bytes; q_name2 : bytes; q_payload : bytes;
  q_pairs : list (N * N);
  q_flags2 : option N          (* INIT only: the 7.36 extension words are present *)
}.

Definition fld (q : wfreq) (name : string) : N :=
  match lookup name (q_fields q) with Some v => v | None => 0 end.

(* kernel request struct of each opcode, and the prefix of its leaves that is on the wire in
   the protocol revision the crate speaks (None = all) *)
Definition req_struct (op : N) : option (string * option nat) :=
  match op with
  | 2 => Some ("fuse_forget_in", None) | 3 => Some ("fuse_getattr_in", None)
  | 4 => Some ("fuse_setattr_in", None) | 8 => Some ("fuse_mknod_in", None)
  | 9 => Some ("fuse_mkdir_in", None) | 12 => Some ("fuse_rename_in", None)
  | 13 => Some ("fuse_link_in", None) | 14 => Some ("fuse_open_in", None)
  | 15 => Some ("fuse_read_in", None) | 16 => Some ("fuse_write_in", None)
  | 18 => Some ("fuse_release_in", None) | 20 => Some ("fuse_fsync_in", None)
  | 21 => Some ("fuse_setxattr_in", Some 2%nat) | 22 => Some ("fuse_getxattr_in", None)
  | 23 => Some ("fuse_getxattr_in", None) | 25 => Some ("fuse_flush_in", None)
  | 26 => Some ("fuse_init_in", Some 4%nat) | 27 => Some ("fuse_open_in", None)
  | 28 => Some ("fuse_read_in", None) | 29 => Some ("fuse_release_in", None)
  | 30 => Some ("fuse_fsync_in", None) | 31 => Some ("fuse_lk_in", None)
  | 32 => Some ("fuse_lk_in", None) | 33 => Some ("fuse_lk_in", None)
  | 34 => Some ("fuse_access_in", None) | 35 => Some ("fuse_create_in", None)
  | 36 => Some ("fuse_interrupt_in", None) | 37 => Some ("fuse_bmap_in", None)
  | 39 => Some ("fuse_ioctl_in", None) | 40 => Some ("fuse_poll_in", None)
  | 42 => Some ("fuse_batch_forget_in", None) | 43 => Some ("fuse_fallocate_in", None)
  | 44 => Some ("fuse_read_in", None) | 45 => Some ("fuse_rename2_in", None)
  | 46 => Some ("fuse_lseek_in", None) | 48 => Some ("fuse_setupmapping_in", None)
  | 49 => Some ("fuse_removemapping_in", None)
  | _ => None
  end.

Definition struct_bytes (q : wfreq) : bytes :=
  match req_struct (q_op q) with
  | None => []
  | Some (s, pre) =>
    match struct_leaves kernel_structs s with
    | None => []
    | Some ls =>
      let ls' := match pre with Some n => firstn n ls | None => ls end in
      flat_map (fun l => enc (N.to_nat (l_width l)) (fld q (l_path l))) ls'
    end
  end.

Definition pairs_bytes (l : list (N * N)) : bytes := flat_map (fun p => enc 8 (fst p) ++ enc 8 (snd p)) l.

Definition tail_bytes (q : wfreq) : bytes :=
  match q_op q with
  | 1 | 8 | 9 | 10 | 11 | 13 | 22 | 24 | 35 => q_name1 q ++ [0]
  | 6 | 12 | 45 => q_name1 q ++ [0] ++ q_name2 q ++ [0]
  | 21 => q_name1 q ++ [0] ++ q_payload q
  | 16 | 39 => q_payload q
  | 42 | 49 => pairs_bytes (q_pairs q)
  | 26 => match q_flags2 q with Some f2 => enc 4 f2 ++ repeat 0 44 | None => [] end
  | _ => []
  end.

Definition encode_req (q : wfreq) : bytes :=
  let body := struct_bytes q ++ tail_bytes q in
  enc 4 (40 + N.of_nat (List.length body)) ++ enc 4 (q_op q) ++ enc 8 (q_unique q) ++ enc 8 (q_nodeid q) ++
  enc 4 (q_uid q) ++ enc 4 (q_gid q) ++ enc 4 (q_pid q) ++ enc 4 0 ++ body.

Definition bit (v m : N) : bool := negb (N.land v m =? 0).

(* kernel flag values used by the specification (values from the kernel header; equality with
   the crate's constants is C13) *)
Definition kc (name : string) : N := match lookup name kernel_consts with Some v => v | None => 0 end.

(* The filesystem operation an opcode denotes, with its arguments in the order of the crate's
   FileSystem trait; [ctx] is the caller identity after the per-request id translation. *)
Definition expected_call (q : wfreq) (ctx : N * N * N) : option call :=
  let ino := q_nodeid q in
  let f := fld q in
  let C m a := Some (mk m ctx a) in
  match q_op q with
  | 1 => C "lookup" [AN ino; AB (q_name1 q)]
  | 2 => C "forget" [AN ino; AN (f "nlookup")]
  | 3 => C "getattr" [AN ino; AO (if bit (f "getattr_flags") (kc "FUSE_GETATTR_FH") then Some (f "fh") else None)]
  | 4 => C "setattr" [AN ino; AN (f "mode"); AN (f "uid"); AN (f "gid"); AN (f "size");
                      AN (f "atime"); AN (f "mtime"); AN (f "ctime");
                      AN (f "atimensec"); AN (f "mtimensec"); AN (f "ctimensec");
                      AO (if bit (f "valid") (kc "FATTR_FH") then Some (f "fh") else None);
                      (* the validity mask without the two bits that are conveyed as arguments *)
                      AN (N.land (f "valid")
                            (N.lor (kc "FATTR_MODE") (N.lor (kc "FATTR_UID") (N.lor (kc "FATTR_GID")
                            (N.lor (kc "FATTR_SIZE") (N.lor (kc "FATTR_ATIME") (N.lor (kc "FATTR_MTIME")
                            (N.lor (kc "FATTR_ATIME_NOW") (N.lor (kc "FATTR_MTIME_NOW")
                            (N.lor (kc "FATTR_CTIME") (kc "FATTR_KILL_SUIDGID")))))))))))]
  | 5 => C "readlink" [AN ino]
  | 6 => C "symlink" [AB (q_name2 q); AN ino; AB (q_name1 q)]   (* wire order: name, then link target *)
  | 8 => C "mknod" [AN ino; AB (q_name1 q); AN (f "mode"); AN (f "rdev"); AN (f "umask")]
  | 9 => C "mkdir" [AN ino; AB (q_name1 q); AN (f "mode"); AN (f "umask")]
  | 10 => C "unlink" [AN ino; AB (q_name1 q)]
  | 11 => C "rmdir" [AN ino; AB (q_name1 q)]
  | 12 => C "rename" [AN ino; AB (q_name1 q); AN (f "newdir"); AB (q_name2 q); AN 0]
  | 13 => C "link" [AN (f "oldnodeid"); AN ino; AB (q_name1 q)]
  | 14 => C "open" [AN ino; AN (f "flags"); AN (f "open_flags")]
  | 15 => C "read" [AN ino; AN (f "fh"); AN (f "size"); AN (f "offset");
                    AO (if bit (f "read_flags") (kc "FUSE_READ_LOCKOWNER") then Some (f "lock_owner") else None);
                    AN (f "flags")]
  | 16 => C "write" [AN ino; AN (f "fh"); AB (q_payload q); AN (f "size"); AN (f "offset");
                     AO (if bit (f "write_flags") (kc "FUSE_WRITE_LOCKOWNER") then Some (f "lock_owner") else None);
                     ABool (bit (f "write_flags") (kc "FUSE_WRITE_CACHE")); AN (f "flags"); AN (f "write_flags")]
  | 17 => C "statfs" [AN ino]
  | 18 => let fl := bit (f "release_flags") (kc "FUSE_RELEASE_FLUSH") in
          let un := bit (f "release_flags") (kc "FUSE_RELEASE_FLOCK_UNLOCK") in
          C "release" [AN ino; AN (f "flags"); AN (f "fh"); ABool fl; ABool un;
                       AO (if fl || un then Some (f "lock_owner") else None)]
  | 20 => C "fsync" [AN ino; ABool (bit (f "fsync_flags") (kc "FUSE_FSYNC_FDATASYNC")); AN (f "fh")]
  | 21 => C "setxattr" [AN ino; AB (q_name1 q); AB (q_payload q); AN (f "flags")]
  | 22 => C "getxattr" [AN ino; AB (q_name1 q); AN (f "size")]
  | 23 => C "listxattr" [AN ino; AN (f "size")]
  | 24 => C "removexattr" [AN ino; AB (q_name1 q)]
  | 25 => C "flush" [AN ino; AN (f "fh"); AN (f "lock_owner")]
  | 27 => C "opendir" [AN ino; AN (f "flags")]
  | 28 => C "readdir" [AN ino; AN (f "fh"); AN (f "size"); AN (f "offset")]
  | 29 => C "releasedir" [AN ino; AN (f "flags"); AN (f "fh")]
  | 30 => C "fsyncdir" [AN ino; ABool (bit (f "fsync_flags") (kc "FUSE_FSYNC_FDATASYNC")); AN (f "fh")]
  | 31 => C "getlk" [AN ino; AN (f "fh"); AN (f "owner"); AN (f "lk.start"); AN (f "lk.end");
                     AN (f "lk.type"); AN (f "lk.pid"); AN (f "lk_flags")]
  | 32 => C "setlk" [AN ino; AN (f "fh"); AN (f "owner"); AN (f "lk.start"); AN (f "lk.end");
                     AN (f "lk.type"); AN (f "lk.pid"); AN (f "lk_flags")]
  | 33 => C "setlkw" [AN ino; AN (f "fh"); AN (f "owner"); AN (f "lk.start"); AN (f "lk.end");
                      AN (f "lk.type"); AN (f "lk.pid"); AN (f "lk_flags")]
  | 34 => C "access" [AN ino; AN (f "mask")]
  | 35 => C "create" [AN ino; AB (q_name1 q); AN (f "flags"); AN (f "mode"); AN (f "umask"); AN (f "open_flags")]
  | 37 => C "bmap" [AN ino; AN (f "block"); AN (f "blocksize")]
  | 38 => Some (mk "destroy" (0, 0, 0) [])
  | 39 => C "ioctl" [AN ino; AN (f "fh"); AN (f "flags"); AN (f "cmd"); AB (q_payload q); AN (f "out_size")]
  | 40 => C "poll" [AN ino; AN (f "fh"); AN (f "kh"); AN (f "flags"); AN (f "events")]
  | 41 => Some (mk "notify_reply" (0, 0, 0) [])
  | 42 => C "batch_forget" [APairs (q_pairs q)]
  | 43 => C "fallocate" [AN ino; AN (f "fh"); AN (f "mode"); AN (f "offset"); AN (f "length")]
  | 44 => C "readdirplus" [AN ino; AN (f "fh"); AN (f "size"); AN (f "offset")]
  | 45 => C "rename" [AN ino; AB (q_name1 q); AN (f "newdir"); AB (q_name2 q);
                      AN (N.land (f "flags") 7)]   (* RENAME_NOREPLACE | RENAME_EXCHANGE | RENAME_WHITEOUT *)
  | 46 => C "lseek" [AN ino; AN (f "fh"); AN (f "offset"); AN (f "whence")]
  | 48 => C "setupmapping" [AN ino; AN (f "fh"); AN (f "foffset"); AN (f "len"); AN (f "flags"); AN (f "moffset")]
  | 49 => C "removemapping" [AN ino; APairs (q_pairs q)]
  | _ => None        (* INTERRUPT (36): no filesystem operation; INIT is specified in Spec/Init *)
  end.

(* the only other filesystem interaction allowed for a request: the caller-id translation *)
Definition remap_call (q : wfreq) : call :=
  mk "id_remap" (q_uid q, q_gid q, q_pid q) [AN (q_nodeid q)].
