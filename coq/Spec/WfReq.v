(* Specification side of C02: which structured requests [wfreq] (Spec/Requests.v) are
   well-formed, as a BOOLEAN predicate.  Definitions only; nothing here looks at the crate
   except the two buffer-size constants and the list of opcodes.

   A request is well-formed when
   - its opcode is one of the opcodes of the protocol revision that denote a request other than
     INIT (INIT is specified in Spec/Init.v),
   - every header value and every field of the opcode's kernel request struct fits the width the
     KERNEL struct table gives it (value < 2^(8*width)),
   - names contain no NUL byte, names / payload are byte strings, pair components fit 64 bits,
   - the whole message is at most MAX_BUFFER_SIZE + BUFFER_HEADER_SIZE bytes long,
   - the length-carrying fields agree with what follows the struct: WRITE/SETXATTR [size] and
     IOCTL [in_size] = payload length, BATCH_FORGET/REMOVEMAPPING [count] = number of pairs
     (REMOVEMAPPING additionally: count * 16 <= MAX_BUFFER_SIZE, the bound the server enforces
     before it reads the pairs). *)
From Coq Require Import List String NArith Bool.
From FB Require Import Lib.Bytes Lib.Layout Spec.KernelABI Model.Server Spec.Requests.
Import ListNotations.
Local Open Scope string_scope.
Local Open Scope list_scope.
Local Open Scope N_scope.

(* (width in bytes, field name) of every leaf of the opcode's request struct that is on the wire,
   in wire order -- read from the kernel struct table exactly as [struct_bytes] does *)
Definition req_leaves (op : N) : list leaf :=
  match req_struct op with
  | None => []
  | Some (s, pre) =>
    match struct_leaves kernel_structs s with
    | None => []
    | Some ls => match pre with Some n => firstn n ls | None => ls end
    end
  end.

Definition req_layout (op : N) : list (nat * string) :=
  map (fun l => (N.to_nat (l_width l), l_path l)) (req_leaves op).

Definition fitsN (w : nat) (v : N) : bool := v <? 2 ^ (8 * N.of_nat w).

Definition nul_free (b : bytes) : bool := forallb (fun x => negb (x =? 0)) b.

(* the opcodes of a request (everything the protocol revision defines except INIT = 26 and
   COPY_FILE_RANGE = 47, which the server answers with ENOSYS) *)
Definition wf_ops : list N :=
  [1; 2; 3; 4; 5; 6; 8; 9; 10; 11; 12; 13; 14; 15; 16; 17; 18; 20; 21; 22; 23; 24; 25; 27; 28; 29;
   30; 31; 32; 33; 34; 35; 36; 37; 38; 39; 40; 41; 42; 43; 44; 45; 46; 48; 49].

Definition header_fits (q : wfreq) : bool :=
  fitsN 8 (q_unique q) && fitsN 8 (q_nodeid q) && fitsN 4 (q_uid q) && fitsN 4 (q_gid q) && fitsN 4 (q_pid q).

Definition fields_fit (q : wfreq) : bool :=
  forallb (fun p => fitsN (fst p) (fld q (snd p))) (req_layout (q_op q)).

Definition pairs_fit (l : list (N * N)) : bool :=
  forallb (fun p => fitsN 8 (fst p) && fitsN 8 (snd p)) l.

Definition sizes_ok (q : wfreq) : bool :=
  match q_op q with
  | 16 | 21 => fld q "size" =? blen (q_payload q)
  | 39 => fld q "in_size" =? blen (q_payload q)
  | 42 => fld q "count" =? N.of_nat (List.length (q_pairs q))
  | 49 => (fld q "count" =? N.of_nat (List.length (q_pairs q))) && (fld q "count" * 16 <=? MAX_BUFFER_SIZE)
  | _ => true
  end.

Definition wf_req (q : wfreq) : bool :=
  existsb (N.eqb (q_op q)) wf_ops
  && header_fits q
  && fields_fit q
  && nul_free (q_name1 q) && nul_free (q_name2 q)
  && bytes_okb (q_name1 q) && bytes_okb (q_name2 q) && bytes_okb (q_payload q)
  && pairs_fit (q_pairs q)
  && (blen (encode_req q) <=? MAX_BUFFER_SIZE + BUFFER_HEADER_SIZE)
  && sizes_ok q.

(* side conditions on the environment of the request (not on the request itself):
   READ needs room for the reply header; READDIR(PLUS) needs a reply buffer with room for the
   requested size and the reply header (the gate of do_readdir since fix 65c0776); the DAX opcodes need the transport to have passed a mapping handler *)
Definition env_ok (cfg : config) (cap : N) (q : wfreq) : bool :=
  match q_op q with
  | 15 => OUT_HDR <=? cap
  | 28 | 44 => fld q "size" + OUT_HDR <=? cap
  | 48 | 49 => cfg_vu_req cfg
  | _ => true
  end.

(* opcodes the client waits on: everything except FORGET, BATCH_FORGET (never answered),
   INTERRUPT (no answer of its own) and NOTIFY_REPLY (answered only on error) *)
Definition needs_answer (op : N) : bool :=
  negb ((op =? 2) || (op =? 36) || (op =? 41) || (op =? 42)).
