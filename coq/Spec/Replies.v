(* Specification side of C03: what the kernel reads out of a reply.
   Decoders are written against the KERNEL struct tables (Spec/KernelABI.v) by field name.
   [reply_ok q fs minor reply] says that the reply message [reply] to request [q] carries
   exactly the filesystem's answer [fs]. *)
From Coq Require Import List String NArith Bool.
From FB Require Import Lib.Bytes Lib.Layout Spec.KernelABI Model.Server Model.ServerCmp Spec.Requests.
Import ListNotations.
Local Open Scope string_scope.
Local Open Scope list_scope.
Local Open Scope N_scope.

(* field [path] of kernel struct [s] located at offset [base] of [b] *)
Definition kget (s path : string) (base : nat) (b : bytes) : N :=
  match struct_leaves kernel_structs s with
  | None => 0
  | Some ls =>
    match find (fun l => String.eqb (l_path l) path) ls with
    | None => 0
    | Some l => dec (firstn (N.to_nat (l_width l)) (skipn (base + N.to_nat (l_off l)) b))
    end
  end.
Definition ksize (s : string) : nat :=
  match struct_size kernel_structs s with Some n => N.to_nat n | None => O end.

Definition m32 (n : N) := n mod 4294967296.
Definition m64 (n : N) := n mod 18446744073709551616.

(* fuse_attr at [base] of [b] equals the host stat (each field as far as the wire carries it) *)
Definition attr_is (s pre : string) (base : nat) (b : bytes) (st : stat) (flags : N) : bool :=
  let g f := kget s (sapp pre f) base b in
  (g "ino" =? m64 (st_ino st)) && (g "size" =? m64 (st_size st)) && (g "blocks" =? m64 (st_blocks st)) &&
  (g "atime" =? m64 (st_atime st)) && (g "mtime" =? m64 (st_mtime st)) && (g "ctime" =? m64 (st_ctime st)) &&
  (g "atimensec" =? m32 (st_atime_nsec st)) && (g "mtimensec" =? m32 (st_mtime_nsec st)) &&
  (g "ctimensec" =? m32 (st_ctime_nsec st)) && (g "mode" =? m32 (st_mode st)) &&
  (g "nlink" =? m32 (st_nlink st)) && (g "uid" =? m32 (st_uid st)) && (g "gid" =? m32 (st_gid st)) &&
  (g "rdev" =? m32 (st_rdev st)) && (g "blksize" =? m32 (st_blksize st)) && (g "flags" =? m32 flags).

Definition entry_is (base : nat) (b : bytes) (e : entry) : bool :=
  let g f := kget "fuse_entry_out" f base b in
  (g "nodeid" =? m64 (e_inode e)) && (g "generation" =? m64 (e_generation e)) &&
  (g "entry_valid" =? m64 (e_entry_secs e)) && (g "attr_valid" =? m64 (e_attr_secs e)) &&
  (g "entry_valid_nsec" =? m32 (e_entry_nsecs e)) && (g "attr_valid_nsec" =? m32 (e_attr_nsecs e)) &&
  attr_is "fuse_entry_out" "attr." base b (e_attr e) (e_attr_flags e).

Definition open_is (base : nat) (b : bytes) (fh : option N) (opts : N) (pt : option N) : bool :=
  let g f := kget "fuse_open_out" f base b in
  (g "fh" =? m64 (opt0 fh)) && (g "open_flags" =? m32 opts) && (g "padding" =? m32 (opt0 pt)).

(* directory replies: whole 8-aligned fuse_dirent / fuse_direntplus records *)
Definition dirent_size (plus : bool) (namelen : N) : N :=
  (if plus then N.of_nat (ksize "fuse_entry_out") else 0) + ((24 + namelen + 7) / 8) * 8.

(* check that [b] is exactly the records of [ds] in order *)
Fixpoint dirents_are (plus : bool) (ds : list (dirent * entry)) (b : bytes) : bool :=
  match ds with
  | [] => match b with [] => true | _ => false end
  | (d, e) :: r =>
    let eo := if plus then ksize "fuse_entry_out" else O in
    let nl := blen (d_name d) in
    let sz := N.to_nat (dirent_size plus nl) in
    (Nat.leb sz (List.length b)) &&
    (if plus then entry_is O b e else true) &&
    (kget "fuse_dirent" "ino" eo b =? m64 (d_ino d)) && (kget "fuse_dirent" "off" eo b =? m64 (d_off d)) &&
    (kget "fuse_dirent" "namelen" eo b =? nl) && (kget "fuse_dirent" "type" eo b =? m32 (d_type d)) &&
    bytes_eqb (firstn (N.to_nat nl) (skipn (eo + 24) b)) (d_name d) &&
    dirents_are plus r (skipn sz b)
  end.

(* the entries a reply of at most [size] bytes must hold: the longest prefix that fits *)
Fixpoint fitting_prefix (plus : bool) (ds : list (dirent * entry)) (room : N) : list (dirent * entry) :=
  match ds with
  | [] => []
  | (d, e) :: r =>
    let sz := dirent_size plus (blen (d_name d)) in
    if room <? sz then [] else (d, e) :: fitting_prefix plus r (room - sz)
  end.

Definition hdr_len (r : bytes) := dec (firstn 4 r).
Definition hdr_err (r : bytes) := dec (firstn 4 (skipn 4 r)).
Definition hdr_unique (r : bytes) := dec (firstn 8 (skipn 8 r)).
Definition body (r : bytes) := skipn 16 r.

(* an error reply carrying errno [n] *)
Definition is_error_reply (r : bytes) (unique n : N) : bool :=
  (hdr_len r =? 16) && (blen r =? 16) && (hdr_unique r =? unique) && (hdr_err r =? neg32 n).

Definition valid_errno (n : N) : bool := (1 <=? n) && (n <=? 4095).

(* The errno that stands for an io::ErrorKind which carries no OS code (the contract of the crate's public
   encode_io_error_kind, the inverse of std's decode_error_kind on the kinds it keeps): written here by hand,
   NOT translated from the source, so that a changed table in the source is a reply that no longer carries what
   the filesystem returned.  Kind codes as in Model/Server.v: 0 PermissionDenied 1 NotFound 2 Interrupted
   3 AlreadyExists 4 WouldBlock, anything else -> EIO. *)
Definition kind_errno (k : N) : N :=
  match k with
  | 0 => 13 (* EACCES *) | 1 => 2 (* ENOENT *) | 2 => 4 (* EINTR *) | 3 => 17 (* EEXIST *) | 4 => 11 (* EAGAIN *)
  | _ => 5 (* EIO *)
  end.

(* reply [r] (a whole message) answers request [q] with the filesystem result [fs] *)
Definition reply_ok (q : wfreq) (minor : N) (fs : fsres) (r : bytes) : bool :=
  let u := q_unique q in
  let b := body r in
  let okhdr := (hdr_len r =? blen r) && (hdr_unique r =? u) && (hdr_err r =? 0) in
  let op := q_op q in
  match fs with
  | FErr (Os n) => is_error_reply r u n
  | FErr (Kind k) => (* kinds without an OS code: the errno that stands for the kind *)
    is_error_reply r u (kind_errno k)
  | FUnit => okhdr && (blen b =? 0)
  | FEntry e =>
    if (op =? 1) && (minor <? 4) && (e_inode e =? 0) then is_error_reply r u 2
    else okhdr && (blen b =? N.of_nat (ksize "fuse_entry_out")) && entry_is O b e
  | FAttr st s n =>
    okhdr && (blen b =? N.of_nat (ksize "fuse_attr_out")) &&
    (kget "fuse_attr_out" "attr_valid" O b =? m64 s) && (kget "fuse_attr_out" "attr_valid_nsec" O b =? m32 n) &&
    attr_is "fuse_attr_out" "attr." O b st 0
  | FBytes v => okhdr && bytes_eqb b v
  | FCount n =>
    if op =? 16 then okhdr && (blen b =? 8) && (kget "fuse_write_out" "size" O b =? m32 n)
    else okhdr && (blen b =? 8) && (kget "fuse_getxattr_out" "size" O b =? m32 n)
  | FOpen fh opts pt =>
    okhdr && (blen b =? 16) && open_is O b fh opts (if op =? 27 then None else pt)
  | FCreate e fh opts pt =>
    okhdr && (blen b =? N.of_nat (ksize "fuse_entry_out") + 16) && entry_is O b e &&
    open_is (ksize "fuse_entry_out") b fh opts pt
  | FRead data => okhdr && bytes_eqb b data
  | FStatfs s =>
    let g f := kget "fuse_statfs_out" (sapp "st." f) O b in
    okhdr && (blen b =? N.of_nat (ksize "fuse_statfs_out")) &&
    (g "blocks" =? m64 (f_blocks s)) && (g "bfree" =? m64 (f_bfree s)) && (g "bavail" =? m64 (f_bavail s)) &&
    (g "files" =? m64 (f_files s)) && (g "ffree" =? m64 (f_ffree s)) && (g "bsize" =? m32 (f_bsize s)) &&
    (g "namelen" =? m32 (f_namemax s)) && (g "frsize" =? m32 (f_frsize s))
  | FLock l =>
    let g f := kget "fuse_lk_out" (sapp "lk." f) O b in
    okhdr && (blen b =? 24) && (g "start" =? m64 (lk_start l)) && (g "end" =? m64 (lk_end l)) &&
    (g "type" =? m32 (lk_type l)) && (g "pid" =? m32 (lk_pid l))
  | FDirents ds =>
    let plus := op =? 44 in
    let size := fld q "size" in
    okhdr && (blen b <=? size) && (blen b mod 8 =? 0) &&
    dirents_are plus (fitting_prefix plus ds size) b
  | FIoctl res d =>
    okhdr && (kget "fuse_ioctl_out" "result" O b =? m32 res) && bytes_eqb (skipn 16 b) d
  | FNum n =>
    if op =? 37 then okhdr && (blen b =? 8) && (kget "fuse_bmap_out" "block" O b =? m64 n)
    else if op =? 40 then okhdr && (blen b =? 8) && (kget "fuse_poll_out" "revents" O b =? m32 n)
    else okhdr && (blen b =? 8) && (kget "fuse_lseek_out" "offset" O b =? m64 n)
  | FInit _ => true   (* specified in Spec/Init (C12) *)
  end.

(* C02 predicate on an observed call log *)
Definition calls_ok (q : wfreq) (du dg : N) (req : bytes) (calls : list call) : bool :=
  let ctx := (m32 (q_uid q + du), m32 (q_gid q + dg), q_pid q) in
  bytes_eqb (encode_req q) req &&
  match expected_call q ctx with
  | Some c => list_eqb call_eqb calls [remap_call q; c]
  | None => list_eqb call_eqb calls [remap_call q]
  end.
