(* Model/Transport.v -- executable model of the transport layer of fuse-backend-rs
   (src/transport/mod.rs IoBuffers/Reader, src/transport/virtiofs/mod.rs VirtioFsWriter,
   src/transport/fusedev/mod.rs FuseDevWriter, src/common/file_buf.rs Bytes adapter).
   Written line by line from the Rust source; no proofs in this file.

   Memory is byte-addressed (guest physical addresses for virtio-fs, host addresses for
   fusedev); a segment is (address, length); an IoBuffers value is the deque of remaining
   segments plus the bytes_consumed counter.  Peers that are not part of the crate (the
   file behind read_to / write_from, the /dev/fuse descriptor) are oracle arguments of the
   operations: a sink is [Some k] (accepts at most k bytes of what it is offered) or [None]
   (fails); a source is [Some bytes] (has these bytes left, delivers a prefix) or [None]. *)
From Coq Require Import List NArith Bool PArith FMapPositive String.
Import ListNotations.
Local Open Scope N_scope.

Definition PS : N := 4096.                             (* dirty-tracking page size *)
Definition USIZE_MAX : N := 18446744073709551615.      (* 2^64-1 *)

Definition lenN {A} (l : list A) : N := N.of_nat (List.length l).

(* ------------------------------------------------------------------ memory *)
Record mem := mkmem { m_map : PositiveMap.t N; m_dflt : N -> N }.
Definition mget (m : mem) (a : N) : N :=
  match PositiveMap.find (N.succ_pos a) (m_map m) with Some v => v | None => m_dflt m a end.
Definition mset (m : mem) (a v : N) : mem :=
  mkmem (PositiveMap.add (N.succ_pos a) v (m_map m)) (m_dflt m).

(* the initial content the harness puts everywhere: a position dependent pattern *)
Definition pat (seed a : N) : N := N.land (a * 37 + N.shiftr a 8 * 11 + seed) 255.   (* = (a*37 + (a/256)*11 + seed) mod 256 *)
Definition mem_init (seed : N) : mem := mkmem (PositiveMap.empty N) (pat seed).

Fixpoint read_range_nat (m : mem) (a : N) (n : nat) : list N :=
  match n with O => [] | S k => mget m a :: read_range_nat m (a + 1) k end.
Definition read_range (m : mem) (a len : N) : list N := read_range_nat m a (N.to_nat len).
Fixpoint write_list (m : mem) (a : N) (d : list N) : mem :=
  match d with [] => m | b :: r => write_list (mset m a b) (a + 1) r end.

(* ------------------------------------------------------------------ dirty log *)
Definition dirty := N -> bool.                         (* page number -> marked *)
Definition dirty_none : dirty := fun _ => false.
(* vm-memory AtomicBitmap::set_addr_range(start,len): nothing for len = 0, else pages
   start/PS ..= (start+len-1)/PS *)
Definition mark_range (a len : N) (d : dirty) : dirty :=
  if len =? 0 then d
  else fun p => ((a / PS <=? p) && (p <=? (a + len - 1) / PS)) || d p.

(* ------------------------------------------------------------------ IoBuffers *)
Record seg := mkseg { sa : N; sl : N }.
Record iobuf := mkio { segs : list seg; consumed : N }.

Inductive err := ENoSpace | EEof | ESplit | EFile | EOverflow | EFindRegion | EGuestMem | EBadIndex.
Inductive res :=
| ROk (n : N) (data : list N)       (* value returned / bytes handed to the caller or the sink *)
| RErr (e : err)
| RPanic.

(* IoBuffers::available_bytes *)
Definition avail (b : iobuf) : N := fold_left (fun c s => c + sl s) (segs b) 0.
Definition seg_total (l : list seg) : N := fold_right (fun s a => sl s + a) 0 l.

(* IoBuffers::allocate_file_volatile_slice(count) *)
Fixpoint take_segs (rem : N) (l : list seg) : list seg :=
  match l with
  | [] => []
  | s :: r =>
      if rem =? 0 then []
      else let loc := if rem <? sl s then mkseg (sa s) rem else s in
           loc :: take_segs (rem - sl loc) r
  end.

(* IoBuffers::mark_dirty(count) *)
Fixpoint mark_dirty (rem : N) (l : list seg) (d : dirty) : dirty :=
  match l with
  | [] => d
  | s :: r =>
      if rem =? 0 then d
      else let len := if rem <? sl s then rem else sl s in
           mark_dirty (rem - len) r (mark_range (sa s) len d)
  end.

(* the pop/re-slice loop of IoBuffers::mark_used *)
Fixpoint drop_bytes (rem : N) (l : list seg) : list seg :=
  match l with
  | [] => []
  | s :: r => if rem <? sl s then mkseg (sa s + rem) (sl s - rem) :: r
              else drop_bytes (rem - sl s) r
  end.

(* IoBuffers::mark_used: None = checked_add overflow (DescriptorChainOverflow) *)
Definition mark_used (n : N) (b : iobuf) : option iobuf :=
  if USIZE_MAX <? consumed b + n then None
  else Some (mkio (drop_bytes n (segs b)) (consumed b + n)).

(* IoBuffers::split_at(offset): (what stays in self, the new IoBuffers) *)
Fixpoint split_segs (rem : N) (l : list seg) : option (list seg * list seg) :=
  match l with
  | [] => if rem =? 0 then Some ([], []) else None
  | s :: r =>
      if rem <? sl s then
        if 0 <? rem then Some ([mkseg (sa s) rem], mkseg (sa s + rem) (sl s - rem) :: r)
        else Some ([], s :: r)
      else match split_segs (rem - sl s) r with
           | Some (a, b) => Some (s :: a, b)
           | None => None
           end
  end.
Definition io_split (off : N) (b : iobuf) : option (iobuf * iobuf) :=
  match split_segs off (segs b) with
  | Some (a, o) => Some (mkio a (consumed b), mkio o 0)
  | None => None
  end.

(* bytes currently under a list of slices, in order *)
Definition gather (m : mem) (bufs : list seg) : list N :=
  flat_map (fun s => read_range m (sa s) (sl s)) bufs.

(* the copy loops of Reader::read / VirtioFsWriter::write (copy_len = min(rem.len(), buf.len())) *)
Fixpoint copy_out (m : mem) (bufs : list seg) (rem : N) : list N :=
  match bufs with
  | [] => []
  | b :: r => let c := N.min rem (sl b) in read_range m (sa b) c ++ copy_out m r (rem - c)
  end.
Fixpoint copy_in (m : mem) (bufs : list seg) (d : list N) : mem * N :=
  match bufs with
  | [] => (m, 0)
  | b :: r =>
      let c := N.min (lenN d) (sl b) in
      let m' := write_list m (sa b) (firstn (N.to_nat c) d) in
      let '(m'', t) := copy_in m' r (skipn (N.to_nat c) d) in
      (m'', c + t)
  end.

(* IoBuffers::consume(false, count, f) with f = "hand the slices to a consumer".
   sink = Some k: the consumer takes the first min(k, total) bytes (k >= count: the in-memory
   copy of Reader::read; a file accepts what the kernel accepts); None: it returns an error. *)
Definition io_read (count : N) (sink : option N) (m : mem) (b : iobuf) : res * iobuf :=
  match take_segs count (segs b) with
  | [] => (ROk 0 [], b)
  | bufs =>
      match sink with
      | None => (RErr EFile, b)
      | Some k =>
          let data := copy_out m bufs (N.min k (seg_total bufs)) in
          match mark_used (lenN data) b with
          | None => (RErr EOverflow, b)
          | Some b' => (ROk (lenN data) data, b')
          end
      end
  end.

(* IoBuffers::consume(mark, count, f) with f = "a producer fills the slices".
   src = Some d: the producer places a prefix of d (as much as fits) ; None: error. *)
Definition io_write (mark : bool) (count : N) (src : option (list N))
           (m : mem) (d : dirty) (b : iobuf) : res * mem * dirty * iobuf :=
  match take_segs count (segs b) with
  | [] => (ROk 0 [], m, d, b)
  | bufs =>
      match src with
      | None => (RErr EFile, m, d, b)
      | Some data =>
          let '(m', n) := copy_in m bufs data in
          let d' := if mark then mark_dirty n (segs b) d else d in
          match mark_used n b with
          | None => (RErr EOverflow, m', d', b)
          | Some b' => (ROk n [], m', d', b')
          end
      end
  end.

(* ------------------------------------------------------------------ descriptor chain -> IoBuffers
   Reader::from_descriptor_chain / VirtioFsWriter::new.  A region is (guest base, size);
   a descriptor is (addr, len, write_only). *)
Record desc := mkdesc { d_addr : N; d_len : N; d_wr : bool }.
Fixpoint find_region (regions : list (N * N)) (a : N) : option (N * N) :=
  match regions with
  | [] => None
  | (b, z) :: r => if (b <=? a) && (a <? b + z) then Some (b, z) else find_region r a
  end.
Fixpoint chain_segs (regions : list (N * N)) (ds : list desc) (total : N) : res * list seg :=
  match ds with
  | [] => (ROk total [], [])
  | x :: r =>
      if USIZE_MAX <? total + d_len x then (RErr EOverflow, [])
      else match find_region regions (d_addr x) with
           | None => (RErr EFindRegion, [])
           | Some (b, z) =>
               if z <? (d_addr x - b) + d_len x then (RErr EGuestMem, [])
               else match chain_segs regions r (total + d_len x) with
                    | (ROk t _, l) => (ROk t [], mkseg (d_addr x) (d_len x) :: l)
                    | (e, _) => (e, [])
                    end
           end
  end.
Definition from_chain (regions : list (N * N)) (ds : list desc) (writable : bool) : res * iobuf :=
  let '(r, l) := chain_segs regions (filter (fun x => Bool.eqb (d_wr x) writable) ds) 0 in
  (r, mkio l 0).

(* ------------------------------------------------------------------ virtio-fs machine *)
Record vstate := mkv { v_mem : mem; v_dirty : dirty; v_rd : list iobuf; v_wr : list iobuf }.

Inductive vop :=
| RRead (i : nat) (n : N)                               (* io::Read::read with a buffer of n bytes *)
| RReadExact (i : nat) (n : N)                          (* read_exact / read_obj of n bytes *)
| RReadTo (i : nat) (count : N) (sink : option N)       (* read_to / read_to_at *)
| RSplit (i : nat) (off : N)
| RReadExactTo (i : nat) (count : N) (sink : option N)  (* read_exact_to: sink accepts at most k bytes per call *)
| WWriteAllFrom (i : nat) (count : N) (src : option (list N))   (* write_all_from *)
| WWrite (i : nat) (data : list N)
| WWriteV (i : nat) (datas : list (list N))
| WWriteFrom (i : nat) (count : N) (src : option (list N))  (* write_from / write_from_at *)
| WSplit (i : nat) (off : N)
| WCommit (i : nat).

Fixpoint set_nth {A} (i : nat) (x : A) (l : list A) : list A :=
  match l, i with
  | [], _ => []
  | _ :: r, O => x :: r
  | y :: r, S k => y :: set_nth k x r
  end.

(* VirtioFsWriter::write *)
Definition vw_write (data : list N) (m : mem) (d : dirty) (b : iobuf) : res * mem * dirty * iobuf :=
  if avail b <? lenN data then (RErr ENoSpace, m, d, b)
  else io_write true (lenN data) (Some data) m d b.

(* VirtioFsWriter::write_vectored: one space check for the sum, then write() per non-empty buffer *)
Fixpoint vw_write_each (datas : list (list N)) (acc : N) (m : mem) (d : dirty) (b : iobuf)
  : res * mem * dirty * iobuf :=
  match datas with
  | [] => (ROk acc [], m, d, b)
  | x :: r =>
      match x with
      | [] => vw_write_each r acc m d b
      | _ => match vw_write x m d b with
             | (ROk n _, m', d', b') => vw_write_each r (acc + n) m' d' b'
             | other => other
             end
      end
  end.
Definition vw_write_vectored (datas : list (list N)) (m : mem) (d : dirty) (b : iobuf) :=
  if avail b <? fold_left (fun a x => a + lenN x) datas 0 then (RErr ENoSpace, m, d, b)
  else vw_write_each datas 0 m d b.

(* VirtioFsWriter::write_from / write_from_at *)
Definition vw_write_from (count : N) (src : option (list N)) (m : mem) (d : dirty) (b : iobuf) :=
  if avail b <? count then (RErr ENoSpace, m, d, b)
  else io_write true count src m d b.

(* Reader: io::Read::read, and std's default read_exact.  read_exact loops on read() until the
   buffer is full or read() returns 0; Reader::read always delivers min(n, available) in one
   call, so the loop runs read() once and, if that was short, once more with the result 0
   (Proofs/Transport.v, lemma read_after_short): collapsed here to one read + length test. *)
Definition rd_read (n : N) (m : mem) (b : iobuf) : res * iobuf := io_read n (Some n) m b.
Definition rd_read_exact (n : N) (m : mem) (b : iobuf) : res * iobuf :=
  match rd_read n m b with
  | (ROk k data, b') => if k <? n then (RErr EEof, b') else (ROk k data, b')
  | other => other
  end.

(* Reader::read_exact_to: loop { read_to(dst, count) : Ok(0) => UnexpectedEof, Ok(n) => count -= n } until count = 0.
   Each iteration consumes at least one byte, so count + 1 iterations suffice; running out of fuel is the
   explicit outcome RErr EBadIndex (shown unreachable in Proofs/TransportLoops.v).  The result carries
   everything handed to the sink. *)
Fixpoint rd_read_exact_to_loop (fuel : nat) (count : N) (sink : option N) (m : mem) (b : iobuf) (acc : list N)
  : res * iobuf :=
  match fuel with
  | O => (RErr EBadIndex, b)
  | S f =>
      if count =? 0 then (ROk (lenN acc) acc, b)
      else match io_read count sink m b with
           | (ROk 0 _, b') => (RErr EEof, b')
           | (ROk n data, b') => rd_read_exact_to_loop f (count - n) sink m b' (acc ++ data)
           | (e, b') => (e, b')
           end
  end.
Definition rd_read_exact_to (count : N) (sink : option N) (m : mem) (b : iobuf) : res * iobuf :=
  rd_read_exact_to_loop (S (N.to_nat count)) count sink m b [].

(* VirtioFsWriter::write_all_from: one space check, then loop { write_from(src, count) : Ok(0) => WriteZero,
   Ok(n) => count -= n }; the source is read sequentially (what one call took is gone for the next) *)
Fixpoint vw_write_all_from_loop (fuel : nat) (count : N) (src : option (list N)) (m : mem) (d : dirty) (b : iobuf)
  : res * mem * dirty * iobuf :=
  match fuel with
  | O => (RErr EBadIndex, m, d, b)
  | S f =>
      if count =? 0 then (ROk 0 [], m, d, b)
      else match vw_write_from count src m d b with
           | (ROk 0 _, m', d', b') => (RErr EEof, m', d', b')          (* ErrorKind::WriteZero *)
           | (ROk n _, m', d', b') =>
               vw_write_all_from_loop f (count - n) (option_map (skipn (N.to_nat n)) src) m' d' b'
           | other => other
           end
  end.
Definition vw_write_all_from (count : N) (src : option (list N)) (m : mem) (d : dirty) (b : iobuf) :=
  if avail b <? count then (RErr ENoSpace, m, d, b)
  else vw_write_all_from_loop (S (N.to_nat count)) count src m d b.

(* per-op observation: result, then (available, consumed) of the handle the op addressed and,
   for a split, (available, consumed) of the new handle *)
Record obs := mkobs { o_res : res; o_avail : N; o_cons : N; o_avail2 : N; o_cons2 : N }.
Definition obs1 (r : res) (b : iobuf) : obs := mkobs r (avail b) (consumed b) 0 0.
Definition obs_bad : obs := mkobs (RErr EBadIndex) 0 0 0 0.

Definition vstep (op : vop) (st : vstate) : obs * vstate :=
  let m := v_mem st in let d := v_dirty st in
  match op with
  | RRead i n =>
      match nth_error (v_rd st) i with
      | None => (obs_bad, st)
      | Some b => let '(r, b') := rd_read n m b in
                  (obs1 r b', mkv m d (set_nth i b' (v_rd st)) (v_wr st))
      end
  | RReadExact i n =>
      match nth_error (v_rd st) i with
      | None => (obs_bad, st)
      | Some b => let '(r, b') := rd_read_exact n m b in
                  (obs1 r b', mkv m d (set_nth i b' (v_rd st)) (v_wr st))
      end
  | RReadTo i count sink =>
      match nth_error (v_rd st) i with
      | None => (obs_bad, st)
      | Some b => let '(r, b') := io_read count sink m b in
                  (obs1 r b', mkv m d (set_nth i b' (v_rd st)) (v_wr st))
      end
  | RReadExactTo i count sink =>
      match nth_error (v_rd st) i with
      | None => (obs_bad, st)
      | Some b => let '(r, b') := rd_read_exact_to count sink m b in
                  (obs1 r b', mkv m d (set_nth i b' (v_rd st)) (v_wr st))
      end
  | WWriteAllFrom i count src =>
      match nth_error (v_wr st) i with
      | None => (obs_bad, st)
      | Some b => let '(r, m', d', b') := vw_write_all_from count src m d b in
                  (obs1 r b', mkv m' d' (v_rd st) (set_nth i b' (v_wr st)))
      end
  | RSplit i off =>
      match nth_error (v_rd st) i with
      | None => (obs_bad, st)
      | Some b =>
          match io_split off b with
          | None => (obs1 (RErr ESplit) b, st)
          | Some (a, o) => (mkobs (ROk 0 []) (avail a) (consumed a) (avail o) (consumed o),
                            mkv m d (set_nth i a (v_rd st) ++ [o]) (v_wr st))
          end
      end
  | WWrite i data =>
      match nth_error (v_wr st) i with
      | None => (obs_bad, st)
      | Some b => let '(r, m', d', b') := vw_write data m d b in
                  (obs1 r b', mkv m' d' (v_rd st) (set_nth i b' (v_wr st)))
      end
  | WWriteV i datas =>
      match nth_error (v_wr st) i with
      | None => (obs_bad, st)
      | Some b => let '(r, m', d', b') := vw_write_vectored datas m d b in
                  (obs1 r b', mkv m' d' (v_rd st) (set_nth i b' (v_wr st)))
      end
  | WWriteFrom i count src =>
      match nth_error (v_wr st) i with
      | None => (obs_bad, st)
      | Some b => let '(r, m', d', b') := vw_write_from count src m d b in
                  (obs1 r b', mkv m' d' (v_rd st) (set_nth i b' (v_wr st)))
      end
  | WSplit i off =>
      match nth_error (v_wr st) i with
      | None => (obs_bad, st)
      | Some b =>
          match io_split off b with
          | None => (obs1 (RErr ESplit) b, st)
          | Some (a, o) => (mkobs (ROk 0 []) (avail a) (consumed a) (avail o) (consumed o),
                            mkv m d (v_rd st) (set_nth i a (v_wr st) ++ [o]))
          end
      end
  | WCommit i =>
      match nth_error (v_wr st) i with
      | None => (obs_bad, st)
      | Some b => (obs1 (ROk 0 []) b, st)
      end
  end.

Fixpoint vrun (ops : list vop) (st : vstate) : list obs * vstate :=
  match ops with
  | [] => ([], st)
  | op :: r => let '(o, st') := vstep op st in
               let '(os, st'') := vrun r st' in (o :: os, st'')
  end.

(* ------------------------------------------------------------------ fusedev writer machine *)
Record fdw := mkfdw { f_buffered : bool; f_base : N; f_len : N; f_cap : N }.
Record fstate := mkf { f_mem : mem; f_ws : list fdw; f_pkts : list (list N) }.   (* packets, oldest first *)

Inductive fop :=
| FWrite (i : nat) (data : list N)
| FWriteV (i : nat) (datas : list (list N))
| FWriteFrom (i : nat) (count : N) (src : option (list N))
| FSplit (i : nat) (off : N)
| FCommit (i : nat) (other : option nat).

Definition f_avail (w : fdw) : N := f_cap w - f_len w.
(* check_available_space: assert!(self.buffered || self.buf.is_empty()) then the size test *)
Definition f_check (w : fdw) (sz : N) : option res :=
  if negb (f_buffered w || (f_len w =? 0)) then Some RPanic
  else if f_avail w <? sz then Some (RErr ENoSpace) else None.

Definition fobs (r : res) (w : fdw) : obs := mkobs r (f_avail w) (f_len w) 0 0.

Definition fw_write (data : list N) (m : mem) (w : fdw) : res * mem * fdw * list (list N) :=
  match f_check w (lenN data) with
  | Some r => (r, m, w, [])
  | None =>
      if f_buffered w then
        (ROk (lenN data) [], write_list m (f_base w + f_len w) data,
         mkfdw true (f_base w) (f_len w + lenN data) (f_cap w), [])
      else (* do_write(fd, data) then account_written: the bytes never enter the buffer *)
        (ROk (lenN data) [], m, mkfdw false (f_base w) (f_len w + lenN data) (f_cap w), [data])
  end.

Fixpoint fw_extend (datas : list (list N)) (m : mem) (a : N) : mem * N :=
  match datas with
  | [] => (m, 0)
  | x :: r => let '(m', t) := fw_extend r (write_list m a x) (a + lenN x) in (m', lenN x + t)
  end.

Definition fw_write_vectored (datas : list (list N)) (m : mem) (w : fdw) : res * mem * fdw * list (list N) :=
  match f_check w (fold_left (fun a x => a + lenN x) datas 0) with
  | Some r => (r, m, w, [])
  | None =>
      if f_buffered w then
        let '(m', t) := fw_extend datas m (f_base w + f_len w) in
        (ROk t [], m', mkfdw true (f_base w) (f_len w + t) (f_cap w), [])
      else match datas with
           | [] => (ROk 0 [], m, w, [])
           | _ => let p := List.concat datas in     (* writev(fd, bufs): the kernel sends nothing when the total length is 0 *)
                  (ROk (lenN p) [], m, mkfdw false (f_base w) (f_len w + lenN p) (f_cap w),
                   match p with [] => [] | _ => [p] end)
           end
  end.

Definition fw_write_from (count : N) (src : option (list N)) (m : mem) (w : fdw) : res * mem * fdw * list (list N) :=
  match f_check w count with
  | Some r => (r, m, w, [])
  | None =>
      match src with
      | None => (RErr EFile, m, w, [])
      | Some data =>
          let got := firstn (N.to_nat count) data in
          let cnt := lenN got in
          let m' := write_list m (f_base w + f_len w) got in
          let w' := mkfdw (f_buffered w) (f_base w) (f_len w + cnt) (f_cap w) in
          if f_buffered w then (ROk cnt [], m', w', [])
          else (ROk cnt [], m', w', [read_range m' (f_base w) cnt])     (* do_write(fd, &self.buf[..cnt]) *)
      end
  end.

Definition fw_split (off : N) (w : fdw) : option (fdw * fdw) :=
  if f_cap w <? off then None
  else let '(len1, len2) := if off <? f_len w then (off, f_len w - off) else (f_len w, 0) in
       Some (mkfdw true (f_base w) len1 off, mkfdw true (f_base w + off) len2 (f_cap w - off)).

Definition fw_commit (m : mem) (w : fdw) (other : option fdw) : res * list (list N) :=
  if negb (f_buffered w) then (ROk 0 [], [])
  else let s := read_range m (f_base w) (f_len w) in
       let o := match other with Some x => read_range m (f_base x) (f_len x) | None => [] end in
       match s, o with
       | [], [] => (ROk 0 [], [])
       | _, _ => (ROk (lenN (s ++ o)) [], [s ++ o])
       end.

Definition fstep (op : fop) (st : fstate) : obs * fstate :=
  let m := f_mem st in
  match op with
  | FWrite i data =>
      match nth_error (f_ws st) i with
      | None => (obs_bad, st)
      | Some w => let '(r, m', w', ps) := fw_write data m w in
                  (fobs r w', mkf m' (set_nth i w' (f_ws st)) (f_pkts st ++ ps))
      end
  | FWriteV i datas =>
      match nth_error (f_ws st) i with
      | None => (obs_bad, st)
      | Some w => let '(r, m', w', ps) := fw_write_vectored datas m w in
                  (fobs r w', mkf m' (set_nth i w' (f_ws st)) (f_pkts st ++ ps))
      end
  | FWriteFrom i count src =>
      match nth_error (f_ws st) i with
      | None => (obs_bad, st)
      | Some w => let '(r, m', w', ps) := fw_write_from count src m w in
                  (fobs r w', mkf m' (set_nth i w' (f_ws st)) (f_pkts st ++ ps))
      end
  | FSplit i off =>
      match nth_error (f_ws st) i with
      | None => (obs_bad, st)
      | Some w =>
          match fw_split off w with
          | None => (fobs (RErr ESplit) w, st)
          | Some (a, o) => (mkobs (ROk 0 []) (f_avail a) (f_len a) (f_avail o) (f_len o),
                            mkf m (set_nth i a (f_ws st) ++ [o]) (f_pkts st))
          end
      end
  | FCommit i other =>
      match nth_error (f_ws st) i with
      | None => (obs_bad, st)
      | Some w =>
          let ow := match other with Some j => nth_error (f_ws st) j | None => None end in
          let '(r, ps) := fw_commit m w ow in
          (fobs r w, mkf m (f_ws st) (f_pkts st ++ ps))
      end
  end.

Fixpoint frun (ops : list fop) (st : fstate) : list obs * fstate :=
  match ops with
  | [] => ([], st)
  | op :: r => let '(o, st') := fstep op st in
               let '(os, st'') := frun r st' in (o :: os, st'')
  end.

(* ------------------------------------------------------------------ Bytes<usize> for FileVolatileSlice
   Each trait method forwards to a method of vm-memory's VolatileSlice; which one is read from the
   source by translator/bytes_delegation.py (Gen/BytesDelegation.v).  [vs_call] is the semantics of the
   VolatileSlice method of that name on a slice of [size] bytes at address [base]; [buf] is the
   caller's buffer (or the source/destination object's bytes), [addr] the offset, [count] the count.
   Result: res (n, caller buffer afterwards), memory afterwards. *)
Definition EOob := EGuestMem.     (* VolatileMemoryError::OutOfBounds *)
Definition EPartial := EEof.      (* VolatileMemoryError::PartialBuffer *)

Definition vs_write (m : mem) (base size : N) (buf : list N) (addr : N) : res * mem :=
  match buf with
  | [] => (ROk 0 buf, m)
  | _ => if size <=? addr then (RErr EOob, m)
         else let d := firstn (N.to_nat (size - addr)) buf in
              (ROk (lenN d) buf, write_list m (base + addr) d)
  end.
Definition vs_read (m : mem) (base size : N) (buf : list N) (addr : N) : res * mem :=
  match buf with
  | [] => (ROk 0 buf, m)
  | _ => if size <=? addr then (RErr EOob, m)
         else let n := N.min (size - addr) (lenN buf) in
              (ROk n (read_range m (base + addr) n ++ skipn (N.to_nat n) buf), m)
  end.

Definition vs_call (method : string) (m : mem) (base size : N) (buf : list N) (addr count : N) : res * mem :=
  if String.eqb method "write"%string then vs_write m base size buf addr
  else if String.eqb method "read"%string then vs_read m base size buf addr
  else if String.eqb method "write_slice"%string then
    match vs_write m base size buf addr with
    | (ROk n b, m') => if (n =? lenN buf) then (ROk 0 b, m') else (RErr EPartial, m')
    | other => other
    end
  else if String.eqb method "read_slice"%string then
    match vs_read m base size buf addr with
    | (ROk n b, m') => if (n =? lenN buf) then (ROk 0 b, m') else (RErr EPartial, m')   (* buffer partly filled; content not compared on error *)
    | other => other
    end
  else if String.eqb method "read_volatile_from"%string then
    (* self.offset(addr)? ; at most min(len-addr, count) bytes taken from the source [buf] *)
    if (size <? addr) then (RErr EOob, m)
    else let d := firstn (N.to_nat (N.min (size - addr) count)) buf in
         (ROk (lenN d) buf, write_list m (base + addr) d)
  else if String.eqb method "write_volatile_to"%string then
    (* destination [buf] is a byte slice of lenN buf bytes: receives a prefix *)
    if (size <? addr) then (RErr EOob, m)
    else let n := N.min (N.min (size - addr) count) (lenN buf) in
         (ROk n (read_range m (base + addr) n ++ skipn (N.to_nat n) buf), m)
  else if String.eqb method "read_exact_volatile_from"%string then
    (* get_slice(addr,count)? then source must fill all of it *)
    if (size <? addr + count) then (RErr EOob, m)
    else let d := firstn (N.to_nat count) buf in
         if (lenN d <? count) then (RErr EPartial, m)     (* <&[u8]>::read_exact_volatile refuses up front *)
         else (ROk 0 buf, write_list m (base + addr) d)
  else if String.eqb method "write_all_volatile_to"%string then
    if (size <? addr + count) then (RErr EOob, m)
    else let n := N.min count (lenN buf) in
         if (n <? count) then (RErr EPartial, m)
         else (ROk 0 (read_range m (base + addr) n ++ skipn (N.to_nat n) buf), m)
  else if String.eqb method "store"%string then
    (* get_atomic_ref: bounds (addr + size_of T <= len) then alignment; buf = the value's bytes *)
    if (size <? addr + lenN buf) then (RErr EOob, m)
    else if negb (((base + addr) mod lenN buf) =? 0) then (RErr EBadIndex, m)      (* Misaligned *)
    else (ROk 0 buf, write_list m (base + addr) buf)
  else if String.eqb method "load"%string then
    if (size <? addr + lenN buf) then (RErr EOob, m)
    else if negb (((base + addr) mod lenN buf) =? 0) then (RErr EBadIndex, m)
    else (ROk 0 (read_range m (base + addr) (lenN buf)), m)
  else (RErr EBadIndex, m).

Fixpoint delegate (table : list (string * string)) (method : string) : option string :=
  match table with
  | [] => None
  | (a, b) :: r => if String.eqb a method then Some b else delegate r method
  end.
(* what FileVolatileSlice's trait method [method] does, given the delegation table read from the source *)
Definition fvs_call (table : list (string * string)) (method : string) (m : mem) (base size : N)
           (buf : list N) (addr count : N) : res * mem :=
  match delegate table method with
  | Some target => vs_call target m base size buf addr count
  | None => (RErr EBadIndex, m)
  end.

(* ------------------------------------------------------------------ comparison helpers used by the
   generated case files (coq/Cases/*.v): the model is run on a case and compared with what the
   implementation was observed to do. *)
Definition err_code (e : err) : N :=
  match e with ENoSpace => 1 | EEof => 2 | ESplit => 3 | EFile => 4 | EOverflow => 5
             | EFindRegion => 6 | EGuestMem => 7 | EBadIndex => 8 end.
Fixpoint listN_eqb (a b : list N) : bool :=
  match a, b with
  | [], [] => true
  | x :: r, y :: s => (x =? y) && listN_eqb r s
  | _, _ => false
  end.
Definition res_eqb (a b : res) : bool :=
  match a, b with
  | ROk n d, ROk n' d' => (n =? n') && listN_eqb d d'
  | RErr e, RErr e' => err_code e =? err_code e'
  | RPanic, RPanic => true
  | _, _ => false
  end.
Definition obs_eqb (a b : obs) : bool :=
  res_eqb (o_res a) (o_res b) && (o_avail a =? o_avail b) && (o_cons a =? o_cons b)
  && (o_avail2 a =? o_avail2 b) && (o_cons2 a =? o_cons2 b).
(* The generated case files do not spell data out byte by byte (Coq parses long literals slowly):
   data written by the harness comes from the generator [gd] (same formula in props/transport_lib.py) and
   data observed on the implementation is compared through length + a polynomial hash (mod 2^61). *)
Fixpoint gd_from (s i : N) (n : nat) : list N :=       (* byte i = (i*151 + (i/256)*7 + s*13 + 5) mod 256 *)
  match n with O => [] | S k => N.land (i * 151 + N.shiftr i 8 * 7 + s * 13 + 5) 255 :: gd_from s (i + 1) k end.
Definition gd (s n : N) : list N := gd_from s 0 (N.to_nat n).
Definition HP : N := 2305843009213693951.
Definition hashN (l : list N) : N := fold_left (fun acc b => N.land (acc * 257 + b + 1) HP) l 0.   (* HP = 2^61-1 used as a mask *)
Inductive hres := HOk (n len h : N) | HErr (c : N) | HPanic.
Record hobs := mkhobs { h_res : hres; h_avail : N; h_cons : N; h_avail2 : N; h_cons2 : N }.
Definition res_heqb (a : res) (b : hres) : bool :=
  match a, b with
  | ROk n d, HOk n' len h => (n =? n') && (lenN d =? len) && (hashN d =? h)
  | RErr e, HErr c => err_code e =? c
  | RPanic, HPanic => true
  | _, _ => false
  end.
Definition obs_heqb (a : obs) (b : hobs) : bool :=
  res_heqb (o_res a) (h_res b) && (o_avail a =? h_avail b) && (o_cons a =? h_cons b)
  && (o_avail2 a =? h_avail2 b) && (o_cons2 a =? h_cons2 b).
Fixpoint obs_list_heqb (a : list obs) (b : list hobs) : bool :=
  match a, b with
  | [], [] => true
  | x :: r, y :: s => obs_heqb x y && obs_list_heqb r s
  | _, _ => false
  end.
Fixpoint pkts_heqb (a : list (list N)) (b : list (N * N)) : bool :=
  match a, b with
  | [], [] => true
  | x :: r, (len, h) :: s => (lenN x =? len) && (hashN x =? h) && pkts_heqb r s
  | _, _ => false
  end.
Definition windows_ok (m : mem) (ws : list (N * N * N)) : bool :=
  forallb (fun w => let '(a, len, h) := w in hashN (read_range m a len) =? h) ws.
Definition dirty_ok (d : dirty) (marked universe : list N) : bool :=
  forallb (fun p => Bool.eqb (d p) (existsb (N.eqb p) marked)) universe.

(* construction of the initial Reader and VirtioFsWriter from one chain, as the harness does *)
Definition v_init (seed : N) (regions : list (N * N)) (ds : list desc) : res * vstate :=
  let empty := mkv (mem_init seed) dirty_none [] [] in
  match from_chain regions ds false with
  | (ROk _ _, rd) =>
      match from_chain regions ds true with
      | (ROk _ _, wr) => (ROk 0 [], mkv (mem_init seed) dirty_none [rd] [wr])
      | (e, _) => (e, empty)
      end
  | (e, _) => (e, empty)
  end.

(* virtio case: exp_init = result of construction; exp = observations (first = initial counters) *)
Definition check_v (seed : N) (regions : list (N * N)) (ds : list desc) (ops : list vop)
           (exp_init : hres) (exp : list hobs) (windows : list (N * N * N))
           (marked universe : list N) : bool :=
  let '(r, st) := v_init seed regions ds in
  match r with
  | ROk _ _ =>
      res_heqb r exp_init &&
      let o0 := match v_rd st, v_wr st with
                | rd :: _, wr :: _ => mkobs (ROk 0 []) (avail rd) (consumed rd) (avail wr) (consumed wr)
                | _, _ => obs_bad
                end in
      let '(os, st') := vrun ops st in
      obs_list_heqb (o0 :: os) exp && windows_ok (v_mem st') windows && dirty_ok (v_dirty st') marked universe
  | _ => res_heqb r exp_init
  end.

(* a reader over one contiguous fuse buffer *)
Definition check_fr (seed base cap : N) (ops : list vop) (exp : list hobs) (windows : list (N * N * N)) : bool :=
  let b := mkio [mkseg base cap] 0 in
  let st := mkv (mem_init seed) dirty_none [b] [] in
  let '(os, st') := vrun ops st in
  obs_list_heqb (mkobs (ROk 0 []) (avail b) 0 0 0 :: os) exp && windows_ok (v_mem st') windows.

(* fusedev writer case *)
Definition check_f (seed base cap : N) (ops : list fop) (exp : list hobs) (pkts : list (N * N))
           (windows : list (N * N * N)) : bool :=
  let w := mkfdw false base 0 cap in
  let st := mkf (mem_init seed) [w] [] in
  let '(os, st') := frun ops st in
  obs_list_heqb (fobs (ROk 0 []) w :: os) exp && pkts_heqb (f_pkts st') pkts && windows_ok (f_mem st') windows.

(* Bytes adapter case: method through the delegation table; on ROk also the caller's buffer is compared *)
Definition check_b (table : list (string * string)) (method : string) (seed base size : N) (buf : list N)
           (addr count : N) (exp : hres) (windows : list (N * N * N)) : bool :=
  let '(r, m') := fvs_call table method (mem_init seed) base size buf addr count in
  res_heqb r exp && windows_ok m' windows.

(* virtio case with a non-empty initial dirty log (pages in [dirty0] are marked before the run) *)
Definition dirty_of (l : list N) : dirty := fun p => existsb (N.eqb p) l.
Definition check_vd (seed : N) (regions : list (N * N)) (ds : list desc) (dirty0 : list N) (ops : list vop)
           (exp_init : hres) (exp : list hobs) (windows : list (N * N * N))
           (marked universe : list N) : bool :=
  let '(r, st0) := v_init seed regions ds in
  let st := mkv (v_mem st0) (dirty_of dirty0) (v_rd st0) (v_wr st0) in
  match r with
  | ROk _ _ =>
      res_heqb r exp_init &&
      let o0 := match v_rd st, v_wr st with
                | rd :: _, wr :: _ => mkobs (ROk 0 []) (avail rd) (consumed rd) (avail wr) (consumed wr)
                | _, _ => obs_bad
                end in
      let '(os, st') := vrun ops st in
      obs_list_heqb (o0 :: os) exp && windows_ok (v_mem st') windows && dirty_ok (v_dirty st') marked universe
  | _ => res_heqb r exp_init
  end.

(* ================================================================== async variants (feature async-io)
   src/transport/mod.rs Reader::async_read_to_at, src/transport/virtiofs/mod.rs and fusedev/mod.rs `mod async_io`.
   Written from the code of the async methods; Proofs/TransportAsync.v shows each is the state transformer of its
   synchronous counterpart ([desugar]) except where the code really differs. *)

(* Reader::async_read_to_at: prepare_io_buf(count) (same truncation as allocate_file_volatile_slice); if empty Ok(0);
   the file takes a prefix; mark_used(cnt) *)
Definition rd_async_read_to_at (count : N) (sink : option N) (m : mem) (b : iobuf) : res * iobuf :=
  match take_segs count (segs b) with
  | [] => (ROk 0 [], b)
  | bufs =>
      match sink with
      | None => (RErr EFile, b)
      | Some k =>
          let data := copy_out m bufs (N.min k (seg_total bufs)) in
          match mark_used (lenN data) b with
          | None => (RErr EOverflow, b)
          | Some b' => (ROk (lenN data) data, b')
          end
      end
  end.

(* VirtioFsWriter::async_write2 / async_write3: check_available_space(sum) then self.write() for EVERY buffer *)
Fixpoint vw_write_seq (datas : list (list N)) (acc : N) (m : mem) (d : dirty) (b : iobuf)
  : res * mem * dirty * iobuf :=
  match datas with
  | [] => (ROk acc [], m, d, b)
  | x :: r => match vw_write x m d b with
              | (ROk n _, m', d', b') => vw_write_seq r (acc + n) m' d' b'
              | other => other
              end
  end.
Definition vw_async_writes (datas : list (list N)) (m : mem) (d : dirty) (b : iobuf) :=
  if avail b <? fold_left (fun a x => a + lenN x) datas 0 then (RErr ENoSpace, m, d, b)
  else vw_write_seq datas 0 m d b.

(* VirtioFsWriter::async_write_from_at: check_available_space(count); prepare_mut_io_buf(count); if empty Ok(0);
   the file fills a prefix and reports cnt; mark_dirty(cnt); mark_used(cnt) *)
Definition vw_async_write_from_at (count : N) (src : option (list N)) (m : mem) (d : dirty) (b : iobuf)
  : res * mem * dirty * iobuf :=
  if avail b <? count then (RErr ENoSpace, m, d, b)
  else match take_segs count (segs b) with
       | [] => (ROk 0 [], m, d, b)
       | bufs =>
           match src with
           | None => (RErr EFile, m, d, b)
           | Some data =>
               let '(m', cnt) := copy_in m bufs data in
               let d' := mark_dirty cnt (segs b) d in
               match mark_used cnt b with
               | None => (RErr EOverflow, m', d', b)
               | Some b' => (ROk cnt [], m', d', b')
               end
           end
       end.

Inductive avop :=
| ASync (op : vop)                                              (* any synchronous operation *)
| ARReadToAt (i : nat) (count : N) (sink : option N)            (* Reader::async_read_to_at *)
| AWrite (i : nat) (data : list N)                              (* async_write: `self.write(data)` *)
| AWrite2 (i : nat) (d1 d2 : list N)
| AWrite3 (i : nat) (d1 d2 d3 : list N)
| AWriteAll (i : nat) (data : list N)                           (* async_write_all: `self.write_all(buf)`; value reported = |buf| *)
| AWriteFromAt (i : nat) (count : N) (src : option (list N))
| ACommit (i : nat).                                            (* async_commit: `self.commit(other)` *)

Definition avstep (a : avop) (st : vstate) : obs * vstate :=
  let m := v_mem st in let d := v_dirty st in
  match a with
  | ASync op => vstep op st
  | ARReadToAt i count sink =>
      match nth_error (v_rd st) i with
      | None => (obs_bad, st)
      | Some b => let '(r, b') := rd_async_read_to_at count sink m b in
                  (obs1 r b', mkv m d (set_nth i b' (v_rd st)) (v_wr st))
      end
  | AWrite i data => vstep (WWrite i data) st
  | AWriteAll i data => vstep (WWrite i data) st
  | AWrite2 i d1 d2 =>
      match nth_error (v_wr st) i with
      | None => (obs_bad, st)
      | Some b => let '(r, m', d', b') := vw_async_writes [d1; d2] m d b in
                  (obs1 r b', mkv m' d' (v_rd st) (set_nth i b' (v_wr st)))
      end
  | AWrite3 i d1 d2 d3 =>
      match nth_error (v_wr st) i with
      | None => (obs_bad, st)
      | Some b => let '(r, m', d', b') := vw_async_writes [d1; d2; d3] m d b in
                  (obs1 r b', mkv m' d' (v_rd st) (set_nth i b' (v_wr st)))
      end
  | AWriteFromAt i count src =>
      match nth_error (v_wr st) i with
      | None => (obs_bad, st)
      | Some b => let '(r, m', d', b') := vw_async_write_from_at count src m d b in
                  (obs1 r b', mkv m' d' (v_rd st) (set_nth i b' (v_wr st)))
      end
  | ACommit i => vstep (WCommit i) st
  end.

(* the synchronous operation with the same effect *)
Definition desugar (a : avop) : vop :=
  match a with
  | ASync op => op
  | ARReadToAt i count sink => RReadTo i count sink
  | AWrite i data | AWriteAll i data => WWrite i data
  | AWrite2 i d1 d2 => WWriteV i [d1; d2]
  | AWrite3 i d1 d2 d3 => WWriteV i [d1; d2; d3]
  | AWriteFromAt i count src => WWriteFrom i count src
  | ACommit i => WCommit i
  end.

Fixpoint avrun (ops : list avop) (st : vstate) : list obs * vstate :=
  match ops with
  | [] => ([], st)
  | op :: r => let '(o, st') := avstep op st in
               let '(os, st'') := avrun r st' in (o :: os, st'')
  end.

(* ---- FuseDevWriter async variants.  [at_len] says where async_write_from_at puts the file data: true = behind
   the bytes already buffered (buf + len, like write_from_at), false = at the start of the buffer; the value for
   the current source is read by translator/async_transport.py (Gen/AsyncTransport.v). *)
Inductive afop :=
| FSync (op : fop)
| FAWrite (i : nat) (data : list N)                  (* buffered: extend; unbuffered: pwrite(fd, data, 0) = one packet *)
| FAWrite2 (i : nat) (d1 d2 : list N)                (* buffered: extend twice; unbuffered: writev([d1, d2]) *)
| FAWrite3 (i : nat) (d1 d2 d3 : list N)
| FAWriteAll (i : nat) (data : list N)               (* while !buf.is_empty() { async_write(buf) }: nothing at all for an empty buffer *)
| FAWriteFromAt (i : nat) (count : N) (src : option (list N))
| FACommit (i : nat) (other : option nat).

Definition fw_async_write_from_at (at_len : bool) (count : N) (src : option (list N)) (m : mem) (w : fdw)
  : res * mem * fdw * list (list N) :=
  match f_check w count with
  | Some r => (r, m, w, [])
  | None =>
      match src with
      | None => (RErr EFile, m, w, [])
      | Some data =>
          let got := firstn (N.to_nat count) data in
          let cnt := lenN got in
          let dst := if at_len then f_base w + f_len w else f_base w in      (* FileVolatileBuf::from_raw_ptr(<dst>, 0, count) *)
          let m' := write_list m dst got in
          let w' := mkfdw (f_buffered w) (f_base w) (f_len w + cnt) (f_cap w) in
          if f_buffered w then (ROk cnt [], m', w', [])
          else (ROk cnt [], m', w', [read_range m' (f_base w) cnt])          (* pwrite(fd, &self.buf[..cnt], 0) *)
      end
  end.

Definition afstep (at_len : bool) (a : afop) (st : fstate) : obs * fstate :=
  let m := f_mem st in
  match a with
  | FSync op => fstep op st
  | FAWrite i data => fstep (FWrite i data) st
  | FAWrite2 i d1 d2 => fstep (FWriteV i [d1; d2]) st
  | FAWrite3 i d1 d2 d3 => fstep (FWriteV i [d1; d2; d3]) st
  | FAWriteAll i data =>
      match data with
      | [] => match nth_error (f_ws st) i with
              | None => (obs_bad, st)
              | Some w => (fobs (ROk 0 []) w, st)
              end
      | _ => fstep (FWrite i data) st
      end
  | FAWriteFromAt i count src =>
      match nth_error (f_ws st) i with
      | None => (obs_bad, st)
      | Some w => let '(r, m', w', ps) := fw_async_write_from_at at_len count src m w in
                  (fobs r w', mkf m' (set_nth i w' (f_ws st)) (f_pkts st ++ ps))
      end
  | FACommit i other => fstep (FCommit i other) st
  end.

Definition fdesugar (a : afop) : fop :=
  match a with
  | FSync op => op
  | FAWrite i data | FAWriteAll i data => FWrite i data
  | FAWrite2 i d1 d2 => FWriteV i [d1; d2]
  | FAWrite3 i d1 d2 d3 => FWriteV i [d1; d2; d3]
  | FAWriteFromAt i count src => FWriteFrom i count src
  | FACommit i other => FCommit i other
  end.

Fixpoint afrun (at_len : bool) (ops : list afop) (st : fstate) : list obs * fstate :=
  match ops with
  | [] => ([], st)
  | op :: r => let '(o, st') := afstep at_len op st in
               let '(os, st'') := afrun at_len r st' in (o :: os, st'')
  end.

(* FuseDevWriter::write_all_from: check_available_space(count); loop { write_from(src, count) : Ok(0) => WriteZero,
   Ok(n) => count -= n }.  On an unbuffered writer the first iteration already sends its packet, so a source that
   ends early runs into the assert! of the second iteration (RPanic). *)
Fixpoint fw_write_all_from_loop (fuel : nat) (count : N) (src : option (list N)) (m : mem) (w : fdw) (pk : list (list N))
  : res * mem * fdw * list (list N) :=
  match fuel with
  | O => (RErr EBadIndex, m, w, pk)
  | S f =>
      if count =? 0 then (ROk 0 [], m, w, pk)
      else match fw_write_from count src m w with
           | (ROk 0 _, m', w', ps) => (RErr EEof, m', w', pk ++ ps)
           | (ROk n _, m', w', ps) =>
               fw_write_all_from_loop f (count - n) (option_map (skipn (N.to_nat n)) src) m' w' (pk ++ ps)
           | (r, m', w', ps) => (r, m', w', pk ++ ps)
           end
  end.
Definition fw_write_all_from (count : N) (src : option (list N)) (m : mem) (w : fdw) :=
  match f_check w count with
  | Some r => (r, m, w, [])
  | None => fw_write_all_from_loop (S (N.to_nat count)) count src m w []
  end.

(* operations outside [afop]: write_all_from and flush (FuseDevWriter::flush always refuses, changes nothing) *)
Inductive xfop :=
| XA (a : afop)
| XWriteAllFrom (i : nat) (count : N) (src : option (list N))
| XFlush (i : nat).
Definition xfstep (at_len : bool) (x : xfop) (st : fstate) : obs * fstate :=
  match x with
  | XA a => afstep at_len a st
  | XWriteAllFrom i count src =>
      match nth_error (f_ws st) i with
      | None => (obs_bad, st)
      | Some w => let '(r, m', w', ps) := fw_write_all_from count src (f_mem st) w in
                  (fobs r w', mkf m' (set_nth i w' (f_ws st)) (f_pkts st ++ ps))
      end
  | XFlush i =>
      match nth_error (f_ws st) i with
      | None => (obs_bad, st)
      | Some w => (fobs (RErr EBadIndex) w, st)
      end
  end.
Fixpoint xfrun (at_len : bool) (ops : list xfop) (st : fstate) : list obs * fstate :=
  match ops with
  | [] => ([], st)
  | op :: r => let '(o, st') := xfstep at_len op st in
               let '(os, st'') := xfrun at_len r st' in (o :: os, st'')
  end.

(* case checkers with async operations *)
Definition check_avd (seed : N) (regions : list (N * N)) (ds : list desc) (dirty0 : list N) (ops : list avop)
           (exp_init : hres) (exp : list hobs) (windows : list (N * N * N))
           (marked universe : list N) : bool :=
  let '(r, st0) := v_init seed regions ds in
  let st := mkv (v_mem st0) (dirty_of dirty0) (v_rd st0) (v_wr st0) in
  match r with
  | ROk _ _ =>
      res_heqb r exp_init &&
      let o0 := match v_rd st, v_wr st with
                | rd :: _, wr :: _ => mkobs (ROk 0 []) (avail rd) (consumed rd) (avail wr) (consumed wr)
                | _, _ => obs_bad
                end in
      let '(os, st') := avrun ops st in
      obs_list_heqb (o0 :: os) exp && windows_ok (v_mem st') windows && dirty_ok (v_dirty st') marked universe
  | _ => res_heqb r exp_init
  end.
Definition check_afr (seed base cap : N) (ops : list avop) (exp : list hobs) (windows : list (N * N * N)) : bool :=
  let b := mkio [mkseg base cap] 0 in
  let st := mkv (mem_init seed) dirty_none [b] [] in
  let '(os, st') := avrun ops st in
  obs_list_heqb (mkobs (ROk 0 []) (avail b) 0 0 0 :: os) exp && windows_ok (v_mem st') windows.
Definition check_af (at_len : bool) (seed base cap : N) (ops : list xfop) (exp : list hobs) (pkts : list (N * N))
           (windows : list (N * N * N)) : bool :=
  let w := mkfdw false base 0 cap in
  let st := mkf (mem_init seed) [w] [] in
  let '(os, st') := xfrun at_len ops st in
  obs_list_heqb (fobs (ROk 0 []) w :: os) exp && pkts_heqb (f_pkts st') pkts && windows_ok (f_mem st') windows.
