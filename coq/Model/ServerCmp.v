(* Boolean comparison of the server model's output with what the harness observed
   (used only by generated case files; no proofs). *)
From Coq Require Import List String NArith Bool.
From FB Require Import Lib.Bytes Model.Server.
Import ListNotations.
Local Open Scope N_scope.

Fixpoint bytes_eqb (a b : bytes) : bool :=
  match a, b with
  | [], [] => true
  | x :: a', y :: b' => (x =? y) && bytes_eqb a' b'
  | _, _ => false
  end.

Fixpoint list_eqb {A} (f : A -> A -> bool) (a b : list A) : bool :=
  match a, b with
  | [], [] => true
  | x :: a', y :: b' => f x y && list_eqb f a' b'
  | _, _ => false
  end.

Definition opt_eqb (a b : option N) : bool :=
  match a, b with Some x, Some y => x =? y | None, None => true | _, _ => false end.

Definition arg_eqb (a b : arg) : bool :=
  match a, b with
  | AN x, AN y => x =? y
  | AB x, AB y => bytes_eqb x y
  | AO x, AO y => opt_eqb x y
  | ABool x, ABool y => Bool.eqb x y
  | APairs x, APairs y => list_eqb (fun p q => (fst p =? fst q) && (snd p =? snd q)) x y
  | _, _ => false
  end.

Definition call_eqb (a b : call) : bool :=
  String.eqb (c_method a) (c_method b) &&
  (let '(u, g, p) := c_ctx a in let '(u', g', p') := c_ctx b in (u =? u') && (g =? g') && (p =? p')) &&
  list_eqb arg_eqb (c_args a) (c_args b).

Definition err_code (e : err) : N :=
  match e with
  | EDecodeMessage => 0 | EEncodeMessage => 1 | EInvalidHeaderLength => 2 | EInvalidCString => 3
  | EInvalidXattrSize => 4 | EMissingParameter => 5 | EInvalidMessage => 6 | EFailedToRemapID => 7
  end.

Definition res_eqb (a b : res) : bool :=
  match a, b with
  | ROk x, ROk y => x =? y
  | RErr x, RErr y => err_code x =? err_code y
  | _, _ => false
  end.

(* what the harness observed *)
Record obs := { ob_res : res; ob_panic : bool; ob_calls : list call;
                ob_packets : list bytes; ob_mem : bytes }.

(* the part of the virtio reply area the device reports as used *)
Definition used_mem (o : outcome) : bytes :=
  match o_res o with ROk n => firstn (N.to_nat n) (o_mem o) | RErr _ => [] end.

Definition obs_eqb (k : transport) (m : list call * outcome * option N) (ob : obs) : bool :=
  let '(cs, o, _) := m in
  if o_panic o then ob_panic ob
  else
    negb (ob_panic ob) && res_eqb (o_res o) (ob_res ob) && list_eqb call_eqb cs (ob_calls ob) &&
    match k with
    | FuseDev => list_eqb bytes_eqb (o_packets o) (ob_packets ob)
    | Virtio => bytes_eqb (used_mem o) (ob_mem ob)
    end.
