(* Case evaluation for the differential checks of C10 / C11 (props/c10.py, c11.py): the model and the
   specifications of Model/Overlay.v run on generated inputs, results compared through a 63-bit hash.
   Executable Gallina only; nothing here is used by Proofs/ or Props/ (so the proofs' cone is free of
   the primitive-integer library). *)
From Coq Require Import List String NArith ZArith Bool Ascii Uint63.
From FB Require Import Model.Overlay.
Import ListNotations.
Local Open Scope string_scope.
Local Open Scope N_scope.
Local Open Scope list_scope.

(* views and upper-layer dumps are compared through a 63-bit polynomial hash of their
   serialisation (the literal strings are too slow to parse in bulk) *)
Fixpoint shash (s : string) (h : int) : int :=
  match s with
  | EmptyString => h
  | String c r => shash r (Uint63.add (Uint63.mul h 1000003%uint63) (Uint63.of_Z (Z.of_N (N_of_ascii c))))
  end.
Definition hash (s : string) : int := shash s 0%uint63.
Definition opt_eqb (got : int) (want : option int) (prev : int) : bool :=
  match want with Some w => Uint63.eqb got w | None => Uint63.eqb got prev end.
Definition pick (want : option int) (prev : int) : int := match want with Some w => w | None => prev end.

(* one expected step: dump?, op, errno, payload, hash of view (None = unchanged), hash of upper dump (None = unchanged) *)
Definition expect := (bool * op * N * string * option int * option int)%type.
Definition E (dump : bool) (o : op) (e : N) (payload : string) (v u : option int) : expect := (dump, o, e, payload, v, u).
Definition upper_hash (s : state) : int := hash (match upper s with Some t => ser SER t | None => "" end).
Fixpoint check_run (s : state) (pv pu : int) (es : list expect) : bool :=
  match es with
  | [] => true
  | (dump, o, e, payload, v, u) :: es' =>
      let '(r, s1) := step o s in
      res_eqb r e payload &&
      (if dump then
         let s2 := load_all s1 in
         opt_eqb (hash (ser_opt (view s2))) v pv &&
         opt_eqb (upper_hash s2) u pu &&
         check_run s2 (pick v pv) (pick u pu) es'
       else check_run s1 pv pu es')
  end.
(* model = implementation on a whole case *)
Definition check_case (u : option tree) (ls : list tree) (v0 : int) (es : list expect) : bool :=
  let s0 := load_all (fresh u ls 1000) in
  Uint63.eqb (hash (ser_opt (view s0))) v0 &&
  check_run s0 v0 (upper_hash s0) es.

(* the C10 predicate on observations: initial view = union; every step = ordinary file system step *)
Fixpoint check_spec (s : fs) (pv : int) (es : list expect) : bool :=
  match es with
  | [] => true
  | (dump, o, e, payload, v, _) :: es' =>
      let '(r, s1) := fs_apply o s in
      res_eqb r e payload &&
      (if dump then opt_eqb (hash (ser SER (f_tree s1))) v pv && check_spec s1 (pick v pv) es'
       else check_spec s1 pv es')
  end.
Definition check_union (u : option tree) (ls : list tree) (v0 : int) : bool :=
  Uint63.eqb (hash (ser_opt (merge (all_layers u ls)))) v0.
Definition check_ordinary (u : option tree) (ls : list tree) (es : list expect) : bool :=
  match merge (all_layers u ls) with
  | Some t => check_spec (mkFs t 1000) (hash (ser SER t)) es
  | None => false
  end.

(* diagnostics for failing cases: the specification's / the model's view after a history *)
Definition spec_view (u : option tree) (ls : list tree) (ops : list op) : string :=
  match merge (all_layers u ls) with
  | Some t => ser SER (f_tree (fold_left (fun (acc : fs) (o : op) => snd (fs_apply o acc)) ops (mkFs t 1000)))
  | None => "!none"
  end.
Definition model_state (u : option tree) (ls : list tree) (ops : list (bool * op)) : state :=
  fold_left (fun (acc : state) (o : bool * op) => let s1 := run_op (snd o) acc in if fst o then load_all s1 else s1) ops (load_all (fresh u ls 1000)).
Definition model_view (u : option tree) (ls : list tree) (ops : list (bool * op)) : string :=
  ser_opt (view (load_all (model_state u ls ops))).
Definition model_upper (u : option tree) (ls : list tree) (ops : list (bool * op)) : string :=
  match upper (model_state u ls ops) with Some t => ser SER t | None => "" end.
Definition model_restart_view (u : option tree) (ls : list tree) (ops : list (bool * op)) : string :=
  ser_opt (view (load_all (restart (model_state u ls ops)))).

(* locating the first disagreeing step of a case (diagnostics only) *)
Fixpoint spec_first_bad (s : fs) (pv : int) (es : list expect) (i : N) : option (N * string * string) :=
  match es with
  | [] => None
  | (dump, o, e, payload, v, _) :: es' =>
      let '(r, s1) := fs_apply o s in
      if res_eqb r e payload && (if dump then opt_eqb (hash (ser SER (f_tree s1))) v pv else true)
      then spec_first_bad s1 (if dump then pick v pv else pv) es' (i + 1)
      else Some (i, ser SER (f_tree s1), match r with Ok p => p | Err x => hexN x end)
  end.
Definition ordinary_first_bad (u : option tree) (ls : list tree) (es : list expect) : option (N * string * string) :=
  match merge (all_layers u ls) with
  | Some t => spec_first_bad (mkFs t 1000) (hash (ser SER t)) es 0
  | None => Some (0, "!none", "")
  end.
Fixpoint run_first_bad (s : state) (pv pu : int) (es : list expect) (i : N) : option (N * string * string * string) :=
  match es with
  | [] => None
  | (dump, o, e, payload, v, u) :: es' =>
      let '(r, s1) := step o s in
      let s2 := if dump then load_all s1 else s1 in
      if res_eqb r e payload &&
         (if dump then opt_eqb (hash (ser_opt (view s2))) v pv && opt_eqb (upper_hash s2) u pu else true)
      then run_first_bad s2 (if dump then pick v pv else pv) (if dump then pick u pu else pu) es' (i + 1)
      else Some (i, ser_opt (view (load_all s2)), match upper s2 with Some t => ser SER t | None => "" end,
                 match r with Ok p => p | Err x => hexN x end)
  end.
Definition tie_first_bad (u : option tree) (ls : list tree) (v0 : int) (es : list expect) : option (N * string * string * string) :=
  let s0 := load_all (fresh u ls 1000) in
  if Uint63.eqb (hash (ser_opt (view s0))) v0 then run_first_bad s0 v0 (upper_hash s0) es 0
  else Some (0, ser_opt (view s0), "", "initial view").

(* C11 correspondence: additionally the model's restarted view = the view of a second OverlayFs
   instance built over the same directories, after every dumped step *)
Definition restart_hash (s : state) : int := hash (ser_opt (view (load_all (restart s)))).
Fixpoint check_run11 (s : state) (pv pu : int) (es : list expect) (rs : list (option int)) : bool :=
  match es, rs with
  | [], _ => true
  | (dump, o, e, payload, v, u) :: es', r :: rs' =>
      let '(rr, s1) := step o s in
      res_eqb rr e payload &&
      (if dump then
         let s2 := load_all s1 in
         opt_eqb (hash (ser_opt (view s2))) v pv &&
         opt_eqb (upper_hash s2) u pu &&
         (match r with Some h => Uint63.eqb (restart_hash s2) h | None => true end) &&
         check_run11 s2 (pick v pv) (pick u pu) es' rs'
       else check_run11 s1 pv pu es' rs')
  | _ :: _, [] => false
  end.
Definition check_case11 (u : option tree) (ls : list tree) (v0 r0 : int) (es : list expect) (rs : list (option int)) : bool :=
  let s0 := load_all (fresh u ls 1000) in
  Uint63.eqb (hash (ser_opt (view s0))) v0 && Uint63.eqb (restart_hash s0) r0 &&
  check_run11 s0 v0 (upper_hash s0) es rs.

(* layer-kind pattern cases (no operations): union predicate and model = implementation in one evaluation *)
Definition check_pattern (u : option tree) (ls : list tree) (v0 : int) : bool :=
  check_union u ls v0 && check_case u ls v0 [].
