(* Small-step interleaving model of do_lookup / forget on ONE file of the passthrough inode
   table (src/passthrough/mod.rs do_lookup 'search loop + locked re-probe, forget_one;
   sync_io.rs forget), at the granularity of the atomic operations and lock acquisitions.
   Sequentially consistent.  Executable Gallina, no proofs.

   Shared state: the generations of InodeData objects ever created for the file with their
   refcounts (an Arc<InodeData> a thread holds can outlive its removal from the map), which
   generation (if any) is in the map, the map's RwLock (readers hold it only inside one step).
   The inode number is the same for every generation (number mapping kept / deterministic: C08).

   Program counters (the yield points of the verif hook are L0,L1,L2,L3,F0,F2):
     L0 probe (read lock)  -> hit: L1 | miss: L3
     L1 load refcount      -> 0: L0 (retry) | L2
     L2 compare_exchange   -> ok: done | fail: L0
     L3 take write lock    -> L4
     L4 re-probe under the lock: fetch_add on a hit, else insert a new object with count 1; unlock; done
     F0 take write lock    -> F1
     F1 inodes.get: absent -> unlock, done | load refcount -> F2
     F2 compare_exchange(curr, curr.saturating_sub(n)) -> ok: remove if 0; unlock; done | fail: F1 *)
From Coq Require Import List NArith Bool Arith.
Import ListNotations.
Local Open Scope N_scope.

Definition U64MAX : N := 18446744073709551615.
Definition wrap64 (a : N) : N := a mod 18446744073709551616.

(* CRdp deliver: one READDIRPLUS entry for the file: do_lookup, then (add_entry says the entry did not fit)
   the reference is given back: get_map_mut + forget_one(ino, 1) -- or it is kept (deliver = true, the
   client now holds one more reference: same steps as a lookup) *)
Inductive cop := CLookup | CForget (n : N) | CRdp (deliver : bool).
Inductive pcs := PIdle | L0 | L1 | L2 | L3 | L4 | F0 | F1 | F2 | U0.

Record thread := mkTh {
  pc : pcs;
  held : nat;            (* generation of the Arc<InodeData> the thread holds *)
  seen : N;              (* refcount value it loaded *)
  arg : N;               (* count of the forget in progress; during a lookup: count of the forget that follows it
                            at once (readdirplus undo), 0 if none *)
  prog : list cop;       (* operations still to start *)
  done_ops : N           (* operations completed *)
}.

Record cstate := mkC {
  rcs : nat -> N;        (* refcount of each generation *)
  ngen : nat;            (* generations created so far *)
  cur : option nat;      (* generation in the map *)
  wl : option nat;       (* thread holding the write lock *)
  thr : nat -> thread;
  (* ghost *)
  base : N;              (* references held before the run *)
  linc : N;              (* base + increments / insertions applied *)
  ldone : N;             (* lookups applied: returned to the client, delivered by readdirplus, or about to be undone by it *)
  fdec : N;              (* references actually dropped by forgets *)
  fnom : N               (* sum of the counts of the forgets applied *)
}.

Definition fupd {A} (f : nat -> A) (k : nat) (v : A) : nat -> A := fun x => if Nat.eqb x k then v else f x.

Definition rc_now (s : cstate) : N := match cur s with Some g => rcs s g | None => 0 end.

Definition set_thr (s : cstate) (t : nat) (th : thread) : cstate :=
  mkC (rcs s) (ngen s) (cur s) (wl s) (fupd (thr s) t th) (base s) (linc s) (ldone s) (fdec s) (fnom s).

Definition th_pc (th : thread) (p : pcs) : thread := mkTh p (held th) (seen th) (arg th) (prog th) (done_ops th).
Definition th_done (th : thread) : thread := mkTh PIdle (held th) (seen th) (arg th) (prog th) (done_ops th + 1).

(* after the lookup took its reference: the operation is complete, or (readdirplus undo) the closure goes on to
   take the write lock again (U0: no yield point there) and forget_one *)
Definition th_after_lookup (th : thread) : thread := if arg th =? 0 then th_done th else th_pc th U0.

Definition is_none_nat (o : option nat) : bool := match o with None => true | Some _ => false end.

(* one atomic step of thread t; None: not enabled (blocked on the lock, or finished) *)
Definition tstep (s : cstate) (t : nat) : option cstate :=
  let th := thr s t in
  match pc th with
  | PIdle =>
      match prog th with
      | [] => None
      | CLookup :: r => Some (set_thr s t (mkTh L0 (held th) (seen th) 0 r (done_ops th)))
      | CForget n :: r => Some (set_thr s t (mkTh F0 (held th) (seen th) n r (done_ops th)))
      | CRdp d :: r => Some (set_thr s t (mkTh L0 (held th) (seen th) (if d then 0 else 1) r (done_ops th)))
      end
  | L0 =>
      if is_none_nat (wl s) then
        match cur s with
        | Some g => Some (set_thr s t (mkTh L1 g (seen th) (arg th) (prog th) (done_ops th)))
        | None => Some (set_thr s t (th_pc th L3))
        end
      else None
  | L1 =>
      let c := rcs s (held th) in
      if c =? 0 then Some (set_thr s t (th_pc th L0))
      else Some (set_thr s t (mkTh L2 (held th) c (arg th) (prog th) (done_ops th)))
  | L2 =>
      if rcs s (held th) =? seen th then
        Some (mkC (fupd (rcs s) (held th) (N.min (seen th + 1) U64MAX)) (ngen s) (cur s) (wl s)
                  (fupd (thr s) t (th_after_lookup th)) (base s) (linc s + 1) (ldone s + 1) (fdec s) (fnom s))
      else Some (set_thr s t (th_pc th L0))
  | L3 =>
      if is_none_nat (wl s) then
        Some (mkC (rcs s) (ngen s) (cur s) (Some t) (fupd (thr s) t (th_pc th L4))
                  (base s) (linc s) (ldone s) (fdec s) (fnom s))
      else None
  | L4 =>
      match cur s with
      | Some g =>
          Some (mkC (fupd (rcs s) g (wrap64 (rcs s g + 1))) (ngen s) (cur s) None
                    (fupd (thr s) t (th_after_lookup th)) (base s) (linc s + 1) (ldone s + 1) (fdec s) (fnom s))
      | None =>
          Some (mkC (fupd (rcs s) (ngen s) 1) (S (ngen s)) (Some (ngen s)) None
                    (fupd (thr s) t (th_after_lookup th)) (base s) (linc s + 1) (ldone s + 1) (fdec s) (fnom s))
      end
  | F0 =>
      if is_none_nat (wl s) then
        Some (mkC (rcs s) (ngen s) (cur s) (Some t) (fupd (thr s) t (th_pc th F1))
                  (base s) (linc s) (ldone s) (fdec s) (fnom s))
      else None
  | U0 =>
      if is_none_nat (wl s) then
        Some (mkC (rcs s) (ngen s) (cur s) (Some t) (fupd (thr s) t (th_pc th F1))
                  (base s) (linc s) (ldone s) (fdec s) (fnom s))
      else None
  | F1 =>
      match cur s with
      | None =>
          Some (mkC (rcs s) (ngen s) (cur s) None (fupd (thr s) t (th_done th))
                    (base s) (linc s) (ldone s) (fdec s) (fnom s + arg th))
      | Some g =>
          Some (set_thr s t (mkTh F2 g (rcs s g) (arg th) (prog th) (done_ops th)))
      end
  | F2 =>
      if rcs s (held th) =? seen th then
        let new := seen th - arg th in
        Some (mkC (fupd (rcs s) (held th) new) (ngen s) (if new =? 0 then None else cur s) None
                  (fupd (thr s) t (th_done th)) (base s) (linc s) (ldone s)
                  (fdec s + N.min (arg th) (seen th)) (fnom s + arg th))
      else Some (set_thr s t (th_pc th F1))
  end.

Inductive cstep : cstate -> cstate -> Prop :=
| cstep_intro : forall s t s', tstep s t = Some s' -> cstep s s'.

Inductive reachable (s0 : cstate) : cstate -> Prop :=
| reach_refl : reachable s0 s0
| reach_step : forall s s', reachable s0 s -> cstep s s' -> reachable s0 s'.

(* initial states: the file is either absent from the map or present with count r0 > 0 *)
Definition idle_thread (p : list cop) : thread := mkTh PIdle 0 0 0 p 0.
Definition cinit (r0 : N) (progs : nat -> list cop) : cstate :=
  mkC (fun g => if Nat.eqb g 0 then r0 else 0) (if N.eqb r0 0 then 0%nat else 1%nat)
      (if N.eqb r0 0 then None else Some 0%nat) None (fun t => idle_thread (progs t)) r0 r0 0 0 0.

(* ---------------------------------------------------------------- running a schedule given at yield-point granularity *)
(* the hook's yield points: a thread runs from one of them to the next *)
Definition at_yield (p : pcs) : bool :=
  match p with L0 | L1 | L2 | L3 | F0 | F2 => true | _ => false end.
Definition finished (th : thread) : bool :=
  match pc th, prog th with PIdle, [] => true | _, _ => false end.

(* run thread t until it reaches a yield point or finishes (at least one step) *)
Fixpoint macro (fuel : nat) (s : cstate) (t : nat) : option cstate :=
  match fuel with
  | O => None
  | S f =>
      match tstep s t with
      | None => None
      | Some s1 =>
          let th := thr s1 t in
          if at_yield (pc th) || finished th then Some s1 else macro f s1 t
      end
  end.

(* threads are started one after the other up to their first yield point, then the schedule
   (a list of thread ids) is followed; the yield id reached after each scheduling step is recorded *)
Definition pc_id (th : thread) : N :=
  match pc th with L0 => 0 | L1 => 1 | L2 => 2 | L3 => 3 | F0 => 4 | F2 => 5 | _ => 9 end.

Fixpoint run_sched (s : cstate) (sched : list nat) : option (list N * cstate) :=
  match sched with
  | [] => Some ([], s)
  | t :: r =>
      match macro 16 s t with
      | None => None
      | Some s1 =>
          match run_sched s1 r with
          | Some (l, s2) => Some (pc_id (thr s1 t) :: l, s2)
          | None => None
          end
      end
  end.

Fixpoint nlist_eqb (a b : list N) : bool :=
  match a, b with
  | [], [] => true
  | x :: r, y :: r' => (x =? y) && nlist_eqb r r'
  | _, _ => false
  end.

(* compare with an observed run: trace of yield ids, final count (0 = not in the table),
   operations completed per thread *)
Definition check_sched (r0 : N) (progs : list (list cop)) (sched : list nat) (trace : list N)
           (final_rc : N) (dones : list N) : bool :=
  let pf := fun t => nth t progs [] in
  match run_sched (cinit r0 pf) sched with
  | None => false
  | Some (l, s) =>
      nlist_eqb l trace && (rc_now s =? final_rc) &&
      nlist_eqb (map (fun t => done_ops (thr s t)) (seq 0 (length progs))) dones &&
      forallb (fun t => finished (thr s t)) (seq 0 (length progs))
  end.
