(* Model of src/api/server/sync_io.rs: Server::handle_message and every handler,
   written line by line from the Rust source.  Executable Gallina, no proofs here.

   Structure: [decide] is the decoding / dispatch logic (which filesystem call is
   made with which arguments, and which reply [action] is taken); [perform] runs an
   action against the explicit writer model (Model of FuseDevWriter / VirtioFsWriter
   as used by the server).  The filesystem is an oracle: its answer [fsres] is an
   input. *)
From Coq Require Import List String NArith Bool.
From FB Require Import Lib.Bytes.
Import ListNotations.
Local Open Scope string_scope.
Local Open Scope list_scope.
Local Open Scope N_scope.

Definition bytes := list N.

(* ------------------------------------------------------------------ constants
   (values of src/api/server/mod.rs and src/abi; checked against the translated
   tables in Proofs/ServerConsts.v) *)
Definition MAX_BUFFER_SIZE : N := 1048576.
Definition BUFFER_HEADER_SIZE : N := 4096.
Definition MIN_READ_BUFFER : N := 8192.
Definition MAX_REQ_PAGES : N := 256.
Definition PAGE_SIZE : N := 4096.
Definition KERNEL_VERSION : N := 7.
Definition KERNEL_MINOR_VERSION : N := 33.
Definition IN_HDR : N := 40.
Definition OUT_HDR : N := 16.

(* errno values used by the server itself *)
Definition ENOENT := 2. Definition EIO := 5. Definition ENOMEM := 12. Definition EINVAL := 22.
Definition ENOTTY := 25. Definition ENOSYS := 38. Definition EPROTO := 71. Definition EOVERFLOW := 75.

(* ------------------------------------------------------------------ results *)
Inductive err :=
| EDecodeMessage | EEncodeMessage | EInvalidHeaderLength | EInvalidCString
| EInvalidXattrSize | EMissingParameter | EInvalidMessage | EFailedToRemapID.

Inductive res := ROk (n : N) | RErr (e : err).

(* an io::Error coming from the filesystem: a raw errno, or an ErrorKind without errno *)
Inductive ioerr := Os (n : N) | Kind (k : N).
(* ErrorKind codes used by the harness: 0 PermissionDenied 1 NotFound 2 Interrupted
   3 AlreadyExists 4 WouldBlock 5 InvalidData 6 Other 7 TimedOut 8 UnexpectedEof 9 WriteZero *)
Definition encode_io_error_kind (k : N) : N :=
  match k with
  | 0 => 13 (* EPERM | EACCES = 1 | 13 *)
  | 1 => 2 | 2 => 4 | 3 => 17 | 4 => 11
  | _ => 5
  end.
Definition errno_of (e : ioerr) : N :=
  match e with Os n => n | Kind k => encode_io_error_kind k end.

(* ------------------------------------------------------------------ fs values *)
Record stat := { st_ino : N; st_size : N; st_blocks : N; st_atime : N; st_mtime : N; st_ctime : N;
                 st_atime_nsec : N; st_mtime_nsec : N; st_ctime_nsec : N; st_mode : N; st_nlink : N;
                 st_uid : N; st_gid : N; st_rdev : N; st_blksize : N }.

Record entry := { e_inode : N; e_generation : N; e_attr : stat; e_attr_flags : N;
                  e_attr_secs : N; e_attr_nsecs : N; e_entry_secs : N; e_entry_nsecs : N }.

Record dirent := { d_ino : N; d_off : N; d_type : N; d_name : bytes }.

Record statvfs := { f_blocks : N; f_bfree : N; f_bavail : N; f_files : N; f_ffree : N;
                    f_bsize : N; f_namemax : N; f_frsize : N }.

Record flock := { lk_start : N; lk_end : N; lk_type : N; lk_pid : N }.

Inductive fsres :=
| FErr (e : ioerr)
| FUnit
| FEntry (e : entry)
| FAttr (st : stat) (secs nsecs : N)
| FBytes (b : bytes)                                   (* readlink / xattr value / listxattr names *)
| FCount (n : N)                                       (* xattr size query; write count *)
| FOpen (fh : option N) (opts : N) (pt : option N)
| FCreate (e : entry) (fh : option N) (opts : N) (pt : option N)
| FRead (data : bytes)                                 (* bytes the fs pushes into the data writer; it returns their count *)
| FStatfs (s : statvfs)
| FLock (l : flock)
| FDirents (ds : list (dirent * entry))                (* entries the fs offers, in order; entry used for readdirplus *)
| FInit (want : N)
| FIoctl (result : N) (data : bytes)
| FNum (n : N).                                        (* bmap block, poll revents, lseek offset *)

(* ------------------------------------------------------------------ fs calls *)
Inductive arg :=
| AN (n : N) | AB (b : bytes) | AO (o : option N) | ABool (b : bool)
| APairs (l : list (N * N)).

Record call := { c_method : string; c_ctx : N * N * N; c_args : list arg }.

(* ------------------------------------------------------------------ actions *)
Inductive action :=
| NoReply (r : res)                            (* return without writing anything *)
| ReplyOk (body : bytes)                       (* ctx.reply_ok(out, data): header + body in one write *)
| ReplyErr (errno : N) (after : option res)    (* do_reply_error; [after]: value returned instead of the reply's own result *)
| ReplySplit (data : bytes)                    (* read/readdir: split_at(16), the fs pushes [data] into the 2nd half and returns its length as count; header(16+count); commit both *)
| ReplySplitErr (errno : N)                    (* after the split, error reply through the (buffered) first half *)
| ReplyOkIgnored (body : bytes).               (* destroy: reply_ok whose result is dropped; handle_message returns Ok(0) *)

(* ------------------------------------------------------------------ decoding helpers *)
Definition u16 (off : nat) (b : bytes) : N := dec (firstn 2 (skipn off b)).
Definition u32 (off : nat) (b : bytes) : N := dec (firstn 4 (skipn off b)).
Definition u64 (off : nat) (b : bytes) : N := dec (firstn 8 (skipn off b)).
Definition blen (b : bytes) : N := N.of_nat (List.length b).
Definition land32 (a b : N) : bool := negb (N.land a b =? 0).

(* Reader::read_obj of [n] bytes on the flat request stream *)
Definition read_obj (n : nat) (r : bytes) : option (bytes * bytes) :=
  if Nat.ltb (List.length r) n then None else Some (firstn n r, skipn n r).

Fixpoint find_nul (b : bytes) : option nat :=
  match b with
  | [] => None
  | x :: r => if x =? 0 then Some O else match find_nul r with Some p => Some (S p) | None => None end
  end.

(* ServerUtil::get_message_body *)
Definition get_message_body (r : bytes) (hlen sub : N) : res + bytes :=
  if hlen <? IN_HDR + sub then inl (RErr EInvalidHeaderLength)
  else let len := N.to_nat (hlen - IN_HDR - sub) in
       if Nat.ltb (List.length r) len then inl (RErr EDecodeMessage) else inr (firstn len r).

(* bytes_to_cstr: name without its NUL, or None *)
Definition bytes_to_cstr (b : bytes) : option bytes :=
  match find_nul b with Some p => Some (firstn p b) | None => None end.

(* ServerUtil::extract_two_cstrs *)
Definition extract_two_cstrs (b : bytes) : res + (bytes * bytes) :=
  match find_nul b with
  | Some p =>
    let rest := skipn (S p) b in
    match rest with
    | [] => inl (RErr EDecodeMessage)
    | _ => match bytes_to_cstr rest with
           | Some second => inr (firstn p b, second)
           | None => inl (RErr EInvalidCString)
           end
    end
  | None => inl (RErr EDecodeMessage)
  end.

(* ------------------------------------------------------------------ encoders *)
Definition out_header (len : N) (error : N) (unique : N) : bytes :=
  enc 4 len ++ enc 4 error ++ enc 8 unique.
(* error field = -(errno) as i32, two's complement *)
Definition neg32 (n : N) : N := (4294967296 - n mod 4294967296) mod 4294967296.

(* Attr::with_flags(st, flags) *)
Definition attr_bytes (s : stat) (flags : N) : bytes :=
  enc 8 (st_ino s) ++ enc 8 (st_size s) ++ enc 8 (st_blocks s) ++
  enc 8 (st_atime s) ++ enc 8 (st_mtime s) ++ enc 8 (st_ctime s) ++
  enc 4 (st_atime_nsec s) ++ enc 4 (st_mtime_nsec s) ++ enc 4 (st_ctime_nsec s) ++
  enc 4 (st_mode s) ++ enc 4 (st_nlink s) ++ enc 4 (st_uid s) ++ enc 4 (st_gid s) ++
  enc 4 (st_rdev s) ++ enc 4 (st_blksize s) ++ enc 4 flags.

(* EntryOut::from(entry) *)
Definition entry_out (e : entry) (flags : N) : bytes :=
  enc 8 (e_inode e) ++ enc 8 (e_generation e) ++ enc 8 (e_entry_secs e) ++ enc 8 (e_attr_secs e) ++
  enc 4 (e_entry_nsecs e) ++ enc 4 (e_attr_nsecs e) ++ attr_bytes (e_attr e) flags.

Definition attr_out (st : stat) (secs nsecs : N) : bytes :=
  enc 8 secs ++ enc 4 nsecs ++ enc 4 0 ++ attr_bytes st 0.

Definition opt0 (o : option N) : N := match o with Some v => v | None => 0 end.
Definition open_out (fh : option N) (opts : N) (pt : option N) : bytes :=
  enc 8 (opt0 fh) ++ enc 4 opts ++ enc 4 (opt0 pt).

Definition kstatfs_bytes (s : statvfs) : bytes :=
  enc 8 (f_blocks s) ++ enc 8 (f_bfree s) ++ enc 8 (f_bavail s) ++ enc 8 (f_files s) ++ enc 8 (f_ffree s) ++
  enc 4 (f_bsize s) ++ enc 4 (f_namemax s) ++ enc 4 (f_frsize s) ++ enc 4 0 ++ enc 24 0.

Definition flock_bytes (l : flock) : bytes :=
  enc 8 (lk_start l) ++ enc 8 (lk_end l) ++ enc 4 (lk_type l) ++ enc 4 (lk_pid l).

(* add_dirent: returns the bytes appended (empty = entry skipped) *)
Definition pad8 (n : N) : N := N.land (n + 7) (N.lnot 7 64).
Definition dirent_bytes (d : dirent) (plus : option bytes) : bytes :=
  let nl := blen (d_name d) in
  let dl := 24 + nl in
  match plus with Some eo => eo | None => [] end ++
  enc 8 (d_ino d) ++ enc 8 (d_off d) ++ enc 4 nl ++ enc 4 (d_type d) ++ d_name d ++
  repeat 0 (N.to_nat (pad8 dl - dl)).
Definition dirent_total (d : dirent) (plus : bool) : N :=
  pad8 (24 + blen (d_name d)) + (if plus then 128 else 0).

(* the scripted filesystem's readdir loop: offer entries until add_entry returns Ok(0) *)
Fixpoint fill_dirents (ds : list (dirent * entry)) (plus : bool) (max : N) (acc : bytes) : bytes :=
  match ds with
  | [] => acc
  | (d, e) :: r =>
    let total := dirent_total d plus in
    if (max - blen acc) <? total then acc      (* saturating_sub; Ok(0): the fs stops *)
    else fill_dirents r plus max
           (acc ++ dirent_bytes d (if plus then Some (entry_out e (e_attr_flags e)) else None))
  end.

(* ------------------------------------------------------------------ request header *)
Record hdr := { h_len : N; h_opcode : N; h_unique : N; h_nodeid : N; h_uid : N; h_gid : N; h_pid : N }.
Definition parse_hdr (b : bytes) : hdr :=
  {| h_len := u32 0 b; h_opcode := u32 4 b; h_unique := u64 8 b; h_nodeid := u64 16 b;
     h_uid := u32 24 b; h_gid := u32 28 b; h_pid := u32 32 b |}.

(* how the filesystem's id_remap_with_nodeid answers for this request *)
Inductive remap := RemapOk (duid dgid : N) | RemapFail.

Record config := {
  cfg_minor : N;          (* Server.vers.minor as negotiated by an earlier INIT (33 initially) *)
  cfg_remap : remap;
  cfg_vu_req : bool;      (* a DAX cache request handler was passed to handle_message *)
  cfg_fsopt_mask : N      (* FsOptions::all().bits(), from the translated bitflags table *)
}.

Definition mk (m : string) (c : N * N * N) (a : list arg) : call :=
  {| c_method := m; c_ctx := c; c_args := a |}.

(* result of decide: the filesystem calls made (in order) and the action *)
Definition decision := (list call * action)%type.

Definition unit_reply (fr : fsres) : action :=
  match fr with FErr e => ReplyErr (errno_of e) None | _ => ReplyOk [] end.
Definition entry_reply (fr : fsres) : action :=
  match fr with
  | FErr e => ReplyErr (errno_of e) None
  | FEntry e => ReplyOk (entry_out e (e_attr_flags e))
  | _ => ReplyOk []
  end.
Definition attr_reply (fr : fsres) : action :=
  match fr with
  | FErr e => ReplyErr (errno_of e) None
  | FAttr st s n => ReplyOk (attr_out st s n)
  | _ => ReplyOk []
  end.

(* name handlers: get_message_body(sub) then bytes_to_cstr with the explicit EINVAL reply *)
Definition with_name (r : bytes) (hlen sub : N) (k : bytes -> decision) : decision :=
  match get_message_body r hlen sub with
  | inl e => ([], NoReply e)
  | inr buf =>
    match bytes_to_cstr buf with
    | None => ([], ReplyErr EINVAL (Some (RErr EInvalidCString)))
    | Some name => k name
    end
  end.

Definition with_obj (n : nat) (r : bytes) (k : bytes -> bytes -> decision) : decision :=
  match read_obj n r with
  | None => ([], NoReply (RErr EDecodeMessage))
  | Some (s, r') => k s r'
  end.

Definition RENAME_MASK : N := 7.

(* Two places where the code at the pinned commit (60f75a4) departed from the protocol
   (DESIGN.md section 4, D1 and D2); both were repaired in /repo by "fix:" commits and
   the model follows the repaired code:
     D1 sync_io.rs setlkw() called fs.setlk           -> now fs.setlkw
     D2 sync_io.rs create() built EntryOut by hand with attr flags 0 -> now EntryOut::from(entry) *)
Definition SETLKW_METHOD : string := "setlkw".
Definition CREATE_ATTR_FLAGS (e : entry) : N := e_attr_flags e.

(* init: returns (decision, new minor) *)
Definition init_out (major minor readahead flags mb ct mw tg mp ma flags2 : N) : bytes :=
  enc 4 major ++ enc 4 minor ++ enc 4 readahead ++ enc 4 flags ++ enc 2 mb ++ enc 2 ct ++
  enc 4 mw ++ enc 4 tg ++ enc 2 mp ++ enc 2 ma ++ enc 4 flags2 ++ enc 28 0.

Definition INIT_EXT_BIT : N := 1073741824.
Definition BIG_WRITES_BIT : N := 32.
Definition MAX_PAGES_BIT : N := 4194304.

Definition do_init (cfg : config) (h : hdr) (r : bytes) (fr : fsres) : decision * option N :=
  match read_obj 16 r with
  | None => (([], NoReply (RErr EDecodeMessage)), None)
  | Some (s, r') =>
    let major := u32 0 s in let minor := u32 4 s in
    let max_readahead := u32 8 s in let flags := u32 12 s in
    if major <? KERNEL_VERSION then (([], ReplyErr EPROTO None), None)
    else if KERNEL_VERSION <? major then
      (([], ReplyOk (init_out KERNEL_VERSION KERNEL_MINOR_VERSION 0 0 0 0 0 0 0 0 0)), None)
    else
      let flags64 :=
        if land32 flags INIT_EXT_BIT then
          if Nat.leb 48 (List.length r') then N.lor flags (N.shiftl (u32 0 r') 32)
          else N.land flags (N.lnot INIT_EXT_BIT 64)
        else flags in
      let capable := N.land flags64 (cfg_fsopt_mask cfg) in
      let c := mk "init" (0, 0, 0) [AN capable] in
      match fr with
      | FInit want =>
        (* capable & want, plus the INIT_EXT marker whenever the client used the extended form
           (D5 of DESIGN.md section 4, repaired in /repo by a fix: commit) *)
        let enabled := N.lor (N.land capable want) (N.land capable INIT_EXT_BIT) in
        let mw0 := MIN_READ_BUFFER - BUFFER_HEADER_SIZE in
        let mw1 := if land32 enabled BIG_WRITES_BIT then MAX_REQ_PAGES * PAGE_SIZE else mw0 in
        let mp := if land32 enabled MAX_PAGES_BIT then MAX_REQ_PAGES else 0 in
        let mw := if land32 enabled MAX_PAGES_BIT then MAX_REQ_PAGES * PAGE_SIZE else mw1 in
        let out := init_out KERNEL_VERSION KERNEL_MINOR_VERSION max_readahead
                            (enabled mod 4294967296) 65535 49149 mw 1 mp 0 (N.shiftr enabled 32) in
        let body := if minor <? 5 then firstn 8 out
                    else if minor <? 23 then firstn 24 out else out in
        (([c], ReplyOk body), Some minor)
      | FErr e => (([c], ReplyErr (errno_of e) None), None)
      | _ => (([c], ReplyOk []), None)
      end
  end.

(* the handlers; [ctx] is the (remapped) context triple, [wcap] the reply capacity.
   One definition per arm of the dispatch `match` in handle_message; [op] is passed because
   readdir/readdirplus and getlk/setlk/setlkw share a body. *)
Definition handler_fn := config -> hdr -> N * N * N -> bytes -> fsres -> N -> decision.

Definition h_lookup (op : N) : handler_fn := fun cfg h ctx r fr wcap =>
  let ino := h_nodeid h in
  let hlen := h_len h in
  let C m a := mk m ctx a in
 (* lookup *)
    with_name r hlen 0 (fun name =>
      ([C "lookup" [AN ino; AB name]],
       match fr with
       | FEntry e => if (cfg_minor cfg <? 4) && (e_inode e =? 0) then ReplyErr ENOENT None
                     else ReplyOk (entry_out e (e_attr_flags e))
       | _ => entry_reply fr
       end)).

Definition h_forget (op : N) : handler_fn := fun cfg h ctx r fr wcap =>
  let ino := h_nodeid h in
  let hlen := h_len h in
  let C m a := mk m ctx a in
 (* forget *)
    with_obj 8 r (fun s _ => ([C "forget" [AN ino; AN (u64 0 s)]], NoReply (ROk 0))).

Definition h_getattr (op : N) : handler_fn := fun cfg h ctx r fr wcap =>
  let ino := h_nodeid h in
  let hlen := h_len h in
  let C m a := mk m ctx a in
 (* getattr *)
    with_obj 16 r (fun s _ =>
      let handle := if land32 (u32 0 s) 1 then Some (u64 8 s) else None in
      ([C "getattr" [AN ino; AO handle]], attr_reply fr)).

Definition h_setattr (op : N) : handler_fn := fun cfg h ctx r fr wcap =>
  let ino := h_nodeid h in
  let hlen := h_len h in
  let C m a := mk m ctx a in
 (* setattr *)
    with_obj 88 r (fun s _ =>
      let valid := u32 0 s in
      let handle := if land32 valid 64 then Some (u64 8 s) else None in
      (* SetattrValid::from_bits_truncate: FATTR_FH (0x40) and FATTR_LOCKOWNER (0x200) are not members *)
      let valid_t := N.land valid 3519 in
      ([C "setattr" [AN ino;
                     AN (u32 68 s) (* mode *); AN (u32 76 s) (* uid *); AN (u32 80 s) (* gid *);
                     AN (u64 16 s) (* size *); AN (u64 32 s); AN (u64 40 s); AN (u64 48 s) (* a/m/ctime *);
                     AN (u32 56 s); AN (u32 60 s); AN (u32 64 s) (* nsecs *);
                     AO handle; AN valid_t]], attr_reply fr)).

Definition h_readlink (op : N) : handler_fn := fun cfg h ctx r fr wcap =>
  let ino := h_nodeid h in
  let hlen := h_len h in
  let C m a := mk m ctx a in
 (* readlink *)
    ([C "readlink" [AN ino]],
     match fr with FErr e => ReplyErr (errno_of e) None | FBytes b => ReplyOk b | _ => ReplyOk [] end).

Definition h_symlink (op : N) : handler_fn := fun cfg h ctx r fr wcap =>
  let ino := h_nodeid h in
  let hlen := h_len h in
  let C m a := mk m ctx a in
 (* symlink *)
    match get_message_body r hlen 0 with
    | inl e => ([], NoReply e)
    | inr buf =>
      match extract_two_cstrs buf with
      | inl e => ([], NoReply e)
      | inr (name, linkname) => ([C "symlink" [AB linkname; AN ino; AB name]], entry_reply fr)
      end
    end.

Definition h_mknod (op : N) : handler_fn := fun cfg h ctx r fr wcap =>
  let ino := h_nodeid h in
  let hlen := h_len h in
  let C m a := mk m ctx a in
 (* mknod *)
    with_obj 16 r (fun s r' =>
      with_name r' hlen 16 (fun name =>
        ([C "mknod" [AN ino; AB name; AN (u32 0 s); AN (u32 4 s); AN (u32 8 s)]], entry_reply fr))).

Definition h_mkdir (op : N) : handler_fn := fun cfg h ctx r fr wcap =>
  let ino := h_nodeid h in
  let hlen := h_len h in
  let C m a := mk m ctx a in
 (* mkdir *)
    with_obj 8 r (fun s r' =>
      with_name r' hlen 8 (fun name =>
        ([C "mkdir" [AN ino; AB name; AN (u32 0 s); AN (u32 4 s)]], entry_reply fr))).

Definition h_unlink (op : N) : handler_fn := fun cfg h ctx r fr wcap =>
  let ino := h_nodeid h in
  let hlen := h_len h in
  let C m a := mk m ctx a in
 with_name r hlen 0 (fun name => ([C "unlink" [AN ino; AB name]], unit_reply fr)).

Definition h_rmdir (op : N) : handler_fn := fun cfg h ctx r fr wcap =>
  let ino := h_nodeid h in
  let hlen := h_len h in
  let C m a := mk m ctx a in
 with_name r hlen 0 (fun name => ([C "rmdir" [AN ino; AB name]], unit_reply fr)).

Definition h_rename (op : N) : handler_fn := fun cfg h ctx r fr wcap =>
  let ino := h_nodeid h in
  let hlen := h_len h in
  let C m a := mk m ctx a in
 (* rename *)
    with_obj 8 r (fun s r' =>
      match get_message_body r' hlen 8 with
      | inl e => ([], NoReply e)
      | inr buf =>
        match extract_two_cstrs buf with
        | inl e => ([], NoReply e)
        | inr (oldname, newname) =>
          ([C "rename" [AN ino; AB oldname; AN (u64 0 s); AB newname; AN 0]], unit_reply fr)
        end
      end).

Definition h_rename2 (op : N) : handler_fn := fun cfg h ctx r fr wcap =>
  let ino := h_nodeid h in
  let hlen := h_len h in
  let C m a := mk m ctx a in
 (* rename2 *)
    with_obj 16 r (fun s r' =>
      match get_message_body r' hlen 16 with
      | inl e => ([], NoReply e)
      | inr buf =>
        match extract_two_cstrs buf with
        | inl e => ([], NoReply e)
        | inr (oldname, newname) =>
          ([C "rename" [AN ino; AB oldname; AN (u64 0 s); AB newname; AN (N.land (u32 8 s) RENAME_MASK)]],
           unit_reply fr)
        end
      end).

Definition h_link (op : N) : handler_fn := fun cfg h ctx r fr wcap =>
  let ino := h_nodeid h in
  let hlen := h_len h in
  let C m a := mk m ctx a in
 (* link *)
    with_obj 8 r (fun s r' =>
      with_name r' hlen 8 (fun name =>
        ([C "link" [AN (u64 0 s); AN ino; AB name]], entry_reply fr))).

Definition h_open (op : N) : handler_fn := fun cfg h ctx r fr wcap =>
  let ino := h_nodeid h in
  let hlen := h_len h in
  let C m a := mk m ctx a in
 (* open *)
    with_obj 8 r (fun s _ =>
      ([C "open" [AN ino; AN (u32 0 s); AN (u32 4 s)]],
       match fr with
       | FErr e => ReplyErr (errno_of e) None
       | FOpen fh opts pt => ReplyOk (open_out fh opts pt)
       | _ => ReplyOk []
       end)).

Definition h_read (op : N) : handler_fn := fun cfg h ctx r fr wcap =>
  let ino := h_nodeid h in
  let hlen := h_len h in
  let C m a := mk m ctx a in
 (* read *)
    with_obj 40 r (fun s _ =>
      let owner := if land32 (u32 20 s) 2 then Some (u64 24 s) else None in
      if wcap <? OUT_HDR then ([], NoReply (RErr EInvalidHeaderLength))
      else
        let c := C "read" [AN ino; AN (u64 0 s); AN (u32 16 s); AN (u64 8 s); AO owner; AN (u32 32 s)] in
        ([c],
         match fr with
         | FErr e => ReplySplitErr (errno_of e)
         | FRead data =>
           (* the fs writes [data] into the data writer (capacity wcap-16) and returns its length;
              a write beyond the capacity fails with ErrorKind::InvalidData, which the fs propagates *)
           if wcap - OUT_HDR <? blen data then ReplySplitErr (encode_io_error_kind 5)
           else ReplySplit data
         | _ => ReplySplit []
         end)).

Definition h_write (op : N) : handler_fn := fun cfg h ctx r fr wcap =>
  let ino := h_nodeid h in
  let hlen := h_len h in
  let C m a := mk m ctx a in
 (* write *)
    with_obj 40 r (fun s r' =>
      let fuse_flags := u32 20 s in
      let owner := if land32 fuse_flags 2 then Some (u64 24 s) else None in
      let size := u32 16 s in
      (* the scripted fs reads min(size, available) payload bytes through the ZeroCopyReader *)
      let payload := firstn (N.to_nat (N.min size (blen r'))) r' in   (* = firstn size r'; avoids a huge unary nat *)
      ([C "write" [AN ino; AN (u64 0 s); AB payload; AN size; AN (u64 8 s); AO owner;
                   ABool (land32 fuse_flags 1); AN (u32 32 s); AN fuse_flags]],
       match fr with
       | FErr e => ReplyErr (errno_of e) None
       | FCount n => ReplyOk (enc 4 n ++ enc 4 0)
       | _ => ReplyOk []
       end)).

Definition h_statfs (op : N) : handler_fn := fun cfg h ctx r fr wcap =>
  let ino := h_nodeid h in
  let hlen := h_len h in
  let C m a := mk m ctx a in
 (* statfs *)
    ([C "statfs" [AN ino]],
     match fr with FErr e => ReplyErr (errno_of e) None | FStatfs st => ReplyOk (kstatfs_bytes st) | _ => ReplyOk [] end).

Definition h_release (op : N) : handler_fn := fun cfg h ctx r fr wcap =>
  let ino := h_nodeid h in
  let hlen := h_len h in
  let C m a := mk m ctx a in
 (* release *)
    with_obj 24 r (fun s _ =>
      let rf := u32 12 s in
      let flush := land32 rf 1 in let funlock := land32 rf 2 in
      let owner := if flush || funlock then Some (u64 16 s) else None in
      ([C "release" [AN ino; AN (u32 8 s); AN (u64 0 s); ABool flush; ABool funlock; AO owner]], unit_reply fr)).

Definition h_fsync (op : N) : handler_fn := fun cfg h ctx r fr wcap =>
  let ino := h_nodeid h in
  let hlen := h_len h in
  let C m a := mk m ctx a in
 (* fsync *)
    with_obj 16 r (fun s _ =>
      ([C "fsync" [AN ino; ABool (land32 (u32 8 s) 1); AN (u64 0 s)]], unit_reply fr)).

Definition h_setxattr (op : N) : handler_fn := fun cfg h ctx r fr wcap =>
  let ino := h_nodeid h in
  let hlen := h_len h in
  let C m a := mk m ctx a in
 (* setxattr *)
    with_obj 8 r (fun s r' =>
      match get_message_body r' hlen 8 with
      | inl e => ([], NoReply e)
      | inr buf =>
        match find_nul buf with
        | None => ([], NoReply (RErr EMissingParameter))
        | Some p =>
          let name := firstn p buf in
          let value := skipn (S p) buf in
          if negb (u32 0 s =? blen value mod 4294967296) then ([], NoReply (RErr EInvalidXattrSize))
          else ([C "setxattr" [AN ino; AB name; AB value; AN (u32 4 s)]], unit_reply fr)
        end
      end).

Definition h_getxattr (op : N) : handler_fn := fun cfg h ctx r fr wcap =>
  let ino := h_nodeid h in
  let hlen := h_len h in
  let C m a := mk m ctx a in
 (* getxattr *)
    with_obj 8 r (fun s r' =>
      with_name r' hlen 8 (fun name =>
        ([C "getxattr" [AN ino; AB name; AN (u32 0 s)]],
         match fr with
         | FErr e => ReplyErr (errno_of e) None
         | FBytes v => ReplyOk v
         | FCount n => ReplyOk (enc 4 n ++ enc 4 0)
         | _ => ReplyOk []
         end))).

Definition h_listxattr (op : N) : handler_fn := fun cfg h ctx r fr wcap =>
  let ino := h_nodeid h in
  let hlen := h_len h in
  let C m a := mk m ctx a in
 (* listxattr *)
    with_obj 8 r (fun s _ =>
      ([C "listxattr" [AN ino; AN (u32 0 s)]],
       match fr with
       | FErr e => ReplyErr (errno_of e) None
       | FBytes v => ReplyOk v
       | FCount n => ReplyOk (enc 4 n ++ enc 4 0)
       | _ => ReplyOk []
       end)).

Definition h_removexattr (op : N) : handler_fn := fun cfg h ctx r fr wcap =>
  let ino := h_nodeid h in
  let hlen := h_len h in
  let C m a := mk m ctx a in
 with_name r hlen 0 (fun name => ([C "removexattr" [AN ino; AB name]], unit_reply fr)).

Definition h_flush (op : N) : handler_fn := fun cfg h ctx r fr wcap =>
  let ino := h_nodeid h in
  let hlen := h_len h in
  let C m a := mk m ctx a in
 (* flush *)
    with_obj 24 r (fun s _ => ([C "flush" [AN ino; AN (u64 0 s); AN (u64 16 s)]], unit_reply fr)).

Definition h_opendir (op : N) : handler_fn := fun cfg h ctx r fr wcap =>
  let ino := h_nodeid h in
  let hlen := h_len h in
  let C m a := mk m ctx a in
 (* opendir *)
    with_obj 8 r (fun s _ =>
      ([C "opendir" [AN ino; AN (u32 0 s)]],
       match fr with
       | FErr e => ReplyErr (errno_of e) None
       | FOpen fh opts _ => ReplyOk (open_out fh opts None)
       | _ => ReplyOk []
       end)).

Definition h_readdir_readdirplus (op : N) : handler_fn := fun cfg h ctx r fr wcap =>
  let ino := h_nodeid h in
  let hlen := h_len h in
  let C m a := mk m ctx a in
 (* readdir / readdirplus *)
    let plus := op =? 44 in
    with_obj 40 r (fun s _ =>
      let size := u32 16 s in
      (* available_bytes < size.saturating_add(size_of::<OutHeader>()) (repaired by fix: 65c0776; was: < size) *)
      if wcap <? size + OUT_HDR then ([], ReplyErr ENOMEM None)
      else if wcap <? OUT_HDR then ([], NoReply (RErr EInvalidHeaderLength))
      else
        let c := C (if plus then "readdirplus" else "readdir") [AN ino; AN (u64 0 s); AN size; AN (u64 8 s)] in
        ([c],
         match fr with
         | FErr e => ReplySplitErr (errno_of e)
         | FDirents ds =>
           let data := fill_dirents ds plus size [] in
           (* add_dirent's write_all fails when the cursor (capacity wcap-16) is exhausted; the fs propagates it *)
           if wcap - OUT_HDR <? blen data then ReplySplitErr (encode_io_error_kind 5)
           else ReplySplit data
         | _ => ReplySplit []
         end)).

Definition h_releasedir (op : N) : handler_fn := fun cfg h ctx r fr wcap =>
  let ino := h_nodeid h in
  let hlen := h_len h in
  let C m a := mk m ctx a in
 (* releasedir *)
    with_obj 24 r (fun s _ => ([C "releasedir" [AN ino; AN (u32 8 s); AN (u64 0 s)]], unit_reply fr)).

Definition h_fsyncdir (op : N) : handler_fn := fun cfg h ctx r fr wcap =>
  let ino := h_nodeid h in
  let hlen := h_len h in
  let C m a := mk m ctx a in
 (* fsyncdir *)
    with_obj 16 r (fun s _ =>
      ([C "fsyncdir" [AN ino; ABool (land32 (u32 8 s) 1); AN (u64 0 s)]], unit_reply fr)).

Definition h_getlk_setlk_setlkw (op : N) : handler_fn := fun cfg h ctx r fr wcap =>
  let ino := h_nodeid h in
  let hlen := h_len h in
  let C m a := mk m ctx a in
 (* getlk / setlk / setlkw *)
    with_obj 48 r (fun s _ =>
      let a := [AN ino; AN (u64 0 s); AN (u64 8 s);
                AN (u64 16 s); AN (u64 24 s); AN (u32 32 s); AN (u32 36 s); AN (u32 40 s)] in
      if op =? 31 then
        ([C "getlk" a],
         match fr with FErr e => ReplyErr (errno_of e) None | FLock l => ReplyOk (flock_bytes l) | _ => ReplyOk [] end)
      else if op =? 32 then ([C "setlk" a], unit_reply fr)
      else ([C SETLKW_METHOD a], unit_reply fr)).

Definition h_access (op : N) : handler_fn := fun cfg h ctx r fr wcap =>
  let ino := h_nodeid h in
  let hlen := h_len h in
  let C m a := mk m ctx a in
 with_obj 8 r (fun s _ => ([C "access" [AN ino; AN (u32 0 s)]], unit_reply fr)).

Definition h_create (op : N) : handler_fn := fun cfg h ctx r fr wcap =>
  let ino := h_nodeid h in
  let hlen := h_len h in
  let C m a := mk m ctx a in
 (* create *)
    with_obj 16 r (fun s r' =>
      with_name r' hlen 16 (fun name =>
        ([C "create" [AN ino; AB name; AN (u32 0 s); AN (u32 4 s); AN (u32 8 s); AN (u32 12 s)]],
         match fr with
         | FErr e => ReplyErr (errno_of e) None
         | FCreate e fh opts pt => ReplyOk (entry_out e (CREATE_ATTR_FLAGS e) ++ open_out fh opts pt)
         | _ => ReplyOk []
         end))).

Definition h_interrupt (op : N) : handler_fn := fun cfg h ctx r fr wcap =>
  let ino := h_nodeid h in
  let hlen := h_len h in
  let C m a := mk m ctx a in
 ([], NoReply (ROk 0)) (* interrupt *).

Definition h_bmap (op : N) : handler_fn := fun cfg h ctx r fr wcap =>
  let ino := h_nodeid h in
  let hlen := h_len h in
  let C m a := mk m ctx a in
 (* bmap *)
    with_obj 16 r (fun s _ =>
      ([C "bmap" [AN ino; AN (u64 0 s); AN (u32 8 s)]],
       match fr with FErr e => ReplyErr (errno_of e) None | FNum n => ReplyOk (enc 8 n) | _ => ReplyOk [] end)).

Definition h_destroy (op : N) : handler_fn := fun cfg h ctx r fr wcap =>
  let ino := h_nodeid h in
  let hlen := h_len h in
  let C m a := mk m ctx a in
 ([mk "destroy" (0, 0, 0) []], ReplyOkIgnored []) (* destroy *).

Definition h_ioctl (op : N) : handler_fn := fun cfg h ctx r fr wcap =>
  let ino := h_nodeid h in
  let hlen := h_len h in
  let C m a := mk m ctx a in
 (* ioctl *)
    with_obj 32 r (fun s r' =>
      let in_size := u32 24 s in
      if blen r' <? in_size then ([], ReplyErr ENOTTY None)
      else
        let data := firstn (N.to_nat in_size) r' in
        ([C "ioctl" [AN ino; AN (u64 0 s); AN (u32 8 s); AN (u32 12 s); AB data; AN (u32 28 s)]],
         match fr with
         | FErr e => ReplyErr (errno_of e) None
         | FIoctl result d => ReplyOk (enc 4 result ++ enc 12 0 ++ d)
         | _ => ReplyOk []
         end)).

Definition h_poll (op : N) : handler_fn := fun cfg h ctx r fr wcap =>
  let ino := h_nodeid h in
  let hlen := h_len h in
  let C m a := mk m ctx a in
 (* poll *)
    with_obj 24 r (fun s _ =>
      ([C "poll" [AN ino; AN (u64 0 s); AN (u64 8 s); AN (u32 16 s); AN (u32 20 s)]],
       match fr with FErr e => ReplyErr (errno_of e) None | FNum n => ReplyOk (enc 4 n ++ enc 4 0) | _ => ReplyOk [] end)).

Definition h_notify_reply (op : N) : handler_fn := fun cfg h ctx r fr wcap =>
  let ino := h_nodeid h in
  let hlen := h_len h in
  let C m a := mk m ctx a in
 (* notify_reply *)
    ([mk "notify_reply" (0, 0, 0) []],
     match fr with FErr e => ReplyErr (errno_of e) None | _ => NoReply (ROk 0) end).

Definition h_batch_forget (op : N) : handler_fn := fun cfg h ctx r fr wcap =>
  let ino := h_nodeid h in
  let hlen := h_len h in
  let C m a := mk m ctx a in
 (* batch_forget *)
    with_obj 8 r (fun s r' =>
      let count := u32 0 s in
      if MAX_BUFFER_SIZE + BUFFER_HEADER_SIZE - 8 - IN_HDR <? count * 16 then ([], NoReply (RErr EInvalidMessage))
      else
        (fix go (n : nat) (rr : bytes) (acc : list (N * N)) : decision :=
           match n with
           | O => ([C "batch_forget" [APairs (rev acc)]], NoReply (ROk 0))
           | S n' => match read_obj 16 rr with
                     | None => ([], NoReply (RErr EDecodeMessage))
                     | Some (o, rr') => go n' rr' ((u64 0 o, u64 8 o) :: acc)
                     end
           end) (N.to_nat count) r' []).

Definition h_fallocate (op : N) : handler_fn := fun cfg h ctx r fr wcap =>
  let ino := h_nodeid h in
  let hlen := h_len h in
  let C m a := mk m ctx a in
 (* fallocate *)
    with_obj 32 r (fun s _ =>
      ([C "fallocate" [AN ino; AN (u64 0 s); AN (u32 24 s); AN (u64 8 s); AN (u64 16 s)]], unit_reply fr)).

Definition h_lseek (op : N) : handler_fn := fun cfg h ctx r fr wcap =>
  let ino := h_nodeid h in
  let hlen := h_len h in
  let C m a := mk m ctx a in
 (* lseek *)
    with_obj 24 r (fun s _ =>
      ([C "lseek" [AN ino; AN (u64 0 s); AN (u64 8 s); AN (u32 16 s)]],
       match fr with FErr e => ReplyErr (errno_of e) None | FNum n => ReplyOk (enc 8 n) | _ => ReplyOk [] end)).

Definition h_setupmapping (op : N) : handler_fn := fun cfg h ctx r fr wcap =>
  let ino := h_nodeid h in
  let hlen := h_len h in
  let C m a := mk m ctx a in
 (* setupmapping *)
    if cfg_vu_req cfg then
      with_obj 40 r (fun s _ =>
        ([C "setupmapping" [AN ino; AN (u64 0 s); AN (u64 8 s); AN (u64 16 s); AN (u64 24 s); AN (u64 32 s)]],
         unit_reply fr))
    else ([], ReplyErr EINVAL None).

Definition h_removemapping (op : N) : handler_fn := fun cfg h ctx r fr wcap =>
  let ino := h_nodeid h in
  let hlen := h_len h in
  let C m a := mk m ctx a in
 (* removemapping *)
    if cfg_vu_req cfg then
      with_obj 4 r (fun s r' =>
        let count := u32 0 s in
        if MAX_BUFFER_SIZE <? count * 16 then ([], ReplyErr ENOMEM None)
        else
          (fix go (n : nat) (rr : bytes) (acc : list (N * N)) : decision :=
             match n with
             | O => ([C "removemapping" [AN ino; APairs (rev acc)]], unit_reply fr)
             | S n' => match read_obj 16 rr with
                       | None => ([], NoReply (RErr EDecodeMessage))
                       | Some (o, rr') => go n' rr' ((u64 0 o, u64 8 o) :: acc)
                       end
             end) (N.to_nat count) r' [])
    else ([], ReplyErr EINVAL None).

(* the dispatch table: opcode -> handler (the arms of the `match in_header.opcode`) *)
Definition handlers : list (N * handler_fn) :=
  [(1, h_lookup 1);
   (2, h_forget 2);
   (3, h_getattr 3);
   (4, h_setattr 4);
   (5, h_readlink 5);
   (6, h_symlink 6);
   (8, h_mknod 8);
   (9, h_mkdir 9);
   (10, h_unlink 10);
   (11, h_rmdir 11);
   (12, h_rename 12);
   (13, h_link 13);
   (14, h_open 14);
   (15, h_read 15);
   (16, h_write 16);
   (17, h_statfs 17);
   (18, h_release 18);
   (20, h_fsync 20);
   (21, h_setxattr 21);
   (22, h_getxattr 22);
   (23, h_listxattr 23);
   (24, h_removexattr 24);
   (25, h_flush 25);
   (27, h_opendir 27);
   (28, h_readdir_readdirplus 28);
   (29, h_releasedir 29);
   (30, h_fsyncdir 30);
   (31, h_getlk_setlk_setlkw 31);
   (32, h_getlk_setlk_setlkw 32);
   (33, h_getlk_setlk_setlkw 33);
   (34, h_access 34);
   (35, h_create 35);
   (36, h_interrupt 36);
   (37, h_bmap 37);
   (38, h_destroy 38);
   (39, h_ioctl 39);
   (40, h_poll 40);
   (41, h_notify_reply 41);
   (42, h_batch_forget 42);
   (43, h_fallocate 43);
   (44, h_readdir_readdirplus 44);
   (45, h_rename2 45);
   (46, h_lseek 46);
   (48, h_setupmapping 48);
   (49, h_removemapping 49)].

Fixpoint find_handler (op : N) (t : list (N * handler_fn)) : option handler_fn :=
  match t with
  | [] => None
  | (o, f) :: r => if op =? o then Some f else find_handler op r
  end.

Definition handler (cfg : config) (h : hdr) (ctx : N * N * N) (r : bytes) (fr : fsres) (wcap : N)
  : decision :=
  match find_handler (h_opcode h) handlers with
  | Some f => f cfg h ctx r fr wcap
  | None => ([], ReplyErr ENOSYS None)
  end.

(* Server::handle_message: header, id remap, oversize gate, dispatch.
   Returns the decision and the minor version stored by a successful INIT. *)
Definition decide (cfg : config) (req : bytes) (fr : fsres) (wcap : N) : decision * option N :=
  match read_obj 40 req with
  | None => (([], NoReply (RErr EDecodeMessage)), None)
  | Some (hb, r) =>
    let h := parse_hdr hb in
    let rc := mk "id_remap" (h_uid h, h_gid h, h_pid h) [AN (h_nodeid h)] in
    match cfg_remap cfg with
    | RemapFail => (([rc], NoReply (RErr EFailedToRemapID)), None)
    | RemapOk du dg =>
      let ctx := ((h_uid h + du) mod 4294967296, (h_gid h + dg) mod 4294967296, h_pid h) in
      if MAX_BUFFER_SIZE + BUFFER_HEADER_SIZE <? h_len h then
        if (h_opcode h =? 2) || (h_opcode h =? 42) then (([rc], NoReply (RErr EInvalidMessage)), None)
        else (([rc], ReplyErr ENOMEM None), None)
      else if h_opcode h =? 26 then
        let '((cs, a), m) := do_init cfg h r fr in ((rc :: cs, a), m)
      else
        let '(cs, a) := handler cfg h ctx r fr wcap in ((rc :: cs, a), None)
    end
  end.

(* ------------------------------------------------------------------ writer model *)
Inductive transport := FuseDev | Virtio.

(* FuseDevWriter {buffered, buf (len), capacity}; VirtioFsWriter {consumed, available}:
   both are "bytes written so far + capacity"; [buffered] only matters for FuseDev *)
Record writer := { w_kind : transport; w_buffered : bool; w_buf : bytes; w_cap : N }.

Inductive wres {A} := WOk (a : A) | WErr | WPanic.
Arguments wres : clear implicits.

(* events: one per write(2)/writev(2) on the /dev/fuse fd *)
Definition packet := bytes.

(* io::Write::write / write_vectored with total payload [data] (write_all = write here: the
   transport write primitive is all-or-error) *)
Definition w_write (w : writer) (data : bytes) : wres (writer * list packet) :=
  match w_kind w with
  | FuseDev =>
    (* check_available_space: assert!(self.buffered || self.buf.is_empty()) *)
    if negb (w_buffered w) && negb (Nat.eqb (List.length (w_buf w)) 0) then WPanic
    else if w_cap w - blen (w_buf w) <? blen data then WErr
    else
      let w' := {| w_kind := FuseDev; w_buffered := w_buffered w; w_buf := w_buf w ++ data; w_cap := w_cap w |} in
      if w_buffered w then WOk (w', [])
      else match data with [] => WOk (w', [[]]) | _ => WOk (w', [data]) end
  | Virtio =>
    if w_cap w - blen (w_buf w) <? blen data then WErr
    else WOk ({| w_kind := Virtio; w_buffered := w_buffered w; w_buf := w_buf w ++ data; w_cap := w_cap w |}, [])
  end.

(* split_at(off) on a writer that has written nothing yet *)
Definition w_split (w : writer) (off : N) : option (writer * writer) :=
  if w_cap w - blen (w_buf w) <? off then None
  else Some ({| w_kind := w_kind w; w_buffered := true; w_buf := w_buf w; w_cap := blen (w_buf w) + off |},
             {| w_kind := w_kind w; w_buffered := true; w_buf := []; w_cap := w_cap w - blen (w_buf w) - off |}).

(* commit(other) *)
Definition w_commit (w : writer) (other : option writer) : list packet :=
  match w_kind w with
  | Virtio => []
  | FuseDev =>
    if negb (w_buffered w) then []
    else
      let o := match other with Some x => w_buf x | None => [] end in
      match w_buf w ++ o with [] => [] | p => [p] end
  end.

Record outcome := {
  o_res : res;
  o_panic : bool;
  o_packets : list packet;      (* FuseDev: what reached the fd, one entry per write call *)
  o_mem : bytes                 (* Virtio: bytes placed in the writable descriptors, in order *)
}.

Definition out_ok (r : res) (p : list packet) (m : bytes) := {| o_res := r; o_panic := false; o_packets := p; o_mem := m |}.
Definition out_panic := {| o_res := RErr EEncodeMessage; o_panic := true; o_packets := []; o_mem := [] |}.

Definition fresh (k : transport) (cap : N) : writer :=
  {| w_kind := k; w_buffered := false; w_buf := []; w_cap := cap |}.

(* do_reply_error on writer [w]: write_all(header) then commit(None) *)
Definition perform_err (w : writer) (unique errno : N) (after : option res) : outcome :=
  let hb := out_header OUT_HDR (neg32 errno) unique in
  match w_write w hb with
  | WPanic => out_panic
  | WErr => out_ok (match after with Some r => r | None => RErr EEncodeMessage end) [] (w_buf w)
  | WOk (w', p) =>
    let p2 := w_commit w' None in
    out_ok (match after with Some r => r | None => ROk (blen (w_buf w')) end) (p ++ p2) (w_buf w')
  end.

Definition perform (k : transport) (cap : N) (unique : N) (a : action) : outcome :=
  let w := fresh k cap in
  match a with
  | NoReply r => out_ok r [] []
  | ReplyOk body =>
    let len := OUT_HDR + blen body in
    match w_write w (out_header len 0 unique ++ body) with
    | WPanic => out_panic
    | WErr => out_ok (RErr EEncodeMessage) [] []
    | WOk (w', p) => out_ok (ROk (blen (w_buf w'))) p (w_buf w')
    end
  | ReplyOkIgnored body =>
    let len := OUT_HDR + blen body in
    match w_write w (out_header len 0 unique ++ body) with
    | WPanic => out_panic
    | WErr => out_ok (ROk 0) [] []
    | WOk (w', p) => out_ok (ROk 0) p (w_buf w')
    end
  | ReplyErr errno after => perform_err w unique errno after
  | ReplySplit data =>
    let count := blen data in
    match w_split w OUT_HDR with
    | None => out_ok (RErr EInvalidHeaderLength) [] []
    | Some (w1, w2) =>
      match w_write w2 data with
      | WPanic => out_panic
      | WErr => out_ok (RErr EEncodeMessage) [] []
      | WOk (w2', p2) =>
        let len := (OUT_HDR + count) mod 4294967296 in
        match w_write w1 (out_header len 0 unique) with
        | WPanic => out_panic
        | WErr => out_ok (RErr EEncodeMessage) (p2) (w_buf w2')
        | WOk (w1', p1) =>
          out_ok (ROk len) (p2 ++ p1 ++ w_commit w1' (Some w2')) (w_buf w1' ++ w_buf w2')
        end
      end
    end
  | ReplySplitErr errno =>
    match w_split w OUT_HDR with
    | None => out_ok (RErr EInvalidHeaderLength) [] []
    | Some (w1, _) => perform_err w1 unique errno None
    end
  end.

(* the whole of handle_message *)
Definition handle (cfg : config) (k : transport) (cap : N) (req : bytes) (fr : fsres)
  : list call * outcome * option N :=
  let '((cs, a), m) := decide cfg req fr cap in
  (cs, perform k cap (u64 8 req) a, m).
