(* Running a whole history on the model and serialising what a client / the backends observe,
   in the same flat format the python side derives from the harness output (props/vfs_common.py).
   Executable Gallina, no proofs. *)
From Coq Require Import List NArith Bool.
From FB Require Import Model.Pseudo Gen.VfsTable Model.Vfs Model.Persist.
Import ListNotations.
Local Open Scope N_scope.

Inductive step :=
| SMount (bid : N) (p : path) (map : option mapping) (a : mount_ans)
| SUmount (p : path)
| SInit (opts ierr : N)
| SDestroy
| SQuery
| SReq (hdr : N) (c : ctx) (o : op) (a : ans)
| SReqA (hdr : N) (c : ctx) (o : op) (a : ans)       (* the same request through the AsyncFileSystem entry point *)
| SSaveRestore (ver : N) (fresh_default : bool) (reattach : list (N * N * path * mount_ans)).

Record cfg := mkCfg { cf_gmap : option mapping; cf_rm : bool; cf_no_open : bool; cf_no_opendir : bool;
                      cf_no_writeback : bool; cf_killpriv_v2 : bool; cf_no_readdir : bool; cf_seal_size : bool }.

Definition opts_of (c : cfg) (dflt : bool) : vopts :=
  if dflt then default_opts
  else mkO 0 default_out_opts (cf_no_open c) (cf_no_opendir c) (cf_no_writeback c) (cf_killpriv_v2 c) (cf_no_readdir c) (cf_seal_size c)
           (match cf_gmap c with Some m => m | None => (0, 0, 0) end).
Definition vfs_of (c : cfg) (dflt : bool) : vfs := vfs_new (opts_of c dflt) (cf_rm c).

(* ---------- serialisation ---------- *)
Definition ser_err (e : err) : N := match e with Errno n => n | EOther => two64 end.
Definition ser_event (e : event) : list N :=
  [ev_bid e; ev_m e; ev_ino e; ev_ino2 e; ev_cuid e; ev_cgid e; ev_suid e; ev_sgid e].
Definition ser_events (l : list event) : list N := N.of_nat (length l) :: flat_map ser_event l.
Definition ser_entry (e : entry) : list N := [e_ino e; e_stino e; e_uid e; e_gid e; e_tag e].
Definition ser_attr (a : attr) : list N := [a_ino a; a_uid a; a_gid a; a_tag a].
Definition ser_reply (r : reply) : list N :=
  match r with
  | RUnit t => [t]
  | REntry e => ser_entry e
  | RAttr a => ser_attr a
  | RDir l => N.of_nat (length l) ::
              flat_map (fun x => [d_ino (fst x); d_name (fst x); d_off (fst x)] ++
                                 match snd x with Some e => ser_entry e | None => [] end) l
  end.
Definition ser_outcome {A} (f : A -> list N) (o : outcome A) : list N :=
  match o with Ok a => 0 :: f a | Err e => [1; 0; ser_err e] | Panic => [2] end.
Definition ser_verr (e : verr) : list N :=
  match e with
  | VMount x => [1; 2; ser_err x] | VInodeIndex => [1; 4; 0] | VFsIndex => [1; 5; two64]
  | VPathWalk x => [1; 6; ser_err x] | VNotFound => [1; 7; 0] | VInitialize => [1; 8; 0]
  end.
Definition ser_vres {A} (f : A -> list N) (o : vres A) : list N :=
  match o with VOk a => 0 :: f a | VErr e => ser_verr e | VPanic => [2] end.
Definition b2n (b : bool) : N := if b then 1 else 0.

Definition is_panic (l : list N) : bool := match l with 2 :: _ => true | _ => false end.

(* re-attach the backends after a restore, in the given order *)
Fixpoint reattach_all (s : vfs) (l : list (N * N * path * mount_ans)) : vfs * list N * list event * bool :=
  match l with
  | [] => (s, [], [], false)
  | (bid, idx, p, a) :: r =>
    let '(s1, res, ev) := vfs_restore_mount s bid idx p a in
    match res with
    | Panic => (s1, [bid; idx; 2], ev, true)
    | _ =>
      let code := match res with Ok _ => 0 | Err e => ser_err e | Panic => 2 end in
      let '(s2, out, ev2, pn) := reattach_all s1 r in
      (s2, bid :: idx :: code :: out, ev ++ ev2, pn)
    end
  end.

(* one step: new state, observation, "history is dead" (panic, or a failed restore) *)
Definition run_step (c : cfg) (s : vfs) (st : step) : vfs * list N * bool :=
  match st with
  | SMount bid p map a =>
    let '(s', r, ev) := vfs_mount s bid p map a in
    let o := ser_vres (fun i => [i]) r in (s', o ++ ser_events ev, is_panic o)
  | SUmount p =>
    let '(s', r, ev) := vfs_umount s p in
    let o := ser_vres (fun x => [fst x; snd x]) r in (s', o ++ ser_events ev, is_panic o)
  | SInit opts ierr =>
    let '(s', r, ev) := vfs_init s opts ierr in
    (s', ser_outcome (fun x => [x]) r ++ ser_events ev, false)
  | SDestroy => let '(s', ev) := vfs_destroy s in (s', [0; 0] ++ ser_events ev, false)
  | SQuery =>
    let o := v_opts s in
    (s, [0; b2n (v_init s); o_in o; o_out o; b2n (o_no_open o); b2n (o_no_opendir o); b2n (o_no_readdir o);
         b2n (o_no_writeback o); b2n (o_killpriv_v2 o); b2n (o_seal_size o);
         fst (fst (o_idmap o)); snd (fst (o_idmap o)); snd (o_idmap o); 0], false)
  | SReq hdr cx o a =>
    let '(r, ev) := vfs_request s hdr cx o a in
    let out := ser_outcome ser_reply r in (s, out ++ ser_events ev, is_panic out)
  | SReqA hdr cx o a =>
    let '(r, ev) := vfs_request_async s hdr cx o a in
    let out := ser_outcome ser_reply r in (s, out ++ ser_events ev, is_panic out)
  | SSaveRestore ver dflt l =>
    let saved := if ver =? 1 then as_v1 (vfs_save s) else vfs_save s in
    let '(t, r) := vfs_restore (vfs_of c dflt) saved in
    match r with
    | Ok _ => let '(t', out, ev, pn) := reattach_all t l in
              (t', (if pn then [2] else 0 :: N.of_nat (length l) :: out) ++ ser_events ev, pn)
    | Err e => (t, [1; 10; 0; 0], true)
    | Panic => (t, [2; 0], true)
    end
  end.

Fixpoint run_from (c : cfg) (s : vfs) (dead : bool) (l : list step) : list (list N) :=
  match l with
  | [] => []
  | st :: r =>
    if dead then [3] :: run_from c s true r
    else let '(s', o, d) := run_step c s st in o :: run_from c s' d r
  end.
Definition run_hist (c : cfg) (l : list step) : list (list N) := run_from c (vfs_of c false) false l.

(* final state of a history (used by the property statements) *)
Fixpoint state_after (c : cfg) (s : vfs) (l : list step) : vfs :=
  match l with [] => s | st :: r => state_after c (fst (fst (run_step c s st))) r end.

Fixpoint list_eqb (a b : list N) : bool :=
  match a, b with [] , [] => true | x :: r, y :: t => (x =? y) && list_eqb r t | _, _ => false end.
Fixpoint obs_eqb (a b : list (list N)) : bool :=
  match a, b with [], [] => true | x :: r, y :: t => list_eqb x y && obs_eqb r t | _, _ => false end.

(* index of the first step whose observation differs (for the check's diagnostics) *)
Fixpoint first_diff (i : N) (a b : list (list N)) : option N :=
  match a, b with
  | [], [] => None
  | x :: r, y :: t => if list_eqb x y then first_diff (i + 1) r t else Some i
  | _, _ => Some i
  end.
