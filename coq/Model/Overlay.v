(* Executable model of src/overlayfs (OverlayFs over PassthroughFs layers), the overlayfs
   union specification [merge], and an ordinary in-memory file system [fs_apply].
   No proofs in this file (Proofs/Overlay*.v).

   Layers are finite trees.  The implementation model keeps what the code keeps: a cache of
   nodes (OverlayInode: real_inodes list with the flags cached at creation time, whiteout flag,
   loaded flag, children) and performs every operation in the order the Rust code does,
   including partial effects before an error.  Nodes are addressed by their path from the
   root: the harness addresses every operation by a freshly looked-up path, so inode numbers,
   lookup counts and file handles are not modelled. *)
From Coq Require Import List String NArith ZArith Bool Ascii.
Import ListNotations.
Local Open Scope string_scope.
Local Open Scope N_scope.
Local Open Scope list_scope.

Definition name := string.
Definition path := list name.
Definition bytes := list N.
Definition xattrs := list (string * bytes).

Inductive tree :=
| Dir (mode : N) (xs : xattrs) (ch : list (name * tree))
| File (ino : N) (mode : N) (data : bytes) (xs : xattrs)   (* ino: hard-link identity inside one layer *)
| Lnk (target : bytes)
| Wh.                                                      (* char device 0:0 *)

Inductive res (A : Type) := Ok (a : A) | Err (e : N).
Arguments Ok {A} a.
Arguments Err {A} e.

Definition EPERM := 1.   Definition ENOENT := 2.   Definition EBADF := 9.
Definition EEXIST := 17. Definition EXDEV := 18.   Definition ENOTDIR := 20.
Definition EISDIR := 21. Definition EINVAL := 22.  Definition EROFS := 30.
Definition ENOTEMPTY := 39. Definition ENODATA := 61. Definition EOPNOTSUPP := 95.
Definition EOTHER := 9999.      (* io::Error without an OS code ("no parent?") *)
Definition EPANIC := 9997.      (* panic!("BUG: dangling OverlayInode") *)
Definition EUNMODELLED := 9998. (* a branch this model does not follow *)

(* ------------------------------------------------------------------ association lists *)
Fixpoint afind {A} (k : string) (l : list (string * A)) : option A :=
  match l with
  | [] => None
  | (k', v) :: r => if String.eqb k k' then Some v else afind k r
  end.
(* HashMap::insert: replace in place, else append *)
Fixpoint aset {A} (k : string) (v : A) (l : list (string * A)) : list (string * A) :=
  match l with
  | [] => [(k, v)]
  | (k', v') :: r => if String.eqb k k' then (k, v) :: r else (k', v') :: aset k v r
  end.
Fixpoint adel {A} (k : string) (l : list (string * A)) : list (string * A) :=
  match l with
  | [] => []
  | (k', v') :: r => if String.eqb k k' then adel k r else (k', v') :: adel k r
  end.
Definition amap {A} (k : string) (f : A -> A) (l : list (string * A)) : list (string * A) :=
  map (fun kv => if String.eqb k (fst kv) then (fst kv, f (snd kv)) else kv) l.

Fixpoint split_last (p : path) : option (path * name) :=
  match p with
  | [] => None
  | [n] => Some ([], n)
  | n :: r => match split_last r with Some (q, l) => Some (n :: q, l) | None => None end
  end.

(* ------------------------------------------------------------------ trees (one layer on the host) *)
Definition is_dirT (t : tree) : bool := match t with Dir _ _ _ => true | _ => false end.
Definition is_whT (t : tree) : bool := match t with Wh => true | _ => false end.
Definition is_lnkT (t : tree) : bool := match t with Lnk _ => true | _ => false end.

Definition is_y (v : bytes) : bool :=
  match v with [c] => (c =? 121) || (c =? 89) | _ => false end.
Definition OPQ1 := "user.fuseoverlayfs.opaque".
Definition OPQ2 := "trusted.overlay.opaque".
Definition OPQ3 := "user.overlay.opaque".
Definition xattr_y (k : string) (xs : xattrs) : bool :=
  match afind k xs with Some v => is_y v | None => false end.
(* Layer::is_opaque *)
Definition xs_opaque (xs : xattrs) : bool := xattr_y OPQ1 xs || xattr_y OPQ2 xs || xattr_y OPQ3 xs.
Definition is_opaqueT (t : tree) : bool := match t with Dir _ xs _ => xs_opaque xs | _ => false end.
Definition is_opq_name (k : string) : bool := String.eqb k OPQ1 || String.eqb k OPQ2 || String.eqb k OPQ3.

Fixpoint tget (t : tree) (p : path) : option tree :=
  match p with
  | [] => Some t
  | n :: p' => match t with
               | Dir _ _ ch => match afind n ch with Some c => tget c p' | None => None end
               | _ => None
               end
  end.
Fixpoint tupd (p : path) (f : tree -> tree) (t : tree) : tree :=
  match p with
  | [] => f t
  | n :: p' => match t with
               | Dir m x ch => Dir m x (amap n (tupd p' f) ch)
               | _ => t
               end
  end.
Definition dir_ins (n : name) (c : tree) (d : tree) : tree :=
  match d with Dir m x ch => Dir m x (aset n c ch) | _ => d end.
Definition dir_del (n : name) (d : tree) : tree :=
  match d with Dir m x ch => Dir m x (adel n ch) | _ => d end.

(* apply [f] to every regular file with hard-link identity [i] *)
Fixpoint tmap_ino (i : N) (f : tree -> tree) (t : tree) : tree :=
  match t with
  | Dir m x ch => Dir m x (map (fun kv => (fst kv, tmap_ino i f (snd kv))) ch)
  | File j _ _ _ => if i =? j then f t else t
  | _ => t
  end.

(* host system calls as PassthroughFs issues them, on the tree of one layer *)
Definition h_insert (pp : path) (n : name) (c : tree) (t : tree) : res tree :=
  match tget t pp with
  | Some (Dir _ _ ch) =>
      match afind n ch with
      | Some _ => Err EEXIST
      | None => Ok (tupd pp (dir_ins n c) t)
      end
  | Some _ => Err ENOTDIR
  | None => Err ENOENT
  end.
Definition h_mkdir (pp : path) (n : name) (mode : N) : tree -> res tree :=
  h_insert pp n (Dir (N.land mode 1023) [] []).          (* mkdirat: mode & 01777 *)
Definition h_create (pp : path) (n : name) (i : N) (mode : N) : tree -> res tree :=
  h_insert pp n (File i (N.land mode 4095) [] []).       (* open(O_CREAT|O_EXCL): mode & 07777 *)
Definition h_symlink (pp : path) (n : name) (target : bytes) : tree -> res tree :=
  h_insert pp n (Lnk target).
Definition h_link (src : path) (pp : path) (n : name) (t : tree) : res tree :=
  match tget t src with
  | Some (Dir _ _ _) => Err EPERM
  | Some c => h_insert pp n c t
  | None => Err ENOENT
  end.
Definition h_unlink (pp : path) (n : name) (t : tree) : res tree :=
  match tget t pp with
  | Some (Dir _ _ ch) =>
      match afind n ch with
      | Some (Dir _ _ _) => Err EISDIR
      | Some _ => Ok (tupd pp (dir_del n) t)
      | None => Err ENOENT
      end
  | Some _ => Err ENOTDIR
  | None => Err ENOENT
  end.
Definition h_rmdir (pp : path) (n : name) (t : tree) : res tree :=
  match tget t pp with
  | Some (Dir _ _ ch) =>
      match afind n ch with
      | Some (Dir _ _ []) => Ok (tupd pp (dir_del n) t)
      | Some (Dir _ _ _) => Err ENOTEMPTY
      | Some _ => Err ENOTDIR
      | None => Err ENOENT
      end
  | Some _ => Err ENOTDIR
  | None => Err ENOENT
  end.
(* Layer::create_whiteout *)
Definition h_create_whiteout (pp : path) (n : name) (t : tree) : res tree :=
  match tget t (pp ++ [n]) with
  | Some Wh => Ok t
  | Some _ => Err EEXIST
  | None => h_insert pp n Wh t
  end.
(* Layer::delete_whiteout *)
Definition h_delete_whiteout (pp : path) (n : name) (t : tree) : res tree :=
  match tget t (pp ++ [n]) with
  | Some Wh => h_unlink pp n t
  | Some _ => Err EINVAL
  | None => Ok t
  end.
Definition set_xs (k : string) (v : bytes) (c : tree) : tree :=
  match c with
  | Dir m x ch => Dir m (aset k v x) ch
  | File i m d x => File i m d (aset k v x)
  | _ => c
  end.
Definition del_xs (k : string) (c : tree) : tree :=
  match c with
  | Dir m x ch => Dir m (adel k x) ch
  | File i m d x => File i m d (adel k x)
  | _ => c
  end.
Definition xs_of (c : tree) : xattrs :=
  match c with Dir _ x _ => x | File _ _ _ x => x | _ => [] end.
(* an attribute change of the inode at [p]: every hard link of a regular file sees it *)
Definition h_update (p : path) (f : tree -> tree) (t : tree) : res tree :=
  match tget t p with
  | Some (File i _ _ _) => Ok (tmap_ino i f t)
  | Some (Dir _ _ _) => Ok (tupd p f t)
  | Some _ => Err EOPNOTSUPP
  | None => Err ENOENT
  end.
Definition h_setxattr (p : path) (k : string) (v : bytes) : tree -> res tree := h_update p (set_xs k v).
Definition h_removexattr (p : path) (k : string) (t : tree) : res tree :=
  match tget t p with
  | Some c => match afind k (xs_of c) with Some _ => h_update p (del_xs k) t | None => Err ENODATA end
  | None => Err ENOENT
  end.
(* Layer::set_opaque *)
Definition h_set_opaque (p : path) (t : tree) : res tree :=
  match tget t p with
  | Some (Dir _ _ _) => h_setxattr p OPQ1 [121] t
  | Some _ => Err ENOTDIR
  | None => Err ENOENT
  end.
Definition set_mode (m : N) (c : tree) : tree :=
  match c with
  | Dir _ x ch => Dir (N.land m 4095) x ch
  | File i _ d x => File i (N.land m 4095) d x
  | _ => c
  end.
Definition h_chmod (p : path) (m : N) : tree -> res tree := h_update p (set_mode m).

Fixpoint zeros (n : nat) : bytes := match n with O => [] | S k => 0 :: zeros k end.
Definition resize (n : nat) (d : bytes) : bytes := firstn n d ++ zeros (n - List.length d).
Definition write_at (off : nat) (w d : bytes) : bytes :=
  resize off d ++ w ++ skipn (off + List.length w) d.
Definition set_data (f : bytes -> bytes) (c : tree) : tree :=
  match c with File i m d x => File i m (f d) x | _ => c end.
Definition h_setdata (p : path) (f : bytes -> bytes) (t : tree) : res tree :=
  match tget t p with
  | Some (File i _ _ _) => Ok (tmap_ino i (set_data f) t)
  | Some (Dir _ _ _) => Err EISDIR
  | Some _ => Err EBADF
  | None => Err ENOENT
  end.

(* ------------------------------------------------------------------ overlay state *)
Record real := mkReal {
  r_layer : nat;       (* 0 = upper, k+1 = k-th lower *)
  r_upper : bool;      (* in_upper_layer *)
  r_path : path;       (* where the backing inode lives in its layer *)
  r_wh : bool;         (* cached at creation *)
  r_opq : bool;        (* cached at creation *)
  r_dir : bool         (* is_dir of the cached stat *)
}.
Inductive node := Node (reals : list real) (wh : bool) (loaded : bool) (ch : list (name * node)).
Definition n_reals (n : node) := let 'Node r _ _ _ := n in r.
Definition n_wh (n : node) := let 'Node _ w _ _ := n in w.
Definition n_loaded (n : node) := let 'Node _ _ l _ := n in l.
Definition n_ch (n : node) := let 'Node _ _ _ c := n in c.

Record state := mkState {
  upper : option tree;
  lowers : list tree;
  root : node;
  next_ino : N;
  log : list nat          (* layer index of every layer mutation performed, newest first *)
}.

Definition get_layer (s : state) (k : nat) : option tree :=
  match k with O => upper s | S j => nth_error (lowers s) j end.
Fixpoint set_nth {A} (j : nat) (a : A) (l : list A) : list A :=
  match l, j with
  | [], _ => []
  | _ :: r, O => a :: r
  | x :: r, S j' => x :: set_nth j' a r
  end.
Definition set_layer (s : state) (k : nat) (t : tree) : state :=
  match k with
  | O => mkState (match upper s with Some _ => Some t | None => None end) (lowers s) (root s) (next_ino s) (k :: log s)
  | S j => mkState (upper s) (set_nth j t (lowers s)) (root s) (next_ino s) (k :: log s)
  end.

Fixpoint nget (p : path) (n : node) : option node :=
  match p with
  | [] => Some n
  | c :: p' => match afind c (n_ch n) with Some m => nget p' m | None => None end
  end.
Fixpoint nupd (p : path) (f : node -> node) (n : node) : node :=
  match p with
  | [] => f n
  | c :: p' => Node (n_reals n) (n_wh n) (n_loaded n) (amap c (nupd p' f) (n_ch n))
  end.

Definition M (A : Type) := state -> res A * state.
Definition ret {A} (a : A) : M A := fun s => (Ok a, s).
Definition fail {A} (e : N) : M A := fun s => (Err e, s).
Definition bind {A B} (m : M A) (f : A -> M B) : M B :=
  fun s => match m s with (Ok a, s') => f a s' | (Err e, s') => (Err e, s') end.
Notation "x <- a ;; b" := (bind a (fun x => b)) (at level 61, a at next level, right associativity).
Notation "a ;;; b" := (bind a (fun _ => b)) (at level 61, right associativity).
(* `let _ = ...`: the result is discarded, effects stay *)
Definition ignore {A} (m : M A) : M unit := fun s => (Ok tt, snd (m s)).

Definition get_node (p : path) : M node :=
  fun s => match nget p (root s) with Some n => (Ok n, s) | None => (Err ENOENT, s) end.
Definition mod_node (p : path) (f : node -> node) : M unit :=
  fun s => (Ok tt, mkState (upper s) (lowers s) (nupd p f (root s)) (next_ino s) (log s)).
Definition fresh_ino : M N :=
  fun s => (Ok (next_ino s), mkState (upper s) (lowers s) (root s) (next_ino s + 1) (log s)).
Definition mutate (k : nat) (f : tree -> res tree) : M unit :=
  fun s => match get_layer s k with
           | None => (Err EOTHER, s)
           | Some t => match f t with Ok t' => (Ok tt, set_layer s k t') | Err e => (Err e, s) end
           end.

Definition real_tree (s : state) (r : real) : option tree :=
  match get_layer s (r_layer r) with Some t => tget t (r_path r) | None => None end.
(* OverlayInode::stat64: first backing inode that still exists *)
Fixpoint first_some {A} (l : list (option A)) : option A :=
  match l with [] => None | Some a :: _ => Some a | None :: r => first_some r end.
Definition node_stat (s : state) (n : node) : option tree := first_some (map (real_tree s) (n_reals n)).
Definition stat_node (n : node) : M tree :=
  fun s => match node_stat s n with Some t => (Ok t, s) | None => (Err ENOENT, s) end.

Definition child_real (r : real) (nm : name) (c : tree) : real :=
  mkReal (r_layer r) (r_upper r) (r_path r ++ [nm]) (is_whT c) (is_opaqueT c) (is_dirT c).
(* RealInode::readdir (+ lookup_child for every name) *)
Definition readdir_real (s : state) (r : real) : res (list (name * real)) :=
  if r_wh r then Err ENOENT
  else if negb (r_dir r) then Err ENOTDIR
  else match real_tree s r with
       | Some (Dir _ _ ch) => Ok (map (fun kv => (fst kv, child_real r (fst kv) (snd kv))) ch)
       | Some _ => Err ENOTDIR
       | None => Err ENOENT
       end.
Definition add_entry (acc : list (name * list real)) (e : name * real) : list (name * list real) :=
  aset (fst e) (match afind (fst e) acc with Some l => l ++ [snd e] | None => [snd e] end) acc.
(* the loop of scan_childrens over real_inodes *)
Fixpoint scan_reals (s : state) (rs : list real) (acc : list (name * list real)) : res (list (name * list real)) :=
  match rs with
  | [] => Ok acc
  | r :: rs' =>
      if r_wh r then Ok acc
      else if negb (r_dir r) then Ok acc
      else match readdir_real s r with
           | Err e => Err e
           | Ok ents =>
               let acc' := fold_left add_entry ents acc in
               if r_opq r then Ok acc' else scan_reals s rs' acc'
           end
  end.
(* OverlayInode::new_from_real_inodes *)
Fixpoint take_lowers (rest : list real) : list real :=
  match rest with
  | [] => []
  | q :: rest' =>
      if r_wh q then []
      else if negb (r_dir q) then []
      else if r_opq q then [q]
      else q :: take_lowers rest'
  end.
Definition new_from_reals (rs : list real) : node :=
  match rs with
  | [] => Node [] false false []
  | r :: rest =>
      if r_wh r || negb (r_dir r) || r_opq r then Node [r] (r_wh r) false []
      else Node (r :: take_lowers rest) (r_wh r) false []
  end.
Definition scan_children (s : state) (n : node) : res (list (name * node)) :=
  match node_stat s n with
  | None => Err ENOENT
  | Some st =>
      if negb (is_dirT st) then Err ENOTDIR
      else match scan_reals s (n_reals n) [] with
           | Err e => Err e
           | Ok all => Ok (map (fun kv => (fst kv, new_from_reals (snd kv))) all)
           end
  end.
Definition set_loaded (cs : list (name * node)) (n : node) : node :=
  Node (n_reals n) (n_wh n) true (fold_left (fun acc kv => aset (fst kv) (snd kv) acc) cs (n_ch n)).
(* OverlayFs::load_directory on one node: scan and insert the children unless already loaded *)
Definition load1 (s : state) (n : node) : node :=
  if n_loaded n then n
  else match scan_children s n with Ok cs => set_loaded cs n | Err _ => n end.
Definition load_dir (p : path) : M unit :=
  n <- get_node p ;;
  if n_loaded n then ret tt
  else fun s => match scan_children s n with
                | Err e => (Err e, s)
                | Ok _ => mod_node p (load1 s) s
                end.

Definition load_if_dir (p : path) (n : node) (st : tree) : M unit :=
  if is_dirT st && negb (n_loaded n) then load_dir p else ret tt.
(* OverlayFs::lookup_node; [nm = None] is the empty name / "." *)
Definition lookup_node (p : path) (nm : option name) : M path :=
  pn <- get_node p ;;
  if n_wh pn then fail ENOENT else
  st <- stat_node pn ;;
  load_if_dir p pn st ;;;
  match nm with
  | None => ret p
  | Some c =>
      pn' <- get_node p ;;
      match afind c (n_ch pn') with Some _ => ret (p ++ [c]) | None => fail ENOENT end
  end.
Definition lookup_node_ignore_enoent (p : path) (nm : name) : M (option path) :=
  fun s => match lookup_node p (Some nm) s with
           | (Ok q, s') => (Ok (Some q), s')
           | (Err e, s') => if e =? ENOENT then (Ok None, s') else (Err e, s')
           end.
(* OverlayFs::do_lookup: returns the node's path and the attributes reported *)
Definition do_lookup (p : path) (nm : option name) : M (path * tree) :=
  q <- lookup_node p nm ;;
  n <- get_node q ;;
  if n_wh n then fail ENOENT else
  st <- stat_node n ;;
  load_if_dir q n st ;;;
  ret (q, st).
(* what the harness does to address a node: one LOOKUP per component *)
Fixpoint walk_from (cur : path) (p : path) : M unit :=
  match p with
  | [] => ret tt
  | c :: p' => do_lookup cur (Some c) ;;; walk_from (cur ++ [c]) p'
  end.
Definition walk (p : path) : M unit := walk_from [] p.

Definition in_upper (n : node) : bool := match n_reals n with r :: _ => r_upper r | [] => false end.
Definition upper_only (n : node) : bool := match n_reals n with [r] => r_upper r | _ => false end.
Definition first_real (n : node) : M real :=
  match n_reals n with r :: _ => ret r | [] => fail EPANIC end.
(* handle_upper_inode_locked with the callers' "None => EINVAL" *)
Definition upper_real (n : node) (e_none : N) : M real :=
  match n_reals n with
  | r :: _ => if r_upper r then ret r else fail e_none
  | [] => fail EOTHER
  end.

(* RealInode mutators: refuse when not in the upper layer, otherwise call the real's own layer *)
Definition ri_guard (pr : real) : M unit := if r_upper pr then ret tt else fail EROFS.
Definition ri_mkdir (pr : real) (nm : name) (mode : N) : M real :=
  ri_guard pr ;;; mutate (r_layer pr) (h_mkdir (r_path pr) nm mode) ;;;
  ret (mkReal (r_layer pr) true (r_path pr ++ [nm]) false false true).
Definition ri_create (pr : real) (nm : name) (mode : N) : M real :=
  ri_guard pr ;;; i <- fresh_ino ;; mutate (r_layer pr) (h_create (r_path pr) nm i mode) ;;;
  ret (mkReal (r_layer pr) true (r_path pr ++ [nm]) false false false).
Definition ri_symlink (pr : real) (nm : name) (target : bytes) : M real :=
  ri_guard pr ;;; mutate (r_layer pr) (h_symlink (r_path pr) nm target) ;;;
  ret (mkReal (r_layer pr) (r_upper pr) (r_path pr ++ [nm]) false false false).
Definition ri_link (pr : real) (src : real) (nm : name) : M real :=
  ri_guard pr ;;;
  (* the source inode number is interpreted in the parent's layer *)
  (if Nat.eqb (r_layer src) (r_layer pr) then ret tt else fail EUNMODELLED) ;;;
  mutate (r_layer pr) (h_link (r_path src) (r_path pr) nm) ;;;
  ret (mkReal (r_layer pr) true (r_path pr ++ [nm]) false false false).
Definition ri_whiteout (pr : real) (nm : name) : M real :=
  ri_guard pr ;;; mutate (r_layer pr) (h_create_whiteout (r_path pr) nm) ;;;
  ret (mkReal (r_layer pr) true (r_path pr ++ [nm]) true false false).

(* OverlayInode::add_upper_inode *)
Definition add_upper (ri : real) (clear : bool) (n : node) : node :=
  Node (if clear then [ri] else ri :: n_reals n) (r_wh ri) (n_loaded n) (n_ch n).

Definition mode_of (t : tree) : N :=
  match t with Dir m _ _ => m | File _ m _ _ => m | Lnk _ => 511 | Wh => 0 end.

(* copy-up of a directory (repaired by 61854eb): mkdir(2) keeps the permission bits and the sticky bit only, so when the lower
   directory has S_ISUID | S_ISGID the new upper directory is chmod-ed to st_mode & 07777 *)
Definition has_setid (mode : N) : bool := negb (N.land mode 3072 =? 0).          (* 06000 *)
Definition cu_mode (mode : N) : N := if has_setid mode then N.land mode 4095 else N.land mode 1023.
Definition ri_mkdir_cu (pr : real) (nm : name) (mode : N) : M real :=
  ri <- ri_mkdir pr nm mode ;;
  (if has_setid mode then mutate (r_layer ri) (h_chmod (r_path ri) mode) else ret tt) ;;;
  ret ri.
(* OverlayInode::create_upper_dir(ctx, None); fuel = number of ancestors + 1 *)
Fixpoint create_upper_dir (fuel : nat) (p : path) : M unit :=
  match fuel with
  | O => fail EOTHER
  | S f =>
      n <- get_node p ;;
      st <- stat_node n ;;
      if negb (is_dirT st) then fail ENOTDIR else
      if in_upper n then ret tt else
      match split_last p with
      | None => fail EOTHER                       (* "no parent?" *)
      | Some (pp, nm) =>
          pn <- get_node pp ;;
          (if in_upper pn then ret tt else create_upper_dir f pp) ;;;
          pn' <- get_node pp ;;
          pr <- upper_real pn' EINVAL ;;
          ri <- ri_mkdir_cu pr nm (mode_of st) ;;
          mod_node p (add_upper ri false)
      end
  end.
Definition copy_symlink_up (p : path) : M unit :=
  n <- get_node p ;;
  if in_upper n then ret tt else
  match split_last p with
  | None => fail EOTHER
  | Some (pp, nm) =>
      lr <- first_real n ;;
      pn <- get_node pp ;;
      (if in_upper pn then ret tt else create_upper_dir (S (List.length pp)) pp) ;;;
      target <- (fun s => match real_tree s lr with
                          | Some (Lnk t) => (Ok t, s)
                          | Some _ => (Err EINVAL, s)
                          | None => (Err ENOENT, s)
                          end) ;;
      pn' <- get_node pp ;;
      pr <- upper_real pn' EROFS ;;
      ri <- ri_symlink pr nm target ;;
      mod_node p (add_upper ri true)
  end.
Definition copy_regfile_up (p : path) : M unit :=
  n <- get_node p ;;
  if in_upper n then ret tt else
  match split_last p with
  | None => fail EOTHER
  | Some (pp, nm) =>
      st <- stat_node n ;;
      lr <- first_real n ;;
      pn <- get_node pp ;;
      (if in_upper pn then ret tt else create_upper_dir (S (List.length pp)) pp) ;;;
      pn' <- get_node pp ;;
      pr <- upper_real pn' EINVAL ;;
      ri <- ri_create pr nm (mode_of st) ;;
      data <- (fun s => match real_tree s lr with
                        | Some (File _ _ d _) => (Ok d, s)
                        | Some (Dir _ _ _) => (Err EISDIR, s)
                        | Some _ => (Err EUNMODELLED, s)
                        | None => (Err ENOENT, s)
                        end) ;;
      mutate (r_layer ri) (h_setdata (r_path ri) (fun _ => data)) ;;;
      mod_node p (add_upper ri true)
  end.
Definition copy_node_up (p : path) : M unit :=
  n <- get_node p ;;
  if in_upper n then ret tt else
  st <- stat_node n ;;
  match st with
  | Dir _ _ _ => create_upper_dir (S (List.length p)) p
  | Lnk _ => copy_symlink_up p
  | _ => copy_regfile_up p
  end.

Definition new_node (ri : real) : node := Node [ri] (r_wh ri) false [].
Definition insert_child (pp : path) (nm : name) (c : node) : M unit :=
  mod_node pp (fun n => Node (n_reals n) (n_wh n) (n_loaded n) (aset nm c (n_ch n))).
Definition remove_child (pp : path) (nm : name) : M unit :=
  mod_node pp (fun n => Node (n_reals n) (n_wh n) (n_loaded n) (adel nm (n_ch n))).
Definition has_upper : M bool := fun s => (Ok (match upper s with Some _ => true | None => false end), s).
Definition need_upper : M unit := u <- has_upper ;; if u then ret tt else fail EROFS.
Definition delete_whiteout_ignored (pr : real) (nm : name) : M unit :=
  ignore (mutate (r_layer pr) (h_delete_whiteout (r_path pr) nm)).

(* do_mkdir *)
Definition do_mkdir (pp : path) (nm : name) (mode : N) : M unit :=
  need_upper ;;;
  pn <- get_node pp ;;
  if n_wh pn then fail ENOENT else
  found <- lookup_node_ignore_enoent pp nm ;;
  flags <- match found with
           | None => ret (false, false)
           | Some q =>
               n <- get_node q ;;
               if negb (n_wh n) then fail EEXIST
               else ret (in_upper n, true)    (* a directory replacing a whiteout is always made opaque *)
           end ;;
  let '(delete_whiteout, set_opaque) := flags in
  copy_node_up pp ;;;
  pn' <- get_node pp ;;
  pr <- upper_real pn' EINVAL ;;
  (if delete_whiteout then delete_whiteout_ignored pr nm else ret tt) ;;;
  ri <- ri_mkdir pr nm mode ;;
  (if set_opaque then mutate (r_layer pr) (h_set_opaque (r_path ri)) else ret tt) ;;;
  insert_child pp nm (new_node ri).

(* the common shape of do_mknod / do_create / do_symlink *)
Definition do_make (pp : path) (nm : name) (mk : real -> M real) : M unit :=
  need_upper ;;;
  pn <- get_node pp ;;
  if n_wh pn then fail ENOENT else
  found <- lookup_node_ignore_enoent pp nm ;;
  match found with
  | Some q =>
      n <- get_node q ;;
      if negb (n_wh n) then fail EEXIST else
      copy_node_up pp ;;;
      pn' <- get_node pp ;;
      pr <- upper_real pn' EINVAL ;;
      (if in_upper n then delete_whiteout_ignored pr nm else ret tt) ;;;
      ri <- mk pr ;;
      mod_node q (add_upper ri true)
  | None =>
      copy_node_up pp ;;;
      pn' <- get_node pp ;;
      pr <- upper_real pn' EINVAL ;;
      ri <- mk pr ;;
      insert_child pp nm (new_node ri)
  end.

(* do_link *)
Definition do_link (src : path) (pp : path) (nm : name) : M unit :=
  need_upper ;;;
  sn <- get_node src ;;
  pn <- get_node pp ;;
  if n_wh sn || n_wh pn then fail ENOENT else
  st <- stat_node sn ;;
  if is_dirT st then fail EPERM else
  copy_node_up src ;;;
  copy_node_up pp ;;;
  sn' <- get_node src ;;
  sr <- first_real sn' ;;
  found <- lookup_node_ignore_enoent pp nm ;;
  match found with
  | Some q =>
      n <- get_node q ;;
      if negb (n_wh n) then fail EEXIST else
      pn' <- get_node pp ;;
      pr <- upper_real pn' EINVAL ;;
      (if in_upper n then delete_whiteout_ignored pr nm else ret tt) ;;;
      ri <- ri_link pr sr nm ;;
      mod_node q (add_upper ri true)
  | None =>
      pn' <- get_node pp ;;
      pr <- upper_real pn' EINVAL ;;
      ri <- ri_link pr sr nm ;;
      insert_child pp nm (new_node ri)
  end.

(* empty_node_directory, as reachable from do_rm (count = 0: every child is a whiteout) *)
Fixpoint empty_children (p : path) (layer : nat) (rp : path) (cs : list (name * node)) : M unit :=
  match cs with
  | [] => ret tt
  | (nm, c) :: cs' =>
      (if in_upper c then
         (if n_wh c then mutate layer (h_delete_whiteout rp nm) else fail EUNMODELLED) ;;;
         remove_child p nm
       else ret tt) ;;;
      empty_children p layer rp cs'
  end.
Definition empty_node_directory (p : path) : M unit :=
  n <- get_node p ;;
  st <- stat_node n ;;
  if negb (is_dirT st) then fail ENOTDIR else
  r <- first_real n ;;
  if negb (r_upper r) then ret tt else
  empty_children p (r_layer r) (r_path r) (n_ch n).

(* OverlayInode::lower_has_child: does a lower layer backing this directory hold the name? *)
Fixpoint lower_has_child (s : state) (rs : list real) (nm : name) : res bool :=
  match rs with
  | [] => Ok false
  | r :: rs' =>
      if r_upper r || r_wh r then lower_has_child s rs' nm
      else match real_tree s r with
           | Some (Dir _ _ ch) => match afind nm ch with Some _ => Ok true | None => lower_has_child s rs' nm end
           | Some _ => Err ENOTDIR
           | None => lower_has_child s rs' nm
           end
  end.
(* do_rm *)
Definition do_rm (pp : path) (nm : name) (dir : bool) : M unit :=
  need_upper ;;;
  lookup_node pp None ;;;
  pn <- get_node pp ;;
  if n_wh pn then fail ENOENT else
  q <- lookup_node pp (Some nm) ;;
  n <- get_node q ;;
  if n_wh n then fail ENOENT else
  (if dir then
     load_dir q ;;;
     n1 <- get_node q ;;
     st <- stat_node n1 ;;
     if negb (is_dirT st) then fail ENOTDIR else
     let count := List.length (filter (fun kv => negb (n_wh (snd kv))) (n_ch n1)) in
     let whiteouts := List.length (filter (fun kv => n_wh (snd kv)) (n_ch n1)) in
     if negb (Nat.eqb count 0) then fail ENOTEMPTY else
     if negb (Nat.eqb whiteouts 0) && in_upper n1 then empty_node_directory q else ret tt
   else ret tt) ;;;
  copy_node_up pp ;;;
  n2 <- get_node q ;;
  pn' <- get_node pp ;;
  need0 <- (if upper_only n2
            then fun s => match lower_has_child s (n_reals pn') nm with Ok b => (Ok b, s) | Err e => (Err e, s) end
            else ret true) ;;
  need <- (if in_upper n2 then
             pr <- upper_real pn' EINVAL ;;
             mutate (r_layer pr) (if dir then h_rmdir (r_path pr) nm else h_unlink (r_path pr) nm) ;;;
             ret (need0 && negb (r_opq pr))
           else ret need0) ;;
  remove_child pp nm ;;;
  if need then
    pn'' <- get_node pp ;;
    pr <- upper_real pn'' EINVAL ;;
    ri <- ri_whiteout pr nm ;;
    insert_child pp nm (new_node ri)
  else ret tt.

(* the flag word of an OPEN request: access mode and the bits O_TRUNC, O_APPEND, O_CREAT, O_EXCL *)
Inductive oacc := ARD | AWR | ARW.
Record oflag := mkOF { of_acc : oacc; of_tr : bool; of_ap : bool; of_cr : bool; of_ex : bool }.
Notation OF_R := (mkOF ARD false false false false).
Notation OF_W := (mkOF AWR false false false false).
Notation OF_RW := (mkOF ARW false false false false).
Notation OF_WT := (mkOF AWR true false false false).
Notation OF_A := (mkOF AWR false true false false).
(* OverlayFs::open: readonly = flags & (O_APPEND | O_CREAT | O_TRUNC | O_RDWR | O_WRONLY) == 0  (O_EXCL does not count) *)
Definition of_readonly (f : oflag) : bool :=
  match of_acc f with ARD => negb (of_tr f || of_ap f || of_cr f) | _ => false end.
(* what the host open does with the word the overlay forwards (O_CREAT is stripped when the file is re-opened
   through /proc/self/fd, O_EXCL alone and O_APPEND change nothing at open time): O_TRUNC truncates, whatever the access mode *)
Definition of_trunc (f : oflag) : bool := of_tr f.
Lemma of_trunc_not_readonly f : of_trunc f = true -> of_readonly f = false.
Proof. unfold of_trunc, of_readonly. intros ->. destruct (of_acc f); reflexivity. Qed.

(* FileSystem::open followed by release *)
Definition do_open (p : path) (fl : oflag) : M real :=
  lookup_node p None ;;;
  n <- get_node p ;;
  if n_wh n then fail ENOENT else
  (if of_readonly fl then ret tt else copy_node_up p) ;;;
  n' <- get_node p ;;
  r <- first_real n' ;;
  t <- (fun s => match real_tree s r with Some t => (Ok t, s) | None => (Err ENOENT, s) end) ;;
  match t with
  | File _ _ _ _ => (if of_trunc fl then mutate (r_layer r) (h_setdata (r_path r) (fun _ => [])) else ret tt) ;;; ret r
  | Dir _ _ _ => if of_readonly fl then ret r else fail EISDIR
  | _ => fail EBADF
  end.

Inductive op :=
| OLookup (p : path) | OGetattr (p : path) | OReaddir (p : path) | ORead (p : path) (off len : N)
| OReadlink (p : path) | OCreate (p : path) (mode : N) | OMkdir (p : path) (mode : N)
| OMknod (p : path) (mode : N) | OSymlink (p : path) (target : bytes) | OLink (src dst : path)
| OUnlink (p : path) | ORmdir (p : path) | ORename (a b : path) | OOpen (p : path) (fl : oflag)
| OWrite (p : path) (off : N) (data : bytes) | OChmod (p : path) (mode : N) | OTruncate (p : path) (size : N)
| OSetxattr (p : path) (k : string) (v : bytes) | OGetxattr (p : path) (k : string)
| OListxattr (p : path) | ORemovexattr (p : path) (k : string).

(* ------------------------------------------------------------------ printing (same format as the harness) *)
Local Open Scope string_scope.
Definition hexdigit (d : N) : string :=
  match d with
  | 0 => "0" | 1 => "1" | 2 => "2" | 3 => "3" | 4 => "4" | 5 => "5" | 6 => "6" | 7 => "7"
  | 8 => "8" | 9 => "9" | 10 => "a" | 11 => "b" | 12 => "c" | 13 => "d" | 14 => "e" | _ => "f"
  end.
Fixpoint hexN_aux (fuel : nat) (n : N) (acc : string) : string :=
  match fuel with
  | O => acc
  | S f => let acc' := hexdigit (n mod 16) ++ acc in
           if (n / 16 =? 0)%N then acc' else hexN_aux f (n / 16) acc'
  end.
Definition hexN (n : N) : string := hexN_aux 20 n "".
Fixpoint hexbytes (l : bytes) : string :=
  match l with [] => "" | b :: r => hexdigit (b / 16) ++ hexdigit (b mod 16) ++ hexbytes r end.

Fixpoint sleb (a b : string) : bool :=
  match a, b with
  | EmptyString, _ => true
  | String _ _, EmptyString => false
  | String x a', String y b' =>
      let nx := N_of_ascii x in let ny := N_of_ascii y in
      if (nx <? ny)%N then true else if (ny <? nx)%N then false else sleb a' b'
  end.
Fixpoint sinsert {A} (kv : string * A) (l : list (string * A)) : list (string * A) :=
  match l with
  | [] => [kv]
  | h :: r => if sleb (fst kv) (fst h) then kv :: l else h :: sinsert kv r
  end.
Definition ssort {A} (l : list (string * A)) : list (string * A) := fold_right sinsert [] l.
Fixpoint sconcat (l : list string) : string :=
  match l with [] => "" | a :: r => a ++ sconcat r end.
Fixpoint sjoin (l : list string) : string :=
  match l with [] => "" | [a] => a | a :: r => a ++ "," ++ sjoin r end.

Definition ser_xs (xs : xattrs) : string :=
  match xs with
  | [] => ""
  | _ => "[" ++ sconcat (map (fun kv => fst kv ++ "=" ++ hexbytes (snd kv) ++ ",") (ssort xs)) ++ "]"
  end.
Fixpoint ser (fuel : nat) (t : tree) : string :=
  match fuel with
  | O => "!deep"
  | S f =>
      match t with
      | Dir m x ch =>
          "d" ++ hexN m ++ ser_xs x ++ "(" ++
          sconcat (map (fun kv => fst kv ++ "=" ++ ser f (snd kv) ++ ",") (ssort ch)) ++ ")"
      | File _ m d x => "f" ++ hexN m ++ ser_xs x ++ ":" ++ hexbytes d
      | Lnk t => "l:" ++ hexbytes t
      | Wh => "w"
      end
  end.
Definition kind_of (t : tree) : string :=
  match t with
  | Dir m _ _ => "d" ++ hexN m
  | File _ m _ _ => "f" ++ hexN m
  | Lnk _ => "l1ff"
  | Wh => "?"
  end.
Definition size_of (t : tree) : N := match t with File _ _ d _ => N.of_nat (List.length d) | _ => 0 end.
Definition user_xs (xs : xattrs) : xattrs := filter (fun kv => negb (is_opq_name (fst kv))) xs.

(* ------------------------------------------------------------------ client view *)
Local Open Scope N_scope.
Local Open Scope list_scope.
Definition first_real_tree (s : state) (n : node) : option tree :=
  match n_reals n with r :: _ => real_tree s r | [] => None end.
Definition hide_xs (t : tree) : tree :=
  match t with
  | Dir m x ch => Dir m (user_xs x) ch
  | File i m d x => File i m d (user_xs x)
  | _ => t
  end.
Fixpoint filter_map {A B} (f : A -> option B) (l : list A) : list B :=
  match l with [] => [] | a :: r => match f a with Some b => b :: filter_map f r | None => filter_map f r end end.
(* the tree a client sees by LOOKUP/READDIR/GETATTR/READ/READLINK/LISTXATTR on a loaded cache *)
Fixpoint view_node (fuel : nat) (s : state) (n : node) : option tree :=
  match fuel with
  | O => None
  | S f =>
      if n_wh n then None else
      match first_real_tree s n with
      | Some (Dir m x _) =>
          Some (Dir m (user_xs x)
                  (filter_map (fun kv => match view_node f s (snd kv) with
                                         | Some t => Some (fst kv, t) | None => None end) (n_ch n)))
      | Some Wh => None
      | Some t => Some (hide_xs t)
      | None => None
      end
  end.
(* every directory a walk from the root reaches gets loaded (what the harness' tree dump does to
   the cache: LOOKUP/READDIR on every visible name call load_directory on every visible directory) *)
Fixpoint load_node (fuel : nat) (s : state) (n : node) : node :=
  match fuel with
  | O => n
  | S f =>
      if n_wh n then n else
      match node_stat s n with
      | Some (Dir _ _ _) =>
          let n1 := load1 s n in
          Node (n_reals n1) (n_wh n1) (n_loaded n1) (map (fun kv => (fst kv, load_node f s (snd kv))) (n_ch n1))
      | _ => n
      end
  end.
Definition DEPTH : nat := 12.
Definition load_all (s : state) : state :=
  mkState (upper s) (lowers s) (load_node DEPTH s (root s)) (next_ino s) (log s).
Definition view (s : state) : option tree := view_node DEPTH s (root s).

(* OverlayFs::new + import *)
Definition root_real (k : nat) (up : bool) (t : tree) : real := mkReal k up [] false (is_opaqueT t) (is_dirT t).
Fixpoint lower_reals (k : nat) (ls : list tree) : list real :=
  match ls with [] => [] | t :: r => root_real k false t :: lower_reals (S k) r end.
Definition fresh0 (u : option tree) (ls : list tree) (nx : N) : state :=
  mkState u ls (Node ((match u with Some t => [root_real 0 true t] | None => [] end) ++ lower_reals 1 ls) false false []) nx [].
Definition fresh (u : option tree) (ls : list tree) (nx : N) : state := snd (load_dir [] (fresh0 u ls nx)).
Definition restart (s : state) : state := fresh (upper s) (lowers s) (next_ino s).

(* ------------------------------------------------------------------ the operations as the harness issues them *)
Definition with_parent {A} (p : path) (f : path -> name -> M A) : M A :=
  match split_last p with Some (pp, nm) => walk pp ;;; f pp nm | None => fail EINVAL end.
Definition entry_of (pp : path) (nm : name) : M string :=
  e <- do_lookup pp (Some nm) ;; ret (kind_of (snd e)).
Definition sync_parent (pp : path) : M unit :=   (* sync_io: lookup_node(parent, "") + whiteout check *)
  lookup_node pp None ;;;
  pn <- get_node pp ;;
  if n_wh pn then fail ENOENT else ret tt.
Definition first_tree (p : path) : M (real * tree) :=
  n <- get_node p ;;
  r <- first_real n ;;
  fun s => match real_tree s r with Some t => (Ok (r, t), s) | None => (Err ENOENT, s) end.
Definition node_checked (p : path) : M unit :=
  lookup_node p None ;;;
  n <- get_node p ;;
  if n_wh n then fail ENOENT else ret tt.

Definition step (o : op) : M string :=
  match o with
  | OLookup p => with_parent p (fun pp nm => entry_of pp nm)
  | OGetattr p =>
      walk p ;;; lookup_node p None ;;;
      rt <- first_tree p ;;
      ret (kind_of (snd rt) ++ ":" ++ hexN (size_of (snd rt)))%string
  | OReaddir p =>
      walk p ;;; lookup_node p None ;;;
      n <- get_node p ;;
      if n_wh n then fail ENOENT else
      st <- stat_node n ;;
      if negb (is_dirT st) then fail ENOTDIR else
      ret (sjoin (map fst (ssort (filter (fun kv => negb (n_wh (snd kv))) (n_ch n)))))
  | ORead p off len =>
      walk p ;;;
      r <- do_open p OF_R ;;
      fun s => match real_tree s r with
               | Some (File _ _ d _) => (Ok (hexbytes (firstn (N.to_nat len) (skipn (N.to_nat off) d))), s)
               | Some (Dir _ _ _) => (Err EISDIR, s)
               | _ => (Err EBADF, s)
               end
  | OReadlink p =>
      walk p ;;; node_checked p ;;;
      rt <- first_tree p ;;
      match snd rt with Lnk t => ret (hexbytes t) | _ => fail EINVAL end
  | OCreate p mode =>
      with_parent p (fun pp nm =>
        sync_parent pp ;;; do_make pp nm (fun pr => ri_create pr nm mode) ;;; entry_of pp nm)
  | OMkdir p mode =>
      with_parent p (fun pp nm => sync_parent pp ;;; do_mkdir pp nm mode ;;; entry_of pp nm)
  | OMknod p mode =>
      with_parent p (fun pp nm =>
        sync_parent pp ;;; do_make pp nm (fun pr => ri_create pr nm mode) ;;; entry_of pp nm)
  | OSymlink p target =>
      with_parent p (fun pp nm =>
        lookup_node pp None ;;; do_make pp nm (fun pr => ri_symlink pr nm target) ;;; entry_of pp nm)
  | OLink src dst =>
      walk src ;;;
      with_parent dst (fun pp nm =>
        node_checked src ;;; sync_parent pp ;;; do_link src pp nm ;;; entry_of pp nm)
  | OUnlink p => with_parent p (fun pp nm => do_rm pp nm false ;;; ret "")
  | ORmdir p => with_parent p (fun pp nm => do_rm pp nm true ;;; ret "")
  | ORename a b =>
      with_parent a (fun _ _ => with_parent b (fun _ _ => fail EXDEV))
  | OOpen p fl => walk p ;;; do_open p fl ;;; ret ""
  | OWrite p off data =>
      walk p ;;;
      r <- do_open p OF_W ;;
      mutate (r_layer r) (h_setdata (r_path r) (write_at (N.to_nat off) data)) ;;;
      ret (hexN (N.of_nat (List.length data)))
  | OChmod p mode =>
      walk p ;;; need_upper ;;; lookup_node p None ;;;
      n <- get_node p ;;
      (if in_upper n then ret tt else copy_node_up p) ;;;
      rt <- first_tree p ;;
      mutate (r_layer (fst rt)) (h_chmod (r_path (fst rt)) mode) ;;;
      rt' <- first_tree p ;;
      ret (kind_of (snd rt'))
  | OTruncate p size =>
      walk p ;;; need_upper ;;; lookup_node p None ;;;
      n <- get_node p ;;
      (if in_upper n then ret tt else copy_node_up p) ;;;
      rt <- first_tree p ;;
      mutate (r_layer (fst rt)) (h_setdata (r_path (fst rt)) (resize (N.to_nat size))) ;;;
      rt' <- first_tree p ;;
      ret (hexN (size_of (snd rt')))
  | OSetxattr p k v =>
      walk p ;;; node_checked p ;;;
      n <- get_node p ;;
      (if in_upper n then ret tt else copy_node_up p) ;;;
      rt <- first_tree p ;;
      mutate (r_layer (fst rt)) (h_setxattr (r_path (fst rt)) k v) ;;; ret ""
  | OGetxattr p k =>
      walk p ;;; node_checked p ;;;
      rt <- first_tree p ;;
      match afind k (xs_of (snd rt)) with Some v => ret (hexbytes v) | None => fail ENODATA end
  | OListxattr p =>
      walk p ;;; node_checked p ;;;
      rt <- first_tree p ;;
      ret (sjoin (map fst (ssort (user_xs (xs_of (snd rt))))))
  | ORemovexattr p k =>
      walk p ;;; node_checked p ;;;
      n <- get_node p ;;
      (if in_upper n then ret tt else copy_node_up p) ;;;
      rt <- first_tree p ;;
      mutate (r_layer (fst rt)) (h_removexattr (r_path (fst rt)) k) ;;; ret ""
  end.

Definition run_op (o : op) (s : state) : state := snd (step o s).
Definition run (ops : list op) (s : state) : state := fold_left (fun acc o => run_op o acc) ops s.

Definition modifying (o : op) : bool :=
  match o with
  | OCreate _ _ | OMkdir _ _ | OMknod _ _ | OSymlink _ _ | OLink _ _ | OUnlink _ | ORmdir _
  | OWrite _ _ _ | OChmod _ _ | OTruncate _ _ | OSetxattr _ _ _ | ORemovexattr _ _ | ORename _ _ => true
  | OOpen _ fl => negb (of_readonly fl)
  | _ => false
  end.

(* ------------------------------------------------------------------ specification: the overlayfs union *)
Definition dir_children (t : tree) : list (name * tree) := match t with Dir _ _ ch => ch | _ => [] end.
(* directories that take part in a merge: from the top down to the first non-directory,
   whiteout or (inclusive) opaque directory *)
Fixpoint dir_stack (ts : list tree) : list tree :=
  match ts with
  | (Dir _ x _ as d) :: r => if xs_opaque x then [d] else d :: dir_stack r
  | _ => []
  end.
(* the entries of the stacked directories grouped by name, each group top first *)
Definition add_tree (acc : list (name * list tree)) (e : name * tree) : list (name * list tree) :=
  aset (fst e) (match afind (fst e) acc with Some l => l ++ [snd e] | None => [snd e] end) acc.
Definition collect_trees (st : list tree) : list (name * list tree) :=
  fold_left (fun acc d => fold_left add_tree (dir_children d) acc) st [].
(* what is visible under one name, given the entries of that name per layer, top first *)
Fixpoint resolve (fuel : nat) (es : list tree) : option tree :=
  match fuel with
  | O => None
  | S f =>
      match es with
      | [] => None
      | Wh :: _ => None
      | Dir m x _ :: _ =>
          Some (Dir m (user_xs x)
                  (filter_map (fun kv => match resolve f (snd kv) with
                                         | Some t => Some (fst kv, t) | None => None end)
                              (collect_trees (dir_stack es))))
      | t :: _ => Some (hide_xs t)
      end
  end.
(* the union of [upper :: lowers] (top first) *)
Definition merge (layers : list tree) : option tree := resolve DEPTH layers.
Definition all_layers (u : option tree) (ls : list tree) : list tree :=
  match u with Some t => t :: ls | None => ls end.

(* ------------------------------------------------------------------ specification: an ordinary file system *)
Record fs := mkFs { f_tree : tree; f_next : N }.
Definition F (A : Type) := fs -> res A * fs.
Definition fs_mut (f : tree -> res tree) : fs -> res unit * fs :=
  fun s => match f (f_tree s) with Ok t => (Ok tt, mkFs t (f_next s)) | Err e => (Err e, s) end.
Definition fs_get (p : path) : fs -> res tree * fs :=
  fun s => match tget (f_tree s) p with Some t => (Ok t, s) | None => (Err ENOENT, s) end.
Definition fs_after (r : res unit * fs) (p : path) : res string * fs :=
  match r with
  | (Ok _, s) => match tget (f_tree s) p with Some t => (Ok (kind_of t), s) | None => (Err ENOENT, s) end
  | (Err e, s) => (Err e, s)
  end.
Definition fs_apply (o : op) (s : fs) : res string * fs :=
  match o with
  | OLookup p => match tget (f_tree s) p with Some t => (Ok (kind_of t), s) | None => (Err ENOENT, s) end
  | OGetattr p =>
      match tget (f_tree s) p with
      | Some t => (Ok (kind_of t ++ ":" ++ hexN (size_of t))%string, s) | None => (Err ENOENT, s) end
  | OReaddir p =>
      match tget (f_tree s) p with
      | Some (Dir _ _ ch) => (Ok (sjoin (map fst (ssort ch))), s)
      | Some _ => (Err ENOTDIR, s) | None => (Err ENOENT, s) end
  | ORead p off len =>
      match tget (f_tree s) p with
      | Some (File _ _ d _) => (Ok (hexbytes (firstn (N.to_nat len) (skipn (N.to_nat off) d))), s)
      | Some (Dir _ _ _) => (Err EISDIR, s) | Some _ => (Err EBADF, s) | None => (Err ENOENT, s) end
  | OReadlink p =>
      match tget (f_tree s) p with
      | Some (Lnk t) => (Ok (hexbytes t), s) | Some _ => (Err EINVAL, s) | None => (Err ENOENT, s) end
  | OCreate p mode | OMknod p mode =>
      match split_last p with
      | Some (pp, nm) =>
          fs_after (match fs_mut (h_create pp nm (f_next s) mode) s with
                    | (Ok u, s') => (Ok u, mkFs (f_tree s') (f_next s' + 1)) | r => r end) p
      | None => (Err EINVAL, s) end
  | OMkdir p mode =>
      match split_last p with
      | Some (pp, nm) => fs_after (fs_mut (h_mkdir pp nm mode) s) p | None => (Err EINVAL, s) end
  | OSymlink p target =>
      match split_last p with
      | Some (pp, nm) => fs_after (fs_mut (h_symlink pp nm target) s) p | None => (Err EINVAL, s) end
  | OLink src dst =>
      match split_last dst with
      | Some (pp, nm) => fs_after (fs_mut (h_link src pp nm) s) dst | None => (Err EINVAL, s) end
  | OUnlink p =>
      match split_last p with
      | Some (pp, nm) => match fs_mut (h_unlink pp nm) s with (Ok _, s') => (Ok "", s') | (Err e, s') => (Err e, s') end
      | None => (Err EINVAL, s) end
  | ORmdir p =>
      match split_last p with
      | Some (pp, nm) => match fs_mut (h_rmdir pp nm) s with (Ok _, s') => (Ok "", s') | (Err e, s') => (Err e, s') end
      | None => (Err EINVAL, s) end
  | ORename a b =>
      (* not implemented by the overlay: the specified answer is the error the code returns *)
      match split_last a, split_last b with
      | Some (pa, _), Some (pb, _) =>
          match tget (f_tree s) pa, tget (f_tree s) pb with
          | Some _, Some _ => (Err EXDEV, s) | _, _ => (Err ENOENT, s) end
      | _, _ => (Err EINVAL, s) end
  | OOpen p fl =>
      match tget (f_tree s) p with
      | Some (File _ _ _ _) =>
          if of_trunc fl then match fs_mut (h_setdata p (fun _ => [])) s with (Ok _, s') => (Ok "", s') | (Err e, s') => (Err e, s') end
          else (Ok "", s)
      | Some (Dir _ _ _) => if of_readonly fl then (Ok "", s) else (Err EISDIR, s)
      | Some _ => (Err EBADF, s) | None => (Err ENOENT, s) end
  | OWrite p off data =>
      match fs_mut (h_setdata p (write_at (N.to_nat off) data)) s with
      | (Ok _, s') => (Ok (hexN (N.of_nat (List.length data))), s') | (Err e, s') => (Err e, s') end
  | OChmod p mode => fs_after (fs_mut (h_chmod p mode) s) p
  | OTruncate p size =>
      match fs_mut (h_setdata p (resize (N.to_nat size))) s with
      | (Ok _, s') => (Ok (hexN size), s') | (Err e, s') => (Err e, s') end
  | OSetxattr p k v =>
      match fs_mut (h_setxattr p k v) s with (Ok _, s') => (Ok "", s') | (Err e, s') => (Err e, s') end
  | OGetxattr p k =>
      match tget (f_tree s) p with
      | Some t => match afind k (xs_of t) with Some v => (Ok (hexbytes v), s) | None => (Err ENODATA, s) end
      | None => (Err ENOENT, s) end
  | OListxattr p =>
      match tget (f_tree s) p with
      | Some t => (Ok (sjoin (map fst (ssort (xs_of t)))), s) | None => (Err ENOENT, s) end
  | ORemovexattr p k =>
      match fs_mut (h_removexattr p k) s with (Ok _, s') => (Ok "", s') | (Err e, s') => (Err e, s') end
  end.

(* ------------------------------------------------------------------ case evaluation (used by props/c10.py, c11.py) *)
Definition SER : nat := 14.
Definition res_eqb (r : res string) (e : N) (payload : string) : bool :=
  match r with
  | Ok p => (e =? 0) && String.eqb p payload
  | Err x => (x =? e)
  end.
Definition ser_opt (t : option tree) : string := match t with Some t => ser SER t | None => "!none" end.
