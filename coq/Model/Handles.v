(* Model of the passthrough handle table, directory-cookie table, MountFds and descriptor
   accounting: src/passthrough/mod.rs (HandleMap, do_release, import), sync_io.rs (do_open, open,
   opendir, release, releasedir, create, do_readdir's cookie cache, get_data / get_dirdata,
   destroy), mount_fd.rs (MountFds::get), file_handle.rs.  The inode table is Model/Inodes.v.
   Executable Gallina, no proofs.

   [fds] is a ghost counter of the descriptors the server process holds; every branch below
   adds what the code opens and subtracts what it closes (temporaries are opened and closed
   within one request and cancel).  [leaked] counts descriptors that no table entry owns. *)
From Coq Require Import List NArith Bool.
From FB Require Import Model.Inodes.
Import ListNotations.
Local Open Scope N_scope.

Record hcfg := mkHC { hc : cfg; no_open : bool; no_opendir : bool }.

Record hstate := mkH {
  ino : istate;
  handles : list (N * N);        (* HandleMap.handles: handle -> HandleData.inode (each owns one descriptor) *)
  cookies : list (N * N);        (* HandleMap.cookies *)
  next_handle : N;
  mount_live : bool;             (* MountFds.map holds a live MountFd for the mount of the export *)
  fds : N;
  leaked : N;
  oflags : list (N * N)          (* HandleData.open_flags of each handle (what check_fd_flags compares with) *)
}.

Definition hget (s : hstate) (h : N) : option N := mget N.eqb (handles s) h.

(* number of inode objects that own an O_PATH descriptor (InodeHandle::File) *)
Definition file_inodes (s : istate) : N :=
  N.of_nat (length (filter (fun p => is_none (i_fh (snd p))) (data s))).

(* MountFds::get for the export's mount: found -> nothing; otherwise open the mount point
   O_PATH (+1), reopen it for reading (+1), insert; the O_PATH descriptor is owned by a File and
   closed on return (-1) (it used to be a raw descriptor that was never closed: defect D8, fixed) *)
Definition mount_get (live : bool) (fds leaked : N) : bool * N * N :=
  if live then (true, fds, leaked) else (true, fds + 1 + 1 - 1, leaked).

(* PassthroughFs::import: open_file_and_handle(root) (+1), to_openable_handle if a file handle
   is used (then the O_PATH descriptor is dropped), insert the root *)
Definition h_import (c : hcfg) (s : hstate) (root : target) : hstate :=
  let i1 := import (ino s) (hc c) root in
  match eff_fh (hc c) root with
  | Some _ => let '(l, f, k) := mount_get (mount_live s) (fds s + 1) (leaked s) in
              mkH i1 (handles s) (cookies s) (next_handle s) l (f - 1) k (oflags s)
  | None => mkH i1 (handles s) (cookies s) (next_handle s) (mount_live s) (fds s + 1) (leaked s) (oflags s)
  end.

(* PassthroughFs::new: /proc/self/fd and /proc/self/mountinfo; then init() -> import() *)
Definition h_empty : hstate := mkH empty_state [] [] 1 false 2 0 [].
Definition h_fresh (c : hcfg) (root : target) : hstate := h_import c h_empty root.

Inductive hop :=
| HInode (o : op)                                   (* requests that only touch the inode table (Model/Inodes.v), except create/readdir/destroy *)
| HOpen (dir : bool) (i : N) (host_ok : bool)       (* open / opendir *)
| HRelease (dir : bool) (i h : N) (flush : bool)    (* release / releasedir; flush = FUSE_RELEASE_FLUSH: ignored by release() (as are flags, flock_release, lock_owner): no descriptor is allocated, a release cannot fail for lack of descriptors *)
| HCreate (parent : N) (t : option target) (existed open_ok : bool)
| HReaddir (plus : bool) (i h : N) (host : option bool) (ents : list (target * bool))
     (* host: None = lseek/getdents failed; Some b = getdents returned a non-empty buffer (b) *)
| HUse (kind : N) (i h : N)                         (* 0 getattr(handle) 1 fsync 2 fsyncdir 3 flush 4 lseek 5 read 6 write 7 fallocate 8 setattr(handle) *)
| HDestroy (root : target).

Inductive hreply :=
| HR (r : reply)               (* reply of the inode-table part *)
| HOk (h : option N)           (* open: handle (None in no_open mode cannot happen: ENOSYS) *)
| HCreated (i : N) (h : option N)
| HErr (e : N)                 (* error produced by the tables *)
| HHost                        (* whatever the host said (success or error) *)
| HUnit.

Definition with_ino (s : hstate) (i : istate) (f : N) : hstate :=
  mkH i (handles s) (cookies s) (next_handle s) (mount_live s) f (leaked s) (oflags s).

(* descriptors owned by inode objects: do_lookup keeps the O_PATH descriptor iff it inserts an
   InodeHandle::File; forget_one closes it when the object is dropped.  Everything else a
   lookup opens (the parent's descriptor in handle mode, the O_PATH descriptor on a hit or in
   handle mode) is closed before the request returns. *)
Definition fds_after_ino (s : hstate) (i1 : istate) : N :=
  fds s + file_inodes i1 - file_inodes (ino s).

Definition wrap_h (a : N) : N := a mod 18446744073709551616.
Definition O_DIRECTORY : N := 65536.
Definition O_RDWR : N := 2.
Definition O_WRONLY : N := 1.

Definition set_oflags (s : hstate) (m : list (N * N)) : hstate :=
  mkH (ino s) (handles s) (cookies s) (next_handle s) (mount_live s) (fds s) (leaked s) m.

(* check_fd_flags: when the flags recorded for the handle differ from the request's, fcntl(F_SETFL)
   and record the request's flags -- also when the I/O that follows fails (EISDIR on a directory
   handle: an opendir handle loses its O_DIRECTORY bit this way) *)
Definition check_fd_flags (s : hstate) (h flags : N) : hstate :=
  match mget N.eqb (oflags s) h with
  | Some f => if f =? flags then s else set_oflags s (mset N.eqb (oflags s) h flags)
  | None => s
  end.

(* open_inode: the inode must be in the table and be a regular file or directory *)
Definition open_inode_ok (s : hstate) (i : N) : bool :=
  match dget (ino s) i with Some d => i_safe d | None => false end.

(* HandleMap::get *)
Definition handle_get (s : hstate) (h i : N) : bool :=
  match hget s h with Some j => j =? i | None => false end.

Definition hstep (c : hcfg) (s : hstate) (o : hop) : hreply * hstate :=
  match o with
  | HInode o =>
      let (r, i1) := step (hc c) (ino s) o in (HR r, with_ino s i1 (fds_after_ino s i1))
  | HOpen dir i host_ok =>
      if (if dir then no_opendir c else no_open c) then (HErr ENOSYS, s)
      else if negb (open_inode_ok s i) then (HErr EBADF, s)
      else if negb host_ok then (HHost, s)
      else (HOk (Some (next_handle s)),
            mkH (ino s) (mset N.eqb (handles s) (next_handle s) i) (cookies s) (wrap_h (next_handle s + 1))
                (mount_live s) (fds s + 1) (leaked s)
                (* do_open records the request's flags (O_RDONLY here); opendir adds O_DIRECTORY *)
                (mset N.eqb (oflags s) (next_handle s) (if dir then O_DIRECTORY else 0)))
  | HRelease dir i h _ =>
      if (if dir then no_opendir c else no_open c) then (HErr ENOSYS, s)
      else if handle_get s h i then
        (* do_release: the handle (with its descriptor and recorded flags) and, whatever those flags
           say, its directory-position cookie *)
        (HUnit, mkH (ino s) (mdel N.eqb (handles s) h) (mdel N.eqb (cookies s) h) (next_handle s)
                    (mount_live s) (fds s - 1) (leaked s) (mdel N.eqb (oflags s) h))
      else (HErr EBADF, s)
  | HCreate p t existed open_ok =>
      (* create_file_excl opened the new file (+1) unless it existed; do_lookup; open_inode for an
         existing file (+1 if it works); the descriptor goes into the handle table, or is
         dropped again in no_open mode *)
      match step (hc c) (ino s) (OCreate p t existed open_ok) with
      | (RIno i, i1) =>
          let s1 := with_ino s i1 (fds_after_ino s i1) in
          if no_open c then (HCreated i None, s1)
          else (HCreated i (Some (next_handle s)),
                mkH i1 (mset N.eqb (handles s) (next_handle s) i) (cookies s) (wrap_h (next_handle s + 1))
                    (mount_live s) (fds s1 + 1) (leaked s)
                    (mset N.eqb (oflags s) (next_handle s) O_RDWR))
      | (r, i1) => (HR r, with_ino s i1 (fds_after_ino s i1))
      end
  | HReaddir plus i h host ents =>
      (* get_dirdata: the (handle, inode) pair, or a temporary descriptor in no_opendir mode *)
      if (if no_opendir c then open_inode_ok s i else handle_get s h i) then
        (* consume_cached_cookie, then cache_cookie if getdents returned something *)
        let ck := if no_opendir c then cookies s
                  else match host with
                       | Some true => mset N.eqb (mdel N.eqb (cookies s) h) h 0
                       | _ => mdel N.eqb (cookies s) h
                       end in
        match host with
        | None => (HHost, mkH (ino s) (handles s) ck (next_handle s) (mount_live s) (fds s) (leaked s) (oflags s))
        | Some _ =>
            if valid (ino s) i then
              let (l, i1) := readdir_entries (hc c) plus (ino s) ents in
              (HR (REnts l), mkH i1 (handles s) ck (next_handle s) (mount_live s) (fds_after_ino s i1) (leaked s) (oflags s))
            else
              (* the handle outlived its inode (the client forgot it): do_lookup(inode, name) of the first
                 real entry fails with EBADF (inode_map.get(parent)), an empty listing still succeeds *)
              (HHost, mkH (ino s) (handles s) ck (next_handle s) (mount_live s) (fds s) (leaked s) (oflags s))
        end
      else (HErr EBADF, s)
  | HUse kind i h =>
      (* requests that present (inode, handle); none of them touches the handle or cookie tables.
         0 getattr / 8 setattr with a handle, 1 fsync, 2 fsyncdir, 3 flush, 4 lseek, 5 read (flags O_RDONLY),
         6 write (flags O_WRONLY), 7 fallocate.  read/write go through check_fd_flags before the I/O. *)
      match kind with
      | 0 | 8 => (if negb (valid (ino s) i) then HErr EBADF
                  else if negb (no_open c) && negb (handle_get s h i) then HErr EBADF else HHost, s)
      | 1 | 7 => (if no_open c then (if open_inode_ok s i then HHost else HErr EBADF)
                  else if handle_get s h i then HHost else HErr EBADF, s)
      | 2 => (if no_opendir c then (if open_inode_ok s i then HHost else HErr EBADF)
              else if handle_get s h i then HHost else HErr EBADF, s)
      | 3 => (if no_open c then HErr ENOSYS else if handle_get s h i then HHost else HErr EBADF, s)
      | 5 => if no_open c then (if open_inode_ok s i then HHost else HErr EBADF, s)
             else if handle_get s h i then (HHost, check_fd_flags s h 0) else (HErr EBADF, s)
      | 6 => if no_open c then (if open_inode_ok s i then HHost else HErr EBADF, s)
             else if handle_get s h i then (HHost, check_fd_flags s h O_WRONLY) else (HErr EBADF, s)
      | _ => (if handle_get s h i then HHost else HErr EBADF, s)
      end
  | HDestroy root =>
      (* handle_map.clear(): every handle's descriptor; inode_map.clear(): every O_PATH descriptor
         and, through the last Arc<MountFd>, the mount descriptor; then import() *)
      let cleared := mkS [] [] [] (next_inode (ino s)) (uids (ino s)) (next_uid (ino s)) (next_virt (ino s)) in
      let f := fds s - N.of_nat (length (handles s)) - file_inodes (ino s) - (if mount_live s then 1 else 0) in
      (HUnit, h_import c (mkH cleared [] [] (next_handle s) false f (leaked s) []) root)
  end.

(* what the tables account for *)
Definition fds_owned (s : hstate) : N :=
  2 + file_inodes (ino s) + N.of_nat (length (handles s)) + (if mount_live s then 1 else 0).

(* the client's ledger of handles *)
Definition hspec_step (l : list (N * N)) (o : hop) (r : hreply) : list (N * N) :=
  match o, r with
  | HOpen _ i _, HOk (Some h) => mset N.eqb l h i
  | HCreate _ _ _ _, HCreated i (Some h) => mset N.eqb l h i
  | HRelease _ _ h _, HUnit => mdel N.eqb l h
  | HDestroy _, _ => []
  | _, _ => l
  end.

(* ---------------------------------------------------------------- comparison with a run *)
Inductive ohreply := OHOk (i : N) | OHHandle (h : N) | OHCreated (i : N) (h : option N) | OHErrno (e : N)
                   | OHEnts (l : list (N * bool)) | OHUnit.

Definition hreply_matches (m : hreply) (o : ohreply) : bool :=
  match m, o with
  | HR r, OHOk i => reply_matches r (OOk i)
  | HR r, OHErrno e => reply_matches r (OErrno e)
  | HR r, OHEnts l => reply_matches r (OEnts l)
  | HR r, OHUnit => reply_matches r OUnit
  | HOk (Some h), OHHandle h' => h =? h'
  | HCreated i h, OHCreated i' h' => (i =? i') && opt_eqb h h'
  | HErr e, OHErrno e' => e =? e'
  | HHost, OHErrno _ => true
  | HHost, OHUnit => true
  | HHost, OHEnts [] => true
  | HUnit, OHUnit => true
  | _, _ => false
  end.

(* observed: reply; per number lookup count / EBADF; sizes (data, by_id, by_handle, handles, cookies); descriptors *)
Definition hobs : Type := (ohreply * list (N * option N) * (N * N * N) * (N * N) * N)%type.

Definition hstate_matches (s : hstate) (o : hobs) : bool :=
  let '(rep, vl, sz, hs, f) := o in
  state_matches (ino s) (OUnit, vl, sz) &&
  (N.of_nat (length (handles s)) =? fst hs) && (N.of_nat (length (cookies s)) =? snd hs) && (fds s =? f).

Fixpoint first_mismatch_h (c : hcfg) (s : hstate) (h : list (hop * hobs)) (n : N) : option N :=
  match h with
  | [] => None
  | (o, ob) :: r =>
      let (rep, s1) := hstep c s o in
      if hreply_matches rep (fst (fst (fst (fst ob)))) && hstate_matches s1 ob then first_mismatch_h c s1 r (n + 1)
      else Some n
  end.

Fixpoint hrun (c : hcfg) (s : hstate) (h : list hop) : list hreply * hstate :=
  match h with
  | [] => ([], s)
  | o :: r => let (rep, s1) := hstep c s o in let (l, s2) := hrun c s1 r in (rep :: l, s2)
  end.
