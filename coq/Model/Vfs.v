(* Model of src/api/vfs/mod.rs and src/api/vfs/sync_io.rs (the Vfs bookkeeping and every
   FileSystem method of Vfs), plus the one line of the server that remaps the request context
   by header nodeid (src/api/server/mod.rs remap_ctx_ids).  Executable Gallina, no proofs.
   What the code does, line by line:
   - u8 next_super with wrapping fetch_add, the allocate_fs_idx loop as written (fuelled; the
     fuel-exhaustion answer [AFuel] is shown unreachable in Proofs/VfsAlloc.v)
   - remap_id in u32 arithmetic of a debug build: `value - from_base + to_base` overflowing is [None]
     (panic "attempt to add with overflow"); release builds wrap instead (see notes/C14.md)
   - VfsInode::new asserts, unwrap()s -> [Panic]
   - backends are oracles: every call to a backend produces an [event] and consumes the scripted
     answer [ans] that comes with the request (theorems quantify over all answers). *)
From Coq Require Import List NArith Bool.
From FB Require Import Model.Pseudo Gen.VfsTable.
Import ListNotations.
Local Open Scope N_scope.

Definition VFS_MAX_INO := 72057594037927935.       (* 0xff_ffff_ffff_ffff *)
Definition two56 := 72057594037927936.
Definition two32 := 4294967296.

(* ---------- data crossing the VFS ---------- *)
Definition mapping := (N * N * N)%type.            (* (internal, external, range) *)
Record entry := mkE { e_ino : N; e_stino : N; e_uid : N; e_gid : N; e_tag : N }.
Record attr := mkA { a_ino : N; a_uid : N; a_gid : N; a_tag : N }.
Record ctx := mkC { c_uid : N; c_gid : N }.
Record dirent := mkD { d_ino : N; d_name : N; d_off : N }.

(* one call that reached a backend *)
Record event := mkEv { ev_bid : N; ev_m : N; ev_ino : N; ev_ino2 : N;
                       ev_cuid : N; ev_cgid : N; ev_suid : N; ev_sgid : N }.

(* scripted answer of the backend for the current request; a_err = 0 means success,
   otherwise the backend fails with that errno (two64 = an io::Error without OS code) *)
Record ans := mkAns { n_err : N; n_ent : entry; n_attr : attr; n_tag : N;
                      n_dir : list (N * N * entry) (* dirent ino, name, entry for readdirplus *) }.
Record mount_ans := mkMA { ma_err : N; ma_ino : N; ma_uid : N; ma_gid : N; ma_tag : N; ma_max : N; ma_init_err : N }.

Definition err_of (n : N) : err := if n =? two64 then EOther else Errno n.

(* ---------- state ---------- *)
Record mpd := mkMp { mp_idx : N; mp_ino : N; mp_entry : entry }.
Record vopts := mkO { o_in : N; o_out : N; o_no_open : bool; o_no_opendir : bool; o_no_writeback : bool;
                      o_killpriv_v2 : bool; o_no_readdir : bool; o_seal_size : bool; o_idmap : mapping }.
Record vfs := mkV { v_next : N;                     (* next_super : AtomicU8 *)
                    v_ps : pseudo;
                    v_mps : amap mpd;               (* mountpoints: pseudo ino -> MountPointData *)
                    v_sb : amap N;                  (* superblocks: idx -> backend (identity bid) *)
                    v_maps : amap mapping;          (* mount_id_mappings *)
                    v_opts : vopts;
                    v_init : bool;
                    v_rm : bool;                    (* remove_pseudo_root *)
                    v_gmap : option mapping }.      (* Vfs.id_mapping *)

(* FsOptions bits used by init() *)
Definition F_ASYNC_READ := 1.            Definition F_ATOMIC_O_TRUNC := 8.
Definition F_BIG_WRITES := 32.           Definition F_AUTO_INVAL_DATA := 4096.
Definition F_DO_READDIRPLUS := 8192.     Definition F_READDIRPLUS_AUTO := 16384.
Definition F_ASYNC_DIO := 32768.         Definition F_WRITEBACK_CACHE := 65536.
Definition F_ZERO_MESSAGE_OPEN := 131072. Definition F_PARALLEL_DIROPS := 262144.
Definition F_MAX_PAGES := 4194304.       Definition F_CACHE_SYMLINKS := 8388608.
Definition F_ZERO_MESSAGE_OPENDIR := 16777216. Definition F_EXPLICIT_INVAL_DATA := 33554432.
Definition F_HAS_IOCTL_DIR := 2048.      Definition F_HANDLE_KILLPRIV_V2 := 268435456.
Definition F_PERFILE_DAX := 8589934592.
Definition default_out_opts : N :=
  fold_right N.lor 0 [F_ASYNC_READ; F_PARALLEL_DIROPS; F_BIG_WRITES; F_ASYNC_DIO; F_AUTO_INVAL_DATA; F_HAS_IOCTL_DIR;
                      F_WRITEBACK_CACHE; F_ZERO_MESSAGE_OPEN; F_MAX_PAGES; F_ATOMIC_O_TRUNC; F_CACHE_SYMLINKS;
                      F_DO_READDIRPLUS; F_READDIRPLUS_AUTO; F_EXPLICIT_INVAL_DATA; F_ZERO_MESSAGE_OPENDIR;
                      F_HANDLE_KILLPRIV_V2; F_PERFILE_DAX].
Definition default_opts : vopts := mkO 0 default_out_opts true true false false false false (0, 0, 0).

(* Vfs::new *)
Definition vfs_new (o : vopts) (rm : bool) : vfs :=
  mkV 1 ps_new [] [] [] o false rm
      (let '(_, _, r) := o_idmap o in if r =? 0 then None else Some (o_idmap o)).

(* ---------- inode numbers ---------- *)
Definition fs_idx (x : N) : N := N.shiftr x 56 mod 256.
Definition ino_of (x : N) : N := N.land x VFS_MAX_INO.
Definition mk_vino (idx ino : N) : N := N.lor (N.shiftl idx 56) ino.

(* Vfs::convert_inode *)
Definition convert_inode (idx ino : N) : outcome N :=
  if ino =? 0 then Ok 0
  else if VFS_MAX_INO <? ino then Err EOther
  else Ok (mk_vino idx ino).

(* ---------- id mapping ---------- *)
(* remap_id; None = u32 overflow (panic in a debug build) *)
Definition remap_id (v from to range : N) : option N :=
  if (from <=? v) && (v - from <? range)
  then (if v - from + to <? two32 then Some (v - from + to) else None)
  else Some v.

Definition effective_mapping (s : vfs) (idx : N) : option mapping :=
  match aget idx (v_maps s) with Some m => Some m | None => v_gmap s end.

(* map internal -> external (to the client) / external -> internal (to the backend) *)
Definition to_ext (m : option mapping) (v : N) : option N :=
  match m with Some (i, e, r) => remap_id v i e r | None => Some v end.
Definition to_int (m : option mapping) (v : N) : option N :=
  match m with Some (i, e, r) => remap_id v e i r | None => Some v end.

(* Vfs::convert_entry *)
Definition convert_entry (s : vfs) (idx inode : N) (e : entry) : outcome entry :=
  match convert_inode idx inode with
  | Ok ino =>
    match to_ext (effective_mapping s idx) (e_uid e), to_ext (effective_mapping s idx) (e_gid e) with
    | Some u, Some g => Ok (mkE ino ino u g (e_tag e))
    | _, _ => Panic
    end
  | Err x => Err x
  | Panic => Panic
  end.

(* Vfs::convert_attr (remap_attr_id internal -> external) *)
Definition convert_attr (s : vfs) (nodeid idx : N) (a : attr) : outcome attr :=
  match to_ext (effective_mapping s idx) (a_uid a), to_ext (effective_mapping s idx) (a_gid a) with
  | Some u, Some g => Ok (mkA nodeid u g (a_tag a))
  | _, _ => Panic
  end.

(* Vfs::id_remap_with_nodeid: nodeid 1 stands for the mount at "/" when there is one, whose index then selects
   the mapping; every other nodeid selects by its own index bits *)
Definition ctx_idx (s : vfs) (hdr : N) : N :=
  if (fs_idx hdr =? 0) && (ino_of hdr =? ROOT_ID)
  then match aget ROOT_ID (v_mps s) with Some mnt => mp_idx mnt | None => fs_idx hdr end
  else fs_idx hdr.

(* server: Server::remap_ctx_ids -> Vfs::id_remap_with_nodeid -> remap_ctx_ids *)
Definition srv_remap_ctx (s : vfs) (hdr : N) (c : ctx) : outcome ctx :=
  match to_int (effective_mapping s (ctx_idx s hdr)) (c_uid c), to_int (effective_mapping s (ctx_idx s hdr)) (c_gid c) with
  | Some u, Some g => Ok (mkC u g)
  | _, _ => Panic
  end.

(* ---------- allocate_fs_idx ---------- *)
Inductive aout := AOk (idx : N) | AFull | AFuel.
Fixpoint alloc_loop (fuel : nat) (sb : amap N) (start next : N) (found : bool) : aout * N :=
  match fuel with
  | O => (AFuel, next)
  | S f =>
    let index := next in
    let next' := (next + 1) mod 256 in                         (* fetch_add(1) on a u8 *)
    if (index =? start) && found then (AFull, next')
    else
      let found' := if index =? start then true else found in
      if index =? 0 then alloc_loop f sb start next' found'
      else match aget index sb with
           | Some _ => alloc_loop f sb start next' found'
           | None => (AOk index, next')
           end
  end.
Definition allocate_fs_idx (s : vfs) : aout * N := alloc_loop 258 (v_sb s) (v_next s) (v_next s) false.

(* ---------- mount / umount ---------- *)
Inductive verr :=                                  (* VfsError variants *)
| VMount (e : err) | VInodeIndex | VFsIndex | VPathWalk (e : err) | VNotFound | VInitialize.
Inductive vres (A : Type) := VOk (a : A) | VErr (e : verr) | VPanic.
Arguments VOk {A} a. Arguments VErr {A} e. Arguments VPanic {A}.

Definition with_ps (s : vfs) (p : pseudo) : vfs :=
  mkV (v_next s) p (v_mps s) (v_sb s) (v_maps s) (v_opts s) (v_init s) (v_rm s) (v_gmap s).
Definition with_next (s : vfs) (n : N) : vfs :=
  mkV n (v_ps s) (v_mps s) (v_sb s) (v_maps s) (v_opts s) (v_init s) (v_rm s) (v_gmap s).
Definition with_maps (s : vfs) (m : amap mapping) : vfs :=
  mkV (v_next s) (v_ps s) (v_mps s) (v_sb s) m (v_opts s) (v_init s) (v_rm s) (v_gmap s).

Definition root_entry_of (a : mount_ans) : entry := mkE (ma_ino a) (ma_ino a) (ma_uid a) (ma_gid a) (ma_tag a).

(* Vfs::insert_mount_locked: state after, or the error together with the state it leaves behind *)
Definition insert_mount (s : vfs) (bid : N) (e : entry) (idx : N) (p : path) : vfs * outcome unit :=
  match ps_mount (v_ps s) p with
  | Err x => (s, Err x)
  | Panic => (s, Panic)
  | Ok (ps', inode) =>
    let s1 := with_ps s ps' in
    match convert_entry s1 idx (e_ino e) e with
    | Err x => (s1, Err x)
    | Panic => (s1, Panic)
    | Ok e' =>
      let sb1 := match aget inode (v_mps s1) with Some mnt => adel (mp_idx mnt) (v_sb s1) | None => v_sb s1 end in
      let sb2 := aset idx bid sb1 in
      (mkV (v_next s1) ps' (aset inode (mkMp idx (e_ino e) e') (v_mps s1)) sb2 (v_maps s1) (v_opts s1)
           (v_init s1) (v_rm s1) (v_gmap s1), Ok tt)
    end
  end.

Definition ev0 (bid m ino : N) : event := mkEv bid m ino 0 0 0 0 0.
Definition m_mount : N := 100.                     (* BackendFileSystem::mount, not a FileSystem method *)

(* Vfs::mount_with_id_mapping (Vfs::mount = map None) *)
Definition vfs_mount (s : vfs) (bid : N) (p : path) (map : option mapping) (a : mount_ans)
  : vfs * vres N * list event :=
  let evm := [ev0 bid m_mount 0] in
  if negb (ma_err a =? 0) then (s, VErr (VMount (err_of (ma_err a))), evm)
  else if VFS_MAX_INO <? ma_max a then (s, VErr VInodeIndex, evm ++ [ev0 bid m_destroy 0])
  else
    let evi := if v_init s then evm ++ [ev0 bid m_init (o_out (v_opts s))] else evm in
    if v_init s && negb (ma_init_err a =? 0) then (s, VErr VInitialize, evi)
    else
      match allocate_fs_idx s with
      | (AOk idx, nx) =>
        let s1 := with_next s nx in
        (* mappings[index] = id_mapping, always: a previous occupant's entry never survives *)
        let s2 := with_maps s1 (match map with Some m => aset idx m (v_maps s1) | None => adel idx (v_maps s1) end) in
        match insert_mount s2 bid (root_entry_of a) idx p with
        | (s3, Ok _) => (s3, VOk idx, evi)
        | (s3, Err x) => (with_maps s3 (adel idx (v_maps s3)), VErr (VMount x), evi)   (* cleared again on failure *)
        | (s3, Panic) => (s3, VPanic, evi)
        end
      | (_, nx) => (with_next s nx, VErr VFsIndex, evi)
      end.

(* Vfs::restore_mount (feature persist) *)
Definition vfs_restore_mount (s : vfs) (bid idx : N) (p : path) (a : mount_ans) : vfs * outcome unit * list event :=
  let evm := [ev0 bid m_mount 0] in
  if negb (ma_err a =? 0) then (s, Err (err_of (ma_err a)), evm)
  else if VFS_MAX_INO <? ma_max a then (s, Err EOther, evm)
  else let '(s', r) := insert_mount s bid (root_entry_of a) idx p in (s', r, evm).

(* Vfs::umount *)
Definition vfs_umount (s : vfs) (p : path) : vfs * vres (N * N) * list event :=
  match ps_path_walk (v_ps s) p with
  | Err x => (s, VErr (VPathWalk x), [])
  | Panic => (s, VPanic, [])
  | Ok None => (s, VErr VNotFound, [])
  | Ok (Some inode) =>
    match ps_parent (v_ps s) inode with
    | None => (s, VErr VNotFound, [])
    | Some parent =>
      match aget inode (v_mps s) with
      | None => (s, VErr VNotFound, [])
      | Some x =>
        match (if v_rm s then ps_evict (v_ps s) inode else Ok (v_ps s)) with
        | Ok ps' =>
          let evs := match aget (mp_idx x) (v_sb s) with Some b => [ev0 b m_destroy 0] | None => [] end in
          (mkV (v_next s) ps' (adel inode (v_mps s)) (adel (mp_idx x) (v_sb s)) (adel (mp_idx x) (v_maps s))
               (v_opts s) (v_init s) (v_rm s) (v_gmap s), VOk (inode, parent), evs)
        | _ => (s, VPanic, [])
        end
      end
    end
  end.

(* ---------- init / destroy ---------- *)
Definition has (x f : N) : bool := negb (N.land x f =? 0).
Definition clear (x f : N) : N := N.ldiff x f.

Fixpoint sb_in_order (n : nat) (i : N) (sb : amap N) : list N :=   (* superblocks.iter().flatten() *)
  match n with O => [] | S k => match aget i sb with Some b => b :: sb_in_order k (i + 1) sb | None => sb_in_order k (i + 1) sb end end.

(* every backend answers init with [ierr] (0 = ok): the loop stops at the first failure *)
Definition vfs_init (s : vfs) (opts ierr : N) : vfs * outcome N * list event :=
  if v_init s then (s, Err EINVAL, [])
  else
    let o := v_opts s in
    let out0 := o_out o in
    let '(no_open, out1) := if o_no_open o then (has opts F_ZERO_MESSAGE_OPEN, clear out0 F_ATOMIC_O_TRUNC)
                            else (false, clear out0 F_ZERO_MESSAGE_OPEN) in
    let '(no_opendir, out2) := if o_no_opendir o then (has opts F_ZERO_MESSAGE_OPENDIR, out1)
                               else (false, clear out1 F_ZERO_MESSAGE_OPENDIR) in
    let out3 := if o_no_writeback o then clear out2 F_WRITEBACK_CACHE else out2 in
    let out4 := if o_killpriv_v2 o then out3 else clear out3 F_HANDLE_KILLPRIV_V2 in
    let out5 := N.land out4 opts in
    let o' := mkO opts out5 no_open no_opendir (o_no_writeback o) (o_killpriv_v2 o) (o_no_readdir o) (o_seal_size o) (o_idmap o) in
    let bs := sb_in_order 256 0 (v_sb s) in
    let s1 := mkV (v_next s) (v_ps s) (v_mps s) (v_sb s) (v_maps s) o' false (v_rm s) (v_gmap s) in
    match bs with
    | b :: _ => if negb (ierr =? 0) then (s1, Err (err_of ierr), [ev0 b m_init out5])
                else (mkV (v_next s) (v_ps s) (v_mps s) (v_sb s) (v_maps s) o' true (v_rm s) (v_gmap s), Ok out5,
                      map (fun b => ev0 b m_init out5) bs)
    | [] => (mkV (v_next s) (v_ps s) (v_mps s) (v_sb s) (v_maps s) o' true (v_rm s) (v_gmap s), Ok out5, [])
    end.

Definition vfs_destroy (s : vfs) : vfs * list event :=
  if v_init s then (mkV (v_next s) (v_ps s) (v_mps s) (v_sb s) (v_maps s) (v_opts s) false (v_rm s) (v_gmap s),
                    map (fun b => ev0 b m_destroy 0) (sb_in_order 256 0 (v_sb s)))
  else (s, []).

(* ---------- routing ---------- *)
Inductive side := SLeft (nodeid : N) | SRight (bid idx nodeid : N).   (* nodeid = idata: VfsInode *)

Definition get_fs_by_idx (s : vfs) (idx : N) : outcome N :=
  match aget idx (v_sb s) with Some b => Ok b | None => Err ENOENT end.

(* Vfs::get_real_rootfs *)
Definition get_real_rootfs (s : vfs) (nodeid : N) : outcome side :=
  if fs_idx nodeid =? 0 then
    if ino_of nodeid =? ROOT_ID then
      match aget ROOT_ID (v_mps s) with
      | Some mnt =>
        bind (get_fs_by_idx s (mp_idx mnt)) (fun b =>
          if N.land (mp_ino mnt) (N.lnot VFS_MAX_INO 64) =? 0        (* VfsInode::new: assert_eq!(ino & !VFS_MAX_INO, 0) *)
          then Ok (SRight b (mp_idx mnt) (mk_vino (mp_idx mnt) (mp_ino mnt))) else Panic)
      | None => Ok (SLeft nodeid)
      end
    else Ok (SLeft nodeid)
  else bind (get_fs_by_idx s (fs_idx nodeid)) (fun b => Ok (SRight b (fs_idx nodeid) nodeid)).

(* ---------- requests ---------- *)
Inductive op :=
| OLookup (parent : N) (nm : name)
| OForget (ino : N)
| OBatchForget (ino1 ino2 : N)
| OGetattr (ino : N)
| OSetattr (ino : N) (uid gid : N) (valid : N)   (* valid = SetattrValid bits; passed through, never consulted by the Vfs *)
| OFwd (m : N) (ino : N) (nm : name)               (* table driven: forward_table *)
| ORename (olddir : N) (oldname : name) (newdir : N) (newname : name)
| OLink (ino newparent : N) (nm : name)
| OReaddir (plus : bool) (ino size offset : N) (limit : nat)
| OUnfwd (m : N).                                  (* trait methods Vfs does not implement *)

Inductive reply :=
| RUnit (tag : N)
| REntry (e : entry)
| RAttr (a : attr)
| RDir (l : list (dirent * option entry)).

(* is_safe_path_component *)
Definition name_safe (nm : name) : bool :=
  match nm with NDot | NDotDot | NSlash _ => false | _ => true end.
Definition has_slash (nm : name) : bool := match nm with NSlash _ => true | _ => false end.

Definition pseudo_entry (ino : N) : entry := mkE ino ino 0 0 0.
Definition pseudo_attr (ino : N) : attr := mkA ino 0 0 0.

Definition evc (bid m ino ino2 : N) (c : ctx) : event := mkEv bid m ino ino2 (c_uid c) (c_gid c) 0 0.

Definition default_of (m : N) : outcome reply :=
  match aget m default_table with
  | Some 0 => Ok (RUnit 0)
  | Some e => Err (Errno e)
  | None => Err ENOSYS
  end.

(* Vfs::lookup_pseudo *)
Definition lookup_pseudo (s : vfs) (nodeid : N) (nm : name) : outcome entry :=
  bind (ps_lookup (v_ps s) (ino_of nodeid) nm) (fun ino =>
    match aget ino (v_mps s) with
    | Some mnt => Ok (mp_entry mnt)                      (* converted once, when the mount was inserted *)
    | None => convert_entry s (fs_idx nodeid) ino (pseudo_entry ino)
    end).

Definition backend_entry (s : vfs) (a : ans) (idx : N) : outcome reply :=
  if n_err a =? 0 then bind (convert_entry s idx (e_ino (n_ent a)) (n_ent a)) (fun e => Ok (REntry e))
  else Err (err_of (n_err a)).

(* callbacks of readdir: entries are offered one by one to the closure of the Vfs, which converts and hands
   them to the caller's add_entry; the caller accepts [limit] entries, then answers Ok(0).
   A conversion error aborts with that error (scripted backend and pseudo fs both propagate it). *)
Fixpoint feed {A} (conv : A -> outcome (dirent * option entry)) (limit : nat) (l : list A) {struct l}
  : outcome (list (dirent * option entry)) :=
  match l with
  | [] => Ok []
  | x :: r =>
    match conv x with
    | Err e => Err e
    | Panic => Panic
    | Ok y => match limit with
              | O => Ok []                                   (* add_entry returned Ok(0): stop *)
              | S k => bind (feed conv k r) (fun t => Ok (y :: t))
              end
    end
  end.

Definition readdir_pseudo (s : vfs) (plus : bool) (nodeid : N) (size offset : N) (limit : nat) : outcome reply :=
  bind (ps_readdir (v_ps s) (ino_of nodeid) size offset) (fun cands =>
    bind (feed (fun c : N * N * N =>
                  let '(ino, nm, off) := c in
                  match aget ino (v_mps s) with
                  | Some mnt =>
                    bind (convert_inode (mp_idx mnt) (mp_ino mnt)) (fun di =>
                      let e := mp_entry mnt in
                      Ok (mkD di nm off, if plus then Some (mkE (e_ino e) (e_ino e) (e_uid e) (e_gid e) (e_tag e)) else None))
                  | None =>
                    bind (convert_inode (fs_idx nodeid) ino) (fun di =>
                      if plus then
                        match to_ext (effective_mapping s (fs_idx nodeid)) 0 with     (* remap_attr_id on 0:0 *)
                        | Some u => Ok (mkD di nm off, Some (mkE di di u u 0))
                        | None => Panic
                        end
                      else Ok (mkD di nm off, None))
                  end) limit cands) (fun l => Ok (RDir l))).

Fixpoint number_dir (next : N) (l : list (N * N * entry)) : list (N * N * entry * N) :=
  match l with [] => [] | x :: r => (x, next) :: number_dir (next + 1) r end.

Definition readdir_backend (s : vfs) (plus : bool) (idx : N) (a : ans) (offset : N) (limit : nat) : outcome reply :=
  if negb (n_err a =? 0) then Err (err_of (n_err a))
  else
    bind (feed (fun c : N * N * entry * N =>
                  let '(dino, nm, e, off) := c in
                  if plus then
                    bind (convert_inode idx (e_ino e)) (fun di =>
                      match to_ext (effective_mapping s idx) (e_uid e), to_ext (effective_mapping s idx) (e_gid e) with
                      | Some u, Some g => Ok (mkD di nm off, Some (mkE di di u g (e_tag e)))
                      | _, _ => Panic
                      end)
                  else bind (convert_inode idx dino) (fun di => Ok (mkD di nm off, None)))
               limit (number_dir (offset + 1) (n_dir a))) (fun l => Ok (RDir l)).

Definition gate_closed (s : vfs) (g : N) : bool :=
  if g =? 1 then o_no_open (v_opts s) else if g =? 2 then o_no_opendir (v_opts s) else false.

(* Vfs::forget of one inode: (panicked, events) *)
Definition forget_one (s : vfs) (c : ctx) (ino : N) : bool * list event :=
  match get_real_rootfs s ino with
  | Ok (SRight b idx id) => (false, [evc b m_forget (ino_of id) 0 c])
  | Panic => (true, [])
  | _ => (false, [])
  end.

(* one FileSystem method of Vfs, with the (already remapped) context *)
Definition vfs_op (s : vfs) (c : ctx) (o : op) (a : ans) : outcome reply * list event :=
  match o with
  | OLookup parent nm =>
    if has_slash nm then (Err EINVAL, [])
    else match get_real_rootfs s parent with
         | Ok (SLeft id) => (bind (lookup_pseudo s id nm) (fun e => Ok (REntry e)), [])
         | Ok (SRight b idx id) => (backend_entry s a idx, [evc b m_lookup (ino_of id) 0 c])
         | Err e => (Err e, [])
         | Panic => (Panic, [])
         end
  | OForget ino =>
    match get_real_rootfs s ino with
    | Ok (SRight b idx id) => (Ok (RUnit 0), [evc b m_forget (ino_of id) 0 c])
    | Panic => (Panic, [])
    | _ => (Ok (RUnit 0), [])
    end
  | OBatchForget i1 i2 =>                            (* trait default: forget each *)
    let '(p1, e1) := forget_one s c i1 in
    if p1 then (Panic, e1)
    else let '(p2, e2) := forget_one s c i2 in if p2 then (Panic, e1 ++ e2) else (Ok (RUnit 0), e1 ++ e2)
  | OGetattr ino =>
    match get_real_rootfs s ino with
    | Ok (SLeft id) =>
      (bind (ps_getattr (v_ps s) (ino_of id)) (fun i =>
         bind (convert_attr s id (fs_idx id) (pseudo_attr i)) (fun x => Ok (RAttr x))), [])
    | Ok (SRight b idx id) =>
      (if n_err a =? 0 then bind (convert_attr s id idx (n_attr a)) (fun x => Ok (RAttr x)) else Err (err_of (n_err a)),
       [evc b m_getattr (ino_of id) 0 c])
    | Err e => (Err e, [])
    | Panic => (Panic, [])
    end
  | OSetattr ino uid gid _valid =>   (* remap_attr_id runs whatever the valid bits say: both ids, always *)
    match get_real_rootfs s ino with
    | Ok (SLeft id) => (default_of m_setattr, [])
    | Ok (SRight b idx id) =>
      match to_int (effective_mapping s idx) uid, to_int (effective_mapping s idx) gid with
      | Some u, Some g =>
        (if n_err a =? 0 then bind (convert_attr s id idx (n_attr a)) (fun x => Ok (RAttr x)) else Err (err_of (n_err a)),
         [mkEv b m_setattr (ino_of id) 0 (c_uid c) (c_gid c) u g])
      | _, _ => (Panic, [])
      end
    | Err e => (Err e, [])
    | Panic => (Panic, [])
    end
  | OFwd m ino nm =>
    match aget m forward_table with
    | None => (Err ENOSYS, [])
    | Some (validate, g, is_entry, ret_unit) =>
      if validate && negb (name_safe nm) then (Err EINVAL, [])
      else if gate_closed s g then (Err ENOSYS, [])
      else match get_real_rootfs s ino with
           | Ok (SLeft id) => (default_of m, [])
           | Ok (SRight b idx id) =>
             ((if is_entry then backend_entry s a idx
               else if n_err a =? 0 then Ok (RUnit (if ret_unit then 0 else n_tag a)) else Err (err_of (n_err a))),
              [evc b m (ino_of id) 0 c])
           | Err e => (Err e, [])
           | Panic => (Panic, [])
           end
    end
  | ORename olddir oldname newdir newname =>
    if negb (name_safe oldname) || negb (name_safe newname) then (Err EINVAL, [])
    else match get_real_rootfs s olddir with
         | Err e => (Err e, []) | Panic => (Panic, [])
         | Ok so =>
           match get_real_rootfs s newdir with
           | Err e => (Err e, []) | Panic => (Panic, [])
           | Ok sn =>
             let ido := match so with SLeft id => id | SRight _ _ id => id end in
             let idn := match sn with SLeft id => id | SRight _ _ id => id end in
             if negb (fs_idx ido =? fs_idx idn) then (Err EINVAL, [])
             else match so with
                  | SLeft _ => (default_of m_rename, [])
                  | SRight b _ _ =>
                    (if n_err a =? 0 then Ok (RUnit 0) else Err (err_of (n_err a)),
                     [evc b m_rename (ino_of ido) (ino_of idn) c])
                  end
           end
         end
  | OLink ino newparent nm =>
    if negb (name_safe nm) then (Err EINVAL, [])
    else match get_real_rootfs s ino with
         | Err e => (Err e, []) | Panic => (Panic, [])
         | Ok so =>
           match get_real_rootfs s newparent with
           | Err e => (Err e, []) | Panic => (Panic, [])
           | Ok sn =>
             let ido := match so with SLeft id => id | SRight _ _ id => id end in
             let idn := match sn with SLeft id => id | SRight _ _ id => id end in
             if negb (fs_idx ido =? fs_idx idn) then (Err EINVAL, [])
             else match so with
                  | SLeft _ => (default_of m_link, [])
                  | SRight b _ _ => (backend_entry s a (fs_idx idn), [evc b m_link (ino_of ido) (ino_of idn) c])
                  end
           end
         end
  | OReaddir plus ino size offset limit =>
    match get_real_rootfs s ino with
    | Ok (SLeft id) => (readdir_pseudo s plus id size offset limit, [])
    | Ok (SRight b idx id) =>
      (readdir_backend s plus idx a offset limit, [evc b (if plus then m_readdirplus else m_readdir) (ino_of id) 0 c])
    | Err e => (Err e, [])
    | Panic => (Panic, [])
    end
  | OUnfwd m => (default_of m, [])
  end.

(* a request as the server delivers it: context remapped by the header nodeid, then the method *)
Definition vfs_request (s : vfs) (hdr : N) (c : ctx) (o : op) (a : ans) : outcome reply * list event :=
  match srv_remap_ctx s hdr c with
  | Ok c' => vfs_op s c' o a
  | Err e => (Err e, [])
  | Panic => (Panic, [])
  end.

(* ---------- the async twin: impl AsyncFileSystem for Vfs (src/api/vfs/async_io.rs) ----------
   Ten methods are re-implemented with their own get_real_rootfs match.  Read line by line they do what the sync
   methods do -- same gates, same routing, same conversions of inode numbers and owner ids -- calling the backend's
   async_<method> instead (logged with [async_tag] added to the method number).  (Before fix 3199019 async_getattr
   returned the pseudo fs attributes without convert_attr.) *)
Definition async_tag : N := 200.
Definition tag_async (ev : event) : event :=
  mkEv (ev_bid ev) (async_tag + ev_m ev) (ev_ino ev) (ev_ino2 ev) (ev_cuid ev) (ev_cgid ev) (ev_suid ev) (ev_sgid ev).
Definition memN (x : N) (l : list N) : bool := existsb (N.eqb x) l.
Definition has_async_twin (o : op) : bool :=
  match o with
  | OLookup _ _ => memN m_lookup async_twins
  | OGetattr _ => memN m_getattr async_twins
  | OSetattr _ _ _ _ => memN m_setattr async_twins
  | OFwd m _ _ => memN m async_twins
  | _ => false
  end.
Definition tagged (x : outcome reply * list event) : outcome reply * list event := (fst x, map tag_async (snd x)).

Definition vfs_async_op (s : vfs) (c : ctx) (o : op) (a : ans) : outcome reply * list event :=
  if has_async_twin o then tagged (vfs_op s c o a)
  else (Err ENOSYS, []).                               (* no async entry point: never issued *)

Definition vfs_request_async (s : vfs) (hdr : N) (c : ctx) (o : op) (a : ans) : outcome reply * list event :=
  match srv_remap_ctx s hdr c with
  | Ok c' => vfs_async_op s c' o a
  | Err e => (Err e, [])
  | Panic => (Panic, [])
  end.
