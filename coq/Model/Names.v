(* Byte-level model of the name predicates of src/api/vfs/mod.rs and of the two lookups' slash
   check, written from the code; constants come from the translated table Gen/Validators.v.
   Names are the bytes of a &CStr WITHOUT the terminator (hence NUL free, a type invariant of
   CStr); the code looks at [to_bytes_with_nul], modelled by [with_nul].

   Also: the hand-written table of REQUIRED validations (the specification the translated table
   Gen.Validators.{vfs,pt}_methods is checked against) and the executable checker. *)
From Coq Require Import List String NArith Bool.
From FB Require Import Gen.Validators.
Import ListNotations.
Local Open Scope N_scope.

Definition EINVAL : N := 22.

(* <[u8]>::starts_with *)
Fixpoint starts_with (l p : list N) : bool :=
  match p with
  | [] => true
  | x :: p' => match l with
               | [] => false
               | y :: l' => (y =? x) && starts_with l' p'
               end
  end.

(* <[u8]>::contains(&b) *)
Definition contains (l : list N) (b : N) : bool := existsb (fun x => x =? b) l.

Definition with_nul (n : list N) : list N := n ++ [0].

(* fn is_dot_or_dotdot(name: &CStr) -> bool {
     let bytes = name.to_bytes_with_nul();
     bytes.starts_with(CURRENT_DIR_CSTR) || bytes.starts_with(PARENT_DIR_CSTR) } *)
Definition is_dot_or_dotdot (n : list N) : bool :=
  let bytes := with_nul n in
  starts_with bytes current_dir_cstr || starts_with bytes parent_dir_cstr.

(* fn is_safe_path_component(name: &CStr) -> bool {
     let bytes = name.to_bytes_with_nul();
     if bytes.contains(&SLASH_ASCII) { return false; }
     !is_dot_or_dotdot(name) } *)
Definition is_safe_path_component (n : list N) : bool :=
  let bytes := with_nul n in
  if contains bytes slash_ascii then false else negb (is_dot_or_dotdot n).

(* pub fn validate_path_component: None = Ok(()), Some e = Err(errno e) *)
Definition validate_path_component (n : list N) : option N :=
  if is_safe_path_component n then None else Some EINVAL.

(* the check at the top of Vfs::lookup and PassthroughFs::lookup:
   if name.to_bytes_with_nul().contains(&SLASH_ASCII) { return Err(EINVAL) } *)
Definition lookup_check (n : list N) : option N :=
  if contains (with_nul n) slash_ascii then Some EINVAL else None.

(* PassthroughFs::validate_path_component(&self, name): only when cfg.do_import *)
Definition pt_validate (do_import : bool) (n : list N) : option N :=
  if negb do_import then None else validate_path_component n.

(* the rewrite at the top of PassthroughFs::do_lookup:
   if parent == ROOT_ID && name.to_bytes_with_nul().starts_with(PARENT_DIR_CSTR) { "." } else { name }
   (CStr::from_bytes_with_nul(CURRENT_DIR_CSTR) = CURRENT_DIR_CSTR without its terminator) *)
Definition lookup_name (parent_is_root : bool) (n : list N) : list N :=
  if parent_is_root && starts_with (with_nul n) parent_dir_cstr then removelast current_dir_cstr else n.

(* the specification side of the name theorem *)
Definition dot : list N := [46].
Definition dotdot : list N := [46; 46].
Definition nul_free (n : list N) : Prop := ~ In 0 n.

(* ------------------------------------------------------------------ required validations *)
Local Open Scope string_scope.

(* what the property demands of a (method, &CStr argument) pair *)
Inductive req :=
| RFull      (* must reject '/', "." and ".." before the first effect (create/remove/rename/link) *)
| RSlash     (* must reject '/' before the first effect (lookup) *)
| RFree.     (* free text, not a path component: symlink target, xattr names *)

Definition required : list (string * string * req) := [
  ("lookup", "name", RSlash);
  ("mkdir", "name", RFull); ("mknod", "name", RFull); ("create", "name", RFull);
  ("symlink", "name", RFull); ("symlink", "linkname", RFree);
  ("link", "newname", RFull); ("unlink", "name", RFull); ("rmdir", "name", RFull);
  ("rename", "oldname", RFull); ("rename", "newname", RFull);
  ("setxattr", "name", RFree); ("getxattr", "name", RFree); ("removexattr", "name", RFree)
].

(* methods the property names explicitly: each must exist in both impls *)
Definition required_methods : list string :=
  ["lookup"; "mkdir"; "mknod"; "create"; "symlink"; "link"; "unlink"; "rmdir"; "rename"].

(* does a validation of kind k discharge requirement r?  [standalone]: the table is the one of
   PassthroughFs, whose wrapper validates only when cfg.do_import (VFullIfStandalone) *)
Definition satisfies (standalone : bool) (k : vkind) (r : req) : bool :=
  match r, k with
  | RFree, _ => true
  | RSlash, VSlash => true
  | RSlash, VFull => true
  | RSlash, VFullIfStandalone => standalone
  | RFull, VFull => true
  | RFull, VFullIfStandalone => standalone
  | RFull, VSlash => false
  end.

Definition lookup_req (m a : string) : option req :=
  match find (fun e => String.eqb (fst (fst e)) m && String.eqb (snd (fst e)) a) required with
  | Some e => Some (snd e)
  | None => None
  end.

Definition arg_ok (standalone : bool) (vm : vmethod) (a : string) : bool :=
  match lookup_req (m_name vm) a with
  | None => false                      (* a name argument the specification does not know: refuse *)
  | Some RFree => true
  | Some r => existsb (fun v => String.eqb (v_arg v) a && satisfies standalone (v_kind v) r
                                && Nat.ltb (v_pos v) (m_first_effect vm)) (m_vals vm)
  end.

Definition method_ok (standalone : bool) (vm : vmethod) : bool :=
  forallb (arg_ok standalone vm) (m_names vm).

Definition count_name (tbl : list vmethod) (m : string) : nat :=
  List.length (filter (fun vm => String.eqb (m_name vm) m) tbl).

Definition validators_ok (standalone : bool) (tbl : list vmethod) : bool :=
  forallb (method_ok standalone) tbl &&
  forallb (fun m => Nat.eqb (count_name tbl m) 1) required_methods &&
  forallb (fun e => match e with
                    | (m, a, RFree) => true
                    | (m, a, _) => existsb (fun vm => String.eqb (m_name vm) m && existsb (String.eqb a) (m_names vm)) tbl
                    end) required.
