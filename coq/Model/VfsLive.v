(* The caller's side of save / restore: which backends are attached where.
   Vfs::save_to_bytes does not save the mounted backends ("the caller ... needs to manually remount each Backend
   FileSystem according to the Index obtained from the previous mount", src/api/vfs/mod.rs); the caller keeps, for
   every mount that is still attached, the backend, the index mount() returned and the path, and calls restore_mount
   for each of them after restore_from_bytes.  This file models that bookkeeping exactly as harness/src/bin/vfs.rs
   does it (the list `live`), fills the re-attach list of every save/restore step of a history from it, and states
   as a boolean which histories the observational-equivalence theorem of C19 covers.
   Executable Gallina, no proofs. *)
From Coq Require Import List NArith Bool.
From FB Require Import Model.Pseudo Gen.VfsTable Model.Vfs Model.Persist Model.VfsRun.
Import ListNotations.
Local Open Scope N_scope.

(* one attached mount as the caller remembers it: pseudo inode of the mount point (path_walk of the path right
   after the mount), backend, index, path, and what the backend answers to mount() *)
Record lv := mkLv { l_pino : N; l_bid : N; l_idx : N; l_path : path; l_ans : mount_ans }.

(* live.push(x); live.sort_by_key(|l| l.idx)  (stable) *)
Fixpoint ins_live (x : lv) (l : list lv) : list lv :=
  match l with
  | [] => [x]
  | y :: r => if l_idx x <? l_idx y then x :: y :: r else y :: ins_live x r
  end.
(* live.retain(|l| l.pino != i) *)
Definition drop_pino (i : N) (live : list lv) : list lv := filter (fun l => negb (l_pino l =? i)) live.

Definition live_step (s : vfs) (st : step) (live : list lv) : list lv :=
  match st with
  | SMount bid p map a =>
    match vfs_mount s bid p map a with
    | (s', VOk idx, _) =>
      let pino := match ps_path_walk (v_ps s') p with Ok (Some i) => i | _ => 0 end in
      ins_live (mkLv pino bid idx p a) (drop_pino pino live)
    | _ => live
    end
  | SUmount p =>
    match vfs_umount s p with
    | (_, VOk (i, _), _) => drop_pino i live
    | _ => live
    end
  | _ => live
  end.

Definition reattach_of (live : list lv) : list (N * N * path * mount_ans) :=
  map (fun l => (l_bid l, l_idx l, l_path l, l_ans l)) live.

(* a save/restore step gets the re-attach list of the moment; every other step is left as it is.
   [ord] is the order in which the caller re-attaches the backends: it may depend on the step (e.g. on the list the
   unfilled step carries) and on the list; the theorems quantify over every [ord] that permutes its argument.
   [ord_idx] = ascending index, what harness/src/bin/vfs.rs does by default. *)
Definition order := step -> list lv -> list lv.
Definition ord_idx : order := fun _ l => l.

Definition fill_step (ord : order) (live : list lv) (st : step) : step :=
  match st with SSaveRestore ver dflt _ => SSaveRestore ver dflt (reattach_of (ord st live)) | _ => st end.

Fixpoint fill_from (ord : order) (c : cfg) (s : vfs) (live : list lv) (dead : bool) (l : list step) : list step :=
  match l with
  | [] => []
  | st :: r =>
    if dead then l
    else let st' := fill_step ord live st in
         let '(s', _, d) := run_step c s st' in
         st' :: fill_from ord c s' (live_step s st' live) d r
  end.
Definition fill (ord : order) (c : cfg) (l : list step) : list step := fill_from ord c (vfs_of c false) [] false l.

(* Vfs::save_to_bytes, restore_from_bytes into a freshly constructed Vfs, restore_mount of every attached backend *)
Definition restore_and_reattach (c : cfg) (ver : N) (dflt : bool) (s : vfs) (live : list lv) : vfs :=
  fst (fst (run_step c s (SSaveRestore ver dflt (reattach_of live)))).

(* what a successful save / restore / re-attach prints: ok, the number of mounts, (backend, index, 0) for each,
   and one mount() call per backend *)
Definition save_ok_obs (live : list lv) : list N :=
  (0 :: N.of_nat (length live) :: flat_map (fun l => [l_bid l; l_idx l; 0]) live) ++
  ser_events (map (fun l => ev0 (l_bid l) m_mount 0) live).

(* ---------- the histories the theorem covers ---------- *)
Definition is_nil {A} (l : list A) : bool := match l with [] => true | _ => false end.

(* an umount with remove_pseudo_root evicts a pseudo directory that has no pseudo children (no other mount path
   runs through this mount point: nested mounts are documented as unsupported) *)
Definition evicts_leaf_b (s : vfs) (p : path) : bool :=
  if v_rm s then
    match ps_path_walk (v_ps s) p with
    | Ok (Some inode) =>
      match aget inode (v_mps s), aget inode (ps_inodes (v_ps s)) with
      | Some _, Some pn => (inode =? pi_parent pn) || is_nil (pi_children pn)
      | _, _ => true
      end
    | _ => true
    end
  else true.

(* every recorded mount path still leads to its mount point *)
Definition paths_resolve (s : vfs) (live : list lv) : bool :=
  forallb (fun l => match ps_path_walk (v_ps s) (l_path l) with Ok (Some i) => i =? l_pino l | _ => false end) live.

(* the fresh Vfs gets the global id mapping the saved one had: it is constructed with the same options, or there is
   no global mapping (known finding global-id-mapping-not-restored otherwise) *)
Definition gmap_kept (c : cfg) (dflt : bool) : bool :=
  negb dflt || match cf_gmap c with Some (_, _, r) => r =? 0 | None => true end.

Definition save_good (c : cfg) (s : vfs) (live : list lv) (ver : N) (dflt : bool) : bool :=
  Bool.eqb (v_init s) (negb (o_in (v_opts s) =? 0))      (* else: known finding initialized-not-persisted *)
  && gmap_kept c dflt
  && (if ver =? 1 then is_nil (v_maps s) else true)      (* a version-1 writer had no per-mount mappings *)
  && paths_resolve s live.

Definition step_good (c : cfg) (s : vfs) (live : list lv) (st : step) : bool :=
  match st with
  | SMount _ p _ _ => ps_next (v_ps s) + N.of_nat (length (p_comps p)) <=? two56   (* fewer than 2^56 pseudo directories *)
  | SUmount p => evicts_leaf_b s p
  | SSaveRestore ver dflt _ => save_good c s live ver dflt
  | _ => true
  end.

Fixpoint good_from (ord : order) (c : cfg) (s : vfs) (live : list lv) (dead : bool) (l : list step) : bool :=
  match l with
  | [] => true
  | st :: r =>
    if dead then true
    else let st' := fill_step ord live st in
         step_good c s live st' &&
         let '(s', _, d) := run_step c s st' in good_from ord c s' (live_step s st' live) d r
  end.
Definition good (ord : order) (c : cfg) (l : list step) : bool := good_from ord c (vfs_of c false) [] false l.

(* the save/restore steps taken out *)
Definition is_save (st : step) : bool := match st with SSaveRestore _ _ _ => true | _ => false end.
Definition erase (l : list step) : list step := filter (fun st => negb (is_save st)) l.
