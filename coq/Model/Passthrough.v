(* PassthroughFs (src/passthrough/{mod,sync_io,util}.rs) as the sequence of host calls each
   FileSystem method performs, written from the code.  No proofs here.

   State: the host tree, the serving thread's credentials, the inode map (fuse inode -> host inode,
   mode at lookup time, lookup count), the persistent host->fuse numbering, the handle map.
   A descriptor opened for I/O is modelled by what matters of it: the host inode, the flags it was
   opened with (access mode), its O_APPEND status and its file position. *)
From Coq Require Import List NArith Bool.
From FB Require Import Model.Names Model.HostFs.
Import ListNotations.
Local Open Scope N_scope.

Record cfg := mkCfg {
  c_do_import : bool;      (* standalone: validates names itself *)
  c_no_open : bool; c_no_opendir : bool; c_writeback : bool; c_killpriv : bool; c_xattr : bool;
  c_cache : N;             (* 0 Never, 1 Metadata, 2 Auto, 3 Always *)
  c_direct_io : bool;      (* allow_direct_io (default true): otherwise O_DIRECT is stripped from open and F_SETFL flags *)
  c_ifh : bool             (* inode_file_handles: inodes are reopened with open_by_handle_at, as root except in create() on an existing name (see open_inode) *)
}.

Record idata := mkIdata { id_host : N; id_mode : N; id_ref : N }.
Record hdata := mkHdata { hd_inode : N; hd_host : N; hd_acc : N; hd_append : bool; hd_pos : N; hd_flags : N;
                          hd_direct : bool (* O_DIRECT status of the descriptor *) }.

Record pstate := mkP {
  p_host : host; p_creds : creds;
  p_inodes : list (N * idata); p_idmap : list (N * N); p_next_inode : N;
  p_handles : list (N * hdata); p_next_handle : N
}.

Definition ROOT_ID := 1.
Definition with_host (s : pstate) (h : host) : pstate :=
  mkP h (p_creds s) (p_inodes s) (p_idmap s) (p_next_inode s) (p_handles s) (p_next_handle s).
Definition with_creds_of (s : pstate) (c : creds) : pstate :=
  mkP (p_host s) c (p_inodes s) (p_idmap s) (p_next_inode s) (p_handles s) (p_next_handle s).

(* PassthroughFs::new + import: the export root is fuse inode 1 with lookup count 2 *)
Definition init_state (h : host) (root : N) : pstate :=
  let mode := match stat h root with Ok a => a_mode a | Err _ => 0 end in
  mkP h root_creds [(ROOT_ID, mkIdata root mode 2)] [(root, ROOT_ID)] 2 [] 1.

(* ---- replies *)
Inductive reply :=
| RpErr (e : N)
| RpOk
| RpEntry (a : attr)                        (* Entry: attributes; the inode number goes to the slot list *)
| RpAttr (a : attr)
| RpOpen (has_handle : bool) (opts : N)
| RpCreate (a : attr) (has_handle : bool) (opts : N)
| RpData (d : list N)
| RpCount (n : N).

(* ---- RAII guards as brackets: what is restored when the scope is left, on every path *)
Definition restore_ids (uid gid : N) (c : creds) : creds :=
  (* Drop of ScopedGid, then of ScopedUid: setresgid(-1,0,-1) / setresuid(-1,0,-1), errors only logged *)
  let c1 := if gid =? 0 then c else match sys_setresgid c 0 with Ok c' => c' | Err _ => c end in
  if uid =? 0 then c1 else match sys_setresuid c1 0 with Ok c' => c' | Err _ => c1 end.

(* let (_uid, _gid) = set_creds(uid, gid)?;  body;  (guards dropped) *)
Definition with_creds {A : Type} (uid gid : N) (s : pstate) (body : pstate -> res A * pstate) : res A * pstate :=
  match (if gid =? 0 then Ok (p_creds s) else sys_setresgid (p_creds s) gid) with
  | Err e => (Err e, s)
  | Ok c1 =>
    match (if uid =? 0 then Ok c1 else sys_setresuid c1 uid) with
    | Err e => (Err e, with_creds_of s (restore_ids 0 gid c1))
    | Ok c2 =>
        let (r, s') := body (with_creds_of s c2) in
        (r, with_creds_of s' (restore_ids uid gid (p_creds s')))
    end
  end.

(* let _killpriv = if cond { drop_cap_fsetid()? } else { None };  body;  (guard dropped) *)
Definition with_killpriv {A : Type} (cond : bool) (s : pstate) (body : pstate -> A * pstate) : A * pstate :=
  if cond && fsetid (p_creds s) then
    let (r, s') := body (with_creds_of s (cap_drop_fsetid (p_creds s))) in
    (r, with_creds_of s' (cap_raise_fsetid (p_creds s')))
  else body s.

(* ---- helpers of mod.rs *)
Definition get_writeback_open_flags (cf : cfg) (flags : N) : N :=
  let f1 := if c_writeback cf && (N.land flags O_ACCMODE =? O_WRONLY)
            then N.lor (clear flags O_ACCMODE) O_RDWR else flags in
  if c_writeback cf && has flags O_APPEND then clear f1 O_APPEND else f1.

Definition strip_direct (cf : cfg) (flags : N) : N := if c_direct_io cf then flags else clear flags O_DIRECT.

Definition is_safe_inode (mode : N) : bool :=
  let f := N.land mode S_IFMT in (f =? S_IFREG) || (f =? S_IFDIR).

Definition validate (cf : cfg) (n : name) : option N := pt_validate (c_do_import cf) n.

Fixpoint find_by_host (i : N) (l : list (N * idata)) : option (N * idata) :=
  match l with
  | [] => None
  | (f, d) :: r => if id_host d =? i then Some (f, d) else find_by_host i r
  end.

(* do_lookup(parent, name) -> Entry *)
Definition do_lookup (s : pstate) (parent : N) (n : name) : res (N * attr) * pstate :=
  let n := lookup_name (parent =? ROOT_ID) n in
  match assoc parent (p_inodes s) with
  | None => (Err EBADF, s)
  | Some dir =>
    match lookup1 (p_creds s) (p_host s) (id_host dir) n with
    | Err e => (Err e, s)
    | Ok i =>
      match stat (p_host s) i with
      | Err e => (Err e, s)
      | Ok st =>
        match find_by_host i (p_inodes s) with
        | Some (f, d) =>
            (Ok (f, st), mkP (p_host s) (p_creds s)
                             (assoc_set f (mkIdata (id_host d) (id_mode d) (id_ref d + 1)) (p_inodes s))
                             (p_idmap s) (p_next_inode s) (p_handles s) (p_next_handle s))
        | None =>
            let '(f, idmap', next') :=
              match assoc i (p_idmap s) with
              | Some f => (f, p_idmap s, p_next_inode s)
              | None => (p_next_inode s, assoc_set i (p_next_inode s) (p_idmap s), p_next_inode s + 1)
              end in
            (Ok (f, st), mkP (p_host s) (p_creds s)
                             (assoc_set f (mkIdata i (a_mode st) 1) (p_inodes s))
                             idmap' next' (p_handles s) (p_next_handle s))
        end
      end
    end
  end.

Definition forget_one (s : pstate) (inode count : N) : pstate :=
  if inode =? ROOT_ID then s
  else match assoc inode (p_inodes s) with
  | None => s
  | Some d =>
      let n := id_ref d - count in
      mkP (p_host s) (p_creds s)
          (if n =? 0 then assoc_del inode (p_inodes s)
           else assoc_set inode (mkIdata (id_host d) (id_mode d) n) (p_inodes s))
          (p_idmap s) (p_next_inode s) (p_handles s) (p_next_handle s)
  end.

(* open_inode(inode, flags) -> File: the descriptor is described by (host inode, flags it was opened with) *)
Definition open_inode (cf : cfg) (s : pstate) (inode flags : N) : res (N * N) * pstate :=
  match assoc inode (p_inodes s) with
  | None => (Err EBADF, s)
  | Some d =>
      if negb (is_safe_inode (id_mode d)) then (Err EBADF, s)
      (* with inode_file_handles the inode is reopened by open_by_handle_at, which needs CAP_DAC_READ_SEARCH: it fails
         with EPERM whenever the thread runs with a non-root caller's credentials (create() on an existing name) *)
      else if c_ifh cf && negb (euid (p_creds s) =? 0) then (Err EPERM, s)
      else
        let nf := strip_direct cf (get_writeback_open_flags cf flags) in
        let of := clear (clear (N.lor nf O_CLOEXEC) O_NOFOLLOW) O_CREAT in
        match sys_reopen (p_creds s) (p_host s) (id_host d) of with
        | (Err e, h') => (Err e, with_host s h')
        | (Ok _, h') => (Ok (id_host d, of), with_host s h')
        end
  end.

Definition new_hdata (inode host_i fdflags reqflags : N) : hdata :=
  mkHdata inode host_i fdflags (has fdflags O_APPEND) 0 reqflags (has fdflags O_DIRECT).

Definition insert_handle (s : pstate) (hd : hdata) : N * pstate :=
  (p_next_handle s, mkP (p_host s) (p_creds s) (p_inodes s) (p_idmap s) (p_next_inode s)
                        (assoc_set (p_next_handle s) hd (p_handles s)) (p_next_handle s + 1)).

Definition open_opts (cf : cfg) (flags : N) : N :=
  let isdir := has flags O_DIRECTORY in
  if c_cache cf =? 0 then (if isdir then 0 else 1)
  else if c_cache cf =? 1 then (if isdir then 10 else 1)
  else if c_cache cf =? 3 then (if isdir then 10 else 2)
  else 0.

Definition FOPEN_IN_KILL_SUIDGID := 1. Definition WRITE_KILL_PRIV := 4.

Definition do_open (cf : cfg) (s : pstate) (inode flags fuse_flags : N) : reply * pstate :=
  let '(r, s1) := with_killpriv (c_killpriv cf && has fuse_flags FOPEN_IN_KILL_SUIDGID) s
                    (fun s0 => open_inode cf s0 inode flags) in
  match r with
  | Err e => (RpErr e, s1)
  | Ok (hi, fl) =>
      let (_, s2) := insert_handle s1 (new_hdata inode hi fl flags) in
      (RpOpen true (open_opts cf flags), s2)
  end.

Definition handle_get (s : pstate) (handle inode : N) : res hdata :=
  match assoc handle (p_handles s) with
  | Some hd => if hd_inode hd =? inode then Ok hd else Err EBADF
  | None => Err EBADF
  end.

(* get_data / get_dirdata: the handle, or (no_open) a temporary descriptor; returns the handle id when
   the descriptor lives in the handle map so that its recorded flags can be updated *)
Definition get_data (cf : cfg) (no : bool) (s : pstate) (handle inode flags : N) : res (option N * hdata) * pstate :=
  if negb no then
    match handle_get s handle inode with
    | Ok hd => (Ok (Some handle, hd), s)
    | Err e => (Err e, s)
    end
  else
    match open_inode cf s inode flags with
    | (Err e, s') => (Err e, s')
    | (Ok (hi, fl), s') => (Ok (None, new_hdata inode hi fl flags), s')
    end.

(* check_fd_flags: when the recorded flags differ from the request's: fcntl(F_SETFL, host_flags) where host_flags are
   the request's flags with the adjustments open_inode applies (no O_APPEND under writeback, no O_DIRECT
   unless allow_direct_io); the request's flags are recorded *)
Definition setfl_flags (cf : cfg) (flags : N) : N := strip_direct cf (get_writeback_open_flags cf flags).
Definition check_fd_flags (cf : cfg) (s : pstate) (hid : option N) (hd : hdata) (flags : N) : hdata * pstate :=
  if hd_flags hd =? flags then (hd, s)
  else
    let hd' := mkHdata (hd_inode hd) (hd_host hd) (hd_acc hd) (has (setfl_flags cf flags) O_APPEND) (hd_pos hd) flags
                       (has (setfl_flags cf flags) O_DIRECT) in
    match hid with
    | Some k => (hd', mkP (p_host s) (p_creds s) (p_inodes s) (p_idmap s) (p_next_inode s)
                          (assoc_set k hd' (p_handles s)) (p_next_handle s))
    | None => (hd', s)
    end.

Definition do_getattr (cf : cfg) (s : pstate) (inode : N) (handle : option N) : res attr :=
  match assoc inode (p_inodes s) with
  | None => Err EBADF
  | Some d =>
    match negb (c_no_open cf), handle with
    | true, Some hk =>
        match handle_get s hk inode with
        | Err e => Err e
        | Ok hd => stat (p_host s) (hd_host hd)
        end
    | _, _ => stat (p_host s) (id_host d)
    end
  end.

Definition entry_reply (r : res (N * attr) * pstate) : reply * option N * pstate :=
  match r with
  | (Err e, s) => (RpErr e, None, s)
  | (Ok (f, a), s) => (RpEntry a, Some f, s)
  end.

(* ---- requests (fuse inode / handle numbers already resolved) *)
Inductive req :=
| QLookup (parent : N) (n : name)
| QForget (inode count : N)
| QBatchForget (l : list (N * N))
| QGetattr (inode : N) (handle : option N)
| QSetattr (inode : N) (handle : option N) (valid mode uid gid size : N) (atime ansec mtime mnsec : N)
| QMkdir (parent : N) (n : name) (mode umask uid gid : N)
| QMknod (parent : N) (n : name) (mode rdev umask uid gid : N)
| QCreate (parent : N) (n : name) (mode umask flags fuse_flags uid gid : N)
| QSymlink (parent : N) (n : name) (target : list N) (uid gid : N)
| QLink (inode newparent : N) (n : name)
| QUnlink (parent : N) (n : name)
| QRmdir (parent : N) (n : name)
| QRename (olddir : N) (on : name) (newdir : N) (nn : name) (flags : N)
| QOpen (inode flags fuse_flags : N)
| QOpendir (inode flags : N)
| QRelease (inode handle : N)
| QReleasedir (inode handle : N)
| QRead (inode handle size off flags : N)
| QWrite (inode handle off : N) (data : list N) (flags fuse_flags : N)
| QReadlink (inode : N)
| QSetxattr (inode : N) (n : name) (v : list N) (flags : N)
| QGetxattr (inode : N) (n : name) (size : N)
| QListxattr (inode size : N)
| QRemovexattr (inode : N) (n : name)
| QFallocate (inode handle mode off l : N)
| QLseek (inode handle off whence : N)
| QFsync (inode handle : N)
| QFlush (inode handle : N)
| QStatfs (inode : N)
| QAccess (inode mask uid gid : N).

Definition FATTR_MODE := 1. Definition FATTR_UID := 2. Definition FATTR_GID := 4. Definition FATTR_SIZE := 8.
Definition FATTR_ATIME := 16. Definition FATTR_MTIME := 32. Definition FATTR_KILL_SUIDGID := 2048.
Definition FATTR_ATIME_NOW := 128. Definition FATTR_MTIME_NOW := 256.
(* the timespec pair setattr hands to futimens/utimensat *)
Definition time_spec (valid now_bit set_bit sec nsec : N) : tv :=
  if has valid now_bit then TNow else if has valid set_bit then TSet sec nsec else TKeep.

Definition create_opts (cf : cfg) : N :=
  if (c_cache cf =? 0) || (c_cache cf =? 1) then 1 else if c_cache cf =? 3 then 2 else 0.

(* a host call made while the caller's credentials are installed, followed by do_lookup as root.
   The parent's descriptor (data.get_file(): with inode_file_handles an open_by_handle_at) is obtained
   BEFORE set_creds in mkdir, mknod, symlink and create, i.e. with root's capabilities. *)
Definition create_then_lookup (s : pstate) (uid gid parent : N) (n : name)
    (call : creds -> host -> N -> res N * host) : reply * option N * pstate :=
  match assoc parent (p_inodes s) with
  | None => (RpErr EBADF, None, s)
  | Some d =>
      let '(r, s1) := with_creds uid gid s (fun s0 =>
                        let (r, h') := call (p_creds s0) (p_host s0) (id_host d) in (r, with_host s0 h')) in
      match r with
      | Err e => (RpErr e, None, s1)
      | Ok _ => entry_reply (do_lookup s1 parent n)
      end
  end.

Definition setattr_size (cf : cfg) (s : pstate) (inode : N) (hdo : option hdata) (valid size : N) : res unit * pstate :=
  with_killpriv (c_killpriv cf && has valid FATTR_KILL_SUIDGID) s (fun s0 =>
    match hdo with
    | Some hd =>
        if acc_w (hd_acc hd)
        then let (r, h') := sys_ftruncate (p_creds s0) (p_host s0) (hd_host hd) size in (r, with_host s0 h')
        else (Err EINVAL, s0)
    | None =>
        match open_inode cf s0 inode (O_NONBLOCK + O_RDWR) with
        | (Err e, s1) => (Err e, s1)
        | (Ok (hi, _), s1) =>
            let (r, h') := sys_ftruncate (p_creds s1) (p_host s1) hi size in (r, with_host s1 h')
        end
    end).

Definition access_check (a : attr) (mask uid gid : N) : reply :=
  let mode := N.land mask 7 in
  let m := a_mode a in
  if mode =? 0 then RpOk
  else if has mode 4 && negb (uid =? 0) && (negb (a_uid a =? uid) || negb (has m 256))
          && (negb (a_gid a =? gid) || negb (has m 32)) && negb (has m 4) then RpErr EACCES
  else if has mode 2 && negb (uid =? 0) && (negb (a_uid a =? uid) || negb (has m 128))
          && (negb (a_gid a =? gid) || negb (has m 16)) && negb (has m 2) then RpErr EACCES
  else if has mode 1 && (negb (uid =? 0) || (N.land m 73 =? 0)) && (negb (a_uid a =? uid) || negb (has m 64))
          && (negb (a_gid a =? gid) || negb (has m 8)) && negb (has m 1) then RpErr EACCES
  else RpOk.

(* one request: reply, the inode / handle the reply carries (for the slot lists), new state *)
Definition pstep (cf : cfg) (s : pstate) (q : req) : reply * option N * option N * pstate :=
  let noslot (r : reply) (s' : pstate) := (r, None, None, s') in
  let ent (x : reply * option N * pstate) := let '(r, i, s') := x in (r, i, None, s') in
  match q with
  | QLookup parent n =>
      match lookup_check n with
      | Some e => noslot (RpErr e) s
      | None => ent (entry_reply (do_lookup s parent n))
      end
  | QForget inode count => noslot RpOk (forget_one s inode count)
  | QBatchForget l => noslot RpOk (fold_left (fun s0 p => forget_one s0 (fst p) (snd p)) l s)
  | QGetattr inode handle =>
      match do_getattr cf s inode handle with
      | Ok a => noslot (RpAttr a) s
      | Err e => noslot (RpErr e) s
      end
  | QSetattr inode handle valid mode uid gid size atime ansec mtime mnsec =>
      match assoc inode (p_inodes s) with
      | None => noslot (RpErr EBADF) s
      | Some d =>
        (* Data::Handle only when open is enabled and a handle was passed *)
        let hdr := if c_no_open cf then Ok None
                   else match handle with
                        | Some hk => match handle_get s hk inode with Ok hd => Ok (Some hd) | Err e => Err e end
                        | None => Ok None
                        end in
        match hdr with
        | Err e => noslot (RpErr e) s
        | Ok hdo =>
          let target := match hdo with Some hd => hd_host hd | None => id_host d end in
          let '(r1, s1) := if has valid FATTR_MODE
                           then let (r, h') := sys_chmod (p_creds s) (p_host s) target mode in (r, with_host s h')
                           else (Ok tt, s) in
          match r1 with
          | Err e => noslot (RpErr e) s1
          | Ok _ =>
            let '(r2, s2) := if has valid FATTR_UID || has valid FATTR_GID
                             then let (r, h') := sys_chown (p_creds s1) (p_host s1) (id_host d)
                                                   (if has valid FATTR_UID then uid else NOCHANGE)
                                                   (if has valid FATTR_GID then gid else NOCHANGE) in
                                  (r, with_host s1 h')
                             else (Ok tt, s1) in
            match r2 with
            | Err e => noslot (RpErr e) s2
            | Ok _ =>
              let '(r3, s3) := if has valid FATTR_SIZE then setattr_size cf s2 inode hdo valid size else (Ok tt, s2) in
              match r3 with
              | Err e => noslot (RpErr e) s3
              | Ok _ =>
                  (* if valid.intersects(ATIME | MTIME): futimens(handle) / utimensat(proc_self_fd, "N") *)
                  let '(r4, s4) := if has valid FATTR_ATIME || has valid FATTR_MTIME
                                   then let (r, h') := sys_utimens (p_host s3) target
                                                         (time_spec valid FATTR_ATIME_NOW FATTR_ATIME atime ansec)
                                                         (time_spec valid FATTR_MTIME_NOW FATTR_MTIME mtime mnsec) in
                                        (r, with_host s3 h')
                                   else (Ok tt, s3) in
                  match r4 with
                  | Err e => noslot (RpErr e) s4
                  | Ok _ =>
                      match do_getattr cf s4 inode handle with
                      | Ok a => noslot (RpAttr a) s4
                      | Err e => noslot (RpErr e) s4
                      end
                  end
              end
            end
          end
        end
      end
  | QMkdir parent n mode umask uid gid =>
      match validate cf n with
      | Some e => noslot (RpErr e) s
      | None => ent (create_then_lookup s uid gid parent n
                       (fun c h d => sys_mkdirat c h d n (N.ldiff mode umask)))
      end
  | QMknod parent n mode rdev umask uid gid =>
      match validate cf n with
      | Some e => noslot (RpErr e) s
      | None => ent (create_then_lookup s uid gid parent n
                       (fun c h d => sys_mknodat c h d n (N.ldiff mode umask) rdev))
      end
  | QSymlink parent n target uid gid =>
      match validate cf n with
      | Some e => noslot (RpErr e) s
      | None => ent (create_then_lookup s uid gid parent n
                       (fun c h d => sys_symlinkat c h target d n))
      end
  | QCreate parent n mode umask flags fuse_flags uid gid =>
      match validate cf n with
      | Some e => noslot (RpErr e) s
      | None =>
        match assoc parent (p_inodes s) with
        | None => noslot (RpErr EBADF) s
        | Some d =>
          let wf := get_writeback_open_flags cf flags in
          (* create_file_excl: Ok(Some fd) | Ok(None) when it exists and O_EXCL was not asked | Err *)
          let '(r, s1) := with_creds uid gid s (fun s0 =>
              match sys_openat_creat_excl (p_creds s0) (p_host s0) (id_host d) n
                      (N.lor (N.lor wf O_CREAT) O_EXCL) (N.ldiff mode (N.land umask 511)) with
              | (Ok i, h') => (Ok (Some i), with_host s0 h')
              | (Err e, h') => if (e =? EEXIST) && negb (has wf O_EXCL) then (Ok None, with_host s0 h')
                               else (Err e, with_host s0 h')
              end) in
          match r with
          | Err e => noslot (RpErr e) s1
          | Ok newf =>
            match do_lookup s1 parent n with
            | (Err e, s2) => noslot (RpErr e) s2
            | (Ok (f, a), s2) =>
              let '(rf, s3) :=
                match newf with
                | Some i => (Ok (i, N.lor (N.lor wf O_CREAT) O_EXCL), s2)
                | None =>
                    with_killpriv (c_killpriv cf && has fuse_flags FOPEN_IN_KILL_SUIDGID) s2 (fun s0 =>
                      with_creds uid gid s0 (fun s00 => open_inode cf s00 f flags))
                end in
              match rf with
              | Err e => (* the client never learns the inode: drop the reference taken by do_lookup *)
                         noslot (RpErr e) (forget_one s3 f 1)
              | Ok (hi, fl) =>
                  if c_no_open cf then (RpCreate a false (create_opts cf), Some f, Some 0, s3)
                  else let (hk, s4) := insert_handle s3 (new_hdata f hi fl flags) in
                       (RpCreate a true (create_opts cf), Some f, Some hk, s4)
              end
            end
          end
        end
      end
  | QLink inode newparent n =>
      match validate cf n with
      | Some e => noslot (RpErr e) s
      | None =>
        match assoc inode (p_inodes s), assoc newparent (p_inodes s) with
        | Some d, Some nd =>
            match sys_linkat (p_creds s) (p_host s) (id_host d) (id_host nd) n with
            | (Err e, h') => noslot (RpErr e) (with_host s h')
            | (Ok _, h') => ent (entry_reply (do_lookup (with_host s h') newparent n))
            end
        | _, _ => noslot (RpErr EBADF) s
        end
      end
  | QUnlink parent n =>
      match validate cf n with
      | Some e => noslot (RpErr e) s
      | None =>
        match assoc parent (p_inodes s) with
        | None => noslot (RpErr EBADF) s
        | Some d => match sys_unlinkat (p_creds s) (p_host s) (id_host d) n 0 with
                    | (Err e, h') => noslot (RpErr e) (with_host s h')
                    | (Ok _, h') => noslot RpOk (with_host s h')
                    end
        end
      end
  | QRmdir parent n =>
      match validate cf n with
      | Some e => noslot (RpErr e) s
      | None =>
        match assoc parent (p_inodes s) with
        | None => noslot (RpErr EBADF) s
        | Some d => match sys_unlinkat (p_creds s) (p_host s) (id_host d) n AT_REMOVEDIR with
                    | (Err e, h') => noslot (RpErr e) (with_host s h')
                    | (Ok _, h') => noslot RpOk (with_host s h')
                    end
        end
      end
  | QRename olddir on newdir nn flags =>
      match validate cf on with
      | Some e => noslot (RpErr e) s
      | None =>
        match validate cf nn with
        | Some e => noslot (RpErr e) s
        | None =>
          match assoc olddir (p_inodes s), assoc newdir (p_inodes s) with
          | Some od, Some nd =>
              match sys_renameat2 (p_creds s) (p_host s) (id_host od) on (id_host nd) nn flags with
              | (Err e, h') => noslot (RpErr e) (with_host s h')
              | (Ok _, h') => noslot RpOk (with_host s h')
              end
          | _, _ => noslot (RpErr EBADF) s
          end
        end
      end
  | QOpen inode flags fuse_flags =>
      if c_no_open cf then (RpErr ENOSYS, None, Some 0, s)
      else match do_open cf s inode flags fuse_flags with
           | (RpOpen b o, s') => (RpOpen b o, None, Some (p_next_handle s), s')
           | (r, s') => (r, None, Some 0, s')
           end
  | QOpendir inode flags =>
      if c_no_opendir cf then (RpErr ENOSYS, None, Some 0, s)
      else match do_open cf s inode (N.lor flags O_DIRECTORY) 0 with
           | (RpOpen b o, s') => (RpOpen b o, None, Some (p_next_handle s), s')
           | (r, s') => (r, None, Some 0, s')
           end
  | QRelease inode handle =>
      if c_no_open cf then noslot (RpErr ENOSYS) s
      else match handle_get s handle inode with
           | Err e => noslot (RpErr e) s
           | Ok _ => noslot RpOk (mkP (p_host s) (p_creds s) (p_inodes s) (p_idmap s) (p_next_inode s)
                                      (assoc_del handle (p_handles s)) (p_next_handle s))
           end
  | QReleasedir inode handle =>
      if c_no_opendir cf then noslot (RpErr ENOSYS) s
      else match handle_get s handle inode with
           | Err e => noslot (RpErr e) s
           | Ok _ => noslot RpOk (mkP (p_host s) (p_creds s) (p_inodes s) (p_idmap s) (p_next_inode s)
                                      (assoc_del handle (p_handles s)) (p_next_handle s))
           end
  | QRead inode handle size off flags =>
      match get_data cf (c_no_open cf) s handle inode O_RDONLY with
      | (Err e, s1) => noslot (RpErr e) s1
      | (Ok (hid, hd), s1) =>
          let (hd', s2) := check_fd_flags cf s1 hid hd flags in
          if negb (acc_r (hd_acc hd')) then noslot (RpErr EBADF) s2
          (* O_DIRECT on the descriptor: offset, length and buffer must be block aligned; the server's buffers never are *)
          else if hd_direct hd' && (0 <? size) then noslot (RpErr EINVAL) s2
          else match sys_pread (p_host s2) (hd_host hd') size off with
               | Ok d => noslot (RpData d) s2
               | Err e => noslot (RpErr e) s2
               end
      end
  | QWrite inode handle off data flags fuse_flags =>
      match get_data cf (c_no_open cf) s handle inode O_RDWR with
      | (Err e, s1) => noslot (RpErr e) s1
      | (Ok (hid, hd), s1) =>
          let (hd', s2) := check_fd_flags cf s1 hid hd flags in
          let '(r, s3) := with_killpriv (c_killpriv cf && has fuse_flags WRITE_KILL_PRIV) s2 (fun s0 =>
              if negb (acc_w (hd_acc hd')) then (Err EBADF, s0)
              else if hd_direct hd' && (0 <? len data) then (Err EINVAL, s0)
              else let (r, h') := sys_pwrite (p_creds s0) (p_host s0) (hd_host hd') (hd_append hd') off data in
                   (r, with_host s0 h')) in
          match r with
          | Ok n => noslot (RpCount n) s3
          | Err e => noslot (RpErr e) s3
          end
      end
  | QReadlink inode =>
      match assoc inode (p_inodes s) with
      | None => noslot (RpErr EBADF) s
      | Some d => match sys_readlink (p_host s) (id_host d) with
                  | Ok t => noslot (RpData t) s
                  | Err e => noslot (RpErr e) s
                  end
      end
  | QSetxattr inode n v flags =>
      if negb (c_xattr cf) then noslot (RpErr ENOSYS) s
      else match assoc inode (p_inodes s) with
      | None => noslot (RpErr EBADF) s
      | Some d => match sys_setxattr (p_creds s) (p_host s) (id_host d) n v flags with
                  | (Err e, h') => noslot (RpErr e) (with_host s h')
                  | (Ok _, h') => noslot RpOk (with_host s h')
                  end
      end
  | QGetxattr inode n size =>
      if negb (c_xattr cf) then noslot (RpErr ENOSYS) s
      else match assoc inode (p_inodes s) with
      | None => noslot (RpErr EBADF) s
      | Some d => match sys_getxattr (p_creds s) (p_host s) (id_host d) n size with
                  | Ok (inl v) => noslot (RpData v) s
                  | Ok (inr c) => noslot (RpCount c) s
                  | Err e => noslot (RpErr e) s
                  end
      end
  | QListxattr inode size =>
      if negb (c_xattr cf) then noslot (RpErr ENOSYS) s
      else match assoc inode (p_inodes s) with
      | None => noslot (RpErr EBADF) s
      | Some d => match sys_listxattr (p_host s) (id_host d) size with
                  | Ok (inl v) => noslot (RpData v) s
                  | Ok (inr c) => noslot (RpCount c) s
                  | Err e => noslot (RpErr e) s
                  end
      end
  | QRemovexattr inode n =>
      if negb (c_xattr cf) then noslot (RpErr ENOSYS) s
      else match assoc inode (p_inodes s) with
      | None => noslot (RpErr EBADF) s
      | Some d => match sys_removexattr (p_creds s) (p_host s) (id_host d) n with
                  | (Err e, h') => noslot (RpErr e) (with_host s h')
                  | (Ok _, h') => noslot RpOk (with_host s h')
                  end
      end
  | QFallocate inode handle mode off l =>
      match get_data cf (c_no_open cf) s handle inode O_RDWR with
      | (Err e, s1) => noslot (RpErr e) s1
      | (Ok (_, hd), s1) =>
          if l =? 0 then noslot (RpErr EINVAL) s1      (* vfs_fallocate: len <= 0 is refused before the access mode is looked at *)
          else if negb (acc_w (hd_acc hd)) then noslot (RpErr EBADF) s1
          else match sys_fallocate (p_creds s1) (p_host s1) (hd_host hd) mode off l with
               | (Err e, h') => noslot (RpErr e) (with_host s1 h')
               | (Ok _, h') => noslot RpOk (with_host s1 h')
               end
      end
  | QLseek inode handle off whence =>
      match handle_get s handle inode with
      | Err e => noslot (RpErr e) s
      | Ok hd =>
          match stat (p_host s) (hd_host hd) with
          | Err e => noslot (RpErr e) s
          | Ok a =>
              let np := if whence =? 0 then Some off
                        else if whence =? 1 then Some (hd_pos hd + off)
                        else if whence =? 2 then Some (a_size a + off) else None in
              match np with
              | None => noslot (RpErr (if whence <? 5 then EUNMODELLED else EINVAL)) s
              | Some p =>
                  if 9223372036854775807 <? p then noslot (RpErr EINVAL) s
                  else noslot (RpCount p)
                         (mkP (p_host s) (p_creds s) (p_inodes s) (p_idmap s) (p_next_inode s)
                              (assoc_set handle (mkHdata (hd_inode hd) (hd_host hd) (hd_acc hd) (hd_append hd) p (hd_flags hd) (hd_direct hd))
                                         (p_handles s)) (p_next_handle s))
              end
          end
      end
  | QFsync inode handle =>
      match get_data cf (c_no_open cf) s handle inode O_RDONLY with
      | (Err e, s1) => noslot (RpErr e) s1
      | (Ok _, s1) => noslot RpOk s1
      end
  | QFlush inode handle =>
      if c_no_open cf then noslot (RpErr ENOSYS) s
      else match handle_get s handle inode with
           | Err e => noslot (RpErr e) s
           | Ok _ => noslot RpOk s
           end
  | QStatfs inode =>
      match assoc inode (p_inodes s) with
      | None => noslot (RpErr EBADF) s
      | Some _ => noslot RpOk s
      end
  | QAccess inode mask uid gid =>
      match assoc inode (p_inodes s) with
      | None => noslot (RpErr EBADF) s
      | Some d => match stat (p_host s) (id_host d) with
                  | Ok a => noslot (access_check a mask uid gid) s
                  | Err e => noslot (RpErr e) s
                  end
      end
  end.

(* ---- histories with slot references: slot k of the inode list is the inode carried by the k-th
   entry-returning request (0 when it failed); slot 0 is the root.  Likewise for handles. *)
Inductive ref := Slot (k : nat) | Raw (n : N).
Definition deref (l : list N) (r : ref) : N :=
  match r with Slot k => nth k l 0 | Raw n => n end.

Inductive sreq :=
| SLookup (p : ref) (n : name)
| SForget (i : ref) (count : N)
| SBatchForget (l : list (ref * N))
| SGetattr (i : ref) (h : option ref)
| SSetattr (i : ref) (h : option ref) (valid mode uid gid size atime ansec mtime mnsec : N)
| SMkdir (p : ref) (n : name) (mode umask uid gid : N)
| SMknod (p : ref) (n : name) (mode rdev umask uid gid : N)
| SCreate (p : ref) (n : name) (mode umask flags fuse_flags uid gid : N)
| SSymlink (p : ref) (n : name) (target : list N) (uid gid : N)
| SLink (i p : ref) (n : name)
| SUnlink (p : ref) (n : name)
| SRmdir (p : ref) (n : name)
| SRename (od : ref) (on : name) (nd : ref) (nn : name) (flags : N)
| SOpen (i : ref) (flags fuse_flags : N)
| SOpendir (i : ref) (flags : N)
| SRelease (i h : ref)
| SReleasedir (i h : ref)
| SRead (i h : ref) (size off flags : N)
| SWrite (i h : ref) (off : N) (data : list N) (flags fuse_flags : N)
| SReadlink (i : ref)
| SSetxattr (i : ref) (n : name) (v : list N) (flags : N)
| SGetxattr (i : ref) (n : name) (size : N)
| SListxattr (i : ref) (size : N)
| SRemovexattr (i : ref) (n : name)
| SFallocate (i h : ref) (mode off l : N)
| SLseek (i h : ref) (off whence : N)
| SFsync (i h : ref)
| SFlush (i h : ref)
| SStatfs (i : ref)
| SAccess (i : ref) (mask uid gid : N).

Definition resolve (is hs : list N) (q : sreq) : req :=
  let I := deref is in let H := deref hs in
  match q with
  | SLookup p n => QLookup (I p) n
  | SForget i c => QForget (I i) c
  | SBatchForget l => QBatchForget (map (fun p => (I (fst p), snd p)) l)
  | SGetattr i h => QGetattr (I i) (option_map H h)
  | SSetattr i h v m u g sz a an mt mn => QSetattr (I i) (option_map H h) v m u g sz a an mt mn
  | SMkdir p n m um u g => QMkdir (I p) n m um u g
  | SMknod p n m r um u g => QMknod (I p) n m r um u g
  | SCreate p n m um f ff u g => QCreate (I p) n m um f ff u g
  | SSymlink p n t u g => QSymlink (I p) n t u g
  | SLink i p n => QLink (I i) (I p) n
  | SUnlink p n => QUnlink (I p) n
  | SRmdir p n => QRmdir (I p) n
  | SRename od on nd nn f => QRename (I od) on (I nd) nn f
  | SOpen i f ff => QOpen (I i) f ff
  | SOpendir i f => QOpendir (I i) f
  | SRelease i h => QRelease (I i) (H h)
  | SReleasedir i h => QReleasedir (I i) (H h)
  | SRead i h sz o f => QRead (I i) (H h) sz o f
  | SWrite i h o d f ff => QWrite (I i) (H h) o d f ff
  | SReadlink i => QReadlink (I i)
  | SSetxattr i n v f => QSetxattr (I i) n v f
  | SGetxattr i n sz => QGetxattr (I i) n sz
  | SListxattr i sz => QListxattr (I i) sz
  | SRemovexattr i n => QRemovexattr (I i) n
  | SFallocate i h m o l => QFallocate (I i) (H h) m o l
  | SLseek i h o w => QLseek (I i) (H h) o w
  | SFsync i h => QFsync (I i) (H h)
  | SFlush i h => QFlush (I i) (H h)
  | SStatfs i => QStatfs (I i)
  | SAccess i m u g => QAccess (I i) m u g
  end.

Definition returns_entry (q : sreq) : bool :=
  match q with SLookup _ _ | SMkdir _ _ _ _ _ _ | SMknod _ _ _ _ _ _ _ | SCreate _ _ _ _ _ _ _ _
             | SSymlink _ _ _ _ _ | SLink _ _ _ => true | _ => false end.
Definition returns_handle (q : sreq) : bool :=
  match q with SCreate _ _ _ _ _ _ _ _ | SOpen _ _ _ | SOpendir _ _ => true | _ => false end.

Record rstate := mkR { r_p : pstate; r_is : list N; r_hs : list N }.

Definition rstep (cf : cfg) (r : rstate) (q : sreq) : reply * creds * rstate :=
  let '(rp, io, ho, s') := pstep cf (r_p r) (resolve (r_is r) (r_hs r) q) in
  let is' := if returns_entry q then r_is r ++ [match io with Some i => i | None => 0 end] else r_is r in
  let hs' := if returns_handle q then r_hs r ++ [match ho with Some k => k | None => 0 end] else r_hs r in
  (rp, p_creds s', mkR s' is' hs').

Fixpoint run (cf : cfg) (r : rstate) (qs : list sreq) : list (reply * creds) * rstate :=
  match qs with
  | [] => ([], r)
  | q :: qs' => let '(rp, c, r') := rstep cf r q in
                let (out, rf) := run cf r' qs' in ((rp, c) :: out, rf)
  end.

Definition start (h : host) (root : N) : rstate := mkR (init_state h root) [ROOT_ID] [].

(* ---- a Vfs in front (src/api/vfs/sync_io.rs): the name checks every name-taking method performs before
   it touches a backend; a rejected request never reaches PassthroughFs *)
Definition vfs_check (q : req) : option N :=
  match q with
  | QLookup _ n => lookup_check n
  | QMkdir _ n _ _ _ _ | QMknod _ n _ _ _ _ _ | QCreate _ n _ _ _ _ _ _ | QSymlink _ n _ _ _
  | QLink _ _ n | QUnlink _ n | QRmdir _ n => validate_path_component n
  | QRename _ on _ nn _ => match validate_path_component on with Some e => Some e | None => validate_path_component nn end
  | QSetxattr _ n _ _ | QGetxattr _ n _ | QRemovexattr _ n => validate_path_component n
  | _ => None
  end.
Definition vfs_pstep (cf : cfg) (s : pstate) (q : req) : reply * option N * option N * pstate :=
  match vfs_check q with
  | Some e => (RpErr e, None, None, s)
  | None => pstep cf s q
  end.

(* the names of a request that name a directory entry to create, remove, rename or link *)
Definition mutator_names (q : req) : list name :=
  match q with
  | QMkdir _ n _ _ _ _ | QMknod _ n _ _ _ _ _ | QCreate _ n _ _ _ _ _ _ | QSymlink _ n _ _ _
  | QLink _ _ n | QUnlink _ n | QRmdir _ n => [n]
  | QRename _ on _ nn _ => [on; nn]
  | _ => []
  end.

(* ---- comparison of model replies with what the implementation / the reference printed
   (inode numbers are not compared; the size of a directory is not modelled) *)
Definition list_eqb (a b : list N) : bool := name_eqb a b.
Definition attr_eqb (a b : attr) : bool :=
  (a_mode a =? a_mode b) && (a_nlink a =? a_nlink b) && (a_uid a =? a_uid b) && (a_gid a =? a_gid b) &&
  ((N.land (a_mode a) S_IFMT =? S_IFDIR) || (a_size a =? a_size b)) && (a_rdev a =? a_rdev b).
Definition reply_eqb (a b : reply) : bool :=
  match a, b with
  | RpErr x, RpErr y => x =? y
  | RpOk, RpOk => true
  | RpEntry x, RpEntry y => attr_eqb x y
  | RpAttr x, RpAttr y => attr_eqb x y
  | RpOpen h o, RpOpen h' o' => Bool.eqb h h' && (o =? o')
  | RpCreate x h o, RpCreate y h' o' => attr_eqb x y && Bool.eqb h h' && (o =? o')
  | RpData x, RpData y => list_eqb x y
  | RpCount x, RpCount y => x =? y
  | _, _ => false
  end.
Definition creds_eqb (a b : creds) : bool :=
  (euid a =? euid b) && (egid a =? egid b) && Bool.eqb (fsetid a) (fsetid b).
Definition obs_ok (m o : reply * creds) : bool := reply_eqb (fst m) (fst o) && creds_eqb (snd m) (snd o).
Fixpoint bad_indices (k : N) (ms os : list (reply * creds)) : list N :=
  match ms, os with
  | m :: ms', o :: os' => if obs_ok m o then bad_indices (k + 1) ms' os' else k :: bad_indices (k + 1) ms' os'
  | [], [] => []
  | _, _ => [k]
  end.
(* with inode_file_handles the server keeps no descriptor for an inode: open_by_handle_at on an inode whose last
   link is gone answers ESTALE.  That kernel behaviour is NOT modelled; an observed ESTALE reply under that
   configuration is not compared with the model (credentials still are). *)
Definition stale_obs (cf : cfg) (o : reply * creds) : bool :=
  c_ifh cf && match fst o with RpErr e => e =? ESTALE | _ => false end.
Fixpoint bad_indices_cf (cf : cfg) (k : N) (ms os : list (reply * creds)) : list N :=
  match ms, os with
  | m :: ms', o :: os' => if obs_ok m o || (stale_obs cf o && creds_eqb (snd m) (snd o))
                          then bad_indices_cf cf (k + 1) ms' os' else k :: bad_indices_cf cf (k + 1) ms' os'
  | [], [] => []
  | _, _ => [k]
  end.
Definition hist_bad (cf : cfg) (h : host) (root : N) (qs : list sreq) (os : list (reply * creds)) : list N :=
  bad_indices_cf cf 0 (fst (run cf (start h root) qs)) os.
Definition hist_ok (cf : cfg) (h : host) (root : N) (qs : list sreq) (os : list (reply * creds)) : bool :=
  match hist_bad cf h root qs os with [] => true | _ => false end.

(* ---- what a SETATTR does to atime/mtime, for the comparison with the implementation: the utimens step runs iff ATIME
   or MTIME is valid; observed classes: unchanged / set to the request's value / set to now *)
Definition setattr_time_effect (valid atime ansec mtime mnsec : N) : tv * tv :=
  if has valid FATTR_ATIME || has valid FATTR_MTIME
  then (time_spec valid FATTR_ATIME_NOW FATTR_ATIME atime ansec, time_spec valid FATTR_MTIME_NOW FATTR_MTIME mtime mnsec)
  else (TKeep, TKeep).
Definition tv_eqb (a b : tv) : bool :=
  match a, b with
  | TKeep, TKeep => true | TNow, TNow => true
  | TSet s n, TSet s' n' => (s =? s') && (n =? n')
  | _, _ => false
  end.
