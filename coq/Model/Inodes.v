(* Model of the passthrough inode table: src/passthrough/mod.rs (InodeData, InodeMap,
   allocate_inode, do_lookup, forget_one), inode_store.rs (InodeStore), util.rs
   (UniqueInodeGenerator) and the entry-returning requests of sync_io.rs.  Executable Gallina,
   no proofs.  Sequential semantics (one request at a time); the interleaving semantics of
   do_lookup/forget is Model/Conc.v.

   What the host answers (which file a name resolves to, whether a system call succeeds) is
   not modelled: every request carries the host's answer as data ([target], [option target],
   booleans), so a theorem quantified over all histories covers every host behaviour. *)
From Coq Require Import List NArith Bool.
Import ListNotations.
Local Open Scope N_scope.

(* ---------------------------------------------------------------- association lists *)
Section AMap.
  Context {K V : Type}.
  Variable eqb : K -> K -> bool.
  Fixpoint mget (m : list (K * V)) (k : K) : option V :=
    match m with
    | [] => None
    | (k', v) :: r => if eqb k k' then Some v else mget r k
    end.
  Fixpoint mdel (m : list (K * V)) (k : K) : list (K * V) :=
    match m with
    | [] => []
    | (k', v) :: r => if eqb k k' then mdel r k else (k', v) :: mdel r k
    end.
  Definition mset (m : list (K * V)) (k : K) (v : V) : list (K * V) := (k, v) :: mdel m k.
End AMap.

(* ---------------------------------------------------------------- constants *)
Definition U64MAX : N := 18446744073709551615.
Definition ROOT_ID : N := 1.
Definition MAX_HOST_INO : N := 140737488355327.          (* 0x7fff_ffff_ffff *)
Definition VFS_MAX_INO : N := 72057594037927935.         (* 0xff_ffff_ffff_ffff *)
Definition VIRTUAL_INODE_FLAG : N := 36028797018963968.  (* 1 << 55 *)
Definition EBADF : N := 9.
Definition ENOSYS : N := 38.

Definition sat_add (a b : N) : N := N.min (a + b) U64MAX.
Definition sat_sub (a b : N) : N := a - b.               (* N subtraction truncates at 0 *)
Definition wrap64 (a : N) : N := a mod 18446744073709551616.

(* ---------------------------------------------------------------- state *)
(* InodeId { ino, dev, mnt } *)
Definition hid : Type := (N * N * N)%type.
Definition hid_ino (h : hid) : N := fst (fst h).
Definition hid_dev (h : hid) : N := snd (fst h).
Definition hid_mnt (h : hid) : N := snd h.
Definition hid_eqb (a b : hid) : bool :=
  (hid_ino a =? hid_ino b) && (hid_dev a =? hid_dev b) && (hid_mnt a =? hid_mnt b).
Definition pair_eqb (a b : N * N) : bool := (fst a =? fst b) && (snd a =? snd b).

Record cfg := mkCfg { ifh : bool;      (* cfg.inode_file_handles *)
                      uhi : bool }.    (* cfg.use_host_ino *)

(* what the host says about the file a name resolves to: statx identity, the file handle
   name_to_handle_at returns (None: not supported), is_safe_inode(st_mode) *)
Record target := mkT { t_id : hid; t_fh : option N; t_safe : bool }.

(* InodeData: refcount, id, handle (Some h = InodeHandle::Handle, None = InodeHandle::File) *)
Record idata := mkI { i_rc : N; i_id : hid; i_fh : option N; i_safe : bool }.

Record istate := mkS {
  data : list (N * idata);            (* InodeStore.data *)
  by_id : list (hid * N);             (* InodeStore.by_id *)
  by_handle : list (N * N);           (* InodeStore.by_handle *)
  next_inode : N;                     (* PassthroughFs.next_inode *)
  uids : list ((N * N) * N);          (* UniqueInodeGenerator.dev_mntid_map *)
  next_uid : N;                       (* next_unique_id (AtomicU8) *)
  next_virt : N                       (* next_virtual_inode *)
}.

Definition dget (s : istate) (i : N) : option idata := mget N.eqb (data s) i.

Definition set_data (s : istate) d := mkS d (by_id s) (by_handle s) (next_inode s) (uids s) (next_uid s) (next_virt s).

(* ---------------------------------------------------------------- InodeStore / InodeMap *)
Definition get_by_handle (s : istate) (h : N) : option (N * idata) :=
  match mget N.eqb (by_handle s) h with
  | Some i => match dget s i with Some d => Some (i, d) | None => None end
  | None => None
  end.
Definition get_by_id (s : istate) (id : hid) : option (N * idata) :=
  match mget hid_eqb (by_id s) id with
  | Some i => match dget s i with Some d => Some (i, d) | None => None end
  | None => None
  end.
Definition is_none {A} (o : option A) : bool := match o with None => true | Some _ => false end.

(* InodeMap::get_alt_locked *)
Definition get_alt (s : istate) (id : hid) (fh : option N) : option (N * idata) :=
  match (match fh with Some h => get_by_handle s h | None => None end) with
  | Some r => Some r
  | None => match get_by_id s id with
            | Some (i, d) => if is_none fh || is_none (i_fh d) then Some (i, d) else None
            | None => None
            end
  end.

(* InodeMap::get_inode_locked *)
Definition get_inode_locked (s : istate) (id : hid) (fh : option N) : option N :=
  match fh with
  | Some h => mget N.eqb (by_handle s) h
  | None => mget hid_eqb (by_id s) id
  end.

(* InodeStore::insert *)
Definition insert (s : istate) (i : N) (d : idata) : istate :=
  mkS (mset N.eqb (data s) i d)
      (mset hid_eqb (by_id s) (i_id d) i)
      (match i_fh d with Some h => mset N.eqb (by_handle s) h i | None => by_handle s end)
      (next_inode s) (uids s) (next_uid s) (next_virt s).

(* InodeStore::remove(inode, remove_data_only) *)
Definition remove (s : istate) (i : N) (keep : bool) : istate :=
  match dget s i with
  | None => s
  | Some d =>
      if keep then set_data s (mdel N.eqb (data s) i)
      else mkS (mdel N.eqb (data s) i)
               (mdel hid_eqb (by_id s) (i_id d))
               (match i_fh d with Some h => mdel N.eqb (by_handle s) h | None => by_handle s end)
               (next_inode s) (uids s) (next_uid s) (next_virt s)
  end.

(* ---------------------------------------------------------------- number allocation *)
Definition enc_ino (u x : N) : N := N.lor (N.shiftl u 47) x.

(* UniqueInodeGenerator::get_unique_inode; None = io::Error *)
Definition get_unique_inode (s : istate) (id : hid) : option N * istate :=
  let k := (hid_dev id, hid_mnt id) in
  let r := match mget pair_eqb (uids s) k with
           | Some u => (Some u, s)
           | None => if next_uid s =? 255 then (None, s)
                     else (Some (next_uid s),
                           mkS (data s) (by_id s) (by_handle s) (next_inode s)
                               (mset pair_eqb (uids s) k (next_uid s)) ((next_uid s + 1) mod 256) (next_virt s))
           end in
  match r with
  | (None, s1) => (None, s1)
  | (Some u, s1) =>
      if hid_ino id <=? MAX_HOST_INO then (Some (enc_ino u (hid_ino id)), s1)
      else if MAX_HOST_INO <? next_virt s1 then (None, s1)
      else (Some (enc_ino u (N.lor (next_virt s1) VIRTUAL_INODE_FLAG)),
            mkS (data s1) (by_id s1) (by_handle s1) (next_inode s1) (uids s1) (next_uid s1) (wrap64 (next_virt s1 + 1)))
  end.

(* PassthroughFs::allocate_inode *)
Definition allocate_inode (c : cfg) (s : istate) (id : hid) (fh : option N) : option N * istate :=
  if negb (uhi c) then
    match get_inode_locked s id fh with
    | Some i => (Some i, s)
    | None => (Some (next_inode s),
               mkS (data s) (by_id s) (by_handle s) (wrap64 (next_inode s + 1)) (uids s) (next_uid s) (next_virt s))
    end
  else if MAX_HOST_INO <? hid_ino id then
    match get_inode_locked s id fh with
    | Some i => (Some i, s)
    | None => get_unique_inode s id
    end
  else get_unique_inode s id.

(* ---------------------------------------------------------------- do_lookup / forget_one *)
Inductive lres := LOk (ino : N) | LErr | LSpin.

Definition eff_fh (c : cfg) (t : target) : option N := if ifh c then t_fh t else None.

Definition set_rc (s : istate) (i : N) (d : idata) (rc : N) : istate :=
  set_data s (mset N.eqb (data s) i (mkI rc (i_id d) (i_fh d) (i_safe d))).

(* do_lookup after the host resolved the name to [t] (sequential: the second probe under the
   write lock sees what the first saw; to_openable_handle finds the live mount fd) *)
Definition do_lookup (c : cfg) (s : istate) (t : target) : lres * istate :=
  let fh := eff_fh c t in
  match get_alt s (t_id t) fh with
  | Some (i, d) =>
      if i_rc d =? 0 then (LSpin, s)                      (* 'search loop would retry for ever *)
      else (LOk i, set_rc s i d (sat_add (i_rc d) 1))
  | None =>
      match allocate_inode c s (t_id t) fh with
      | (None, s1) => (LErr, s1)
      | (Some i, s1) =>
          if VFS_MAX_INO <? i then (LErr, s1)
          else (LOk i, insert s1 i (mkI 1 (t_id t) fh (t_safe t)))
      end
  end.

Definition forget_one (c : cfg) (s : istate) (i count : N) : istate :=
  if i =? ROOT_ID then s
  else match dget s i with
       | None => s
       | Some d =>
           let new := sat_sub (i_rc d) count in
           if new =? 0 then remove s i (negb (uhi c) || (MAX_HOST_INO <? hid_ino (i_id d)))
           else set_rc s i d new
       end.

(* ---------------------------------------------------------------- requests *)
Inductive op :=
| OLookup (parent : N) (t : option target)          (* lookup; None: the host did not resolve the name *)
| OEntry (parent : N) (t : option target)           (* mkdir / mknod / symlink: system call, then do_lookup; None: the call failed *)
| OLink (ino parent : N) (t : option target)        (* link *)
| OCreate (parent : N) (t : option target) (existed open_ok : bool)   (* the inode side of create *)
| OForget (ino count : N)
| OBatchForget (l : list (N * N))
| OReaddir (plus : bool) (ents : list (target * bool))   (* entries passed to add_entry, with "delivered" *)
| ONop                                              (* rename, unlink, rmdir, getattr, ...: no table access that changes state *)
| ODestroy (root : target).                         (* destroy(): clear + import() *)

Inductive reply :=
| RIno (i : N)                 (* an entry was returned to the client *)
| RErr (e : N)                 (* an error produced by the tables (EBADF) *)
| RHostErr                     (* an error passed on from the host / allocation *)
| RSpin
| REnts (l : list (N * bool))  (* readdir(plus): numbers, delivered *)
| RUnit.

Definition valid (s : istate) (i : N) : bool := negb (is_none (dget s i)).

Definition lookup_reply (c : cfg) (s : istate) (t : target) : reply * istate :=
  match do_lookup c s t with
  | (LOk i, s1) => (RIno i, s1)
  | (LErr, s1) => (RHostErr, s1)
  | (LSpin, s1) => (RSpin, s1)
  end.

(* one directory entry of readdir / readdirplus (the closures in sync_io.rs):
   do_lookup, then forget_one(ino,1) unless (plus and delivered) *)
Definition readdir_entry (c : cfg) (plus : bool) (s : istate) (e : target * bool)
  : option (N * bool) * istate :=
  match do_lookup c s (fst e) with
  | (LOk i, s1) => (Some (i, snd e), if plus && snd e then s1 else forget_one c s1 i 1)
  | (_, s1) => (None, s1)
  end.

Fixpoint readdir_entries (c : cfg) (plus : bool) (s : istate) (ents : list (target * bool))
  : list (N * bool) * istate :=
  match ents with
  | [] => ([], s)
  | e :: r =>
      match readdir_entry c plus s e with
      | (Some x, s1) => let (l, s2) := readdir_entries c plus s1 r in (x :: l, s2)
      | (None, s1) => ([], s1)       (* do_lookup failed: do_readdir stops *)
      end
  end.

Definition import (s : istate) (c : cfg) (root : target) : istate :=
  insert s ROOT_ID (mkI 2 (t_id root) (eff_fh c root) (t_safe root)).

Definition empty_state : istate := mkS [] [] [] 2 [] 1 2.
Definition fresh (c : cfg) (root : target) : istate := import empty_state c root.

Definition step (c : cfg) (s : istate) (o : op) : reply * istate :=
  match o with
  | OLookup p t | OEntry p t =>
      if valid s p then match t with Some t => lookup_reply c s t | None => (RHostErr, s) end
      else (RErr EBADF, s)
  | OLink i p t =>
      if valid s i && valid s p then match t with Some t => lookup_reply c s t | None => (RHostErr, s) end
      else (RErr EBADF, s)
  | OCreate p t existed open_ok =>
      if valid s p then
        match t with
        | None => (RHostErr, s)
        | Some t =>
            match lookup_reply c s t with
            | (RIno i, s1) =>
                if existed then
                  (* open_inode(entry.inode): is_safe_inode, then the host open; on failure the
                     reference taken by do_lookup is given back (forget_one(entry.inode, 1)) *)
                  match dget s1 i with
                  | Some d => if i_safe d then (if open_ok then (RIno i, s1) else (RHostErr, forget_one c s1 i 1))
                              else (RErr EBADF, forget_one c s1 i 1)
                  | None => (RErr EBADF, forget_one c s1 i 1)
                  end
                else (RIno i, s1)
            | r => r
            end
        end
      else (RErr EBADF, s)
  | OForget i n => (RUnit, forget_one c s i n)
  | OBatchForget l => (RUnit, fold_left (fun s x => forget_one c s (fst x) (snd x)) l s)
  | OReaddir plus ents => let (l, s1) := readdir_entries c plus s ents in (REnts l, s1)
  | ONop => (RUnit, s)
  | ODestroy root =>
      (RUnit, import (mkS [] [] [] (next_inode s) (uids s) (next_uid s) (next_virt s)) c root)
  end.

Fixpoint run (c : cfg) (s : istate) (h : list op) : list reply * istate :=
  match h with
  | [] => ([], s)
  | o :: r => let (rep, s1) := step c s o in let (l, s2) := run c s1 r in (rep :: l, s2)
  end.

(* ---------------------------------------------------------------- the abstract specification *)
(* the client's ledger: references it holds per inode number *)
Definition refs_of (s : istate) (i : N) : N :=
  match dget s i with Some d => i_rc d | None => 0 end.

Definition upd (f : N -> N) (i v : N) : N -> N := fun j => if j =? i then v else f j.

Definition spec_forget (f : N -> N) (i n : N) : N -> N :=
  if i =? ROOT_ID then f else upd f i (f i - N.min n (f i)).

Definition spec_give (f : N -> N) (i : N) : N -> N := upd f i (sat_add (f i) 1).

(* one directory entry passed to add_entry: the reference is kept only by readdirplus for a
   delivered entry, otherwise it is given back at once *)
Definition spec_ent (plus : bool) (f : N -> N) (x : N * bool) : N -> N :=
  if plus && snd x then spec_give f (fst x) else spec_forget (spec_give f (fst x)) (fst x) 1.

Definition spec_step (f : N -> N) (o : op) (r : reply) : N -> N :=
  match o, r with
  | ODestroy _, _ => fun j => if j =? ROOT_ID then 2 else 0
  | OForget i n, _ => spec_forget f i n
  | OBatchForget l, _ => fold_left (fun f x => spec_forget f (fst x) (snd x)) l f
  | OReaddir plus _, REnts l => fold_left (spec_ent plus) l f
  | _, RIno i => spec_give f i
  | _, _ => f
  end.

(* create on a name that already exists whose open_inode fails: the reference do_lookup took on
   this number is given back before the error is returned (it used to be kept: defect D9, fixed) *)
Definition create_undo (c : cfg) (s : istate) (o : op) : option N :=
  match o with
  | OCreate p (Some t) true ok =>
      if valid s p then
        match lookup_reply c s t with
        | (RIno i, _) => match fst (step c s o) with RIno _ => None | _ => Some i end
        | _ => None
        end
      else None
  | _ => None
  end.

(* what the table does in that case, on the ledger: +1 then -1 on the same number (identity except
   for the root, which cannot be forgotten, and at saturation) *)
Definition spec_step_u (f : N -> N) (o : op) (r : reply) (u : option N) : N -> N :=
  match u with
  | Some i => spec_forget (spec_give f i) i 1
  | None => spec_step f o r
  end.

(* ---------------------------------------------------------------- observation used by the tie *)
Definition sizes (s : istate) : N * N * N :=
  (N.of_nat (length (data s)), N.of_nat (length (by_id s)), N.of_nat (length (by_handle s))).

(* ---------------------------------------------------------------- comparison with a run of the implementation *)
Inductive oreply := OOk (i : N) | OErrno (e : N) | OEnts (l : list (N * bool)) | OUnit.

Fixpoint ents_eqb (a b : list (N * bool)) : bool :=
  match a, b with
  | [], [] => true
  | (i, x) :: r, (j, y) :: r' => (i =? j) && Bool.eqb x y && ents_eqb r r'
  | _, _ => false
  end.

Definition reply_matches (m : reply) (o : oreply) : bool :=
  match m, o with
  | RIno i, OOk j => i =? j
  | RErr e, OErrno e' => e =? e'
  | RHostErr, OErrno _ => true
  | REnts l, OEnts l' => ents_eqb l l'
  | RUnit, OUnit => true
  | _, _ => false
  end.

Definition opt_eqb (a b : option N) : bool :=
  match a, b with Some x, Some y => x =? y | None, None => true | _, _ => false end.

(* observed after a request: reply, for every number ever issued its lookup count (None: getattr
   says EBADF), table sizes *)
Definition obs : Type := (oreply * list (N * option N) * (N * N * N))%type.

Definition state_matches (s : istate) (o : obs) : bool :=
  forallb (fun p => opt_eqb (option_map i_rc (dget s (fst p))) (snd p)) (snd (fst o)) &&
  (let '(a, b, c) := sizes s in let '(a', b', c') := snd o in (a =? a') && (b =? b') && (c =? c')).

Fixpoint first_mismatch (c : cfg) (s : istate) (h : list (op * obs)) (n : N) : option N :=
  match h with
  | [] => None
  | (o, ob) :: r =>
      let (rep, s1) := step c s o in
      if reply_matches rep (fst (fst ob)) && state_matches s1 ob then first_mismatch c s1 r (n + 1)
      else Some n
  end.

(* the ledger after a whole history, driven by the replies the client received *)
Fixpoint spec_run (f : N -> N) (h : list op) (reps : list reply) : N -> N :=
  match h, reps with
  | o :: h', r :: reps' => spec_run (spec_step f o r) h' reps'
  | _, _ => f
  end.

Definition count_delivered (l : list (N * bool)) (j : N) : N :=
  N.of_nat (length (filter (fun x => (fst x =? j) && snd x) l)).
