(* Model of src/api/pseudo_fs.rs: the pseudo directory tree of the VFS.
   Executable Gallina, no proofs.  Written line by line from the Rust source:
   - inode table = HashMap<u64, Arc<PseudoInode>>  -> association list keyed by ino
   - PseudoInode.children (Vec<Arc<PseudoInode>>, shared objects, immutable ino/name)
       -> list of (ino, name) stored with the parent's table entry
   - unwrap()/index panics are explicit [Panic] outcomes
   - next_inode: AtomicU64::fetch_add wraps mod 2^64
   Names: a path component / child name "n<k>" is the key [k : N]; the root's name "/" can
   never equal a component (std::path never yields a component containing '/'), it is
   represented by [root_name]; the generator only uses keys >= 1. *)
From Coq Require Import List NArith Bool.
Import ListNotations.
Local Open Scope N_scope.

(* ---------- outcomes ---------- *)
Inductive err := Errno (n : N) | EOther.          (* io::Error with / without raw_os_error *)
Inductive outcome (A : Type) := Ok (a : A) | Err (e : err) | Panic.
Arguments Ok {A} a. Arguments Err {A} e. Arguments Panic {A}.

Definition EINVAL := Errno 22.
Definition ENOENT := Errno 2.
Definition ENOSYS := Errno 38.

Definition bind {A B} (o : outcome A) (f : A -> outcome B) : outcome B :=
  match o with Ok a => f a | Err e => Err e | Panic => Panic end.

(* ---------- association maps keyed by N ---------- *)
Definition amap (V : Type) := list (N * V).
Fixpoint aget {V} (k : N) (m : amap V) : option V :=
  match m with [] => None | (k', v) :: r => if k =? k' then Some v else aget k r end.
Fixpoint adel {V} (k : N) (m : amap V) : amap V :=
  match m with [] => [] | (k', v) :: r => if k =? k' then adel k r else (k', v) :: adel k r end.
Definition aset {V} (k : N) (v : V) (m : amap V) : amap V := (k, v) :: adel k m.

(* ---------- names ---------- *)
Inductive name :=
| NDot | NDotDot            (* "." and ".." *)
| NSlash (k : N)            (* a name containing '/' *)
| NBad (k : N)              (* a name that is not UTF-8 (and has no '/') *)
| NNorm (k : N).            (* any other name, "n<k>" *)

Inductive comp := CParent | CNorm (k : N).        (* std::path components after RootDir/CurDir are skipped *)
Record path := mkPath { p_rooted : bool; p_comps : list comp }.

(* ---------- state ---------- *)
Record pinode := mkPi { pi_parent : N; pi_name : N; pi_children : list (N * N) (* ino, name *) }.
Record pseudo := mkPs { ps_next : N; ps_inodes : amap pinode }.

Definition ROOT_ID := 1.
Definition root_name := 0.
Definition two64 := 18446744073709551616.
Definition ps_new : pseudo := mkPs 2 [(ROOT_ID, mkPi ROOT_ID root_name [])].

Fixpoint find_child (nm : N) (cs : list (N * N)) : option N :=
  match cs with [] => None | (i, n) :: r => if n =? nm then Some i else find_child nm r end.

(* create_inode: new_inode (fetch_add), insert_inode, parent.insert_child (push at the end) *)
Definition ps_create (s : pseudo) (parent : N) (pn : pinode) (nm : N) : pseudo * N :=
  let ino := ps_next s in
  let tbl := aset ino (mkPi parent nm []) (ps_inodes s) in
  let tbl := aset parent (mkPi (pi_parent pn) (pi_name pn) (pi_children pn ++ [(ino, nm)])) tbl in
  (mkPs ((ino + 1) mod two64) tbl, ino).

(* PseudoFs::mount: walk from the root, creating missing components *)
Fixpoint ps_mount_walk (s : pseudo) (cur : N) (cs : list comp) : outcome (pseudo * N) :=
  match cs with
  | [] => Ok (s, cur)
  | c :: r =>
    match aget cur (ps_inodes s) with
    | None => Panic                                  (* cur always came from inodes.get(..).unwrap() *)
    | Some pn =>
      match c with
      | CParent =>
        match aget (pi_parent pn) (ps_inodes s) with
        | None => Panic                              (* inodes.get(&inode.parent).unwrap() *)
        | Some _ => ps_mount_walk s (pi_parent pn) r
        end
      | CNorm k =>
        match find_child k (pi_children pn) with
        | Some ci =>
          match aget ci (ps_inodes s) with
          | None => Panic                            (* inodes.get(&child.ino).unwrap() *)
          | Some _ => ps_mount_walk s ci r
          end
        | None => let '(s', ino) := ps_create s cur pn k in ps_mount_walk s' ino r
        end
      end
    end
  end.

Definition ps_mount (s : pseudo) (p : path) : outcome (pseudo * N) :=
  if p_rooted p then ps_mount_walk s ROOT_ID (p_comps p) else Err EINVAL.

(* PseudoFs::path_walk *)
Fixpoint ps_walk (s : pseudo) (cur : N) (cs : list comp) : outcome (option N) :=
  match cs with
  | [] => Ok (Some cur)
  | c :: r =>
    match aget cur (ps_inodes s) with
    | None => Panic
    | Some pn =>
      match c with
      | CParent =>
        match aget (pi_parent pn) (ps_inodes s) with
        | None => Panic
        | Some _ => ps_walk s (pi_parent pn) r
        end
      | CNorm k =>
        match find_child k (pi_children pn) with
        | Some ci =>
          match aget ci (ps_inodes s) with
          | None => Panic
          | Some _ => ps_walk s ci r
          end
        | None => Ok None
        end
      end
    end
  end.

Definition ps_path_walk (s : pseudo) (p : path) : outcome (option N) :=
  if p_rooted p then ps_walk s ROOT_ID (p_comps p) else Err EINVAL.

Definition ps_parent (s : pseudo) (ino : N) : option N :=
  option_map pi_parent (aget ino (ps_inodes s)).

(* remove_child: position(|x| x.name == child.name).map(remove).unwrap() *)
Fixpoint remove_first_named (nm : N) (cs : list (N * N)) : option (list (N * N)) :=
  match cs with
  | [] => None
  | (i, n) :: r => if n =? nm then Some r
                   else match remove_first_named nm r with Some r' => Some ((i, n) :: r') | None => None end
  end.

(* PseudoFs::evict_inode *)
Definition ps_evict (s : pseudo) (ino : N) : outcome pseudo :=
  match aget ino (ps_inodes s) with
  | None => Panic
  | Some pn =>
    if ino =? pi_parent pn then Ok s
    else match aget (pi_parent pn) (ps_inodes s) with
         | None => Panic
         | Some par =>
           match remove_first_named (pi_name pn) (pi_children par) with
           | None => Panic
           | Some cs =>
             let tbl := aset (pi_parent pn) (mkPi (pi_parent par) (pi_name par) cs) (ps_inodes s) in
             Ok (mkPs (ps_next s) (adel ino tbl))
           end
         end
  end.

(* FileSystem for PseudoFs :: lookup -> inode number of the entry (get_entry(ino): inode = st_ino = ino,
   uid = gid = 0) *)
Definition ps_lookup (s : pseudo) (parent : N) (nm : name) : outcome N :=
  match aget parent (ps_inodes s) with
  | None => Err ENOENT
  | Some pn =>
    match nm with
    | NBad _ => Err EINVAL
    | _ =>
      let ino := match nm with
                 | NDot => parent
                 | NDotDot => pi_parent pn
                 | NNorm k => match find_child k (pi_children pn) with Some i => i | None => 0 end
                 | _ => 0
                 end in
      if ino =? 0 then Err ENOENT else Ok ino
    end
  end.

Definition ps_getattr (s : pseudo) (ino : N) : outcome N :=
  match aget ino (ps_inodes s) with None => Err ENOENT | Some _ => Ok ino end.

(* do_readdir: the entries handed to add_entry, (ino, name, offset); [cb] is the callback of the caller
   (Ok n with n = 0 stops, Err aborts).  Here only the candidate list is produced; the callback is applied
   by the VFS model. *)
Fixpoint number_from (next : N) (cs : list (N * N)) : list (N * N * N) :=
  match cs with [] => [] | (i, n) :: r => (i, n, next) :: number_from (next + 1) r end.

Definition ps_readdir (s : pseudo) (ino size offset : N) : outcome (list (N * N * N)) :=
  if size =? 0 then Ok []
  else match aget ino (ps_inodes s) with
       | None => Err ENOENT
       | Some pn =>
         if two64 <=? offset + 1 then Panic                      (* let mut next = offset + 1 *)
         else if N.of_nat (length (pi_children pn)) <=? offset then Ok []
         else Ok (number_from (offset + 1) (skipn (N.to_nat offset) (pi_children pn)))
       end.
