(* Model of the persist feature: src/api/vfs/mod.rs `mod persist` (save_to_bytes /
   restore_from_bytes) and src/api/pseudo_fs.rs `mod persist` (save_to_bytes / restore_from_state).
   The byte format (versionize / dbs-snapshot) is not modelled: a saved state is the value of
   VfsState / PseudoFsState; a version-1 snapshot is one without mount_id_mappings.
   Executable Gallina, no proofs. *)
From Coq Require Import List NArith Bool.
From FB Require Import Model.Pseudo Gen.VfsTable Model.Vfs.
Import ListNotations.
Local Open Scope N_scope.

Record pstate := mkPst {
  st_opts : vopts;                         (* VfsOptionsState *)
  st_next_inode : N;                       (* PseudoFsState.next_inode *)
  st_inodes : list (N * N * N);            (* PseudoInodeState: ino, parent, name; root excluded; HashMap order *)
  st_next_super : N;
  st_maps : option (amap mapping) }.       (* version >= 2; None = version-1 snapshot *)

Definition save_inodes (ps : pseudo) : list (N * N * N) :=
  map (fun kv => (fst kv, pi_parent (snd kv), pi_name (snd kv)))
      (filter (fun kv => negb (fst kv =? ROOT_ID)) (ps_inodes ps)).

(* Vfs::save_to_bytes *)
Definition vfs_save (s : vfs) : pstate :=
  mkPst (v_opts s) (ps_next (v_ps s)) (save_inodes (v_ps s)) (v_next s) (Some (v_maps s)).
(* what a binary of the previous format version wrote (hook verif_save_to_bytes_at(1)) *)
Definition as_v1 (st : pstate) : pstate :=
  mkPst (st_opts st) (st_next_inode st) (st_inodes st) (st_next_super st) None.

(* sort_by(|a, b| a.ino.cmp(&b.ino)): stable insertion sort *)
Fixpoint ins_by_ino (x : N * N * N) (l : list (N * N * N)) : list (N * N * N) :=
  match l with
  | [] => [x]
  | y :: r => if fst (fst x) <? fst (fst y) then x :: y :: r else y :: ins_by_ino x r
  end.
Definition sort_by_ino (l : list (N * N * N)) : list (N * N * N) := fold_right ins_by_ino [] l.

(* restore_from_state: build all inodes, add the root object, connect children in ino order *)
Fixpoint connect (tbl : amap pinode) (l : list (N * N * N)) : outcome (amap pinode) :=
  match l with
  | [] => Ok tbl
  | (ino, parent, nm) :: r =>
    match aget ino tbl with
    | None => Err EOther
    | Some _ =>
      match aget parent tbl with
      | None => Err EOther                       (* "invalid parent inode" *)
      | Some par => connect (aset parent (mkPi (pi_parent par) (pi_name par) (pi_children par ++ [(ino, nm)])) tbl) r
      end
    end
  end.

Definition ps_restore (target : pseudo) (st : pstate) : outcome pseudo :=
  let fresh := fold_left (fun t x => let '(ino, parent, nm) := x in aset ino (mkPi parent nm []) t) (st_inodes st) [] in
  match aget ROOT_ID (ps_inodes target) with
  | None => Panic
  | Some root =>
    let tbl := aset ROOT_ID root fresh in
    bind (connect tbl (sort_by_ino (st_inodes st))) (fun tbl' => Ok (mkPs (st_next_inode st) tbl'))
  end.

(* Vfs::restore_from_bytes on the Vfs [t]: options, initialized, next_super, per-mount mappings are stored
   first, then the pseudo fs is rebuilt (an error there leaves the earlier stores in place).
   Vfs.id_mapping (the global mapping) and remove_pseudo_root are fields of [t] and are not touched. *)
Definition vfs_restore (t : vfs) (st : pstate) : vfs * outcome unit :=
  let maps := match st_maps st with Some m => m | None => [] end in
  let t1 := mkV (st_next_super st) (v_ps t) (v_mps t) (v_sb t) maps (st_opts st)
                (negb (o_in (st_opts st) =? 0)) (v_rm t) (v_gmap t) in
  match ps_restore (v_ps t) st with
  | Ok ps' => (with_ps t1 ps', Ok tt)
  | Err e => (t1, Err e)
  | Panic => (t1, Panic)
  end.
