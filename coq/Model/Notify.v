(* Model of the three notification builders of src/api/server/sync_io.rs
   (notify_inval_entry, notify_inval_inode, notify_resend) on a FuseDevWriter of capacity [cap].
   Each does w.split_at(0), writes header / body / name into the (buffered) second half and
   commits it: one write on the fd.  No proofs here. *)
From Coq Require Import List String NArith Bool.
From FB Require Import Lib.Bytes Model.Server.
Import ListNotations.
Local Open Scope N_scope.

Inductive notify :=
| NInvalEntry (parent : N) (name : bytes)      (* name: the CStr bytes without the NUL *)
| NInvalInode (ino off len : N)
| NResend.

Definition NOTIFY_INVAL_INODE : N := 2.
Definition NOTIFY_INVAL_ENTRY : N := 3.
Definition NOTIFY_RESEND : N := 7.

(* the message each builder composes *)
Definition notify_msg (n : notify) : bytes :=
  match n with
  | NInvalEntry parent name =>
    let nl := blen name + 1 in
    out_header (16 + 16 + nl) NOTIFY_INVAL_ENTRY 0 ++ enc 8 parent ++ enc 4 (nl - 1) ++ enc 4 0 ++ name ++ [0]
  | NInvalInode ino off len =>
    out_header (16 + 24) NOTIFY_INVAL_INODE 0 ++ enc 8 ino ++ enc 8 off ++ enc 8 len
  | NResend => out_header 16 NOTIFY_RESEND 0
  end.

(* the pieces are written one after another into the buffered writer; any piece that does not
   fit fails the call (FailedToWrite) and nothing reaches the fd *)
Definition notify_pieces (n : notify) : list bytes :=
  match n with
  | NInvalEntry parent name =>
    let nl := blen name + 1 in
    [out_header (16 + 16 + nl) NOTIFY_INVAL_ENTRY 0; enc 8 parent ++ enc 4 (nl - 1) ++ enc 4 0; name ++ [0]]
  | NInvalInode ino off len =>
    [out_header (16 + 24) NOTIFY_INVAL_INODE 0; enc 8 ino ++ enc 8 off ++ enc 8 len]
  | NResend => [out_header 16 NOTIFY_RESEND 0]
  end.

Fixpoint write_pieces (w : writer) (ps : list bytes) : option writer :=
  match ps with
  | [] => Some w
  | p :: r => match w_write w p with WOk (w', _) => write_pieces w' r | _ => None end
  end.

(* result: Some packets (one write call) or None = Err(FailedToWrite) *)
Definition run_notify (cap : N) (n : notify) : option (list packet) :=
  match w_split (fresh FuseDev cap) 0 with
  | None => None
  | Some (_, w2) =>
    match write_pieces w2 (notify_pieces n) with
    | None => None
    | Some w2' => Some (w_commit w2' None)
    end
  end.
