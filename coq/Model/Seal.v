(* Model/Seal.v -- executable model of size sealing in the passthrough file system (C18).
   Line-by-line from
     src/passthrough/mod.rs      seal_size_check
     src/passthrough/sync_io.rs  write (get_data, check_fd_flags, seal check, pwrite),
                                 fallocate, setattr (SIZE refusal), open / do_open / open_inode,
                                 create on an existing name, release
   over a model of the host's file-size semantics (pwrite with/without O_APPEND, O_TRUNC on
   open, fallocate modes, ftruncate).  Only regular files that already exist are modelled.

   Flag words are carried whole (32 bits): [openat_word] is the word that open_inode hands to openat(2)
   and [setfl_word] the word that check_fd_flags hands to fcntl(F_SETFL), both as the code computes them
   from the word of the request (get_writeback_open_flags, allow_direct_io, O_CLOEXEC, the O_NOFOLLOW /
   O_CREAT masks of reopen_fd_through_proc); [host_open] / [host_setfl] say what linux does with every bit
   of such a word on an existing regular file (O_TRUNC truncates whatever the access mode; O_PATH,
   O_DIRECTORY, __O_TMPFILE; F_SETFL only changes status bits).  [io_open_flags] is the word with which
   READ / WRITE / FALLOCATE open their per-request descriptor under no_open.
   No proofs in this file. *)
From Coq Require Import List NArith Bool.
Import ListNotations.
Local Open Scope N_scope.

Definition EPERM : N := 1.
Definition EBADF : N := 9.
Definition EEXIST : N := 17.
Definition ENOTDIR : N := 20.
Definition EINVAL : N := 22.
Definition EFBIG : N := 27.
Definition ENOSYS : N := 38.
Definition EOPNOTSUPP : N := 95.
Definition U64_MAX : N := 18446744073709551615.
Definition I64_MAX : N := 9223372036854775807.

(* open(2) flag bits, x86_64 linux *)
Definition O_ACCMODE : N := 3.
Definition O_CREAT : N := 64.
Definition O_EXCL : N := 128.
Definition O_TRUNC : N := 512.
Definition O_APPEND : N := 1024.
Definition O_DIRECT : N := 16384.
Definition O_DIRECTORY : N := 65536.
Definition O_NOFOLLOW : N := 131072.
Definition O_CLOEXEC : N := 524288.
Definition O_PATH : N := 2097152.
Definition O_TMPFILE_BIT : N := 4194304.          (* __O_TMPFILE; O_TMPFILE = __O_TMPFILE | O_DIRECTORY *)
Definition has (flags bit : N) : bool := negb (N.land flags bit =? 0).
Definition acc_mode (flags : N) : N := N.land flags O_ACCMODE.   (* 0 RDONLY 1 WRONLY 2 RDWR *)

(* fallocate(2) mode bits *)
Definition FL_KEEP_SIZE : N := 1.
Definition FL_PUNCH_HOLE : N := 2.
Definition FL_COLLAPSE_RANGE : N := 8.
Definition FL_ZERO_RANGE : N := 16.
Definition FL_INSERT_RANGE : N := 32.
Definition FL_UNSHARE_RANGE : N := 64.
Definition clear_bits (x m : N) : N := N.ldiff x m.

(* ---------------------------------------------------------------- the host (oracle record) *)
Record host := mk_host {
  (* fallocate64(fd, mode, off, len) on an fd open for writing or not, file of the given size:
     (errno, new size) *)
  ho_falloc : bool -> N -> N -> N -> N -> N * N;
  (* largest file size the host file system accepts (s_maxbytes) *)
  ho_maxbytes : N
}.

(* pwrite(fd, buf, len, off): O_APPEND makes linux ignore [off] and append *)
Definition host_pwrite (H : host) (size : N) (append : bool) (off len : N) : N * N :=
  if I64_MAX <? off + len then (EINVAL, size)      (* pos < 0, or pos + count overflows loff_t *)
  else if len =? 0 then (0, size)
  else
    let pos := if append then size else off in
    if ho_maxbytes H <=? pos then (EFBIG, size)
    else (0, N.max size (N.min (pos + len) (ho_maxbytes H))).

(* ---------------------------------------------------------------- file system state *)
(* a host descriptor: access mode bits it was opened with (0 RDONLY, 1 WRONLY, 2 RDWR, 3 = neither readable nor
   writable), its O_APPEND status bit, whether it is an O_PATH descriptor *)
Record fdst := mk_fd { fd_acc : N; fd_append : bool; fd_path : bool }.
(* an open handle: inode, HandleData.flags (the client's word), the host fd *)
Record hdl := mk_hdl { hd_file : N; hd_flags : N; hd_fd : fdst }.
Definition fd_readable (fd : fdst) : bool := negb (fd_path fd) && ((fd_acc fd =? 0) || (fd_acc fd =? 2)).
Definition fd_writable (fd : fdst) : bool := negb (fd_path fd) && ((fd_acc fd =? 1) || (fd_acc fd =? 2)).
Record state := mk_state { sizes : N -> N; slots : N -> option hdl }.
(* which of the proposed refusals (fixes/C18-seal-size-trunc-append.patch) the source tree contains; read
   from the source by props/c18.py on every run and validated by the tie:
     fx_open   : do_open refuses O_TRUNC with EPERM under seal_size
     fx_create : create on an existing name refuses O_TRUNC with EPERM under seal_size
     fx_append : write refuses a non-empty write whose flags carry O_APPEND with EPERM under seal_size *)
Record fixes := mk_fixes { fx_open : bool; fx_create : bool; fx_append : bool }.
Definition no_fixes : fixes := mk_fixes false false false.
Definition all_fixes : fixes := mk_fixes true true true.

(* c_dio = Config::allow_direct_io *)
Record cfg := mk_cfg { c_seal : bool; c_no_open : bool; c_fx : fixes; c_writeback : bool; c_dio : bool }.

Inductive req : Type :=
| Open (slot file flags : N)
| Create (slot file flags : N)               (* CREATE on the existing name of [file] *)
| Read (slot file rflags : N)                 (* READ: its flag word goes through check_fd_flags too *)
| Write (slot file off len wflags : N)
| Fallocate (slot file mode off len : N)
| Setattr (file : N) (with_size : bool) (newsize : N) (fh : option N)   (* fh: FATTR_FH and the handle's slot *)
| Release (slot file : N).                    (* RELEASE of the handle on nodeid [file] *)

Definition set_size (s : state) (f v : N) : state :=
  mk_state (fun g => if g =? f then v else sizes s g) (slots s).
Definition set_slot (s : state) (k : N) (v : option hdl) : state :=
  mk_state (sizes s) (fun j => if j =? k then v else slots s j).

(* seal_size_check (mod.rs): 0 = Ok *)
Definition seal_size_check (is_write : bool) (file_size offset size mode : N) : N :=
  if U64_MAX <? offset + size then EINVAL
  else if is_write then (if file_size <? size + offset then EPERM else 0)
  else
    let op := clear_bits mode (N.lor FL_KEEP_SIZE FL_UNSHARE_RANGE) in
    if (op =? 0) || (op =? FL_PUNCH_HOLE) || (op =? FL_ZERO_RANGE)
    then (if file_size <? size + offset then EPERM else 0)
    else if (op =? FL_COLLAPSE_RANGE) || (op =? FL_INSERT_RANGE) then EPERM
    else EINVAL.

(* ---------------------------------------------------------------- flag words: what the code does with them *)
(* get_writeback_open_flags: with the writeback cache negotiated, O_WRONLY becomes O_RDWR and O_APPEND is
   cleared; every other bit of the word is kept *)
Definition wb_flags (wb : bool) (flags : N) : N :=
  let f1 := if wb && (acc_mode flags =? 1) then N.lor (clear_bits flags O_ACCMODE) 2 else flags in
  if wb && has flags O_APPEND then clear_bits f1 O_APPEND else f1.

(* open_inode(inode, flags) -> InodeHandle::open_file -> reopen_fd_through_proc: the word that reaches openat(2):
   get_writeback_open_flags, O_DIRECT dropped unless allow_direct_io, O_CLOEXEC added, O_NOFOLLOW and O_CREAT
   masked.  Every other bit of [flags] - O_TRUNC included - reaches the host. *)
Definition openat_word (wb dio : bool) (flags : N) : N :=
  let f := wb_flags wb flags in
  let f := if negb dio && has flags O_DIRECT then clear_bits f O_DIRECT else f in
  clear_bits (clear_bits (N.lor f O_CLOEXEC) O_NOFOLLOW) O_CREAT.

(* check_fd_flags: the word that reaches fcntl(fd, F_SETFL, .) *)
Definition setfl_word (wb dio : bool) (flags : N) : N :=
  let f := wb_flags wb flags in
  if negb dio then clear_bits f O_DIRECT else f.

(* get_data(handle, inode, flags) of READ (O_RDONLY), WRITE and FALLOCATE (O_RDWR): under no_open the descriptor
   is opened for this request with the handler's fixed access mode; the flag word of the request is NOT part of
   the word given to open_inode (it only goes to check_fd_flags afterwards) *)
Definition io_open_flags (access reqflags : N) : N := access.

(* ---------------------------------------------------------------- flag words: what the host does with them *)
(* openat(2) by root of an existing regular file (through /proc/self/fd/N): (errno, new size, descriptor).
   build_open_flags: O_PATH keeps only O_DIRECTORY|O_NOFOLLOW|O_CLOEXEC (so no truncation); __O_TMPFILE needs
   O_DIRECTORY and write access, else EINVAL; O_DIRECTORY on a regular file is ENOTDIR before any truncation;
   otherwise O_TRUNC truncates whatever the access mode, and the descriptor's O_APPEND is the word's *)
Definition no_fd : fdst := mk_fd 0 false false.
Definition host_open (size word : N) : N * N * fdst :=
  if has word O_PATH then
    (if has word O_DIRECTORY then (ENOTDIR, size, no_fd) else (0, size, mk_fd 3 false true))
  else if has word O_TMPFILE_BIT then
    (if has word O_DIRECTORY && negb (acc_mode word =? 0) then (ENOTDIR, size, no_fd) else (EINVAL, size, no_fd))
  else if has word O_DIRECTORY then (ENOTDIR, size, no_fd)
  else (0, (if has word O_TRUNC then 0 else size), mk_fd (acc_mode word) (has word O_APPEND) false).

(* fcntl(fd, F_SETFL, word): EBADF on an O_PATH descriptor; else only status bits change (O_APPEND here;
   O_NONBLOCK, O_NOATIME, O_DIRECT do not matter for sizes); access mode and every open-time bit (O_TRUNC,
   O_CREAT, O_EXCL, ...) of the word are ignored *)
Definition host_setfl (fd : fdst) (word : N) : N * fdst :=
  if fd_path fd then (EBADF, fd) else (0, mk_fd (fd_acc fd) (has word O_APPEND) false).

(* openat(dir, name, word) with O_CREAT|O_EXCL in [word], [name] an existing regular file (linux >= 6.4) *)
Inductive create_res := CrErr (e : N) | CrPath | CrExists.
Definition host_create_excl (word : N) : create_res :=
  if has word O_PATH then (if has word O_DIRECTORY then CrErr ENOTDIR else CrPath)   (* O_PATH drops O_CREAT|O_EXCL *)
  else if has word O_TMPFILE_BIT || has word O_DIRECTORY then CrErr EINVAL
  else CrExists.

(* ---------------------------------------------------------------- the handlers *)
Definition upd_size (s : state) (f v : N) : state := if v =? sizes s f then s else set_size s f v.

(* open_inode: (errno, state, descriptor) *)
Definition open_inode (C : cfg) (s : state) (file flags : N) : N * state * fdst :=
  let '(e, sz, fd) := host_open (sizes s file) (openat_word (c_writeback C) (c_dio C) flags) in
  (e, upd_size s file sz, fd).

(* get_data: the handle, or under no_open a fresh descriptor opened with [gd_flags] (HandleData.flags = gd_flags) *)
Definition get_data (C : cfg) (s : state) (slot file gd_flags : N) : N * state * option hdl :=
  if c_no_open C then
    let '(e, s1, fd) := open_inode C s file gd_flags in
    if e =? 0 then (0, s1, Some (mk_hdl file gd_flags fd)) else (e, s1, None)
  else match slots s slot with
       | Some h => if hd_file h =? file then (0, s, Some h) else (EBADF, s, None)
       | None => (EBADF, s, None)
       end.

(* check_fd_flags: fcntl(F_SETFL, setfl_word flags) when the stored word differs from the request's; the new
   word is stored only when the fcntl succeeded *)
Definition check_fd_flags (C : cfg) (h : hdl) (flags : N) : N * hdl :=
  if hd_flags h =? flags then (0, h)
  else let '(e, fd) := host_setfl (hd_fd h) (setfl_word (c_writeback C) (c_dio C) flags) in
       if e =? 0 then (0, mk_hdl (hd_file h) flags fd) else (e, h).

(* setattr: the handle named by FATTR_FH (ignored under no_open); None = handle of another inode / unknown *)
Definition setattr_data (C : cfg) (s : state) (file : N) (fh : option N) : option (option hdl) :=
  if c_no_open C then Some None
  else match fh with
       | None => Some None
       | Some k => match slots s k with
                   | Some h => if hd_file h =? file then Some (Some h) else None
                   | None => None
                   end
       end.

Definition step (H : host) (C : cfg) (s : state) (r : req) : N * state :=
  match r with
  | Open slot file flags =>
    if c_no_open C then (ENOSYS, s)
    else if fx_open (c_fx C) && c_seal C && has flags O_TRUNC then (EPERM, s)
    else let '(e, s1, fd) := open_inode C s file flags in
         if e =? 0 then (0, set_slot s1 slot (Some (mk_hdl file flags fd))) else (e, s1)
  | Create slot file flags =>
    (* create_file_excl(dir, name, get_writeback_open_flags(flags) | O_CREAT | O_EXCL): EEXIST -> error if O_EXCL,
       else open_inode(entry.inode, flags); an O_PATH word opens the existing file and counts as created *)
    let cflags := wb_flags (c_writeback C) flags in
    match host_create_excl (N.lor (N.lor cflags O_CREAT) O_EXCL) with
    | CrErr e => (e, s)
    | CrPath => if c_no_open C then (0, s) else (0, set_slot s slot (Some (mk_hdl file flags (mk_fd 3 false true))))
    | CrExists =>
      if has cflags O_EXCL then (EEXIST, s)
      else if fx_create (c_fx C) && c_seal C && has flags O_TRUNC then (EPERM, s)
      else let '(e, s1, fd) := open_inode C s file flags in
           if negb (e =? 0) then (e, s1)
           else if c_no_open C then (0, s1) else (0, set_slot s1 slot (Some (mk_hdl file flags fd)))
    end
  | Read slot file rflags =>
    match get_data C s slot file (io_open_flags 0 rflags) with
    | (e0, s0, None) => (e0, s0)
    | (_, s0, Some h0) =>
      let '(ef, h) := check_fd_flags C h0 rflags in
      let s1 := if c_no_open C then s0 else set_slot s0 slot (Some h) in
      if negb (ef =? 0) then (ef, s1)
      else if fd_readable (hd_fd h) then (0, s1) else (EBADF, s1)
    end
  | Write slot file off len wflags =>
    match get_data C s slot file (io_open_flags 2 wflags) with
    | (e0, s0, None) => (e0, s0)
    | (_, s0, Some h0) =>
      let '(ef, h) := check_fd_flags C h0 wflags in
      let s1 := if c_no_open C then s0 else set_slot s0 slot (Some h) in
      let chk := if c_seal C then seal_size_check true (sizes s0 file) off len 0 else 0 in
      if negb (ef =? 0) then (ef, s1)
      else if fx_append (c_fx C) && c_seal C && has wflags O_APPEND && negb (len =? 0) then (EPERM, s1)
      else if negb (chk =? 0) then (chk, s1)
      else if len =? 0 then (0, s1)                     (* nothing to copy: no pwrite is issued *)
      else if negb (fd_writable (hd_fd h)) then         (* fd not open for writing *)
        (if I64_MAX <? off then (EINVAL, s1) else (EBADF, s1))
      else let '(e, sz) := host_pwrite H (sizes s0 file) (fd_append (hd_fd h)) off len in
           (e, set_size s1 file sz)
    end
  | Fallocate slot file mode off len =>
    match get_data C s slot file (io_open_flags 2 0) with
    | (e0, s0, None) => (e0, s0)
    | (_, s0, Some h) =>
      let chk := if c_seal C then seal_size_check false (sizes s0 file) off len mode else 0 in
      if negb (chk =? 0) then (chk, s0)
      else if fd_path (hd_fd h) then (EBADF, s0)
      else let '(e, sz) := ho_falloc H (fd_writable (hd_fd h)) (sizes s0 file) mode off len in
           (e, set_size s0 file sz)
    end
  | Setattr file with_size newsize fh =>
    match setattr_data C s file fh with
    | None => (EBADF, s)
    | Some d =>
      if with_size && c_seal C then (EPERM, s)
      else
        let bad := match d with Some h => if fd_path (hd_fd h) then EBADF else if with_size && negb (fd_writable (hd_fd h)) then EINVAL else 0
                               | None => 0 end in        (* fchmod / ftruncate through the handle's descriptor *)
        if negb (bad =? 0) then (bad, s)
        else if with_size then
          (if ho_maxbytes H <? newsize then (EFBIG, s) else (0, set_size s file newsize))
        else (0, s)
    end
  | Release slot file =>
    if c_no_open C then (ENOSYS, s)
    else match slots s slot with
         | Some h => if hd_file h =? file then (0, set_slot s slot None) else (EBADF, s)   (* HandleMap::release checks the inode *)
         | None => (EBADF, s)
         end
  end.

Fixpoint run (H : host) (C : cfg) (s : state) (rs : list req) : list N * state :=
  match rs with
  | [] => ([], s)
  | r :: t => let '(e, s1) := step H C s r in
              let '(es, s2) := run H C s1 t in (e :: es, s2)
  end.

(* ---------------------------------------------------------------- a concrete linux/ext4 host for the tie *)
Definition BLK : N := 4096.
(* vfs_fallocate (linux 6.x) followed by ext4_fallocate *)
Definition linux_falloc (maxbytes : N) (writable : bool) (size mode off len : N) : N * N :=
  if (I64_MAX <? off) || (I64_MAX <? len) || (len =? 0) then (EINVAL, size)
  else if negb (N.land mode (N.lnot 127 64) =? 0) then (EOPNOTSUPP, size)
  else
    let keep := has mode FL_KEEP_SIZE in
    let op := clear_bits mode FL_KEEP_SIZE in
    (* switch (mode & FALLOC_FL_MODE_MASK) *)
    if negb ((op =? 0) || (op =? FL_UNSHARE_RANGE) || (op =? FL_ZERO_RANGE) || (op =? FL_PUNCH_HOLE)
             || (op =? FL_COLLAPSE_RANGE) || (op =? FL_INSERT_RANGE)) then (EOPNOTSUPP, size)
    else if (op =? FL_PUNCH_HOLE) && negb keep then (EOPNOTSUPP, size)
    else if ((op =? FL_COLLAPSE_RANGE) || (op =? FL_INSERT_RANGE)) && keep then (EOPNOTSUPP, size)
    else if negb writable then (EBADF, size)
    else if maxbytes <? off + len then (EFBIG, size)
    else if op =? FL_UNSHARE_RANGE then (EOPNOTSUPP, size)            (* ext4 *)
    else if op =? 0 then (0, if keep then size else N.max size (off + len))
    else if op =? FL_PUNCH_HOLE then (0, size)
    else if op =? FL_ZERO_RANGE then (0, if keep then size else N.max size (off + len))
    else if op =? FL_COLLAPSE_RANGE then
      (if negb ((off mod BLK =? 0) && (len mod BLK =? 0)) then (EINVAL, size)
       else if size <=? off + len then (EINVAL, size)
       else (0, size - len))
    else
      (if negb ((off mod BLK =? 0) && (len mod BLK =? 0)) then (EINVAL, size)
       else if size <=? off then (EINVAL, size)
       else if maxbytes <? size + len then (EFBIG, size)
       else (0, size + len)).

Definition ext4_maxbytes : N := 17592186040320.       (* 2^44 - 4096: ext4, 4 KiB blocks, extents *)
Definition tie_host : host := mk_host (linux_falloc ext4_maxbytes) ext4_maxbytes.

(* ---------------------------------------------------------------- running observed histories (tie) *)
Definition init_state (szs : list N) : state :=
  mk_state (fun f => nth (N.to_nat f) szs 0) (fun _ => None).

Fixpoint list_eqb (a b : list N) : bool :=
  match a, b with
  | [], [] => true
  | x :: a', y :: b' => (x =? y) && list_eqb a' b'
  | _, _ => false
  end.

(* an observation: request, observed errno, observed sizes of files 0..n-1 after the request ([Ob]: the same sizes
   as after the previous request - initially [prev]) *)
Inductive obs : Type :=
| Ob (r : req) (e : N)
| Oz (r : req) (e : N) (szs : list N).

Fixpoint hist_check (H : host) (C : cfg) (nfiles : nat) (s : state) (prev : list N) (cases : list obs) : bool :=
  match cases with
  | [] => true
  | o :: t =>
    let '(r, e, szs) := match o with Ob r e => (r, e, prev) | Oz r e z => (r, e, z) end in
    let '(e', s1) := step H C s r in
    (e' =? e) && list_eqb (map (fun i => sizes s1 (N.of_nat i)) (seq 0 nfiles)) szs
    && hist_check H C nfiles s1 szs t
  end.

(* ---------------------------------------------------------------- the deterministic flag block of the tie *)
(* the requests props/c18.py (flag_block) derives from a list of flag words, generated here from the same words so that a
   case file carries the words and the observed errnos only; position [i] of the word decides a few variations *)
Definition flag_block_word (no_open : bool) (f size : N) (i : nat) (w : N) : list req :=
  [Read 0 f w; Write 0 f (size - 1) 1 w; Write 0 f size 1 w; Open 2 f w] ++
  (if no_open then [] else
     [Write 2 f 0 1 w; Read 2 f w; Write 2 f (size - 1) 1 2; Fallocate 2 f 0 0 1; Fallocate 2 f 0 size 1;
      (if Nat.eqb (Nat.modulo i 3) 0 then Setattr f false 0 (Some 2) else Setattr f true (size + 1) (Some 2)); Release 2 f]) ++
  [Create 2 f w] ++
  (if no_open then
     (if Nat.eqb (Nat.modulo i 4) 0 then [Fallocate 0 f 0 0 1; Fallocate 0 f 0 size 1; Setattr f true (size - 1) (Some 0)] else [])
   else [Write 2 f (size - 1) (if Nat.even i then 2 else 1) w; Release 2 f]).

Fixpoint flag_block_from (no_open : bool) (f size : N) (i : nat) (ws : list N) : list req :=
  match ws with
  | [] => []
  | w :: t => flag_block_word no_open f size i w ++ flag_block_from no_open f size (S i) t
  end.

Definition flag_block (no_open : bool) (f size : N) (ws : list N) : list req :=
  (if no_open then [] else [Open 0 f 2]) ++ flag_block_from no_open f size 0 ws ++ (if no_open then [] else [Release 0 f]).

Fixpoint zip_ob (rs : list req) (es : list N) : option (list obs) :=
  match rs, es with
  | [], [] => Some []
  | r :: rt, e :: et => match zip_ob rt et with Some l => Some (Ob r e :: l) | None => None end
  | _, _ => None
  end.

(* the flag block of [ws] on file [f] was answered with the errnos [es] and no size ever differed from [prev] *)
Definition flag_check (H : host) (C : cfg) (nfiles : nat) (s : state) (prev : list N) (f size : N) (ws es : list N) : bool :=
  match zip_ob (flag_block (c_no_open C) f size ws) es with
  | Some l => hist_check H C nfiles s prev l
  | None => false
  end.
