(* Model/Seal.v -- executable model of size sealing in the passthrough file system (C18).
   Line-by-line from
     src/passthrough/mod.rs      seal_size_check
     src/passthrough/sync_io.rs  write (get_data, check_fd_flags, seal check, pwrite),
                                 fallocate, setattr (SIZE refusal), open / do_open / open_inode,
                                 create on an existing name, release
   over a model of the host's file-size semantics (pwrite with/without O_APPEND, O_TRUNC on
   open, fallocate modes, ftruncate).  Only regular files that already exist are modelled.
   No proofs in this file. *)
From Coq Require Import List NArith Bool.
Import ListNotations.
Local Open Scope N_scope.

Definition EPERM : N := 1.
Definition EBADF : N := 9.
Definition EEXIST : N := 17.
Definition EINVAL : N := 22.
Definition EFBIG : N := 27.
Definition ENOSYS : N := 38.
Definition EOPNOTSUPP : N := 95.
Definition U64_MAX : N := 18446744073709551615.
Definition I64_MAX : N := 9223372036854775807.

(* open(2) flag bits, x86_64 linux *)
Definition O_ACCMODE : N := 3.
Definition O_EXCL : N := 128.
Definition O_TRUNC : N := 512.
Definition O_APPEND : N := 1024.
Definition has (flags bit : N) : bool := negb (N.land flags bit =? 0).
Definition acc_mode (flags : N) : N := N.land flags O_ACCMODE.   (* 0 RDONLY 1 WRONLY 2 RDWR *)

(* fallocate(2) mode bits *)
Definition FL_KEEP_SIZE : N := 1.
Definition FL_PUNCH_HOLE : N := 2.
Definition FL_COLLAPSE_RANGE : N := 8.
Definition FL_ZERO_RANGE : N := 16.
Definition FL_INSERT_RANGE : N := 32.
Definition FL_UNSHARE_RANGE : N := 64.
Definition clear_bits (x m : N) : N := N.ldiff x m.

(* ---------------------------------------------------------------- the host (oracle record) *)
Record host := mk_host {
  (* fallocate64(fd, mode, off, len) on an fd open for writing or not, file of the given size:
     (errno, new size) *)
  ho_falloc : bool -> N -> N -> N -> N -> N * N;
  (* largest file size the host file system accepts (s_maxbytes) *)
  ho_maxbytes : N
}.

(* pwrite(fd, buf, len, off): O_APPEND makes linux ignore [off] and append *)
Definition host_pwrite (H : host) (size : N) (append : bool) (off len : N) : N * N :=
  if I64_MAX <? off + len then (EINVAL, size)      (* pos < 0, or pos + count overflows loff_t *)
  else if len =? 0 then (0, size)
  else
    let pos := if append then size else off in
    if ho_maxbytes H <=? pos then (EFBIG, size)
    else (0, N.max size (N.min (pos + len) (ho_maxbytes H))).

(* ---------------------------------------------------------------- file system state *)
(* an open handle: inode, HandleData.flags, access mode of the host fd, O_APPEND state of the host fd *)
Record hdl := mk_hdl { hd_file : N; hd_flags : N; hd_acc : N; hd_append : bool }.
Record state := mk_state { sizes : N -> N; slots : N -> option hdl }.
(* which of the proposed refusals (fixes/C18-seal-size-trunc-append.patch) the source tree contains; read
   from the source by props/c18.py on every run and validated by the tie:
     fx_open   : do_open refuses O_TRUNC with EPERM under seal_size
     fx_create : create on an existing name refuses O_TRUNC with EPERM under seal_size
     fx_append : write refuses a non-empty write whose flags carry O_APPEND with EPERM under seal_size *)
Record fixes := mk_fixes { fx_open : bool; fx_create : bool; fx_append : bool }.
Definition no_fixes : fixes := mk_fixes false false false.
Definition all_fixes : fixes := mk_fixes true true true.

Record cfg := mk_cfg { c_seal : bool; c_no_open : bool; c_fx : fixes; c_writeback : bool }.

Inductive req : Type :=
| Open (slot file flags : N)
| Create (slot file flags : N)               (* CREATE on the existing name of [file] *)
| Read (slot file rflags : N)                 (* READ: its flag word goes through check_fd_flags too *)
| Write (slot file off len wflags : N)
| Fallocate (slot file mode off len : N)
| Setattr (file : N) (with_size : bool) (newsize : N)
| Release (slot file : N).                    (* RELEASE of the handle on nodeid [file] *)

Definition set_size (s : state) (f v : N) : state :=
  mk_state (fun g => if g =? f then v else sizes s g) (slots s).
Definition set_slot (s : state) (k : N) (v : option hdl) : state :=
  mk_state (sizes s) (fun j => if j =? k then v else slots s j).

(* seal_size_check (mod.rs): 0 = Ok *)
Definition seal_size_check (is_write : bool) (file_size offset size mode : N) : N :=
  if U64_MAX <? offset + size then EINVAL
  else if is_write then (if file_size <? size + offset then EPERM else 0)
  else
    let op := clear_bits mode (N.lor FL_KEEP_SIZE FL_UNSHARE_RANGE) in
    if (op =? 0) || (op =? FL_PUNCH_HOLE) || (op =? FL_ZERO_RANGE)
    then (if file_size <? size + offset then EPERM else 0)
    else if (op =? FL_COLLAPSE_RANGE) || (op =? FL_INSERT_RANGE) then EPERM
    else EINVAL.

(* open_inode: reopen through /proc/self/fd with the client's flags (O_CREAT, O_NOFOLLOW
   stripped): O_TRUNC truncates an existing regular file whatever the access mode (root) *)
Definition open_effect (s : state) (file flags : N) : state :=
  if has flags O_TRUNC then set_size s file 0 else s.

(* get_writeback_open_flags: with the writeback cache negotiated, O_WRONLY is opened O_RDWR and O_APPEND is
   not passed to the host; HandleData keeps the client's flag word *)
Definition new_hdl (wb : bool) (file flags : N) : hdl :=
  mk_hdl file flags (if wb && (acc_mode flags =? 1) then 2 else acc_mode flags)
         (has flags O_APPEND && negb wb).

(* get_data: the handle, or under no_open a fresh O_RDWR fd on the inode *)
Definition get_data (C : cfg) (s : state) (slot file : N) : option hdl :=
  if c_no_open C then Some (mk_hdl file 2 2 false)
  else match slots s slot with
       | Some h => if hd_file h =? file then Some h else None
       | None => None
       end.

(* check_fd_flags: fcntl(F_SETFL, flags) when the stored flags differ; F_SETFL changes O_APPEND
   (and status flags that do not matter here), never the access mode *)
Definition check_fd_flags (wb : bool) (h : hdl) (flags : N) : hdl :=
  if hd_flags h =? flags then h
  else mk_hdl (hd_file h) flags (hd_acc h) (has flags O_APPEND && negb wb).   (* get_writeback_open_flags applies here too *)

Definition step (H : host) (C : cfg) (s : state) (r : req) : N * state :=
  match r with
  | Open slot file flags =>
    if c_no_open C then (ENOSYS, s)
    else if fx_open (c_fx C) && c_seal C && has flags O_TRUNC then (EPERM, s)
    else (0, set_slot (open_effect s file flags) slot (Some (new_hdl (c_writeback C) file flags)))
  | Create slot file flags =>
    (* create_file_excl fails with EEXIST: error if O_EXCL, else open_inode(entry.inode, flags) *)
    if has flags O_EXCL then (EEXIST, s)
    else if fx_create (c_fx C) && c_seal C && has flags O_TRUNC then (EPERM, s)
    else
      let s1 := open_effect s file flags in
      if c_no_open C then (0, s1) else (0, set_slot s1 slot (Some (new_hdl (c_writeback C) file flags)))
  | Read slot file rflags =>
    match get_data C s slot file with
    | None => (EBADF, s)
    | Some h0 =>
      let h := check_fd_flags (c_writeback C) h0 rflags in
      let s1 := if c_no_open C then s else set_slot s slot (Some h) in
      if hd_acc h =? 1 then (EBADF, s1) else (0, s1)        (* fd not open for reading *)
    end
  | Write slot file off len wflags =>
    match get_data C s slot file with
    | None => (EBADF, s)
    | Some h0 =>
      let h := check_fd_flags (c_writeback C) h0 wflags in
      let s1 := if c_no_open C then s else set_slot s slot (Some h) in
      let chk := if c_seal C then seal_size_check true (sizes s file) off len 0 else 0 in
      if fx_append (c_fx C) && c_seal C && has wflags O_APPEND && negb (len =? 0) then (EPERM, s1)
      else if negb (chk =? 0) then (chk, s1)
      else if len =? 0 then (0, s1)                     (* nothing to copy: no pwrite is issued *)
      else if hd_acc h =? 0 then                        (* fd not open for writing *)
        (if I64_MAX <? off then (EINVAL, s1) else (EBADF, s1))
      else let '(e, sz) := host_pwrite H (sizes s file) (hd_append h) off len in
           (e, set_size s1 file sz)
    end
  | Fallocate slot file mode off len =>
    match get_data C s slot file with
    | None => (EBADF, s)
    | Some h =>
      let chk := if c_seal C then seal_size_check false (sizes s file) off len mode else 0 in
      if negb (chk =? 0) then (chk, s)
      else let '(e, sz) := ho_falloc H (negb (hd_acc h =? 0)) (sizes s file) mode off len in
           (e, set_size s file sz)
    end
  | Setattr file with_size newsize =>
    if with_size && c_seal C then (EPERM, s)
    else if with_size then
      (if ho_maxbytes H <? newsize then (EFBIG, s) else (0, set_size s file newsize))
    else (0, s)
  | Release slot file =>
    if c_no_open C then (ENOSYS, s)
    else match slots s slot with
         | Some h => if hd_file h =? file then (0, set_slot s slot None) else (EBADF, s)   (* HandleMap::release checks the inode *)
         | None => (EBADF, s)
         end
  end.

Fixpoint run (H : host) (C : cfg) (s : state) (rs : list req) : list N * state :=
  match rs with
  | [] => ([], s)
  | r :: t => let '(e, s1) := step H C s r in
              let '(es, s2) := run H C s1 t in (e :: es, s2)
  end.

(* ---------------------------------------------------------------- a concrete linux/ext4 host for the tie *)
Definition BLK : N := 4096.
(* vfs_fallocate (linux 6.x) followed by ext4_fallocate *)
Definition linux_falloc (maxbytes : N) (writable : bool) (size mode off len : N) : N * N :=
  if (I64_MAX <? off) || (I64_MAX <? len) || (len =? 0) then (EINVAL, size)
  else if negb (N.land mode (N.lnot 127 64) =? 0) then (EOPNOTSUPP, size)
  else
    let keep := has mode FL_KEEP_SIZE in
    let op := clear_bits mode FL_KEEP_SIZE in
    (* switch (mode & FALLOC_FL_MODE_MASK) *)
    if negb ((op =? 0) || (op =? FL_UNSHARE_RANGE) || (op =? FL_ZERO_RANGE) || (op =? FL_PUNCH_HOLE)
             || (op =? FL_COLLAPSE_RANGE) || (op =? FL_INSERT_RANGE)) then (EOPNOTSUPP, size)
    else if (op =? FL_PUNCH_HOLE) && negb keep then (EOPNOTSUPP, size)
    else if ((op =? FL_COLLAPSE_RANGE) || (op =? FL_INSERT_RANGE)) && keep then (EOPNOTSUPP, size)
    else if negb writable then (EBADF, size)
    else if maxbytes <? off + len then (EFBIG, size)
    else if op =? FL_UNSHARE_RANGE then (EOPNOTSUPP, size)            (* ext4 *)
    else if op =? 0 then (0, if keep then size else N.max size (off + len))
    else if op =? FL_PUNCH_HOLE then (0, size)
    else if op =? FL_ZERO_RANGE then (0, if keep then size else N.max size (off + len))
    else if op =? FL_COLLAPSE_RANGE then
      (if negb ((off mod BLK =? 0) && (len mod BLK =? 0)) then (EINVAL, size)
       else if size <=? off + len then (EINVAL, size)
       else (0, size - len))
    else
      (if negb ((off mod BLK =? 0) && (len mod BLK =? 0)) then (EINVAL, size)
       else if size <=? off then (EINVAL, size)
       else if maxbytes <? size + len then (EFBIG, size)
       else (0, size + len)).

Definition ext4_maxbytes : N := 17592186040320.       (* 2^44 - 4096: ext4, 4 KiB blocks, extents *)
Definition tie_host : host := mk_host (linux_falloc ext4_maxbytes) ext4_maxbytes.

(* ---------------------------------------------------------------- running observed histories (tie) *)
Definition init_state (szs : list N) : state :=
  mk_state (fun f => nth (N.to_nat f) szs 0) (fun _ => None).

Fixpoint list_eqb (a b : list N) : bool :=
  match a, b with
  | [], [] => true
  | x :: a', y :: b' => (x =? y) && list_eqb a' b'
  | _, _ => false
  end.

(* cases: request, observed errno, observed sizes of files 0..n-1 after the request *)
Fixpoint hist_check (H : host) (C : cfg) (nfiles : nat) (s : state) (cases : list (req * N * list N)) : bool :=
  match cases with
  | [] => true
  | (r, e, szs) :: t =>
    let '(e', s1) := step H C s r in
    (e' =? e) && list_eqb (map (fun i => sizes s1 (N.of_nat i)) (seq 0 nfiles)) szs
    && hist_check H C nfiles s1 t
  end.
