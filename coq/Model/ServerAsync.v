(* Model of src/api/server/async_io.rs: Server::async_handle_message, its ten async handlers and
   its reply helpers (async_reply_ok, async_do_reply_error, async_handle_attr_result), plus the
   async writer primitives of src/transport/fusedev/mod.rs (async_write*, async_commit) they use.
   Written line by line from the Rust source in the style of Model/Server.v, whose definitions
   (decoders, encoders, sync handlers, writer model, [perform]) are reused: every opcode without an
   async handler falls back to the sync handler.  Executable Gallina, no proofs here.

   [buf0] = the content of the caller's reply buffer before the call.  It is observable on the
   async fusedev path because FuseDevWriter::async_commit lacks the `if !self.buffered` test of
   commit(): after an unbuffered pwrite it re-sends buf[..len], memory the data was never copied to. *)
From Coq Require Import List String NArith Bool.
From FB Require Import Lib.Bytes Gen.RustAsyncDispatch Model.Server Model.ServerCmp.
Import ListNotations.
Local Open Scope string_scope.
Local Open Scope list_scope.
Local Open Scope N_scope.

(* ------------------------------------------------------------------ actions of the async path *)
Inductive aaction :=
| ASync (a : action)                           (* the arm calls a sync handler: its action, run by [perform] *)
| AReplyOk (body : bytes)                      (* ctx.async_reply_ok(out, data) *)
| AReplyErr (errno : N) (after : option res)   (* ctx.async_do_reply_error on the unsplit writer *)
| AReplySplit (data : bytes)                   (* async_read: split_at(16), fs pushes [data]; async_write_all(header); async_commit(Some(data)) *)
| AReplySplitErr (errno : N).                  (* async_read: error reply through the buffered first half *)

Definition adecision := (list call * aaction)%type.
Definition ahandler_fn := config -> hdr -> N * N * N -> bytes -> fsres -> N -> adecision.

(* Six yes/no facts about the source that the translator (translator/server_async_dispatch.py ->
   Gen/RustAsyncDispatch.v) reads off on every run; the model is written over them, so that it keeps
   following the code when one of the defects they stand for (DESIGN.md section 4, D11, and the async_commit
   defect) is repaired.  [code_shape] is the code as it is. *)
Record shape := {
  sh_gate_capacity : bool;        (* the gate tests `ctx.w.available_bytes() < size_of::<OutHeader>()` *)
  sh_gate_exempts_forget : bool;  (* the gate returns without a reply for an oversized FORGET / BATCH_FORGET (as the sync gate does) *)
  sh_write_gate : bool;           (* async_write answers ENOMEM itself when size > MAX_BUFFER_SIZE *)
  sh_commit_skips : bool;         (* FuseDevWriter::async_commit starts with `if !self.buffered { return Ok(0) }` (as commit does) *)
  sh_lookup_badname : bool;       (* async_lookup answers EINVAL when the name has no NUL, before returning the decode error *)
  sh_create_badname : bool        (* async_create does *)
}.
Definition code_shape : shape :=
  {| sh_gate_capacity := rust_async_gate_checks_capacity;
     sh_gate_exempts_forget := rust_async_gate_exempts_forget;
     sh_write_gate := negb (rust_async_write_gate_errno =? 0);
     sh_commit_skips := rust_async_commit_skips_unbuffered;
     sh_lookup_badname := rust_async_lookup_badname_replies;
     sh_create_badname := rust_async_create_badname_replies |}.
(* both name-decoding async handlers answer a bad name (the sync handlers always do) *)
Definition names_answered (sh : shape) : bool := sh_lookup_badname sh && sh_create_badname sh.
(* the shape after the three patches of /verif/fixes/C20-*.patch *)
Definition fixed_shape : shape :=
  {| sh_gate_capacity := false; sh_gate_exempts_forget := true; sh_write_gate := false; sh_commit_skips := true;
     sh_lookup_badname := true; sh_create_badname := true |}.

(* an arm of the async dispatch that calls the sync handler *)
Definition fallback (f : handler_fn) : ahandler_fn := fun cfg h ctx r fr wcap =>
  let '(cs, a) := f cfg h ctx r fr wcap in (cs, ASync a).

Definition awith_obj (n : nat) (r : bytes) (k : bytes -> bytes -> adecision) : adecision :=
  match read_obj n r with
  | None => ([], ASync (NoReply (RErr EDecodeMessage)))
  | Some (s, r') => k s r'
  end.

(* get_message_body then bytes_to_cstr; on a bad name: async_reply_error(EINVAL), return Err(e) *)
Definition awith_name (answers : bool) (r : bytes) (hlen sub : N) (k : bytes -> adecision) : adecision :=
  match get_message_body r hlen sub with
  | inl e => ([], ASync (NoReply e))
  | inr buf =>
    match bytes_to_cstr buf with
    | None => if answers then ([], AReplyErr EINVAL (Some (RErr EInvalidCString)))
              else ([], ASync (NoReply (RErr EInvalidCString)))      (* `.map_err(..)?`: the error is returned, nothing is sent *)
    | Some name => k name
    end
  end.

Definition aunit_reply (fr : fsres) : aaction :=
  match fr with FErr e => AReplyErr (errno_of e) None | _ => AReplyOk [] end.
(* async_handle_attr_result *)
Definition aattr_reply (fr : fsres) : aaction :=
  match fr with
  | FErr e => AReplyErr (errno_of e) None
  | FAttr st s n => AReplyOk (attr_out st s n)
  | _ => AReplyOk []
  end.

(* ------------------------------------------------------------------ the ten async handlers *)
Definition ah_lookup (sh : shape) : ahandler_fn := fun cfg h ctx r fr wcap =>
  let ino := h_nodeid h in
  let C m a := mk m ctx a in
  awith_name (sh_lookup_badname sh) r (h_len h) 0 (fun name =>
    ([C "lookup" [AN ino; AB name]],
     match fr with
     | FEntry e => if (cfg_minor cfg <? 4) && (e_inode e =? 0) then AReplyErr ENOENT None
                   else AReplyOk (entry_out e (e_attr_flags e))
     | FErr e => AReplyErr (errno_of e) None
     | _ => AReplyOk []
     end)).

Definition ah_getattr : ahandler_fn := fun cfg h ctx r fr wcap =>
  let ino := h_nodeid h in
  let C m a := mk m ctx a in
  awith_obj 16 r (fun s _ =>
    let handle := if land32 (u32 0 s) 1 then Some (u64 8 s) else None in
    ([C "getattr" [AN ino; AO handle]], aattr_reply fr)).

Definition ah_setattr : ahandler_fn := fun cfg h ctx r fr wcap =>
  let ino := h_nodeid h in
  let C m a := mk m ctx a in
  awith_obj 88 r (fun s _ =>
    let valid := u32 0 s in
    let handle := if land32 valid 64 then Some (u64 8 s) else None in
    let valid_t := N.land valid 3519 in
    ([C "setattr" [AN ino;
                   AN (u32 68 s); AN (u32 76 s); AN (u32 80 s);
                   AN (u64 16 s); AN (u64 32 s); AN (u64 40 s); AN (u64 48 s);
                   AN (u32 56 s); AN (u32 60 s); AN (u32 64 s);
                   AO handle; AN valid_t]], aattr_reply fr)).

(* AsyncFileSystem::async_open returns (handle, opts) only; OpenOut { .., ..Default::default() }: passthrough = 0 *)
Definition ah_open : ahandler_fn := fun cfg h ctx r fr wcap =>
  let ino := h_nodeid h in
  let C m a := mk m ctx a in
  awith_obj 8 r (fun s _ =>
    ([C "open" [AN ino; AN (u32 0 s); AN (u32 4 s)]],
     match fr with
     | FErr e => AReplyErr (errno_of e) None
     | FOpen fh opts _ => AReplyOk (open_out fh opts None)
     | _ => AReplyOk []
     end)).

Definition ah_read : ahandler_fn := fun cfg h ctx r fr wcap =>
  let ino := h_nodeid h in
  let C m a := mk m ctx a in
  awith_obj 40 r (fun s _ =>
    let owner := if land32 (u32 20 s) 2 then Some (u64 24 s) else None in
    if wcap <? OUT_HDR then ([], ASync (NoReply (RErr EInvalidHeaderLength)))
    else
      let c := C "read" [AN ino; AN (u64 0 s); AN (u32 16 s); AN (u64 8 s); AO owner; AN (u32 32 s)] in
      ([c],
       match fr with
       | FErr e => AReplySplitErr (errno_of e)
       | FRead data =>
         if wcap - OUT_HDR <? blen data then AReplySplitErr (encode_io_error_kind 5)
         else AReplySplit data
       | _ => AReplySplit []
       end)).

Definition ah_write (sh : shape) : ahandler_fn := fun cfg h ctx r fr wcap =>
  let ino := h_nodeid h in
  let C m a := mk m ctx a in
  awith_obj 40 r (fun s r' =>
    let fuse_flags := u32 20 s in
    let size := u32 16 s in
    (* if size > MAX_BUFFER_SIZE { return ctx.async_reply_error_explicit(ENOMEM) }  -- not in the sync handler *)
    if sh_write_gate sh && (MAX_BUFFER_SIZE <? size) then ([], AReplyErr ENOMEM None)
    else
      let owner := if land32 fuse_flags 2 then Some (u64 24 s) else None in
      let payload := firstn (N.to_nat (N.min size (blen r'))) r' in
      ([C "write" [AN ino; AN (u64 0 s); AB payload; AN size; AN (u64 8 s); AO owner;
                   ABool (land32 fuse_flags 1); AN (u32 32 s); AN fuse_flags]],
       match fr with
       | FErr e => AReplyErr (errno_of e) None
       | FCount n => AReplyOk (enc 4 n ++ enc 4 0)
       | _ => AReplyOk []
       end)).

Definition ah_fsync : ahandler_fn := fun cfg h ctx r fr wcap =>
  let ino := h_nodeid h in
  let C m a := mk m ctx a in
  awith_obj 16 r (fun s _ =>
    ([C "fsync" [AN ino; ABool (land32 (u32 8 s) 1); AN (u64 0 s)]], aunit_reply fr)).

Definition ah_fsyncdir : ahandler_fn := fun cfg h ctx r fr wcap =>
  let ino := h_nodeid h in
  let C m a := mk m ctx a in
  awith_obj 16 r (fun s _ =>
    ([C "fsyncdir" [AN ino; ABool (land32 (u32 8 s) 1); AN (u64 0 s)]], aunit_reply fr)).

(* AsyncFileSystem::async_create returns (entry, handle, opts): no passthrough slot either *)
Definition ah_create (sh : shape) : ahandler_fn := fun cfg h ctx r fr wcap =>
  let ino := h_nodeid h in
  let C m a := mk m ctx a in
  awith_obj 16 r (fun s r' =>
    awith_name (sh_create_badname sh) r' (h_len h) 16 (fun name =>
      ([C "create" [AN ino; AB name; AN (u32 0 s); AN (u32 4 s); AN (u32 8 s); AN (u32 12 s)]],
       match fr with
       | FErr e => AReplyErr (errno_of e) None
       | FCreate e fh opts _ => AReplyOk (entry_out e (e_attr_flags e) ++ open_out fh opts None)
       | _ => AReplyOk []
       end))).

Definition ah_fallocate : ahandler_fn := fun cfg h ctx r fr wcap =>
  let ino := h_nodeid h in
  let C m a := mk m ctx a in
  awith_obj 32 r (fun s _ =>
    ([C "fallocate" [AN ino; AN (u64 0 s); AN (u32 24 s); AN (u64 8 s); AN (u64 16 s)]], aunit_reply fr)).

(* the async dispatch table: (opcode, arm awaits an async handler?, handler), one entry per arm of
   `match in_header.opcode` in async_handle_message (INTERRUPT and DESTROY sit in its nested default
   match), listed in the order of [handlers] of Model/Server.v *)
Definition async_handlers (sh : shape) : list (N * bool * ahandler_fn) :=
  [(1, true, ah_lookup sh);
   (2, false, fallback (h_forget 2));
   (3, true, ah_getattr);
   (4, true, ah_setattr);
   (5, false, fallback (h_readlink 5));
   (6, false, fallback (h_symlink 6));
   (8, false, fallback (h_mknod 8));
   (9, false, fallback (h_mkdir 9));
   (10, false, fallback (h_unlink 10));
   (11, false, fallback (h_rmdir 11));
   (12, false, fallback (h_rename 12));
   (13, false, fallback (h_link 13));
   (14, true, ah_open);
   (15, true, ah_read);
   (16, true, ah_write sh);
   (17, false, fallback (h_statfs 17));
   (18, false, fallback (h_release 18));
   (20, true, ah_fsync);
   (21, false, fallback (h_setxattr 21));
   (22, false, fallback (h_getxattr 22));
   (23, false, fallback (h_listxattr 23));
   (24, false, fallback (h_removexattr 24));
   (25, false, fallback (h_flush 25));
   (27, false, fallback (h_opendir 27));
   (28, false, fallback (h_readdir_readdirplus 28));
   (29, false, fallback (h_releasedir 29));
   (30, true, ah_fsyncdir);
   (31, false, fallback (h_getlk_setlk_setlkw 31));
   (32, false, fallback (h_getlk_setlk_setlkw 32));
   (33, false, fallback (h_getlk_setlk_setlkw 33));
   (34, false, fallback (h_access 34));
   (35, true, ah_create sh);
   (36, false, fallback (h_interrupt 36));
   (37, false, fallback (h_bmap 37));
   (38, false, fallback (h_destroy 38));
   (39, false, fallback (h_ioctl 39));
   (40, false, fallback (h_poll 40));
   (41, false, fallback (h_notify_reply 41));
   (42, false, fallback (h_batch_forget 42));
   (43, true, ah_fallocate);
   (44, false, fallback (h_readdir_readdirplus 44));
   (45, false, fallback (h_rename2 45));
   (46, false, fallback (h_lseek 46));
   (48, false, fallback (h_setupmapping 48));
   (49, false, fallback (h_removemapping 49))].

Fixpoint find_ahandler (op : N) (t : list (N * bool * ahandler_fn)) : option ahandler_fn :=
  match t with
  | [] => None
  | (o, _, f) :: r => if op =? o then Some f else find_ahandler op r
  end.

Definition async_handler (sh : shape) (cfg : config) (h : hdr) (ctx : N * N * N) (r : bytes) (fr : fsres) (wcap : N)
  : adecision :=
  match find_ahandler (h_opcode h) (async_handlers sh) with
  | Some f => f cfg h ctx r fr wcap
  | None => ([], AReplyErr ENOSYS None)          (* ctx.async_reply_error(ENOSYS) *)
  end.

(* Server::async_handle_message: header, id remap, its own gate, dispatch.
   The gate as it is: `in_header.len > MAX_BUFFER_SIZE + BUFFER_HEADER_SIZE || ctx.w.available_bytes() < size_of::<OutHeader>()`
   -> async_do_reply_error(ENOMEM) for EVERY opcode (the sync gate exempts FORGET / BATCH_FORGET and has no
   capacity test). *)
Definition async_decide (sh : shape) (cfg : config) (req : bytes) (fr : fsres) (wcap : N) : adecision * option N :=
  match read_obj 40 req with
  | None => (([], ASync (NoReply (RErr EDecodeMessage))), None)
  | Some (hb, r) =>
    let h := parse_hdr hb in
    let rc := mk "id_remap" (h_uid h, h_gid h, h_pid h) [AN (h_nodeid h)] in
    match cfg_remap cfg with
    | RemapFail => (([rc], ASync (NoReply (RErr EFailedToRemapID))), None)
    | RemapOk du dg =>
      let ctx := ((h_uid h + du) mod 4294967296, (h_gid h + dg) mod 4294967296, h_pid h) in
      if MAX_BUFFER_SIZE + BUFFER_HEADER_SIZE <? h_len h then
        if sh_gate_exempts_forget sh && ((h_opcode h =? 2) || (h_opcode h =? 42))
        then (([rc], ASync (NoReply (RErr EInvalidMessage))), None)
        else (([rc], AReplyErr ENOMEM None), None)
      else if sh_gate_capacity sh && (wcap <? OUT_HDR) then
        (([rc], AReplyErr ENOMEM None), None)
      else if h_opcode h =? 26 then
        let '((cs, a), m) := do_init cfg h r fr in ((rc :: cs, ASync a), m)
      else
        let '(cs, a) := async_handler sh cfg h ctx r fr wcap in ((rc :: cs, a), None)
    end
  end.

(* ------------------------------------------------------------------ async writer primitives *)
(* FuseDevWriter::async_commit(other): NO `if !self.buffered { return Ok(0) }`.
   match (self.buf.len(), o.len()) { (0,0) => nothing, otherwise one pwrite/writev of buf ++ o }.
   For an unbuffered writer buf[..len] is the caller's buffer as it was ([buf0]): the data went to the
   fd directly and was only accounted (set_len).  VirtioFsWriter::async_commit = commit = nothing. *)
Definition aw_commit (sh : shape) (buf0 : bytes) (w : writer) (other : option writer) : list packet :=
  match w_kind w with
  | Virtio => []
  | FuseDev =>
    if sh_commit_skips sh && negb (w_buffered w) then []
    else
      let o := match other with Some x => w_buf x | None => [] end in
      let mine := if w_buffered w then w_buf w else firstn (List.length (w_buf w)) buf0 in
      match w_buf w, o with
      | [], [] => []
      | _, _ => [mine ++ o]
      end
  end.

(* async_write / async_write2 / async_write3 / async_write_all of one non-empty chunk: the same space
   check, buffering and accounting as write / write_vectored; the unbuffered fusedev syscall is
   pwrite(fd, data, 0) or writev instead of write or writev -- one message on /dev/fuse either way.
   So [w_write] of Model/Server.v is the model of these too. *)

(* async_do_reply_error on writer [w]: async_write_all(header) then async_commit(None) *)
Definition aperform_err (sh : shape) (buf0 : bytes) (w : writer) (unique errno : N) (after : option res) : outcome :=
  let hb := out_header OUT_HDR (neg32 errno) unique in
  match w_write w hb with
  | WPanic => out_panic
  | WErr => out_ok (match after with Some r => r | None => RErr EEncodeMessage end) [] (w_buf w)
  | WOk (w', p) =>
    let p2 := aw_commit sh buf0 w' None in
    out_ok (match after with Some r => r | None => ROk (blen (w_buf w')) end) (p ++ p2) (w_buf w')
  end.

Definition async_perform (sh : shape) (k : transport) (cap : N) (buf0 : bytes) (unique : N) (a : aaction) : outcome :=
  let w := fresh k cap in
  match a with
  | ASync a' => perform k cap unique a'
  | AReplyOk body =>
    let len := OUT_HDR + blen body in
    match w_write w (out_header len 0 unique ++ body) with
    | WPanic => out_panic
    | WErr => out_ok (RErr EEncodeMessage) [] []
    | WOk (w', p) => out_ok (ROk (blen (w_buf w'))) p (w_buf w')
    end
  | AReplyErr errno after => aperform_err sh buf0 w unique errno after
  | AReplySplit data =>
    let count := blen data in
    match w_split w OUT_HDR with
    | None => out_ok (RErr EInvalidHeaderLength) [] []
    | Some (w1, w2) =>
      match w_write w2 data with
      | WPanic => out_panic
      | WErr => out_ok (RErr EEncodeMessage) [] []
      | WOk (w2', p2) =>
        let len := (OUT_HDR + count) mod 4294967296 in
        match w_write w1 (out_header len 0 unique) with
        | WPanic => out_panic
        | WErr => out_ok (RErr EEncodeMessage) (p2) (w_buf w2')
        | WOk (w1', p1) =>
          out_ok (ROk len) (p2 ++ p1 ++ aw_commit sh buf0 w1' (Some w2')) (w_buf w1' ++ w_buf w2')
        end
      end
    end
  | AReplySplitErr errno =>
    match w_split w OUT_HDR with
    | None => out_ok (RErr EInvalidHeaderLength) [] []
    | Some (w1, _) => aperform_err sh buf0 w1 unique errno None
    end
  end.

(* the whole of async_handle_message, over a shape; and for the code as it is *)
Definition async_handle_gen (sh : shape) (cfg : config) (k : transport) (cap : N) (buf0 : bytes) (req : bytes) (fr : fsres)
  : list call * outcome * option N :=
  let '((cs, a), m) := async_decide sh cfg req fr cap in
  (cs, async_perform sh k cap buf0 (u64 8 req) a, m).

Definition async_handle := async_handle_gen code_shape.

(* ------------------------------------------------------------------ what C20 compares *)
(* filesystem calls with their arguments, the result class, and the reply: the packets that reached
   /dev/fuse (fusedev) or the used part of the writable descriptors (virtio); plus the protocol minor a
   successful INIT stores in the server *)
Record observation := { v_calls : list call; v_res : res; v_panic : bool;
                        v_packets : list packet; v_mem : bytes; v_minor : option N }.

Definition observable (k : transport) (x : list call * outcome * option N) : observation :=
  let '(cs, o, m) := x in
  {| v_calls := cs; v_res := o_res o; v_panic := o_panic o;
     v_packets := match k with FuseDev => o_packets o | Virtio => [] end;
     v_mem := match k with FuseDev => [] | Virtio => used_mem o end;
     v_minor := m |}.
