(* Model/Readdir.v -- executable model of directory listing (C16).
   Line-by-line from
     src/passthrough/sync_io.rs   do_readdir, skip_to_cookie, last_cookie_in_buf,
                                  consume_cached_cookie, cache_cookie, get_dirdata,
                                  readdir / readdirplus wrappers (lookup + forget)
     src/passthrough/mod.rs       HandleMap.cookies
     src/api/server/sync_io.rs    do_readdir (reply assembly) and add_dirent
     src/api/pseudo_fs.rs         do_readdir (index offsets)
     src/api/vfs/sync_io.rs       readdir / readdirplus closures (inode conversion only)
   No proofs in this file. *)
From Coq Require Import List NArith Bool.
Import ListNotations.
Local Open Scope N_scope.

Inductive res (A : Type) : Type :=
| ROk (a : A)
| RErr (e : N).
Arguments ROk {A} a.
Arguments RErr {A} e.

Definition EBADF : N := 9.
Definition EINVAL : N := 22.
Definition EFUEL : N := 9999.          (* model artefact: scan loop ran out of fuel (proved impossible) *)
Definition I64_MAX : N := 9223372036854775807.
Definition U64_MAX : N := 18446744073709551615.

(* ---------------------------------------------------------------- host directory *)
(* one record of the host directory in getdents64 order; names are byte lists without NUL *)
Record hent := mk_hent { h_name : list N; h_ino : N; h_off : N; h_ty : N }.

Definition round8 (n : N) : N := ((n + 7) / 8) * 8.          (* (n + 7) & !7 *)
Definition namelen (e : hent) : N := N.of_nat (length (h_name e)).
(* linux: reclen = ALIGN(offsetof(struct linux_dirent64, d_name) + namlen + 1, 8), offsetof = 19 *)
Definition host_reclen (e : hent) : N := round8 (19 + namelen e + 1).
(* add_dirent: size_of::<Dirent>() = 24, padded to 8; plus size_of::<EntryOut>() = 128 for readdirplus *)
Definition dirent_size (plus : bool) (e : hent) : N :=
  round8 (24 + namelen e) + (if plus then 128 else 0).

Fixpoint list_eqb (a b : list N) : bool :=
  match a, b with
  | [], [] => true
  | x :: a', y :: b' => (x =? y) && list_eqb a' b'
  | _, _ => false
  end.

(* name.starts_with(".\0") || name.starts_with("..\0") on the NUL padded record name *)
Definition is_dot (e : hent) : bool :=
  list_eqb (h_name e) [46] || list_eqb (h_name e) [46; 46].

(* the maximal prefix of [l] whose accumulated cost stays within [budget] *)
Fixpoint take_fit {A : Type} (cost : A -> N) (budget : N) (l : list A) : list A :=
  match l with
  | [] => []
  | e :: t => if cost e <=? budget then e :: take_fit cost (budget - cost e) t else []
  end.

(* getdents64(fd, buf, size) on the rest of the directory after the fd position:
   0 at the end, EINVAL when the first record does not fit, else the records that fit *)
Definition getdents_l (rest : list hent) (size : N) : res (list hent) :=
  match rest with
  | [] => ROk []
  | e :: _ => if host_reclen e <=? size then ROk (take_fit host_reclen size rest) else RErr EINVAL
  end.

(* position right after the (first) entry that carries cookie [c] *)
Fixpoint index_after (c : N) (d : list hent) : option nat :=
  match d with
  | [] => None
  | e :: t => if h_off e =? c then Some 1%nat
              else match index_after c t with Some p => Some (S p) | None => None end
  end.

(* the host kernel behind the passthrough file system: Section-style oracle record *)
Record host := mk_host {
  ho_seek_other : N -> nat;            (* where lseek lands for a cookie no entry carries *)
  ho_seek_status : N -> N;             (* lseek64 result for an offset <= i64::MAX: 0 ok, else errno *)
  ho_lookup : list N -> res (N * N)    (* do_lookup(dir, name) -> (fuse inode, st_ino) *)
}.

Definition lseek_pos (H : host) (d : list hent) (c : N) : nat :=
  if c =? 0 then 0%nat
  else match index_after c d with Some p => p | None => ho_seek_other H c end.

(* ---------------------------------------------------------------- do_readdir: fetching the batch *)
Fixpoint skip_to_cookie (batch : list hent) (c : N) : option (list hent) :=
  match batch with
  | [] => None
  | e :: t => if h_off e =? c then Some t else skip_to_cookie t c
  end.

Definition last_cookie (batch : list hent) : option N :=
  match rev batch with
  | [] => None
  | e :: _ => Some (h_off e)
  end.

(* the linear-scan fallback loop (sync_io.rs:226-267) on the directory rest after lseek(0);
   returns the batch and the number of records consumed from [rest] *)
Fixpoint scan (fuel : nat) (rest : list hent) (size c : N) (found : bool) (consumed : nat)
  : res (list hent) * nat :=
  match fuel with
  | O => (RErr EFUEL, consumed)
  | S f =>
    match getdents_l rest size with
    | RErr e => (RErr e, consumed)
    | ROk b =>
      let consumed' := (consumed + length b)%nat in
      let rest' := skipn (length b) rest in
      match b with
      | [] => (ROk [], consumed')                      (* EOF: empty reply *)
      | _ :: _ =>
        if found then (ROk b, consumed')
        else match skip_to_cookie b c with
             | Some [] => scan f rest' size c true consumed'
             | Some r => (ROk r, consumed')
             | None => scan f rest' size c false consumed'
             end
      end
    end
  end.

(* which of the proposed repairs of do_readdir the source tree contains (read from the source by
   props/c16.py on every run, validated by the tie):
     rx_refill  : a batch holding only "." / ".." records is re-read (fixes/C16-readdir-dots-only-batch.patch)
     rx_scanlen : the fallback scan uses a buffer of max(size, 4096) bytes (fixes/C16-fallback-scan-small-buffer.patch) *)
Record rfixes := mk_rfixes { rx_refill : bool; rx_scanlen : bool }.
Definition no_rfixes : rfixes := mk_rfixes false false.
Definition all_rfixes : rfixes := mk_rfixes true true.

(* only_dot_entries has its OWN test of the record name (the per-record filter of do_readdir is [is_dot]):
   `name.starts_with(".\0") || name.starts_with("..\0")` on the NUL padded name, i.e. the name is exactly
   "." or ".."; kept as a separate predicate so that a disagreement between the two sites is expressible *)
Definition is_dot_batch (e : hent) : bool :=
  match h_name e with
  | [a] => a =? 46
  | [a; b] => (a =? 46) && (b =? 46)
  | _ => false
  end.

Definition only_dots (b : list hent) : bool :=
  match b with [] => false | _ :: _ => forallb is_dot_batch b end.

(* `while Self::only_dot_entries(&buf) { getdents64 again }`; [rest]: the directory after the fd position *)
Fixpoint refill (fuel : nat) (rest : list hent) (size : N) (b : list hent) (pos : nat)
  : res (list hent) * nat :=
  if only_dots b then
    match fuel with
    | O => (RErr EFUEL, pos)
    | S f => match getdents_l rest size with
             | RErr e => (RErr e, pos)
             | ROk b' => refill f (skipn (length b') rest) size b' (pos + length b')%nat
             end
    end
  else (ROk b, pos).

(* per open directory handle: the persistent fd position and HandleMap.cookies[handle] *)
Record hstate := mk_hstate { hs_open : bool; hs_pos : nat; hs_cache : option N }.

Definition after_batch (pos : nat) (b : list hent) : hstate :=
  mk_hstate true (pos + length b)%nat (last_cookie b).

(* what both paths do with the batch they fetched: optional re-read loop, then cache_cookie *)
Definition post (X : rfixes) (use_cache : bool) (d : list hent) (size : N) (b : list hent) (pos : nat)
  : res (list hent) * hstate :=
  let r := if rx_refill X then refill (S (length (skipn pos d))) (skipn pos d) size b pos else (ROk b, pos) in
  match r with
  | (RErr e, n) => (RErr e, mk_hstate true n None)
  | (ROk b2, n) => (ROk b2, mk_hstate true n (if use_cache then last_cookie b2 else None))
  end.

(* lseek-or-hit, getdents64, cache_cookie.  [use_cache] = !no_opendir *)
Definition fetch (H : host) (X : rfixes) (use_cache : bool) (d : list hent) (hs : hstate) (size offset : N)
  : res (list hent) * hstate :=
  let hit := use_cache && match hs_cache hs with Some c => c =? offset | None => false end in
  let gd (pos : nat) :=
    match getdents_l (skipn pos d) size with
    | RErr e => (RErr e, mk_hstate true pos None)
    | ROk b => post X use_cache d size b (pos + length b)%nat
    end in
  let fallback (_ : unit) :=     (* a thunk: vm_compute is call-by-value *)
    match scan (S (length d)) d (if rx_scanlen X then N.max size 4096 else size) offset false 0%nat with
    | (RErr e, n) => (RErr e, mk_hstate true n None)
    | (ROk b, n) => post X use_cache d size b n
    end in
  if hit then gd (hs_pos hs)
  else if I64_MAX <? offset then fallback tt
  else let s := ho_seek_status H offset in
       if s =? 0 then gd (lseek_pos H d offset)
       else if s =? EINVAL then fallback tt
       else (RErr s, mk_hstate true (hs_pos hs) None).

(* ---------------------------------------------------------------- delivering the batch *)
(* what the client decodes: fuse_dirent (+ nodeid of the fuse_entry_out for readdirplus) *)
Record dirent := mk_dirent { de_ino : N; de_off : N; de_ty : N; de_name : list N; de_node : N }.

Definition bump (refs : N -> N) (i : N) : N -> N := fun j => if j =? i then refs j + 1 else refs j.
Definition unbump (refs : N -> N) (i : N) : N -> N := fun j => if j =? i then refs j - 1 else refs j.

(* the per-entry loop of do_readdir (sync_io.rs:282-349) with the closures of readdir /
   readdirplus (lookup, forget), the optional VFS closure [wrap] (inode conversion) and the
   server's add_dirent.  [first]: rem.len() == orig_rem_len; [written]: cursor.bytes_written() *)
Fixpoint deliver (H : host) (wrap : N -> res N) (plus : bool) (size : N) (batch : list hent)
         (first : bool) (written : N) (refs : N -> N) : res (list dirent) * (N -> N) :=
  match batch with
  | [] => (ROk [], refs)
  | e :: t =>
    if is_dot e then deliver H wrap plus size t false written refs
    else
      match ho_lookup H (h_name e) with
      | RErr err => if first then (RErr err, refs) else (ROk [], refs)
      | ROk (node, stino) =>
        let refs1 := bump refs node in
        (* readdir forgets at once and reports the fuse inode; readdirplus reports st_ino *)
        let refs2 := if plus then refs1 else unbump refs1 node in
        let ino := if plus then stino else node in
        match wrap ino with
        | RErr err => if first then (RErr err, refs2) else (ROk [], refs2)
        | ROk ino' =>
          let total := dirent_size plus e in
          if (size - written) <? total then
            (* add_dirent returned Ok(0): readdirplus drops the reference again; loop breaks *)
            (ROk [], if plus then unbump refs2 node else refs2)
          else
            let dent := mk_dirent ino' (h_off e) (h_ty e) (h_name e) (if plus then node else 0) in
            match deliver H wrap plus size t false (written + total) refs2 with
            | (ROk r, refs') => (ROk (dent :: r), refs')
            | (RErr x, refs') => (RErr x, refs')          (* unreachable: first = false *)
            end
        end
      end
  end.

(* ---------------------------------------------------------------- one READDIR / READDIRPLUS request *)
Record req := mk_req { r_handle : N; r_size : N; r_offset : N; r_plus : bool }.
Record state := mk_state { st_h : N -> hstate; st_refs : N -> N }.
Record cfg := mk_cfg { c_noopendir : bool; c_wrap : N -> res N; c_rx : rfixes }.

Definition upd_h (f : N -> hstate) (h : N) (v : hstate) : N -> hstate :=
  fun j => if j =? h then v else f j.

Definition fresh_fd : hstate := mk_hstate true 0%nat None.

Definition step (H : host) (C : cfg) (d : list hent) (st : state) (r : req)
  : res (list dirent) * state :=
  if r_size r =? 0 then (ROk [], st)
  else if c_noopendir C then
    (* get_dirdata opens a fresh fd for this call; the cookie cache is not consulted *)
    match fetch H (c_rx C) false d fresh_fd (r_size r) (r_offset r) with
    | (RErr e, _) => (RErr e, st)
    | (ROk b, _) =>
      let '(rep, refs') := deliver H (c_wrap C) (r_plus r) (r_size r) b true 0 (st_refs st) in
      (rep, mk_state (st_h st) refs')
    end
  else
    let hs := st_h st (r_handle r) in
    if negb (hs_open hs) then (RErr EBADF, st)
    else
      match fetch H (c_rx C) true d hs (r_size r) (r_offset r) with
      | (RErr e, hs') => (RErr e, mk_state (upd_h (st_h st) (r_handle r) hs') (st_refs st))
      | (ROk b, hs') =>
        let '(rep, refs') := deliver H (c_wrap C) (r_plus r) (r_size r) b true 0 (st_refs st) in
        (rep, mk_state (upd_h (st_h st) (r_handle r) hs') refs')
      end.

(* a history of requests; replies in order *)
Fixpoint run (H : host) (C : cfg) (d : list hent) (st : state) (rs : list req)
  : list (res (list dirent)) * state :=
  match rs with
  | [] => ([], st)
  | r :: t => let '(o, st1) := step H C d st r in
              let '(os, st2) := run H C d st1 t in (o :: os, st2)
  end.

Definition reply_bytes (plus : bool) (l : list dirent) : N :=
  fold_right (fun e acc => round8 (24 + N.of_nat (length (de_name e))) + (if plus then 128 else 0) + acc) 0 l.

(* ---------------------------------------------------------------- PseudoFs::do_readdir *)
Inductive pres : Type :=
| POk (l : list dirent)
| PPanic.                              (* `offset + 1` overflows u64 (debug build) *)

(* children: (name, ino) in Vec order; offsets are index + 1, type is 0 *)
Fixpoint pseudo_fill (plus : bool) (size : N) (ch : list (list N * N)) (next written : N)
  : list dirent :=
  match ch with
  | [] => []
  | (nm, ino) :: t =>
    let total := round8 (24 + N.of_nat (length nm)) + (if plus then 128 else 0) in
    if (size - written) <? total then []
    else mk_dirent ino next 0 nm (if plus then ino else 0)
         :: pseudo_fill plus size t (next + 1) (written + total)
  end.

Definition pseudo_readdir (children : list (list N * N)) (plus : bool) (size offset : N) : pres :=
  if size =? 0 then POk []
  else if offset =? U64_MAX then PPanic
  else if N.of_nat (length children) <=? offset then POk []
  else POk (pseudo_fill plus size (skipn (N.to_nat offset) children) (offset + 1) 0).

(* ---------------------------------------------------------------- comparison helpers for the tie *)
Definition dirent_eqb (with_ino : bool) (a b : dirent) : bool :=
  (de_off a =? de_off b) && (de_ty a =? de_ty b) && list_eqb (de_name a) (de_name b)
  && (if with_ino then de_ino a =? de_ino b else true).

Fixpoint dirents_eqb (with_ino : bool) (a b : list dirent) : bool :=
  match a, b with
  | [], [] => true
  | x :: a', y :: b' => dirent_eqb with_ino x y && dirents_eqb with_ino a' b'
  | _, _ => false
  end.

(* ---------------------------------------------------------------- running observed histories (tie) *)
Inductive obs : Type :=
| OErr (e : N)                               (* error reply with this errno *)
| OOffs (l : list N)                         (* continuation offsets of the entries of the reply *)
| OFull (with_ino : bool) (l : list dirent). (* decoded entries *)

Definition lookup_in (d : list hent) (nm : list N) : res (N * N) :=
  match find (fun e => list_eqb (h_name e) nm) d with
  | Some e => ROk (0, h_ino e)
  | None => RErr 2
  end.

Definition tie_host (full : bool) (d : list hent) : host :=
  mk_host (fun _ => 0%nat) (fun _ => 0) (if full then lookup_in d else fun _ => ROk (0, 0)).

Definition closed_fd : hstate := mk_hstate false 0%nat None.

Definition init_state (hs : list N) : state :=
  mk_state (fun h => if existsb (N.eqb h) hs then fresh_fd else closed_fd) (fun _ => 0).

Definition obs_eqb (o : res (list dirent)) (b : obs) : bool :=
  match o, b with
  | RErr e, OErr e' => e =? e'
  | ROk l, OOffs offs => list_eqb (map de_off l) offs
  | ROk l, OFull wi l' => dirents_eqb wi l l'
  | _, _ => false
  end.

Fixpoint all2 {A B : Type} (f : A -> B -> bool) (a : list A) (b : list B) : bool :=
  match a, b with
  | [], [] => true
  | x :: a', y :: b' => f x y && all2 f a' b'
  | _, _ => false
  end.

Definition hist_check (X : rfixes) (full noopendir : bool) (d : list hent) (hs : list N) (cases : list (req * obs)) : bool :=
  all2 obs_eqb
       (fst (run (tie_host full d) (mk_cfg noopendir (fun i => ROk i) X) d (init_state hs) (map fst cases)))
       (map snd cases).

Inductive pobs : Type :=
| POffs (l : list N)
| PBad.

Definition pobs_eqb (o : pres) (b : pobs) : bool :=
  match o, b with
  | POk l, POffs offs => list_eqb (map de_off l) offs
  | _, _ => false
  end.

Definition pseudo_hist_check (ch : list (list N * N)) (cases : list (bool * N * N * pobs)) : bool :=
  forallb (fun c => match c with (plus, size, off, o) => pobs_eqb (pseudo_readdir ch plus size off) o end) cases.
