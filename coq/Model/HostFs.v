(* Abstract host file tree and the Linux system calls PassthroughFs issues, as total functions.
   This file is a DESCRIPTION of the kernel (ext4, Linux 6.x) on the calls exercised: it is validated
   differentially against the running kernel by the C05 check, it is not verified.  No proofs here.

   - inodes are numbered by N; an O_PATH descriptor is modelled by the inode number it refers to;
   - directories carry their entries, their parent ("..") and a [dead] flag (removed while referenced);
   - link counts are computed from the directory entries; time stamps are not modelled;
   - names are byte lists without the terminator; a name containing '/' is a multi-component path
     whose resolution is NOT modelled (outcome EUNMODELLED): the theorems about PassthroughFs show
     that no such name reaches a system call. *)
From Coq Require Import List NArith Bool.
Import ListNotations.
Local Open Scope N_scope.

Definition name := list N.

(* ---- errno *)
Definition EPERM := 1. Definition ENOENT := 2. Definition ENXIO := 6. Definition EBADF := 9.
Definition EACCES := 13. Definition EBUSY := 16. Definition EEXIST := 17. Definition EXDEV := 18.
Definition ENOTDIR := 20. Definition EISDIR := 21. Definition EINVAL := 22. Definition EFBIG := 27.
Definition ERANGE := 34. Definition ENAMETOOLONG := 36. Definition ENOSYS := 38. Definition ENOTEMPTY := 39.
Definition ELOOP := 40. Definition ENODATA := 61. Definition EOPNOTSUPP := 95. Definition ESTALE := 116.
Definition EUNMODELLED := 9999.
Definition EMULTI := 9998.
Definition EFOLLOW := 9996.       (* openat(O_CREAT) without O_EXCL: a symlink in the final component would be followed: not modelled, not confined *)        (* a multi-component path reached a system call: resolution not modelled *)

Inductive res (A : Type) := Ok (a : A) | Err (e : N).
Arguments Ok {A} a. Arguments Err {A} e.

(* ---- mode bits *)
Definition S_IFMT := 61440. Definition S_IFSOCK := 49152. Definition S_IFLNK := 40960.
Definition S_IFREG := 32768. Definition S_IFBLK := 24576. Definition S_IFDIR := 16384.
Definition S_IFCHR := 8192. Definition S_IFIFO := 4096.
Definition S_ISUID := 2048. Definition S_ISGID := 1024. Definition S_ISVTX := 512.
Definition S_IXGRP := 8.
Definition PERM_MASK := 4095.     (* 07777 *)

(* ---- open flags (x86_64) *)
Definition O_ACCMODE := 3. Definition O_RDONLY := 0. Definition O_WRONLY := 1. Definition O_RDWR := 2.
Definition O_CREAT := 64. Definition O_EXCL := 128. Definition O_NOCTTY := 256. Definition O_TRUNC := 512.
Definition O_APPEND := 1024. Definition O_NONBLOCK := 2048. Definition O_DIRECT := 16384.
Definition O_DIRECTORY := 65536. Definition O_NOFOLLOW := 131072. Definition O_NOATIME := 262144.
Definition O_CLOEXEC := 524288. Definition O_PATH := 2097152.

Definition has (flags bit : N) : bool := negb (N.land flags bit =? 0).
Definition clear (flags bit : N) : N := N.ldiff flags bit.

(* ---- inodes *)
Inductive kind :=
| KReg (data : list N)
| KDir (ents : list (name * N)) (parent : N) (dead : bool)
| KLnk (target : list N)
| KSpec (fmt : N) (rdev : N).

Record inode := mkInode { i_kind : kind; i_mode : N; i_uid : N; i_gid : N; i_xattrs : list (name * list N) }.
(* time stamps are modelled only as far as utimens goes: per inode, what the last futimens/utimensat calls left in
   atime and mtime: untouched by utimens, set to an explicit value, or set to "now" *)
Inductive tv := TKeep | TSet (sec nsec : N) | TNow.
Record host := mkHost { h_nodes : list (N * inode); h_next : N; h_utimes : list (N * (tv * tv)) }.

Record creds := mkCreds { euid : N; egid : N; fsetid : bool }.
Definition root_creds := mkCreds 0 0 true.

Fixpoint assoc {A : Type} (k : N) (l : list (N * A)) : option A :=
  match l with
  | [] => None
  | (k', v) :: r => if k' =? k then Some v else assoc k r
  end.
Fixpoint assoc_set {A : Type} (k : N) (v : A) (l : list (N * A)) : list (N * A) :=
  match l with
  | [] => [(k, v)]
  | (k', v') :: r => if k' =? k then (k, v) :: r else (k', v') :: assoc_set k v r
  end.
Fixpoint assoc_del {A : Type} (k : N) (l : list (N * A)) : list (N * A) :=
  match l with
  | [] => []
  | (k', v') :: r => if k' =? k then r else (k', v') :: assoc_del k r
  end.

Definition get (h : host) (i : N) : option inode := assoc i (h_nodes h).
Definition set (h : host) (i : N) (v : inode) : host := mkHost (assoc_set i v (h_nodes h)) (h_next h) (h_utimes h).
Definition alloc (h : host) (v : inode) : N * host :=
  (h_next h, mkHost (assoc_set (h_next h) v (h_nodes h)) (h_next h + 1) (h_utimes h)).

Definition upd (h : host) (i : N) (f : inode -> inode) : host :=
  match get h i with Some x => set h i (f x) | None => h end.

(* ---- names *)
Fixpoint name_eqb (a b : name) : bool :=
  match a, b with
  | [], [] => true
  | x :: a', y :: b' => (x =? y) && name_eqb a' b'
  | _, _ => false
  end.
Fixpoint name_leb (a b : name) : bool :=       (* lexicographic, for the canonical order of xattr lists *)
  match a, b with
  | [], _ => true
  | _ :: _, [] => false
  | x :: a', y :: b' => if x <? y then true else if y <? x then false else name_leb a' b'
  end.
Definition has_slash (n : name) : bool := existsb (fun b => b =? 47) n.
Definition is_dot (n : name) : bool := name_eqb n [46].
Definition is_dotdot (n : name) : bool := name_eqb n [46; 46].
Definition len {A : Type} (n : list A) : N := N.of_nat (List.length n).
Definition NAME_MAX := 255.

Fixpoint ent_find (n : name) (l : list (name * N)) : option N :=
  match l with
  | [] => None
  | (n', i) :: r => if name_eqb n' n then Some i else ent_find n r
  end.
Fixpoint ent_del (n : name) (l : list (name * N)) : list (name * N) :=
  match l with
  | [] => []
  | (n', i) :: r => if name_eqb n' n then r else (n', i) :: ent_del n r
  end.
Fixpoint ent_set (n : name) (i : N) (l : list (name * N)) : list (name * N) :=
  match l with
  | [] => [(n, i)]
  | (n', i') :: r => if name_eqb n' n then (n, i) :: r else (n', i') :: ent_set n i r
  end.

(* ---- attributes *)
Record attr := mkAttr { a_ino : N; a_mode : N; a_nlink : N; a_uid : N; a_gid : N; a_size : N; a_rdev : N }.

Definition fmt_of (k : kind) : N :=
  match k with KReg _ => S_IFREG | KDir _ _ _ => S_IFDIR | KLnk _ => S_IFLNK | KSpec f _ => f end.
Definition is_dir_kind (k : kind) : bool := match k with KDir _ _ _ => true | _ => false end.
Definition is_dir (h : host) (i : N) : bool :=
  match get h i with Some v => is_dir_kind (i_kind v) | None => false end.

Definition count_links_in (i : N) (ents : list (name * N)) : N :=
  len (map snd (filter (fun e => snd e =? i) ents)).
Definition links_to (h : host) (i : N) : N :=
  fold_right (fun (p : N * inode) acc =>
    match i_kind (snd p) with KDir ents _ _ => count_links_in i ents + acc | _ => acc end) 0 (h_nodes h).
Definition subdirs (h : host) (ents : list (name * N)) : N :=
  len (filter (fun e => is_dir h (snd e)) ents).
Definition nlink (h : host) (i : N) (v : inode) : N :=
  match i_kind v with
  | KDir ents _ dead => if dead then 0 else 2 + subdirs h ents
  | _ => links_to h i
  end.
Definition size_of (k : kind) : N :=
  match k with KReg d => len d | KLnk t => len t | KDir _ _ _ => 4096 | KSpec _ _ => 0 end.
Definition rdev_of (k : kind) : N :=
  match k with KSpec f r => if (f =? S_IFCHR) || (f =? S_IFBLK) then r else 0 | _ => 0 end.

Definition stat (h : host) (i : N) : res attr :=
  match get h i with
  | None => Err EBADF
  | Some v => Ok (mkAttr i (fmt_of (i_kind v) + i_mode v) (nlink h i v) (i_uid v) (i_gid v)
                         (size_of (i_kind v)) (rdev_of (i_kind v)))
  end.

(* ---- permissions (no ACLs, no supplementary groups) *)
Definition MAY_X := 1. Definition MAY_W := 2. Definition MAY_R := 4.
Definition perm_bits (c : creds) (v : inode) : N :=
  if euid c =? i_uid v then N.shiftr (i_mode v) 6 mod 8
  else if egid c =? i_gid v then N.shiftr (i_mode v) 3 mod 8
  else i_mode v mod 8.
Definition may (c : creds) (v : inode) (mask : N) : bool :=
  if euid c =? 0 then
    (* CAP_DAC_OVERRIDE: read/write always; execute needs one x bit unless it is a directory *)
    if has mask MAY_X && negb (is_dir_kind (i_kind v)) then has (i_mode v) 73 (* 0111 *) else true
  else N.land (perm_bits c v) mask =? mask.

(* suid/sgid removal on write/truncate when the writer lacks CAP_FSETID (regular files) *)
Definition kill_priv (mode : N) : N :=
  let m := clear mode S_ISUID in
  if has mode S_IXGRP then clear m S_ISGID else m.
Definition drop_priv_on_write (c : creds) (v : inode) : inode :=
  match i_kind v with
  | KReg _ => if fsetid c then v
              else if has (i_mode v) S_ISUID || (has (i_mode v) S_ISGID)
                   then mkInode (i_kind v)
                          (let m := clear (i_mode v) S_ISUID in
                           if has (i_mode v) S_ISGID && (has (i_mode v) S_IXGRP || negb (egid c =? i_gid v))
                           then clear m S_ISGID else m)
                          (i_uid v) (i_gid v) (i_xattrs v)
                   else v
  | _ => v
  end.

(* ---- single-component resolution: openat(dirfd, name, O_PATH|O_NOFOLLOW) *)
Definition lookup1 (c : creds) (h : host) (d : N) (n : name) : res N :=
  if len n =? 0 then Err ENOENT
  else if has_slash n then Err EMULTI
  else match get h d with
  | None => Err EBADF
  | Some dv =>
    match i_kind dv with
    | KDir ents par dead =>
        if negb (may c dv MAY_X) then Err EACCES
        else if is_dot n then Ok d
        else if is_dotdot n then Ok par
        (* a removed directory answers ENOENT before the file system looks at the name (its length included) *)
        else if dead then Err ENOENT
        else if NAME_MAX <? len n then Err ENAMETOOLONG
        else match ent_find n ents with Some i => Ok i | None => Err ENOENT end
    | _ => Err ENOTDIR
    end
  end.

(* common front of the creating calls (filename_create + may_create):
   returns the directory inode when the name can be created *)
Definition create_check (c : creds) (h : host) (d : N) (n : name) : res inode :=
  if len n =? 0 then Err ENOENT
  else if has_slash n then Err EMULTI
  else match get h d with
  | None => Err EBADF
  | Some dv =>
    match i_kind dv with
    | KDir ents par dead =>
        if negb (may c dv MAY_X) then Err EACCES
        else if is_dot n || is_dotdot n then Err EEXIST
        (* a removed directory answers ENOENT before the file system looks at the name (its length included) *)
        else if dead then Err ENOENT
        else if NAME_MAX <? len n then Err ENAMETOOLONG
        else match ent_find n ents with
             | Some _ => Err EEXIST
             | None => if may c dv MAY_W then Ok dv else Err EACCES
             end
    | _ => Err ENOTDIR
    end
  end.

(* owner of a new inode: fsuid, and fsgid unless the directory is setgid *)
Definition new_gid (c : creds) (dv : inode) : N := if has (i_mode dv) S_ISGID then i_gid dv else egid c.

Definition add_entry (dv : inode) (n : name) (i : N) : inode :=
  match i_kind dv with
  | KDir ents par dead => mkInode (KDir (ents ++ [(n, i)]) par dead) (i_mode dv) (i_uid dv) (i_gid dv) (i_xattrs dv)
  | _ => dv
  end.

Definition create_node (c : creds) (h : host) (d : N) (dv : inode) (n : name) (k : kind) (mode : N) : N * host :=
  let v := mkInode k mode (euid c) (new_gid c dv) [] in
  let (i, h1) := alloc h v in
  (i, set h1 d (add_entry dv n i)).

Definition sys_mkdirat (c : creds) (h : host) (d : N) (n : name) (mode : N) : res N * host :=
  match create_check c h d n with
  | Err e => (Err e, h)
  | Ok dv =>
      let m := N.land mode 1023 (* 01777 *) in
      let m := if has (i_mode dv) S_ISGID then N.lor m S_ISGID else m in
      let (i, h') := create_node c h d dv n (KDir [] d false) m in (Ok i, h')
  end.

Definition sys_symlinkat (c : creds) (h : host) (target : list N) (d : N) (n : name) : res N * host :=
  if len target =? 0 then (Err ENOENT, h)
  else match create_check c h d n with
  | Err e => (Err e, h)
  | Ok dv => let (i, h') := create_node c h d dv n (KLnk target) 511 in (Ok i, h')
  end.

(* inode_init_owner's S_ISGID stripping for non-directories created by a non-member without CAP_FSETID *)
Definition init_mode (c : creds) (dv : inode) (mode : N) : N :=
  let m := N.land mode PERM_MASK in
  if has m S_ISGID && has m S_IXGRP && negb (new_gid c dv =? egid c) && negb (fsetid c)
  then clear m S_ISGID else m.

Definition sys_mknodat (c : creds) (h : host) (d : N) (n : name) (mode rdev : N) : res N * host :=
  let f := N.land mode S_IFMT in
  if f =? S_IFDIR then (Err EPERM, h)
  else if negb ((f =? 0) || (f =? S_IFREG) || (f =? S_IFCHR) || (f =? S_IFBLK) || (f =? S_IFIFO) || (f =? S_IFSOCK))
  then (Err EINVAL, h)
  else match create_check c h d n with
  | Err e => (Err e, h)
  | Ok dv =>
      if ((f =? S_IFCHR) || (f =? S_IFBLK)) && negb (euid c =? 0) then (Err EPERM, h)
      else
        let k := if (f =? 0) || (f =? S_IFREG) then KReg [] else KSpec f rdev in
        let (i, h') := create_node c h d dv n k (init_mode c dv mode) in (Ok i, h')
  end.

(* openat(dirfd, name, flags, mode) with O_CREAT in flags.  Only with O_EXCL does the kernel refuse to follow a
   symlink in the final component (and fail if the name exists): that is the form modelled, and the form the
   confinement proof relies on; without O_EXCL the outcome is EFOLLOW (the call may leave the directory). *)
Definition sys_openat_creat_excl (c : creds) (h : host) (d : N) (n : name) (flags mode : N) : res N * host :=
  if negb (has flags O_EXCL) then (Err EFOLLOW, h)
  else if has flags O_DIRECTORY then (Err EINVAL, h)
  else match create_check c h d n with
  | Err e => (Err e, h)
  | Ok dv => let (i, h') := create_node c h d dv n (KReg []) (init_mode c dv mode) in (Ok i, h')
  end.

(* open("/proc/self/fd/N", flags) for an O_PATH descriptor of inode i: the magic link lands on the same
   inode and nothing is followed after it.  Returns the new host (O_TRUNC). *)
Definition acc_r (flags : N) : bool := negb (N.land flags O_ACCMODE =? O_WRONLY).
Definition acc_w (flags : N) : bool := negb (N.land flags O_ACCMODE =? O_RDONLY).
Definition sys_reopen (c : creds) (h : host) (i : N) (flags : N) : res unit * host :=
  match get h i with
  | None => (Err EBADF, h)
  | Some v =>
    match i_kind v with
    | KLnk _ => (Err ELOOP, h)
    | KSpec _ _ => (Err EUNMODELLED, h)
    | KDir _ _ _ =>
        if acc_w flags || has flags O_TRUNC then (Err EISDIR, h)
        else if negb (may c v MAY_R) then (Err EACCES, h)
        else if has flags O_NOATIME && negb (euid c =? 0) && negb (euid c =? i_uid v) then (Err EPERM, h)
        else (Ok tt, h)
    | KReg data =>
        if has flags O_DIRECTORY then (Err ENOTDIR, h)
        else if N.land flags O_ACCMODE =? 3 then (Err EINVAL, h)
        else if (acc_r flags && negb (may c v MAY_R)) || ((acc_w flags || has flags O_TRUNC) && negb (may c v MAY_W))
        then (Err EACCES, h)
        else if has flags O_NOATIME && negb (euid c =? 0) && negb (euid c =? i_uid v) then (Err EPERM, h)
        else if has flags O_TRUNC
        then let v' := drop_priv_on_write c (mkInode (KReg []) (i_mode v) (i_uid v) (i_gid v) (i_xattrs v)) in
             (Ok tt, set h i v')
        else (Ok tt, h)
    end
  end.

(* linkat(fd, "", newdirfd, name, AT_EMPTY_PATH) *)
Definition sys_linkat (c : creds) (h : host) (src : N) (d : N) (n : name) : res unit * host :=
  match get h src with
  | None => (Err EBADF, h)
  | Some sv =>
    match create_check c h d n with
    | Err e => (Err e, h)
    | Ok dv =>
        if is_dir_kind (i_kind sv) then (Err EPERM, h)
        else if links_to h src =? 0 then (Err ENOENT, h)
        else (Ok tt, set h d (add_entry dv n src))
    end
  end.

Definition set_kind (v : inode) (k : kind) : inode := mkInode k (i_mode v) (i_uid v) (i_gid v) (i_xattrs v).
Definition set_ents (v : inode) (ents : list (name * N)) : inode :=
  match i_kind v with KDir _ par dead => set_kind v (KDir ents par dead) | _ => v end.
Definition set_parent (v : inode) (par : N) : inode :=
  match i_kind v with KDir ents _ dead => set_kind v (KDir ents par dead) | _ => v end.
Definition kill_dir (v : inode) : inode :=
  match i_kind v with KDir ents par _ => set_kind v (KDir ents par true) | _ => v end.
Definition ents_of (v : inode) : list (name * N) :=
  match i_kind v with KDir ents _ _ => ents | _ => [] end.
Definition dir_empty (v : inode) : bool := match ents_of v with [] => true | _ => false end.

(* front of unlinkat/renameat2: the directory and the existing entry *)
Definition remove_check (c : creds) (h : host) (d : N) (n : name) (dots : N) : res (inode * N) :=
  if len n =? 0 then Err ENOENT
  else if has_slash n then Err EMULTI
  else match get h d with
  | None => Err EBADF
  | Some dv =>
    match i_kind dv with
    | KDir ents par dead =>
        if negb (may c dv MAY_X) then Err EACCES
        else if is_dot n || is_dotdot n then Err dots
        (* a removed directory answers ENOENT before the file system looks at the name (its length included) *)
        else if dead then Err ENOENT
        else if NAME_MAX <? len n then Err ENAMETOOLONG
        else match ent_find n ents with
             | None => Err ENOENT
             | Some i => if may c dv MAY_W then Ok (dv, i) else Err EACCES
             end
    | _ => Err ENOTDIR
    end
  end.

Definition AT_REMOVEDIR := 512.
Definition sys_unlinkat (c : creds) (h : host) (d : N) (n : name) (flags : N) : res unit * host :=
  if has flags AT_REMOVEDIR then
    match remove_check c h d n (if is_dot n then EINVAL else ENOTEMPTY) with
    | Err e => (Err e, h)
    | Ok (dv, i) =>
        match get h i with
        | None => (Err ENOENT, h)
        | Some v =>
            if negb (is_dir_kind (i_kind v)) then (Err ENOTDIR, h)
            else if negb (dir_empty v) then (Err ENOTEMPTY, h)
            else (Ok tt, set (set h d (set_ents dv (ent_del n (ents_of dv)))) i (kill_dir v))
        end
    end
  else
    match remove_check c h d n EISDIR with
    | Err e => (Err e, h)
    | Ok (dv, i) =>
        match get h i with
        | None => (Err ENOENT, h)
        | Some v =>
            if is_dir_kind (i_kind v) then (Err EISDIR, h)
            else (Ok tt, set h d (set_ents dv (ent_del n (ents_of dv))))
        end
    end.

(* is [a] an ancestor-or-self of directory [b]?  (walk ".." from b; fuel bounds the depth) *)
Fixpoint ancestor_or_self (fuel : nat) (h : host) (a b : N) : bool :=
  if a =? b then true
  else match fuel with
  | O => false
  | S f => match get h b with
           | Some v => match i_kind v with
                       | KDir _ par _ => if par =? b then false else ancestor_or_self f h a par
                       | _ => false
                       end
           | None => false
           end
  end.

Definition RENAME_NOREPLACE := 1. Definition RENAME_EXCHANGE := 2. Definition RENAME_WHITEOUT := 4.

Definition sys_renameat2 (c : creds) (h : host) (od : N) (on : name) (nd : N) (nn : name) (flags : N)
  : res unit * host :=
  if 7 <? flags then (Err EINVAL, h)
  else if has flags RENAME_EXCHANGE && (has flags RENAME_NOREPLACE || has flags RENAME_WHITEOUT) then (Err EINVAL, h)
  else if has flags RENAME_WHITEOUT then (Err EUNMODELLED, h)
  else if (len on =? 0) || (len nn =? 0) then (Err ENOENT, h)
  else if has_slash on || has_slash nn then (Err EMULTI, h)
  else
  (* both parents are resolved before either name is looked up *)
  match get h od, get h nd with
  | Some odv, Some ndv =>
    match i_kind odv, i_kind ndv with
    | KDir oents opar odead, KDir nents npar ndead =>
      if negb (may c odv MAY_X) || negb (may c ndv MAY_X) then (Err EACCES, h)
      else if is_dot on || is_dotdot on then (Err EBUSY, h)
      else if is_dot nn || is_dotdot nn then (Err (if has flags RENAME_NOREPLACE then EEXIST else EBUSY), h)
      else if odead then (Err ENOENT, h)
      else if NAME_MAX <? len on then (Err ENAMETOOLONG, h)
      else match (if odead then None else ent_find on oents) with
      | None => (Err ENOENT, h)
      | Some src =>
        if ndead then (Err ENOENT, h)
        else if NAME_MAX <? len nn then (Err ENAMETOOLONG, h)
        else match get h src with
        | None => (Err ENOENT, h)
        | Some sv =>
        let tgt := if ndead then None else ent_find nn nents in
        let fuel := List.length (h_nodes h) in
        let src_is_dir := is_dir_kind (i_kind sv) in
        match tgt with
        | Some t =>
          if has flags RENAME_NOREPLACE then (Err EEXIST, h)
          else if src_is_dir && ancestor_or_self fuel h src nd then (Err EINVAL, h)
          else if is_dir h t && ancestor_or_self fuel h t od
               then (Err (if has flags RENAME_EXCHANGE then EINVAL else ENOTEMPTY), h)
          else if src =? t then (Ok tt, h)
          else if negb (may c odv MAY_W) || negb (may c ndv MAY_W) then (Err EACCES, h)
          else if has flags RENAME_EXCHANGE then
            (* swap the two entries; directories get their new parents *)
            let h1 := upd h od (fun x => set_ents x (ent_set on t (ents_of x))) in
            let h2 := upd h1 nd (fun x => set_ents x (ent_set nn src (ents_of x))) in
            let h3 := upd h2 src (fun x => set_parent x nd) in
            let h4 := upd h3 t (fun x => set_parent x od) in
            (Ok tt, h4)
          else
            match get h t with
            | None => (Err ENOENT, h)
            | Some tv =>
              if src_is_dir && negb (is_dir_kind (i_kind tv)) then (Err ENOTDIR, h)
              else if negb src_is_dir && is_dir_kind (i_kind tv) then (Err EISDIR, h)
              else if src_is_dir && negb (dir_empty tv) then (Err ENOTEMPTY, h)
              else
                let h1 := upd h od (fun x => set_ents x (ent_del on (ents_of x))) in
                let h2 := upd h1 nd (fun x => set_ents x (ent_set nn src (ents_of x))) in
                let h3 := upd h2 src (fun x => set_parent x nd) in
                let h4 := if is_dir_kind (i_kind tv) then upd h3 t kill_dir else h3 in
                (Ok tt, h4)
            end
        | None =>
          if has flags RENAME_EXCHANGE then (Err ENOENT, h)
          else if src_is_dir && ancestor_or_self fuel h src nd then (Err EINVAL, h)
          else if ndead then (Err ENOENT, h)
          else if negb (may c odv MAY_W) || negb (may c ndv MAY_W) then (Err EACCES, h)
          else
            let h1 := upd h od (fun x => set_ents x (ent_del on (ents_of x))) in
            let h2 := upd h1 nd (fun x => set_ents x (ents_of x ++ [(nn, src)])) in
            let h3 := upd h2 src (fun x => set_parent x nd) in
            (Ok tt, h3)
        end
        end
      end
    | _, _ => (Err ENOTDIR, h)
    end
  | _, _ => (Err EBADF, h)
  end.

(* fchmod / fchmodat through the magic link: the inode itself *)
Definition sys_chmod (c : creds) (h : host) (i : N) (mode : N) : res unit * host :=
  match get h i with
  | None => (Err EBADF, h)
  | Some v =>
    match i_kind v with
    | KLnk _ => (Err EOPNOTSUPP, h)
    | _ =>
      if negb (euid c =? 0) && negb (euid c =? i_uid v) then (Err EPERM, h)
      else
        let m := N.land mode PERM_MASK in
        let m := if negb (fsetid c) && negb (egid c =? i_gid v) then clear m S_ISGID else m in
        (Ok tt, set h i (mkInode (i_kind v) m (i_uid v) (i_gid v) (i_xattrs v)))
    end
  end.

(* fchownat(fd, "", uid, gid, AT_EMPTY_PATH|AT_SYMLINK_NOFOLLOW); 2^32-1 = leave unchanged *)
Definition NOCHANGE := 4294967295.
Definition sys_chown (c : creds) (h : host) (i : N) (uid gid : N) : res unit * host :=
  match get h i with
  | None => (Err EBADF, h)
  | Some v =>
      if negb (euid c =? 0) then (Err EPERM, h)
      else
        let m := if is_dir_kind (i_kind v) then i_mode v
                 else let m1 := clear (i_mode v) S_ISUID in
                      if has (i_mode v) S_ISGID && (has (i_mode v) S_IXGRP || negb (fsetid c)) then clear m1 S_ISGID else m1 in
        (Ok tt, set h i (mkInode (i_kind v) m (if uid =? NOCHANGE then i_uid v else uid)
                                 (if gid =? NOCHANGE then i_gid v else gid) (i_xattrs v)))
  end.

Fixpoint zeros (n : nat) : list N := match n with O => [] | S k => 0 :: zeros k end.
Definition resize (d : list N) (n : N) : list N :=
  let k := N.to_nat n in firstn k d ++ zeros (k - List.length d).
Definition splice (d : list N) (off : N) (w : list N) : list N :=
  let o := N.to_nat off in
  let pre := firstn o d ++ zeros (o - List.length d) in
  pre ++ w ++ skipn (o + List.length w) d.

(* ftruncate on a descriptor open for writing (the caller checks the access mode of the descriptor) *)
Definition sys_ftruncate (c : creds) (h : host) (i : N) (size : N) : res unit * host :=
  match get h i with
  | None => (Err EBADF, h)
  | Some v =>
    match i_kind v with
    | KReg d => (Ok tt, set h i (drop_priv_on_write c (set_kind v (KReg (resize d size)))))
    | _ => (Err EINVAL, h)
    end
  end.

Definition sys_pread (h : host) (i : N) (size off : N) : res (list N) :=
  match get h i with
  | None => Err EBADF
  | Some v =>
    match i_kind v with
    | KReg d => Ok (firstn (N.to_nat size) (skipn (N.to_nat off) d))
    | KDir _ _ _ => Err EISDIR
    | _ => Err EINVAL
    end
  end.

(* pwrite on a descriptor open for writing; with O_APPEND Linux appends whatever the offset *)
Definition sys_pwrite (c : creds) (h : host) (i : N) (append : bool) (off : N) (w : list N) : res N * host :=
  match get h i with
  | None => (Err EBADF, h)
  | Some v =>
    match i_kind v with
    | KReg d =>
        if len w =? 0 then (Ok 0, h)
        else let o := if append then len d else off in
             (Ok (len w), set h i (drop_priv_on_write c (set_kind v (KReg (splice d o w)))))
    | _ => (Err EBADF, h)
    end
  end.

Definition FALLOC_FL_KEEP_SIZE := 1. Definition FALLOC_FL_PUNCH_HOLE := 2. Definition FALLOC_FL_ZERO_RANGE := 16.
Definition zero_range (d : list N) (off l : N) : list N :=
  let o := N.to_nat off in let n := N.to_nat l in
  firstn o d ++ zeros (Nat.min n (List.length d - o)) ++ skipn (o + n) d.
Definition sys_fallocate (c : creds) (h : host) (i : N) (mode off l : N) : res unit * host :=
  match get h i with
  | None => (Err EBADF, h)
  | Some v =>
    match i_kind v with
    | KReg d =>
        if l =? 0 then (Err EINVAL, h)
        else if mode =? 0 then
          (Ok tt, set h i (set_kind v (KReg (if len d <? off + l then resize d (off + l) else d))))
        else if mode =? FALLOC_FL_KEEP_SIZE then (Ok tt, h)
        else if mode =? FALLOC_FL_PUNCH_HOLE + FALLOC_FL_KEEP_SIZE then
          (Ok tt, set h i (set_kind v (KReg (zero_range d off l))))
        else if mode =? FALLOC_FL_ZERO_RANGE then
          let d1 := if len d <? off + l then resize d (off + l) else d in
          (Ok tt, set h i (set_kind v (KReg (zero_range d1 off l))))
        else if mode =? FALLOC_FL_ZERO_RANGE + FALLOC_FL_KEEP_SIZE then
          (Ok tt, set h i (set_kind v (KReg (zero_range d off l))))
        else if mode =? FALLOC_FL_PUNCH_HOLE then (Err EOPNOTSUPP, h)
        else (Err EUNMODELLED, h)
    | KDir _ _ _ => (Err EBADF, h)
    | _ => (Err EBADF, h)
    end
  end.

(* futimens / utimensat(…, 0) through the magic link: the inode itself; UTIME_OMIT leaves a field alone *)
Definition tv_apply (spec old : tv) : tv := match spec with TKeep => old | _ => spec end.
Definition utimes_of (h : host) (i : N) : tv * tv :=
  match assoc i (h_utimes h) with Some p => p | None => (TKeep, TKeep) end.
Definition sys_utimens (h : host) (i : N) (a m : tv) : res unit * host :=
  match get h i with
  | None => (Err EBADF, h)
  | Some _ => (Ok tt, mkHost (h_nodes h) (h_next h)
                             (assoc_set i (tv_apply a (fst (utimes_of h i)), tv_apply m (snd (utimes_of h i))) (h_utimes h)))
  end.

Definition sys_readlink (h : host) (i : N) : res (list N) :=
  match get h i with
  | None => Err EBADF
  | Some v => match i_kind v with KLnk t => Ok t | _ => Err ENOENT end
  end.

(* ---- user.* extended attributes (the calls go through the /proc/self/fd path: the inode itself) *)
Definition user_prefix : name := [117; 115; 101; 114; 46].    (* "user." *)
Fixpoint is_prefix (p l : name) : bool :=
  match p with
  | [] => true
  | x :: p' => match l with [] => false | y :: l' => (x =? y) && is_prefix p' l' end
  end.
Inductive xname_class := XUser | XEmpty | XBadNs | XNoSuffix | XTooLong | XOther.
Definition known_ns : list name :=
  [ [116;114;117;115;116;101;100;46]; [115;101;99;117;114;105;116;121;46]; [115;121;115;116;101;109;46] ].
Definition classify_xname (n : name) : xname_class :=
  if len n =? 0 then XEmpty
  else if 255 <? len n then XTooLong
  else if is_prefix user_prefix n then (if len n =? 5 then XNoSuffix else XUser)
  else if existsb (fun p => is_prefix p n) known_ns then XOther
  else XBadNs.

Fixpoint xfind (n : name) (l : list (name * list N)) : option (list N) :=
  match l with [] => None | (n', v) :: r => if name_eqb n' n then Some v else xfind n r end.
Fixpoint xdel (n : name) (l : list (name * list N)) : list (name * list N) :=
  match l with [] => [] | (n', v) :: r => if name_eqb n' n then r else (n', v) :: xdel n r end.
Fixpoint xins (n : name) (v : list N) (l : list (name * list N)) : list (name * list N) :=
  match l with
  | [] => [(n, v)]
  | (n', v') :: r => if name_eqb n' n then (n, v) :: r
                     else if name_leb n n' then (n, v) :: (n', v') :: r else (n', v') :: xins n v r
  end.
Definition xattr_ok_kind (k : kind) : bool := match k with KReg _ | KDir _ _ _ => true | _ => false end.
Definition XATTR_CREATE := 1. Definition XATTR_REPLACE := 2.

Definition sys_setxattr (c : creds) (h : host) (i : N) (n : name) (v : list N) (flags : N) : res unit * host :=
  match get h i with
  | None => (Err EBADF, h)
  | Some iv =>
    if 3 <? flags then (Err EINVAL, h)
    else match classify_xname n with
    | XEmpty | XTooLong => (Err ERANGE, h)
    | XBadNs => (Err EOPNOTSUPP, h)
    | XOther => (Err EUNMODELLED, h)
    | XUser | XNoSuffix =>
        if negb (xattr_ok_kind (i_kind iv)) then (Err EPERM, h)
        else if negb (may c iv MAY_W) then (Err EACCES, h)
        else if len n =? 5 then (Err EINVAL, h)
        else match xfind n (i_xattrs iv) with
        | Some _ => if has flags XATTR_CREATE then (Err EEXIST, h)
                    else (Ok tt, set h i (mkInode (i_kind iv) (i_mode iv) (i_uid iv) (i_gid iv) (xins n v (i_xattrs iv))))
        | None => if has flags XATTR_REPLACE then (Err ENODATA, h)
                  else (Ok tt, set h i (mkInode (i_kind iv) (i_mode iv) (i_uid iv) (i_gid iv) (xins n v (i_xattrs iv))))
        end
    end
  end.

Definition sys_getxattr (c : creds) (h : host) (i : N) (n : name) (size : N) : res (list N + N) :=
  match get h i with
  | None => Err EBADF
  | Some iv =>
    match classify_xname n with
    | XEmpty | XTooLong => Err ERANGE
    | XBadNs => Err EOPNOTSUPP
    | XOther => Err EUNMODELLED
    | XUser | XNoSuffix =>
        if negb (xattr_ok_kind (i_kind iv)) then Err ENODATA
        else if negb (may c iv MAY_R) then Err EACCES
        else if len n =? 5 then Err EINVAL
        else match xfind n (i_xattrs iv) with
        | None => Err ENODATA
        | Some v => if size =? 0 then Ok (inr (len v))
                    else if size <? len v then Err ERANGE else Ok (inl v)
        end
    end
  end.

Definition xlist_bytes (l : list (name * list N)) : list N := flat_map (fun p => fst p ++ [0]) l.
Definition sys_listxattr (h : host) (i : N) (size : N) : res (list N + N) :=
  match get h i with
  | None => Err EBADF
  | Some iv =>
      let b := xlist_bytes (i_xattrs iv) in
      if size =? 0 then Ok (inr (len b))
      else if size <? len b then Err ERANGE else Ok (inl b)
  end.

Definition sys_removexattr (c : creds) (h : host) (i : N) (n : name) : res unit * host :=
  match get h i with
  | None => (Err EBADF, h)
  | Some iv =>
    match classify_xname n with
    | XEmpty | XTooLong => (Err ERANGE, h)
    | XBadNs => (Err EOPNOTSUPP, h)
    | XOther => (Err EUNMODELLED, h)
    | XUser | XNoSuffix =>
        if negb (xattr_ok_kind (i_kind iv)) then (Err EPERM, h)
        else if negb (may c iv MAY_W) then (Err EACCES, h)
        else if len n =? 5 then (Err EINVAL, h)
        else match xfind n (i_xattrs iv) with
        | None => (Err ENODATA, h)
        | Some _ => (Ok tt, set h i (mkInode (i_kind iv) (i_mode iv) (i_uid iv) (i_gid iv) (xdel n (i_xattrs iv))))
        end
    end
  end.

(* ---- credentials: raw setresgid/setresuid(-1, id, -1) and capability drop/raise of the thread.
   Real and saved ids stay 0, so switching back is always allowed; leaving euid 0 clears the effective
   capability set, returning to euid 0 restores it from the permitted set. *)
Definition sys_setresgid (c : creds) (g : N) : res creds :=
  if (euid c =? 0) || (g =? 0) then Ok (mkCreds (euid c) g (fsetid c)) else Err EPERM.
Definition sys_setresuid (c : creds) (u : N) : res creds :=
  if (euid c =? 0) || (u =? 0)
  then Ok (mkCreds u (egid c) (if u =? 0 then (if euid c =? 0 then fsetid c else true) else false))
  else Err EPERM.
Definition cap_drop_fsetid (c : creds) : creds := mkCreds (euid c) (egid c) false.
Definition cap_raise_fsetid (c : creds) : creds := mkCreds (euid c) (egid c) (if euid c =? 0 then true else fsetid c).
